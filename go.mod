module verif

go 1.23

require (
	github.com/traefik/yaegi v0.0.0
	pgregory.net/rapid v1.3.0
)

replace github.com/traefik/yaegi => /repo
