module verif

go 1.23

require (
	github.com/traefik/yaegi v0.0.0
	pgregory.net/rapid v1.3.0
)

require (
	golang.org/x/mod v0.22.0 // indirect
	golang.org/x/sync v0.10.0 // indirect
	golang.org/x/tools v0.29.0
)

replace github.com/traefik/yaegi => /repo
