package c14

import (
	"fmt"
	"os"
	"path/filepath"
	"regexp"
	"sort"
	"strconv"
	"strings"
)

// apiRef is one `pkg P[ (ctx)], kind Name ...` line of GOROOT/api/go1.N.txt.
type apiRef struct {
	Rel     int    // N of go1.N.txt (go1.txt = 0)
	Ctx     string // "" or "linux-386", "linux-386-cgo", ...
	Kind    string // func, var, const, type
	Generic bool
}

// apiDB indexes the API files.
type apiDB struct {
	// pkg -> name -> refs
	names map[string]map[string][]apiRef
	// pkg -> interface -> method -> first release that lists it
	methods map[string]map[string]map[string]int
	// contexts (without -cgo suffix) seen in files, with first release
	contexts map[string]int
	maxRel   int
	excepted int
}

var apiLineRE = regexp.MustCompile(`^pkg ([^ ,]+)(?: \(([^)]+)\))?, (func|var|const|type|method) (.*)$`)

func identPrefix(s string) string {
	for i, r := range s {
		if !(r == '_' || r >= 'a' && r <= 'z' || r >= 'A' && r <= 'Z' || r >= '0' && r <= '9' || r >= 0x80) {
			return s[:i]
		}
	}
	return s
}

func stripApproval(line string) string {
	line = strings.TrimSpace(line)
	if i := strings.Index(line, " #"); i >= 0 {
		if _, err := strconv.Atoi(strings.TrimSpace(line[i+2:])); err == nil {
			line = strings.TrimSpace(line[:i])
		}
	}
	return line
}

// loadAPI reads go1.txt, go1.1.txt ... and except.txt from dir.
func loadAPI(dir string) (*apiDB, error) {
	db := &apiDB{names: map[string]map[string][]apiRef{}, methods: map[string]map[string]map[string]int{}, contexts: map[string]int{}}
	except := map[string]bool{}
	if b, err := os.ReadFile(filepath.Join(dir, "except.txt")); err == nil {
		for _, l := range strings.Split(string(b), "\n") {
			l = stripApproval(l)
			if l != "" && !strings.HasPrefix(l, "#") {
				except[l] = true
			}
		}
	} else {
		return nil, fmt.Errorf("api: %w", err)
	}
	files, _ := filepath.Glob(filepath.Join(dir, "go1*.txt"))
	if len(files) == 0 {
		return nil, fmt.Errorf("api: no go1*.txt in %s", dir)
	}
	type relFile struct {
		rel  int
		path string
	}
	var rfs []relFile
	for _, f := range files {
		base := strings.TrimSuffix(filepath.Base(f), ".txt")
		rel := 0
		if base != "go1" {
			n, err := strconv.Atoi(strings.TrimPrefix(base, "go1."))
			if err != nil {
				continue
			}
			rel = n
		}
		rfs = append(rfs, relFile{rel, f})
	}
	sort.Slice(rfs, func(i, j int) bool { return rfs[i].rel < rfs[j].rel })
	for _, rf := range rfs {
		if rf.rel > db.maxRel {
			db.maxRel = rf.rel
		}
		b, err := os.ReadFile(rf.path)
		if err != nil {
			return nil, err
		}
		for _, raw := range strings.Split(string(b), "\n") {
			line := stripApproval(raw)
			if line == "" || strings.HasPrefix(line, "#") {
				continue
			}
			if except[line] {
				db.excepted++
				continue
			}
			m := apiLineRE.FindStringSubmatch(line)
			if m == nil {
				continue
			}
			pkg, ctx, kind, rest := m[1], m[2], m[3], m[4]
			if ctx != "" {
				c := strings.TrimSuffix(ctx, "-cgo")
				if _, ok := db.contexts[c]; !ok {
					db.contexts[c] = rf.rel
				}
			}
			if kind == "method" {
				continue
			}
			name := identPrefix(rest)
			if name == "" {
				continue
			}
			after := rest[len(name):]
			generic := strings.HasPrefix(after, "[")
			if kind == "type" {
				// "type I interface, M(...) ..." lists one interface method
				if strings.HasPrefix(after, " interface, ") {
					mname := identPrefix(strings.TrimPrefix(after, " interface, "))
					if mname != "" && mname != "unexported" {
						pm := db.methods[pkg]
						if pm == nil {
							pm = map[string]map[string]int{}
							db.methods[pkg] = pm
						}
						im := pm[name]
						if im == nil {
							im = map[string]int{}
							pm[name] = im
						}
						if _, ok := im[mname]; !ok {
							im[mname] = rf.rel
						}
					}
				}
			}
			pn := db.names[pkg]
			if pn == nil {
				pn = map[string][]apiRef{}
				db.names[pkg] = pn
			}
			// keep one ref per (rel, ctx, kind)
			dup := false
			for _, r := range pn[name] {
				if r.Rel == rf.rel && r.Ctx == ctx && r.Kind == kind {
					dup = true
					break
				}
			}
			if !dup {
				pn[name] = append(pn[name], apiRef{Rel: rf.rel, Ctx: ctx, Kind: kind, Generic: generic})
			}
		}
	}
	return db, nil
}

// tracked reports whether the API files up to release rel carry
// context-qualified lines for goos-goarch.
func (db *apiDB) tracked(goos, goarch string, rel int) bool {
	r, ok := db.contexts[goos+"-"+goarch]
	return ok && r <= rel
}

// demanded lists the names of package pkg that the API files up to release
// rel declare. If ctx is "" every context-qualified line counts (used for the
// platform-independent tables, guarded by existence on the host); otherwise
// only unqualified lines and lines qualified with ctx or ctx-cgo count.
func (db *apiDB) demanded(pkg string, rel int, ctx string) []string {
	var out []string
	for name, refs := range db.names[pkg] {
		ok := false
		for _, r := range refs {
			if r.Rel > rel || r.Generic {
				continue
			}
			if r.Ctx == "" || ctx == "" || r.Ctx == ctx || r.Ctx == ctx+"-cgo" {
				ok = true
				break
			}
		}
		if ok {
			out = append(out, name)
		}
	}
	sort.Strings(out)
	return out
}

// listed reports whether any API file (any release, any context) names pkg.name.
func (db *apiDB) listed(pkg, name string) bool {
	return len(db.names[pkg][name]) > 0
}

// newerMethod reports whether method m of interface pkg.iface is first
// listed in an API file newer than rel.
func (db *apiDB) newerMethod(pkg, iface, m string, rel int) bool {
	r, ok := db.methods[pkg][iface][m]
	return ok && r > rel
}
