// Package c14 holds the check of property C14.
package c14
