package c14

import (
	"fmt"
	"go/ast"
	"go/constant"
	"go/token"
	"go/types"
	"math/big"
	"path"
	"path/filepath"
	"sort"
	"strconv"
	"strings"
)

// problem is one violation of the property found in a file.
type problem struct {
	File  string `json:"file"`  // path relative to the stdlib directory
	Table string `json:"table"` // Symbols key, "" for wrapper/statement problems
	Name  string `json:"name"`  // map key / wrapper name / wrapper.method
	Sig   string `json:"sig"`   // problem kind
	Msg   string `json:"msg"`
}

func (p problem) signature() string {
	t := p.Table
	if t != "" {
		t = path.Dir(t) + "."
	}
	return p.Sig + ":" + t + p.Name
}

// harnessErr marks trouble of the oracle itself (never a violation).
type harnessErr struct{ msg string }

func (h harnessErr) Error() string { return h.msg }

// restricted replacements documented in extract/extract.go (`restricted`)
// and implemented in stdlib/restricted.go: table path -> key -> local name.
var restrictedFuncs = map[string]map[string]string{
	"os":  {"Exit": "osExit", "FindProcess": "osFindProcess"},
	"log": {"Fatal": "logFatal", "Fatalf": "logFatalf", "Fatalln": "logFatalln", "New": "logNew", "Default": "logDefault"},
}
var restrictedTypes = map[string]map[string]string{
	"log": {"Logger": "logLogger"},
}

// stats collects evidence while checking.
type stats struct {
	bindings   int
	forms      map[string]int
	skipped    map[string]int
	nontrivial []string
	samples    []any
	undecided  []string
	collect    bool
}

func newStats(collect bool) *stats {
	return &stats{forms: map[string]int{}, skipped: map[string]int{}, collect: collect}
}

func (s *stats) form(f string) {
	s.forms[f]++
}

func (s *stats) nt(key string) {
	if s.collect {
		s.nontrivial = append(s.nontrivial, key)
	}
}

func (s *stats) sample(v any) {
	if s.collect && len(s.samples) < 3 {
		s.samples = append(s.samples, v)
	}
}

// localName of an import spec given the loaded packages.
func importLocalName(is *ast.ImportSpec, w *world) (local, ipath string) {
	ipath, _ = strconv.Unquote(is.Path.Value)
	if is.Name != nil {
		return is.Name.Name, ipath
	}
	if p := w.pkgs[ipath]; p != nil {
		return p.Name(), ipath
	}
	base := path.Base(ipath)
	if len(base) >= 2 && base[0] == 'v' && strings.Trim(base[1:], "0123456789") == "" && strings.Contains(ipath, "/") {
		base = path.Base(path.Dir(ipath))
	}
	return base, ipath
}

func (f *bfile) resolveQual(q string, w *world) (string, bool) {
	for _, is := range f.Imports {
		if l, p := importLocalName(is, w); l == q {
			return p, true
		}
	}
	return "", false
}

// fixConstText renders an untyped floating-point constant the way
// extract.fixConst does.
func fixConstText(val constant.Value) (string, bool) {
	if val.Kind() != constant.Float {
		return "", false
	}
	v := constant.Val(val)
	var f *big.Float
	switch x := v.(type) {
	case *big.Float:
		f = x
	case *big.Rat:
		f = new(big.Float).SetRat(x)
	default:
		return "", false
	}
	return f.Text('g', int(f.Prec())), true
}

var litTokens = map[string]token.Token{"INT": token.INT, "FLOAT": token.FLOAT, "IMAG": token.IMAG, "CHAR": token.CHAR, "STRING": token.STRING}

func numeric(k constant.Kind) bool {
	return k == constant.Int || k == constant.Float || k == constant.Complex
}

// literalDenotes decides whether the literal of a MakeFromLiteral binding is
// the value of constant c.
func literalDenotes(e *entry, c *types.Const) (bool, string) {
	tok, ok := litTokens[e.Tok]
	if !ok {
		return false, "token." + e.Tok + " is not a literal token"
	}
	vl := constant.MakeFromLiteral(e.Lit, tok, 0)
	if vl.Kind() == constant.Unknown {
		return false, fmt.Sprintf("%q is not a valid %s literal", e.Lit, e.Tok)
	}
	vp := c.Val()
	switch {
	case vp.Kind() == constant.Unknown:
		return false, "package constant has unknown value"
	case vp.Kind() == constant.Float:
		if want, ok := fixConstText(vp); ok && want == e.Lit && tok == token.FLOAT {
			return true, ""
		}
		if numeric(vl.Kind()) && constant.Compare(vl, token.EQL, vp) {
			return true, ""
		}
		want, _ := fixConstText(vp)
		return false, fmt.Sprintf("literal %s differs from the package's value %s (extract would print %s)", clip(e.Lit), clip(vp.ExactString()), clip(want))
	case numeric(vp.Kind()) && numeric(vl.Kind()), vp.Kind() == vl.Kind():
		if constant.Compare(vl, token.EQL, vp) {
			return true, ""
		}
		return false, fmt.Sprintf("literal %s differs from the package's value %s", clip(e.Lit), clip(vp.ExactString()))
	}
	return false, fmt.Sprintf("literal %s (%s) has another kind than the package's value %s", clip(e.Lit), e.Tok, clip(vp.ExactString()))
}

func clip(s string) string {
	if len(s) > 80 {
		return s[:60] + "…" + s[len(s)-12:]
	}
	return s
}

func isGenericObj(o types.Object) bool {
	switch o := o.(type) {
	case *types.Func:
		s := o.Type().(*types.Signature)
		return s.TypeParams().Len() > 0 || s.RecvTypeParams().Len() > 0
	case *types.TypeName:
		switch t := o.Type().(type) {
		case *types.Named:
			return t.TypeParams().Len() > 0
		case *types.Alias:
			return t.TypeParams().Len() > 0
		}
	}
	return false
}

// isConstraintIface: interfaces extract skips ("used to implement constraints for generics").
func isConstraintIface(o types.Object) bool {
	tn, ok := o.(*types.TypeName)
	if !ok {
		return false
	}
	it, ok := tn.Type().Underlying().(*types.Interface)
	return ok && it.NumMethods() == 0 && it.NumEmbeddeds() != 0
}

func objKind(o types.Object) string {
	switch o.(type) {
	case *types.Func:
		return "func"
	case *types.Var:
		return "var"
	case *types.Const:
		return "const"
	case *types.TypeName:
		return "type"
	case *types.Builtin:
		return "builtin"
	}
	return fmt.Sprintf("%T", o)
}

func isSelfTable(t *table) bool {
	return t.Key == "." || strings.HasPrefix(t.Key, yaegiSelfPrefx)
}

// checkTable checks shape and denotation of every entry of t.
func checkTable(f *bfile, t *table, w *world, st *stats) ([]problem, error) {
	var out []problem
	add := func(e *entry, sig, format string, a ...any) {
		name := t.Key
		if e != nil {
			name = e.Key
		}
		if f.Unpinned && (sig == "no-such-object" || sig == "kind-mismatch" || sig == "const-value") {
			// The installed GOROOT is newer than the release the file targets
			// and the API files do not track this port: neither the existence
			// nor the value of its objects is pinned by the compatibility
			// promise, so a difference cannot be decided with this oracle.
			st.skipped["undecidable-untracked-port-vs-newer-goroot"]++
			if len(st.undecided) < 40 {
				st.undecided = append(st.undecided, fmt.Sprintf("%s %s: %s", f.Rel, name, fmt.Sprintf(format, a...)))
			}
			return
		}
		out = append(out, problem{File: f.Rel, Table: t.Key, Name: name, Sig: sig, Msg: fmt.Sprintf(format, a...)})
	}
	if isSelfTable(t) {
		st.forms["yaegi-self-description"] += len(t.Entries)
		return nil, nil
	}
	if msg, bad := w.errs[t.Path]; bad {
		return nil, harnessErr{fmt.Sprintf("package %s did not load for %s/%s: %s", t.Path, w.goos, w.goarch, msg)}
	}
	pkg := w.pkgs[t.Path]
	if pkg == nil {
		return nil, harnessErr{fmt.Sprintf("package %s (table %q of %s) not loaded for %s/%s", t.Path, t.Key, f.Rel, w.goos, w.goarch)}
	}
	if pkg.Name() != t.Name {
		add(nil, "table-key", "table key %q: package %s is named %s", t.Key, t.Path, pkg.Name())
	}
	seen := map[string]bool{}
	for _, e := range t.Entries {
		st.bindings++
		if seen[e.Key] && !t.Indexed {
			add(e, "shape", "key %q bound twice", e.Key)
		}
		seen[e.Key] = true
		wrapperKey := strings.HasPrefix(e.Key, "_") && token.IsExported(e.Key[1:]) && token.IsIdentifier(e.Key[1:])
		if !wrapperKey && !(token.IsIdentifier(e.Key) && token.IsExported(e.Key)) {
			add(e, "shape", "key %q is not an exported identifier", e.Key)
			continue
		}
		if f.Dir == dirUnsafe && t.Path == "unsafe" && t.Indexed && (e.Form == formLocal || e.Form == formOther) {
			// hand-written shims for the builtins of package unsafe, which
			// cannot be bound as values: only the name is checked
			if _, ok := pkg.Scope().Lookup(e.Key).(*types.Builtin); ok {
				st.form("unsafe-builtin-shim")
				st.nt(f.Rel + "|" + t.Key + "|" + e.Key)
				continue
			}
		}
		if e.Form == formBad || e.Form == formOther {
			add(e, "shape", "%s", e.Bad)
			continue
		}
		if p, ok := f.resolveQual(e.RQual, w); !ok || p != "reflect" {
			add(e, "shape", "%s.ValueOf: %s is not the reflect package", e.RQual, e.RQual)
			continue
		}
		if wrapperKey {
			// "_I": reflect.ValueOf((*_pkg_I)(nil))
			want := wrapperPrefix(t.Path) + e.Key[1:]
			if e.Form != formLocalType {
				add(e, "shape", "wrapper key %q is not bound to (*%s)(nil)", e.Key, want)
				continue
			}
			if e.Sel != want {
				add(e, "name-mismatch", "wrapper key %q is bound to %s, want %s", e.Key, e.Sel, want)
				continue
			}
			st.form("wrapper-entry")
			st.nt(f.Rel + "|" + t.Key + "|" + e.Key)
			continue
		}
		obj := pkg.Scope().Lookup(e.Key)
		switch e.Form {
		case formPlain, formAddr, formType:
			p, ok := f.resolveQual(e.Qual, w)
			if !ok {
				add(e, "wrong-package", "%s.%s: %s is not an imported package", e.Qual, e.Sel, e.Qual)
				continue
			}
			if p != t.Path {
				add(e, "wrong-package", "key %q of table %q is bound to %s.%s of package %q", e.Key, t.Key, e.Qual, e.Sel, p)
				continue
			}
			if e.Sel != e.Key {
				add(e, "name-mismatch", "key %q is bound to %s.%s", e.Key, e.Qual, e.Sel)
				continue
			}
			if obj == nil {
				add(e, "no-such-object", "%s.%s does not exist in the installed GOROOT (%s/%s)", t.Path, e.Key, w.goos, w.goarch)
				continue
			}
			k := objKind(obj)
			switch e.Form {
			case formPlain:
				if k != "func" && k != "const" {
					add(e, "kind-mismatch", "%s.%s is a %s but is bound by plain value", t.Path, e.Key, k)
					continue
				}
				if isGenericObj(obj) {
					add(e, "kind-mismatch", "%s.%s is generic", t.Path, e.Key)
					continue
				}
				if k == "func" {
					st.form("func")
				} else {
					st.form("const-plain")
					st.nt(f.Rel + "|" + t.Key + "|" + e.Key)
				}
			case formAddr:
				if k != "var" {
					add(e, "kind-mismatch", "%s.%s is a %s but is bound by address", t.Path, e.Key, k)
					continue
				}
				st.form("var-addr")
				st.nt(f.Rel + "|" + t.Key + "|" + e.Key)
			case formType:
				if k != "type" {
					add(e, "kind-mismatch", "%s.%s is a %s but is bound as a type", t.Path, e.Key, k)
					continue
				}
				if isGenericObj(obj) {
					add(e, "kind-mismatch", "%s.%s is a generic type", t.Path, e.Key)
					continue
				}
				st.form("type")
			}
			st.sample(map[string]string{"file": f.Rel, "table": t.Key, "key": e.Key, "form": e.Form})
		case formLit:
			if p, ok := f.resolveQual(e.CQual, w); !ok || p != "go/constant" {
				add(e, "shape", "%s.MakeFromLiteral: %s is not go/constant", e.CQual, e.CQual)
				continue
			}
			if p, ok := f.resolveQual(e.TQual, w); !ok || p != "go/token" {
				add(e, "shape", "%s.%s: %s is not go/token", e.TQual, e.Tok, e.TQual)
				continue
			}
			if obj == nil {
				add(e, "no-such-object", "%s.%s does not exist in the installed GOROOT (%s/%s)", t.Path, e.Key, w.goos, w.goarch)
				continue
			}
			c, ok := obj.(*types.Const)
			if !ok {
				add(e, "kind-mismatch", "%s.%s is a %s but is bound to a literal constant", t.Path, e.Key, objKind(obj))
				continue
			}
			if ok, why := literalDenotes(e, c); !ok {
				add(e, "const-value", "%s.%s: %s", t.Path, e.Key, why)
				continue
			}
			st.form("const-literal-" + e.Tok)
			st.nt(f.Rel + "|" + t.Key + "|" + e.Key + "|" + e.Lit)
			st.sample(map[string]string{"file": f.Rel, "table": t.Key, "key": e.Key, "form": e.Form, "literal": clip(e.Lit)})
		case formLocal:
			if f.Dir == dirStdlib && restrictedFuncs[t.Path][e.Key] != "" {
				if want := restrictedFuncs[t.Path][e.Key]; e.Sel != want {
					add(e, "restricted-misuse", "key %q is bound to local %s, the documented replacement is %s", e.Key, e.Sel, want)
					continue
				}
				if _, ok := obj.(*types.Func); !ok {
					add(e, "kind-mismatch", "%s.%s is not a function", t.Path, e.Key)
					continue
				}
				st.form("restricted-replacement")
				st.nt(f.Rel + "|" + t.Key + "|" + e.Key)
				continue
			}
			add(e, "restricted-misuse", "key %q is bound to the local identifier %s, which is not a documented restricted replacement", e.Key, e.Sel)
		case formLocalType:
			if f.Dir == dirStdlib && restrictedTypes[t.Path][e.Key] != "" {
				if want := restrictedTypes[t.Path][e.Key]; e.Sel != want {
					add(e, "restricted-misuse", "key %q is bound to local type %s, the documented replacement is %s", e.Key, e.Sel, want)
					continue
				}
				if _, ok := obj.(*types.TypeName); !ok {
					add(e, "kind-mismatch", "%s.%s is not a type", t.Path, e.Key)
					continue
				}
				st.form("restricted-replacement")
				st.nt(f.Rel + "|" + t.Key + "|" + e.Key)
				continue
			}
			add(e, "restricted-misuse", "key %q is bound to the local type %s, which is not a documented restricted replacement", e.Key, e.Sel)
		}
	}
	return out, nil
}

// checkCompleteness demands every API-file name of release rel for table key
// tkey, given the union of bound names.
func checkCompleteness(api *apiDB, file string, tkey string, rel int, ctx string, bound map[string]bool, w *world, st *stats) []problem {
	ipath := path.Dir(tkey)
	pkg := w.pkgs[ipath]
	if pkg == nil {
		return nil
	}
	var out []problem
	for _, name := range api.demanded(ipath, rel, ctx) {
		st.forms["completeness-demanded"]++
		if bound[name] {
			continue
		}
		obj := pkg.Scope().Lookup(name)
		switch {
		case obj == nil:
			st.skipped["api-name-absent-in-installed-goroot"]++
		case objKind(obj) == "builtin":
			st.skipped["builtin-not-bindable"]++
		case isGenericObj(obj):
			st.skipped["generic"]++
		case isConstraintIface(obj):
			st.skipped["constraint-interface"]++
		default:
			out = append(out, problem{File: file, Table: tkey, Name: name, Sig: "missing-binding",
				Msg: fmt.Sprintf("%s %s.%s is declared by the API files up to go1.%d (context %q) but table %q of %s has no entry", objKind(obj), ipath, name, rel, ctx, tkey, file)})
		}
	}
	return out
}

// ---------------------------------------------------------------------------
// wrappers

func sigNoRecv(s *types.Signature) *types.Signature {
	return types.NewSignatureType(nil, nil, nil, s.Params(), s.Results(), s.Variadic())
}

// stripped returns a copy of the file without init functions and without the
// imports that only init uses.
func (f *bfile) stripped(w *world) *ast.File {
	used := map[string]bool{}
	var decls []ast.Decl
	for _, d := range f.AST.Decls {
		if fd, ok := d.(*ast.FuncDecl); ok && fd.Recv == nil && fd.Name.Name == "init" {
			continue
		}
		if gd, ok := d.(*ast.GenDecl); ok && gd.Tok == token.IMPORT {
			continue
		}
		ast.Inspect(d, func(n ast.Node) bool {
			if se, ok := n.(*ast.SelectorExpr); ok {
				if id, ok := se.X.(*ast.Ident); ok {
					used[id.Name] = true
				}
			}
			return true
		})
		decls = append(decls, d)
	}
	var specs []ast.Spec
	for _, is := range f.Imports {
		if l, _ := importLocalName(is, w); used[l] {
			specs = append(specs, is)
		}
	}
	nf := &ast.File{Name: f.AST.Name, Package: f.AST.Package, FileStart: f.AST.FileStart, FileEnd: f.AST.FileEnd}
	if len(specs) > 0 {
		nf.Decls = append(nf.Decls, &ast.GenDecl{Tok: token.IMPORT, Lparen: 1, Specs: specs, Rparen: 1})
	}
	nf.Decls = append(nf.Decls, decls...)
	return nf
}

// checkForward checks the body of a wrapper method on the AST: it must
// return/call <recv>.W<M>(same parameters, "..." preserved).
func checkForward(fd *ast.FuncDecl) string {
	m := fd.Name.Name
	if fd.Body == nil {
		return "no body"
	}
	if fd.Recv == nil || len(fd.Recv.List) != 1 || len(fd.Recv.List[0].Names) != 1 {
		return "receiver is not named"
	}
	recv := fd.Recv.List[0].Names[0].Name
	var params []string
	variadic := false
	if fd.Type.Params != nil {
		for _, fl := range fd.Type.Params.List {
			if len(fl.Names) == 0 {
				return "unnamed parameter"
			}
			for _, n := range fl.Names {
				if n.Name == "_" || n.Name == recv {
					return "parameter named " + n.Name
				}
				params = append(params, n.Name)
			}
			_, variadic = fl.Type.(*ast.Ellipsis)
		}
	}
	isField := func(e ast.Expr, name string) bool {
		se, ok := e.(*ast.SelectorExpr)
		if !ok || se.Sel.Name != name {
			return false
		}
		id, ok := se.X.(*ast.Ident)
		return ok && id.Name == recv
	}
	stmts := fd.Body.List
	if m == "String" && len(stmts) == 2 {
		// the template's guard: if W.WString == nil { return "" }
		is, ok := stmts[0].(*ast.IfStmt)
		good := false
		if ok && is.Init == nil && is.Else == nil && len(is.Body.List) == 1 {
			if be, ok := is.Cond.(*ast.BinaryExpr); ok && be.Op == token.EQL && isField(be.X, "WString") {
				if id, ok := be.Y.(*ast.Ident); ok && id.Name == "nil" {
					if rs, ok := is.Body.List[0].(*ast.ReturnStmt); ok && len(rs.Results) == 1 {
						if bl, ok := rs.Results[0].(*ast.BasicLit); ok && bl.Kind == token.STRING && bl.Value == `""` {
							good = true
						}
					}
				}
			}
		}
		if !good {
			return "first statement is not the `if W.WString == nil { return \"\" }` guard"
		}
		stmts = stmts[1:]
	}
	if len(stmts) != 1 {
		return fmt.Sprintf("body has %d statements, want one forwarding call", len(stmts))
	}
	hasResults := fd.Type.Results != nil && fd.Type.Results.NumFields() > 0
	var call *ast.CallExpr
	switch s := stmts[0].(type) {
	case *ast.ReturnStmt:
		if !hasResults || len(s.Results) != 1 {
			return "return statement does not return one forwarding call"
		}
		call, _ = s.Results[0].(*ast.CallExpr)
	case *ast.ExprStmt:
		if hasResults {
			return "result of the forwarding call is dropped"
		}
		call, _ = s.X.(*ast.CallExpr)
	}
	if call == nil {
		return "body is not a forwarding call"
	}
	if !isField(call.Fun, "W"+m) {
		return fmt.Sprintf("method %s does not call %s.W%s", m, recv, m)
	}
	if len(call.Args) != len(params) {
		return fmt.Sprintf("method %s forwards %d of %d parameters", m, len(call.Args), len(params))
	}
	for i, a := range call.Args {
		id, ok := a.(*ast.Ident)
		if !ok || id.Name != params[i] {
			return fmt.Sprintf("method %s: argument %d is not parameter %s", m, i, params[i])
		}
	}
	if variadic != call.Ellipsis.IsValid() {
		if variadic {
			return fmt.Sprintf("method %s: variadic parameter forwarded without ...", m)
		}
		return fmt.Sprintf("method %s: ... on a non-variadic parameter", m)
	}
	return ""
}

// typeCheckDecls type-checks the non-init declarations of the file against
// the loaded packages.
func typeCheckDecls(f *bfile, w *world) (*types.Package, []string, error) {
	var errs []string
	var herr error
	conf := types.Config{
		Importer: w,
		Error: func(err error) {
			if strings.Contains(err.Error(), "not loaded for") {
				herr = harnessErr{fmt.Sprintf("%s: %v", f.Rel, err)}
				return
			}
			if len(errs) < 5 {
				errs = append(errs, err.Error())
			}
		},
	}
	pkg, _ := conf.Check("c14/"+f.Rel, f.Fset, []*ast.File{f.stripped(w)}, nil)
	return pkg, errs, herr
}

// ifaceFor finds the interface a wrapper type name stands for.
func ifaceFor(name string, tables []*table, w *world) (t *table, iname string) {
	for _, tb := range tables {
		if isSelfTable(tb) {
			continue
		}
		if p := wrapperPrefix(tb.Path); strings.HasPrefix(name, p) {
			if t == nil || len(tb.Path) > len(t.Path) {
				t, iname = tb, name[len(p):]
			}
		}
	}
	return
}

func exportedMethods(it *types.Interface) []*types.Func {
	var ms []*types.Func
	for i := 0; i < it.NumMethods(); i++ {
		if m := it.Method(i); m.Exported() {
			ms = append(ms, m)
		}
	}
	return ms
}

// checkWrappers checks every _pkg_I struct of a generated file.
func checkWrappers(f *bfile, w *world, api *apiDB, st *stats) ([]problem, error) {
	var out []problem
	add := func(name, sig, format string, a ...any) {
		out = append(out, problem{File: f.Rel, Name: name, Sig: sig, Msg: fmt.Sprintf(format, a...)})
	}
	// entries <-> declarations
	declared := map[string]*wrapperDecl{}
	for _, wd := range f.Wrappers {
		declared[wd.Name] = wd
	}
	entryFor := map[string]bool{}
	for _, t := range f.Tables {
		for _, e := range t.Entries {
			if e.Form == formLocalType && strings.HasPrefix(e.Key, "_") {
				entryFor[e.Sel] = true
				if declared[e.Sel] == nil {
					out = append(out, problem{File: f.Rel, Table: t.Key, Name: e.Key, Sig: "wrapper-undeclared", Msg: fmt.Sprintf("entry %q names wrapper type %s, which the file does not declare", e.Key, e.Sel)})
				}
			}
		}
	}
	if len(f.Wrappers) == 0 {
		return out, nil
	}
	// forwarding is decided on the syntax alone
	for _, wd := range f.Wrappers {
		seenM := map[string]bool{}
		for _, fd := range wd.Methods {
			n := fd.Name.Name
			if seenM[n] {
				add(wd.Name+"."+n, "wrapper-forward", "%s declares method %s twice", wd.Name, n)
				continue
			}
			seenM[n] = true
			if why := checkForward(fd); why != "" {
				add(wd.Name+"."+n, "wrapper-forward", "%s: %s", wd.Name, why)
			}
		}
	}
	tpkg, terrs, herr := typeCheckDecls(f, w)
	if herr != nil {
		return nil, herr
	}
	if len(terrs) > 0 {
		add("declarations", "wrapper-typecheck", "wrapper declarations do not type-check against the installed GOROOT: %s", strings.Join(terrs, "; "))
		return out, nil
	}
	for _, wd := range f.Wrappers {
		st.bindings++
		st.form("wrapper-struct")
		t, iname := ifaceFor(wd.Name, f.Tables, w)
		if t == nil {
			add(wd.Name, "wrapper-orphan", "wrapper type %s does not belong to a table of the file", wd.Name)
			continue
		}
		if !entryFor[wd.Name] {
			add(wd.Name, "wrapper-unbound", "wrapper type %s is declared but table %q has no \"_%s\" entry", wd.Name, t.Key, iname)
		}
		pkg := w.pkgs[t.Path]
		if pkg == nil {
			return nil, harnessErr{fmt.Sprintf("package %s not loaded", t.Path)}
		}
		obj, _ := pkg.Scope().Lookup(iname).(*types.TypeName)
		if obj == nil || !obj.Exported() {
			add(wd.Name, "no-such-object", "wrapper %s: %s.%s is not an exported type of the installed GOROOT", wd.Name, t.Path, iname)
			continue
		}
		it, ok := obj.Type().Underlying().(*types.Interface)
		if !ok || isGenericObj(obj) {
			add(wd.Name, "kind-mismatch", "wrapper %s: %s.%s is not a (non-generic) interface type", wd.Name, t.Path, iname)
			continue
		}
		wobj, _ := tpkg.Scope().Lookup(wd.Name).(*types.TypeName)
		if wobj == nil {
			return nil, harnessErr{"wrapper " + wd.Name + " missing after type-check"}
		}
		wst, ok := wobj.Type().Underlying().(*types.Struct)
		if !ok {
			add(wd.Name, "wrapper-fields", "%s is not a struct", wd.Name)
			continue
		}
		want := map[string]*types.Func{}
		optional := map[string]bool{}
		for _, m := range exportedMethods(it) {
			want[m.Name()] = m
			if api.newerMethod(t.Path, iname, m.Name(), f.Release) {
				optional[m.Name()] = true
			}
		}
		// fields
		fields := map[string]*types.Var{}
		nIValue := 0
		for i := 0; i < wst.NumFields(); i++ {
			fv := wst.Field(i)
			switch {
			case fv.Name() == "IValue" && !fv.Embedded():
				nIValue++
				if e, ok := fv.Type().Underlying().(*types.Interface); !ok || !e.Empty() {
					add(wd.Name, "wrapper-fields", "%s.IValue is not interface{}", wd.Name)
				}
			case strings.HasPrefix(fv.Name(), "W") && !fv.Embedded() && want[fv.Name()[1:]] != nil:
				if fields[fv.Name()[1:]] != nil {
					add(wd.Name+"."+fv.Name(), "wrapper-fields", "duplicate field")
				}
				fields[fv.Name()[1:]] = fv
			default:
				add(wd.Name+"."+fv.Name(), "wrapper-fields", "%s has field %s, which is not IValue nor W<M> for an exported method M of %s.%s", wd.Name, fv.Name(), t.Path, iname)
			}
		}
		if nIValue != 1 {
			add(wd.Name, "wrapper-fields", "%s has %d IValue fields", wd.Name, nIValue)
		}
		mset := types.NewMethodSet(wobj.Type())
		names := make([]string, 0, len(want))
		for n := range want {
			names = append(names, n)
		}
		sort.Strings(names)
		for _, n := range names {
			m := want[n]
			msig := sigNoRecv(m.Type().(*types.Signature))
			fv := fields[n]
			sel := mset.Lookup(tpkg, n)
			if fv == nil && sel == nil && optional[n] {
				st.skipped["interface-method-newer-than-release"]++
				continue
			}
			if fv == nil {
				add(wd.Name+"."+n, "wrapper-fields", "%s lacks field W%s for method %s of %s.%s", wd.Name, n, n, t.Path, iname)
			} else if !types.Identical(fv.Type(), msig) {
				add(wd.Name+"."+n, "wrapper-signature", "%s.W%s has type %s, method %s.%s.%s has %s", wd.Name, n, fv.Type(), t.Path, iname, n, msig)
			}
			if sel == nil {
				add(wd.Name+"."+n, "wrapper-forward", "%s has no method %s (value receiver)", wd.Name, n)
			} else if ms, ok := sel.Obj().Type().(*types.Signature); !ok || !types.Identical(sigNoRecv(ms), msig) {
				add(wd.Name+"."+n, "wrapper-signature", "method %s.%s has signature %s, %s.%s.%s has %s", wd.Name, n, sel.Obj().Type(), t.Path, iname, n, msig)
			}
		}
		// methods: forwarding
		seenM := map[string]bool{}
		for _, fd := range wd.Methods {
			n := fd.Name.Name
			if seenM[n] {
				continue
			}
			seenM[n] = true
			if want[n] == nil {
				add(wd.Name+"."+n, "wrapper-forward", "%s has method %s, which is not an exported method of %s.%s", wd.Name, n, t.Path, iname)
			}
		}
		st.nt(f.Rel + "|wrapper|" + wd.Name)
		st.forms["wrapper-method"] += len(want)
	}
	return out, nil
}

// ---------------------------------------------------------------------------
// wrapper-composed.go and maptypes.go

var composedIfaces = map[string][][2]string{
	"_netHTTPResponseWriterHijacker": {{"net/http", "ResponseWriter"}, {"net/http", "Hijacker"}},
	"_ioReaderWriteTo":               {{"io", "Reader"}, {"io", "WriterTo"}},
	"_ioWriterReadFrom":              {{"io", "Writer"}, {"io", "ReaderFrom"}},
}

func checkComposed(f *bfile, w *world, st *stats) ([]problem, error) {
	var out []problem
	add := func(name, sig, format string, a ...any) {
		out = append(out, problem{File: f.Rel, Name: name, Sig: sig, Msg: fmt.Sprintf(format, a...)})
	}
	tpkg, terrs, herr := typeCheckDecls(f, w)
	if herr != nil {
		return nil, herr
	}
	if len(terrs) > 0 {
		add("declarations", "wrapper-typecheck", "declarations do not type-check: %s", strings.Join(terrs, "; "))
		return out, nil
	}
	for _, wd := range f.Wrappers {
		st.bindings++
		st.form("composed-wrapper")
		st.nt(f.Rel + "|wrapper|" + wd.Name)
		wobj, _ := tpkg.Scope().Lookup(wd.Name).(*types.TypeName)
		wst, _ := wobj.Type().Underlying().(*types.Struct)
		if wst == nil {
			continue
		}
		mset := types.NewMethodSet(wobj.Type())
		fields := map[string]bool{}
		for i := 0; i < wst.NumFields(); i++ {
			fv := wst.Field(i)
			if fv.Name() == "IValue" {
				continue
			}
			if !strings.HasPrefix(fv.Name(), "W") {
				add(wd.Name+"."+fv.Name(), "wrapper-fields", "unexpected field %s", fv.Name())
				continue
			}
			n := fv.Name()[1:]
			fields[n] = true
			sel := mset.Lookup(tpkg, n)
			if sel == nil {
				add(wd.Name+"."+n, "wrapper-forward", "field W%s has no method %s", n, n)
				continue
			}
			if !types.Identical(sigNoRecv(sel.Obj().Type().(*types.Signature)), fv.Type()) {
				add(wd.Name+"."+n, "wrapper-signature", "field W%s has type %s, method %s has %s", n, fv.Type(), n, sel.Obj().Type())
			}
		}
		for _, fd := range wd.Methods {
			n := fd.Name.Name
			if !fields[n] {
				add(wd.Name+"."+n, "wrapper-forward", "method %s has no field W%s", n, n)
				continue
			}
			if why := checkForward(fd); why != "" {
				add(wd.Name+"."+n, "wrapper-forward", "%s: %s", wd.Name, why)
			}
		}
		if ifs, ok := composedIfaces[wd.Name]; ok {
			total := map[string]bool{}
			for _, pi := range ifs {
				p := w.pkgs[pi[0]]
				if p == nil {
					return nil, harnessErr{"package " + pi[0] + " not loaded"}
				}
				tn, _ := p.Scope().Lookup(pi[1]).(*types.TypeName)
				if tn == nil {
					return nil, harnessErr{pi[0] + "." + pi[1] + " not found"}
				}
				it := tn.Type().Underlying().(*types.Interface)
				if !types.Implements(wobj.Type(), it) {
					add(wd.Name, "wrapper-signature", "%s does not implement %s.%s", wd.Name, pi[0], pi[1])
				}
				for _, m := range exportedMethods(it) {
					total[m.Name()] = true
				}
			}
			var fnames []string
			for n := range fields {
				fnames = append(fnames, n)
			}
			sort.Strings(fnames)
			for _, n := range fnames {
				if !total[n] {
					add(wd.Name+"."+n, "wrapper-fields", "field W%s is not a method of the composed interfaces", n)
				}
			}
		}
	}
	return out, nil
}

// checkMapTypes checks every pkg.Name reference of maptypes.go (and the init
// of wrapper-composed.go): MapTypes keys must be functions, (*pkg.I)(nil)
// must name interface types.
func checkMapTypes(f *bfile, w *world, st *stats) ([]problem, error) {
	var out []problem
	var herr error
	for _, d := range f.AST.Decls {
		fd, ok := d.(*ast.FuncDecl)
		if !ok || fd.Recv != nil || fd.Name.Name != "init" {
			continue
		}
		var stack []ast.Node
		ast.Inspect(fd, func(n ast.Node) bool {
			if n == nil {
				stack = stack[:len(stack)-1]
				return true
			}
			stack = append(stack, n)
			q, s, ok := qualSel(exprOf(n))
			if !ok {
				return true
			}
			ipath, imported := f.resolveQual(q, w)
			if !imported || ipath == "reflect" {
				return true
			}
			pkg := w.pkgs[ipath]
			if pkg == nil {
				herr = harnessErr{"package " + ipath + " not loaded"}
				return true
			}
			st.bindings++
			obj := pkg.Scope().Lookup(s)
			name := q + "." + s
			if obj == nil || !obj.Exported() {
				out = append(out, problem{File: f.Rel, Name: name, Sig: "no-such-object", Msg: name + " does not exist"})
				return true
			}
			// context: parent is *T (type) or an argument of reflect.ValueOf (func)
			parent := stack[len(stack)-2]
			switch parent.(type) {
			case *ast.StarExpr:
				st.form("maptypes-interface")
				tn, ok := obj.(*types.TypeName)
				if !ok {
					out = append(out, problem{File: f.Rel, Name: name, Sig: "kind-mismatch", Msg: name + " is not a type"})
				} else if _, ok := tn.Type().Underlying().(*types.Interface); !ok {
					out = append(out, problem{File: f.Rel, Name: name, Sig: "kind-mismatch", Msg: name + " is not an interface type"})
				}
			case *ast.CallExpr:
				st.form("maptypes-func")
				if _, ok := obj.(*types.Func); !ok {
					out = append(out, problem{File: f.Rel, Name: name, Sig: "kind-mismatch", Msg: name + " is not a function"})
				}
			}
			return true
		})
	}
	return out, herr
}

func exprOf(n ast.Node) ast.Expr {
	e, _ := n.(ast.Expr)
	return e
}

// relOf returns p relative to root with forward slashes.
func relOf(root, p string) string {
	r, err := filepath.Rel(root, p)
	if err != nil {
		return p
	}
	return filepath.ToSlash(r)
}
