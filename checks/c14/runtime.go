package c14

import (
	"fmt"
	"go/build"
	"go/build/constraint"
	"go/constant"
	"go/token"
	"go/types"
	"path/filepath"
	"reflect"
	"runtime"
	"strings"

	"github.com/traefik/yaegi/stdlib"
	ysyscall "github.com/traefik/yaegi/stdlib/syscall"
	yunrestricted "github.com/traefik/yaegi/stdlib/unrestricted"
	yunsafe "github.com/traefik/yaegi/stdlib/unsafe"
)

// compiledIn reports whether the binding file is part of this binary: its
// build constraint and file-name suffix select the host toolchain/platform.
func compiledIn(f *bfile) bool {
	if f.AST == nil {
		return false
	}
	if f.GOOS != "" && (f.GOOS != runtime.GOOS || f.GOARCH != runtime.GOARCH) {
		return false
	}
	tags := map[string]bool{runtime.GOOS: true, runtime.GOARCH: true, "gc": true}
	for _, t := range build.Default.ReleaseTags {
		tags[t] = true
	}
	if runtime.GOOS == "linux" || runtime.GOOS == "darwin" || strings.HasSuffix(runtime.GOOS, "bsd") {
		tags["unix"] = true
	}
	for _, cg := range f.AST.Comments {
		if cg.Pos() >= f.AST.Package {
			break
		}
		for _, c := range cg.List {
			if constraint.IsGoBuild(c.Text) {
				x, err := constraint.Parse(c.Text)
				if err != nil {
					return false
				}
				return x.Eval(func(tag string) bool { return tags[tag] })
			}
		}
	}
	return true
}

func runtimeSymbols(f *bfile) map[string]map[string]reflect.Value {
	switch f.Dir {
	case dirStdlib:
		return stdlib.Symbols
	case dirSyscall:
		return ysyscall.Symbols
	case dirUnsafe:
		return yunsafe.Symbols
	case dirUnrestrict:
		return yunrestricted.Symbols
	}
	return nil
}

const yaegiStdlibPath = "github.com/traefik/yaegi/stdlib"

// runtimeCrossCheck compares the statically accepted entries of the files
// that are compiled into this binary with the values found in the Symbols
// maps at run time: function identity through the runtime symbol name of the
// code pointer, type identity through reflect, constant values, and
// addressability of variables.
func runtimeCrossCheck(lu *loadedUnit, st *stats) []problem {
	var out []problem
	for _, f := range lu.files {
		if !compiledIn(f) || filepath.Base(f.Rel) == fileComposed || filepath.Base(f.Rel) == fileMapTypes {
			continue
		}
		syms := runtimeSymbols(f)
		if syms == nil {
			continue
		}
		for _, t := range f.Tables {
			if isSelfTable(t) {
				continue
			}
			pkg := lu.w.pkgs[t.Path]
			if pkg == nil {
				continue
			}
			for _, e := range t.Entries {
				add := func(format string, a ...any) {
					out = append(out, problem{File: f.Rel, Table: t.Key, Name: e.Key, Sig: "runtime-identity", Msg: fmt.Sprintf(format, a...)})
				}
				v, ok := syms[t.Key][e.Key]
				if !ok {
					add("Symbols[%q][%q] is absent at run time although %s is compiled in", t.Key, e.Key, f.Rel)
					continue
				}
				obj := pkg.Scope().Lookup(e.Key)
				switch e.Form {
				case formPlain, formLocal:
					switch o := obj.(type) {
					case *types.Func:
						want := t.Path + "." + e.Key
						if e.Form == formLocal {
							want = yaegiStdlibPath + "." + e.Sel
						}
						if v.Kind() != reflect.Func {
							add("run-time value of %s is a %s, not a func", want, v.Kind())
							continue
						}
						fn := runtime.FuncForPC(v.Pointer())
						if fn == nil {
							continue
						}
						st.forms["runtime-func-identity"]++
						if got := fn.Name(); got != want {
							add("run-time value bound to %q is function %s, want %s", e.Key, got, want)
						}
					case *types.Const:
						st.forms["runtime-const-value"]++
						if why := runtimeConst(v, o.Val()); why != "" {
							add("%s.%s: %s", t.Path, e.Key, why)
						}
					}
				case formLit:
					c, ok := obj.(*types.Const)
					if !ok {
						continue
					}
					st.forms["runtime-const-value"]++
					cv, ok := v.Interface().(constant.Value)
					if !ok {
						add("run-time value of %s.%s is a %s, not a constant.Value", t.Path, e.Key, v.Type())
						continue
					}
					vl := constant.MakeFromLiteral(e.Lit, litTokens[e.Tok], 0)
					if cv.Kind() != vl.Kind() || !constant.Compare(cv, token.EQL, vl) {
						add("run-time constant %s differs from the literal %s", clip(cv.ExactString()), clip(e.Lit))
					}
					_ = c
				case formAddr:
					st.forms["runtime-var-addressable"]++
					if !v.CanAddr() || !v.CanSet() {
						add("run-time value of variable %s.%s is not addressable", t.Path, e.Key)
					}
				case formType:
					tn, ok := obj.(*types.TypeName)
					if !ok || v.Kind() != reflect.Ptr {
						continue
					}
					named, ok := types.Unalias(tn.Type()).(*types.Named)
					if !ok {
						continue
					}
					st.forms["runtime-type-identity"]++
					want := named.Obj().Name()
					if p := named.Obj().Pkg(); p != nil {
						want = p.Path() + "." + want
					}
					el := v.Type().Elem()
					got := el.Name()
					if el.PkgPath() != "" {
						got = el.PkgPath() + "." + got
					}
					if got != want {
						add("run-time type bound to %q is %s, want %s", e.Key, got, want)
					}
				}
			}
		}
	}
	return out
}

// runtimeConst compares the run-time value of a plainly bound constant with
// the package's constant value.
func runtimeConst(v reflect.Value, want constant.Value) string {
	var got constant.Value
	switch v.Kind() {
	case reflect.Int, reflect.Int8, reflect.Int16, reflect.Int32, reflect.Int64:
		got = constant.MakeInt64(v.Int())
	case reflect.Uint, reflect.Uint8, reflect.Uint16, reflect.Uint32, reflect.Uint64, reflect.Uintptr:
		got = constant.MakeUint64(v.Uint())
	case reflect.String:
		got = constant.MakeString(v.String())
	case reflect.Bool:
		got = constant.MakeBool(v.Bool())
	case reflect.Float32, reflect.Float64:
		f, _ := constant.Float64Val(want)
		if v.Kind() == reflect.Float32 {
			f32, _ := constant.Float32Val(want)
			f = float64(f32)
		}
		if v.Float() != f {
			return fmt.Sprintf("run-time value %v differs from the constant %s", v.Float(), clip(want.ExactString()))
		}
		return ""
	default:
		return ""
	}
	w := want
	if got.Kind() == constant.Int {
		w = constant.ToInt(want)
	}
	if w.Kind() != got.Kind() || !constant.Compare(got, token.EQL, w) {
		return fmt.Sprintf("run-time value %s differs from the constant %s", clip(got.ExactString()), clip(want.ExactString()))
	}
	return ""
}
