package c14

import (
	"fmt"
	"go/types"
	"os"
	"sort"
	"strings"
	"sync"

	"golang.org/x/tools/go/packages"
)

// world is the go/types view of a set of packages for one platform.
type world struct {
	goos, goarch string
	pkgs         map[string]*types.Package
	errs         map[string]string // package path -> load/type error
}

func (w *world) Import(path string) (*types.Package, error) {
	if p, ok := w.pkgs[path]; ok {
		return p, nil
	}
	return nil, fmt.Errorf("package %q not loaded for %s/%s", path, w.goos, w.goarch)
}

var loadMu sync.Mutex

// loadWorld type-checks the named standard-library packages (and their
// dependencies) from the installed GOROOT sources for goos/goarch.
func loadWorld(dir, goos, goarch string, paths []string) (*world, error) {
	loadMu.Lock()
	defer loadMu.Unlock()
	w := &world{goos: goos, goarch: goarch, pkgs: map[string]*types.Package{}, errs: map[string]string{}}
	if len(paths) == 0 {
		return w, nil
	}
	sort.Strings(paths)
	env := []string{}
	for _, e := range os.Environ() {
		k := e
		if i := strings.IndexByte(e, '='); i >= 0 {
			k = e[:i]
		}
		switch k {
		case "GOOS", "GOARCH", "CGO_ENABLED", "GOFLAGS", "GOWORK", "GO111MODULE", "GOEXPERIMENT":
			continue
		}
		env = append(env, e)
	}
	env = append(env, "GOOS="+goos, "GOARCH="+goarch, "CGO_ENABLED=0", "GOFLAGS=", "GOWORK=off", "GO111MODULE=off", "GOTOOLCHAIN=local", "GOPROXY=off")
	cfg := &packages.Config{
		Mode: packages.NeedName | packages.NeedFiles | packages.NeedCompiledGoFiles | packages.NeedImports | packages.NeedDeps | packages.NeedTypes,
		Dir:  dir,
		Env:  env,
	}
	res, err := packages.Load(cfg, paths...)
	if err != nil {
		return nil, err
	}
	seen := map[*packages.Package]bool{}
	var visit func(p *packages.Package)
	visit = func(p *packages.Package) {
		if seen[p] {
			return
		}
		seen[p] = true
		if p.Types != nil {
			w.pkgs[p.PkgPath] = p.Types
		}
		if len(p.Errors) > 0 || p.IllTyped {
			msg := "ill-typed"
			if len(p.Errors) > 0 {
				msg = p.Errors[0].Error()
			}
			w.errs[p.PkgPath] = msg
		}
		for _, q := range p.Imports {
			visit(q)
		}
	}
	for _, p := range res {
		visit(p)
	}
	w.pkgs["unsafe"] = types.Unsafe
	return w, nil
}
