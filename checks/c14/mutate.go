package c14

import (
	"fmt"
	"go/ast"
	"go/constant"
	"go/token"
	"sort"
	"time"

	"pgregory.net/rapid"

	"verif/internal/vf"
)

// edit replaces Src[Pos:End] with Text.
type edit struct {
	Pos, End int
	Text     string
}

func applyEdits(src []byte, eds []edit) []byte {
	sort.Slice(eds, func(i, j int) bool { return eds[i].Pos > eds[j].Pos })
	out := append([]byte{}, src...)
	for _, e := range eds {
		out = append(out[:e.Pos], append([]byte(e.Text), out[e.End:]...)...)
	}
	return out
}

// mutation is one seeded corruption of a binding file.
type mutation struct {
	Unit string `json:"unit"`
	File string `json:"file"`
	Kind string `json:"kind"`
	What string `json:"what"`
}

type tableEntry struct {
	t *table
	e *entry
}

func entriesOf(f *bfile, pred func(t *table, e *entry) bool) []tableEntry {
	var out []tableEntry
	for _, t := range f.Tables {
		if isSelfTable(t) || t.Indexed {
			continue
		}
		for _, e := range t.Entries {
			if pred(t, e) {
				out = append(out, tableEntry{t, e})
			}
		}
	}
	return out
}

func (f *bfile) text(s span) string { return string(f.Src[s.Pos:s.End]) }

// demandedSet is the set of names completeness demands for a table of f.
func demandedSet(lu *loadedUnit, f *bfile, t *table, api *apiDB) map[string]bool {
	out := map[string]bool{}
	if f.Release == 0 || f.Dir == dirUnrestrict || f.Dir == dirUnsafe {
		return out
	}
	ctx := ""
	if f.Dir == dirSyscall {
		if !api.tracked(f.GOOS, f.GOARCH, f.Release) {
			return out
		}
		ctx = f.GOOS + "-" + f.GOARCH
	}
	for _, n := range api.demanded(t.Path, f.Release, ctx) {
		out[n] = true
	}
	return out
}

type wrapperSite struct {
	wd *wrapperDecl
	fd *ast.FuncDecl
	ce *ast.CallExpr
}

func forwardCalls(f *bfile) []wrapperSite {
	var out []wrapperSite
	for _, wd := range f.Wrappers {
		for _, fd := range wd.Methods {
			if fd.Body == nil || len(fd.Body.List) == 0 {
				continue
			}
			var call *ast.CallExpr
			switch s := fd.Body.List[len(fd.Body.List)-1].(type) {
			case *ast.ReturnStmt:
				if len(s.Results) == 1 {
					call, _ = s.Results[0].(*ast.CallExpr)
				}
			case *ast.ExprStmt:
				call, _ = s.X.(*ast.CallExpr)
			}
			if call != nil {
				out = append(out, wrapperSite{wd, fd, call})
			}
		}
	}
	return out
}

// drawMutation picks one applicable corruption of f. It returns nil edits
// when the file offers no site for any corruption.
func drawMutation(t *rapid.T, lu *loadedUnit, f *bfile, api *apiDB) (string, string, []edit) {
	type gen func() (string, []edit)
	var kinds []string
	gens := map[string]gen{}

	swappable := entriesOf(f, func(_ *table, e *entry) bool {
		return e.Form == formPlain || e.Form == formAddr || e.Form == formType || e.Form == formLit && !f.Unpinned
	})
	if len(swappable) >= 2 {
		kinds = append(kinds, "swap-values")
		gens["swap-values"] = func() (string, []edit) {
			a := rapid.SampledFrom(swappable).Draw(t, "swap-a")
			var partners []tableEntry
			for _, b := range swappable {
				if b.t != a.t || b.e == a.e || b.e.Form != a.e.Form || f.text(b.e.Inner) == f.text(a.e.Inner) {
					continue
				}
				if a.e.Form == formLit {
					va := constant.MakeFromLiteral(a.e.Lit, litTokens[a.e.Tok], 0)
					vb := constant.MakeFromLiteral(b.e.Lit, litTokens[b.e.Tok], 0)
					if va.Kind() == constant.Unknown || vb.Kind() == constant.Unknown {
						continue
					}
					if (numeric(va.Kind()) && numeric(vb.Kind()) || va.Kind() == vb.Kind()) && constant.Compare(va, token.EQL, vb) {
						continue
					}
				}
				partners = append(partners, b)
			}
			if len(partners) == 0 {
				return "", nil
			}
			b := rapid.SampledFrom(partners).Draw(t, "swap-b")
			return fmt.Sprintf("%s <-> %s (%s)", a.e.Key, b.e.Key, a.e.Form), []edit{
				{a.e.Inner.Pos, a.e.Inner.End, f.text(b.e.Inner)},
				{b.e.Inner.Pos, b.e.Inner.End, f.text(a.e.Inner)},
			}
		}
	}
	lits := entriesOf(f, func(_ *table, e *entry) bool {
		if f.Unpinned || e.Form != formLit || (e.Tok != "INT" && e.Tok != "FLOAT") {
			return false
		}
		for _, c := range e.Lit {
			if c >= '0' && c <= '9' {
				return true
			}
		}
		return false
	})
	if len(lits) > 0 {
		kinds = append(kinds, "literal-digit")
		gens["literal-digit"] = func() (string, []edit) {
			a := rapid.SampledFrom(lits).Draw(t, "lit")
			raw := f.text(a.e.LitSp)
			var pos []int
			for i := 0; i < len(raw); i++ {
				if raw[i] >= '0' && raw[i] <= '9' {
					pos = append(pos, i)
				}
			}
			if len(pos) == 0 {
				return "", nil
			}
			i := rapid.SampledFrom(pos).Draw(t, "digit-pos")
			d := byte('0' + rapid.IntRange(0, 8).Draw(t, "digit"))
			if d >= raw[i] {
				d++
			}
			nraw := raw[:i] + string(d) + raw[i+1:]
			return fmt.Sprintf("%s: %s -> %s", a.e.Key, clip(raw), clip(nraw)), []edit{{a.e.LitSp.Pos, a.e.LitSp.End, nraw}}
		}
	}
	var droppable []tableEntry
	for _, tb := range f.Tables {
		if isSelfTable(tb) || tb.Indexed {
			continue
		}
		dem := demandedSet(lu, f, tb, api)
		for _, e := range tb.Entries {
			if dem[e.Key] || e.Form == formLocalType && len(e.Key) > 0 && e.Key[0] == '_' {
				droppable = append(droppable, tableEntry{tb, e})
			}
		}
	}
	if len(droppable) > 0 {
		kinds = append(kinds, "drop-entry")
		gens["drop-entry"] = func() (string, []edit) {
			a := rapid.SampledFrom(droppable).Draw(t, "drop")
			end := a.e.KV.End
			for end < len(f.Src) && f.Src[end] != ',' && f.Src[end] != '\n' {
				end++
			}
			if end < len(f.Src) && f.Src[end] == ',' {
				end++
			}
			return a.e.Key, []edit{{a.e.KV.Pos, end, ""}}
		}
	}
	addrs := entriesOf(f, func(_ *table, e *entry) bool { return e.Form == formAddr && !f.Unpinned })
	if len(addrs) > 0 {
		kinds = append(kinds, "addr-to-plain")
		gens["addr-to-plain"] = func() (string, []edit) {
			a := rapid.SampledFrom(addrs).Draw(t, "addr")
			return a.e.Key, []edit{{a.e.Val.Pos, a.e.Val.End, a.e.RQual + ".ValueOf(" + f.text(a.e.Inner) + ")"}}
		}
	}
	var wfields []*ast.Ident
	for _, wd := range f.Wrappers {
		for _, fl := range wd.Struct.Fields.List {
			for _, n := range fl.Names {
				if n.Name != "IValue" {
					wfields = append(wfields, n)
				}
			}
		}
	}
	if len(wfields) > 0 && !f.Unpinned {
		kinds = append(kinds, "rename-wfield")
		gens["rename-wfield"] = func() (string, []edit) {
			n := rapid.SampledFrom(wfields).Draw(t, "wfield")
			sp := f.span(n)
			return n.Name, []edit{{sp.Pos, sp.End, n.Name + "X"}}
		}
	}
	calls := forwardCalls(f)
	var variadic []wrapperSite
	for _, c := range calls {
		if c.ce.Ellipsis.IsValid() {
			variadic = append(variadic, c)
		}
	}
	if len(variadic) > 0 {
		kinds = append(kinds, "drop-ellipsis")
		gens["drop-ellipsis"] = func() (string, []edit) {
			c := rapid.SampledFrom(variadic).Draw(t, "variadic")
			p := f.off(c.ce.Ellipsis)
			return c.wd.Name + "." + c.fd.Name.Name, []edit{{p, p + 3, ""}}
		}
	}
	var retarget []wrapperSite
	for _, c := range calls {
		if len(c.wd.Methods) >= 2 {
			retarget = append(retarget, c)
		}
	}
	if len(retarget) > 0 {
		kinds = append(kinds, "retarget-forward")
		gens["retarget-forward"] = func() (string, []edit) {
			c := rapid.SampledFrom(retarget).Draw(t, "forward")
			var others []string
			for _, m := range c.wd.Methods {
				if m.Name.Name != c.fd.Name.Name {
					others = append(others, m.Name.Name)
				}
			}
			se, ok := c.ce.Fun.(*ast.SelectorExpr)
			if !ok || len(others) == 0 {
				return "", nil
			}
			o := rapid.SampledFrom(others).Draw(t, "other")
			sp := f.span(se.Sel)
			return c.wd.Name + "." + c.fd.Name.Name + " -> W" + o, []edit{{sp.Pos, sp.End, "W" + o}}
		}
	}
	if len(kinds) == 0 {
		return "", "", nil
	}
	k := rapid.SampledFrom(kinds).Draw(t, "kind")
	what, eds := gens[k]()
	return k, what, eds
}

// mutationCampaign applies ctx.Cases seeded corruptions to in-memory copies of
// clean files of this shard and requires the checker to report each one. An
// undetected corruption is a harness self-check failure (inconclusive).
func mutationCampaign(ctx *vf.Ctx, clean []*loadedUnit, api *apiDB) {
	var pool []*loadedUnit
	for _, lu := range clean {
		if lu.u.Kind == "self" {
			continue
		}
		pool = append(pool, lu)
	}
	if len(pool) == 0 || ctx.Cases <= 0 {
		ctx.DoneN(ctx.Cases)
		if ctx.Cases > 0 {
			ctx.Note("shard %d: no clean unit available for the mutation campaign", ctx.Shard)
		}
		return
	}
	undetected := 0
	prop := func(t *rapid.T) {
		defer ctx.Done()
		lu := pool[rapid.IntRange(0, len(pool)-1).Draw(t, "unit")]
		fi := rapid.IntRange(0, len(lu.files)-1).Draw(t, "file")
		f := lu.files[fi]
		if f.AST == nil {
			return
		}
		if lu.u.Kind == "composed" && f.Rel == fileMapTypes {
			ctx.Class("mutation-no-site")
			return
		}
		kind, what, eds := drawMutation(t, lu, f, api)
		if len(eds) == 0 {
			ctx.Class("mutation-no-site")
			return
		}
		ctx.Eval()
		m := mutation{Unit: lu.u.ID, File: f.Rel, Kind: kind, What: what}
		nsrc := applyEdits(f.Src, eds)
		nf := parseBinding(f.Path, f.Rel, nsrc)
		mu := &loadedUnit{u: lu.u, w: lu.w, files: append([]*bfile{}, lu.files...)}
		mu.files[fi] = nf
		ps, err := checkUnit(mu, api, newStats(false))
		if err != nil {
			ctx.Inconclusive("mutation %+v: %v", m, err)
			return
		}
		ctx.Class("mutation:" + kind)
		if len(ps) == 0 {
			undetected++
			if undetected <= 5 {
				ctx.Inconclusive("sensitivity self-check: corruption not reported: %+v", m)
			}
			ctx.Class("mutation-undetected")
			return
		}
		ctx.Class("mutation-detected")
		ctx.Class("mutation-detected-as:" + ps[0].Sig)
		ctx.Sample(map[string]any{"mutation": m, "reported": ps[0].Sig + ": " + clip(ps[0].Msg)}, 5)
	}
	ctx.Rapid("mutate", 1, ctx.Cases, 5*time.Second, prop)
}
