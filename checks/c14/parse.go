package c14

import (
	"fmt"
	"go/ast"
	"go/parser"
	"go/token"
	"path"
	"path/filepath"
	"regexp"
	"strconv"
	"strings"
)

// Binding forms.
const (
	formPlain      = "plain"      // reflect.ValueOf(pkg.Name)
	formAddr       = "addr"       // reflect.ValueOf(&pkg.Name).Elem()
	formType       = "type"       // reflect.ValueOf((*pkg.Name)(nil))
	formLit        = "lit"        // reflect.ValueOf(constant.MakeFromLiteral("..", token.X, 0))
	formLocal      = "local"      // reflect.ValueOf(ident): restricted replacement or unsafe shim
	formLocalType  = "local-type" // reflect.ValueOf((*ident)(nil)): wrapper or restricted type
	formOther      = "other"      // anything else inside reflect.ValueOf(...)
	formBad        = "bad"        // not even reflect.ValueOf(...)
	dirStdlib      = "stdlib"
	dirSyscall     = "syscall"
	dirUnsafe      = "unsafe"
	dirUnrestrict  = "unrestricted"
	fileComposed   = "wrapper-composed.go"
	fileMapTypes   = "maptypes.go"
	yaegiSelfPrefx = "github.com/traefik/yaegi"
)

type span struct{ Pos, End int }

// entry is one "Name": reflect.ValueOf(...) binding.
type entry struct {
	Key   string
	Form  string
	Qual  string // package qualifier identifier (plain, addr, type)
	Sel   string // selected / local identifier
	Lit   string // unquoted literal (lit)
	Tok   string // token name (lit)
	CQual string // identifier used for "constant" (lit)
	TQual string // identifier used for "token" (lit)
	RQual string // identifier used for "reflect"
	Bad   string // reason when Form is other/bad
	KV    span   // whole key-value pair (or assignment statement)
	Val   span   // the value expression
	Inner span   // argument of reflect.ValueOf
	LitSp span   // the string literal including quotes
}

// table is one Symbols["path/name"] map.
type table struct {
	Key     string
	Path    string // import path
	Name    string // package name
	Entries []*entry
	Indexed bool // entries added with Symbols[k][n] = ... statements
}

// wrapperDecl is a struct type declaration with its methods.
type wrapperDecl struct {
	Name    string
	Spec    *ast.TypeSpec
	Struct  *ast.StructType
	Methods []*ast.FuncDecl
}

// bfile is a parsed binding file.
type bfile struct {
	Path     string // as given (absolute)
	Rel      string // path relative to the stdlib directory
	Dir      string // stdlib, syscall, unsafe, unrestricted
	Release  int    // 21, 22 or 0 (hand-written)
	GOOS     string // from the file name (syscall files), else ""
	GOARCH   string
	Unpinned bool // port untracked by the API files and release older than the installed GOROOT
	Src      []byte
	Fset     *token.FileSet
	AST      *ast.File
	Imports  []*ast.ImportSpec
	Tables   []*table
	Wrappers []*wrapperDecl
	Shape    []problem // statement-level shape problems found while parsing
	ParseErr error
}

var fileNameRE = regexp.MustCompile(`^go1_(\d+)_(.*)\.go$`)
var syscallNameRE = regexp.MustCompile(`^syscall_([a-z0-9]+)_([a-z0-9]+)$`)

// classifyPath fills Dir, Release, GOOS, GOARCH from the relative path.
func (f *bfile) classifyPath() {
	d := filepath.Dir(f.Rel)
	switch d {
	case ".":
		f.Dir = dirStdlib
	default:
		f.Dir = d
	}
	if m := fileNameRE.FindStringSubmatch(filepath.Base(f.Rel)); m != nil {
		f.Release, _ = strconv.Atoi(m[1])
		if s := syscallNameRE.FindStringSubmatch(m[2]); s != nil && (f.Dir == dirSyscall || f.Dir == dirUnrestrict) {
			f.GOOS, f.GOARCH = s[1], s[2]
		}
	}
}

func (f *bfile) off(p token.Pos) int  { return f.Fset.Position(p).Offset }
func (f *bfile) span(n ast.Node) span { return span{f.off(n.Pos()), f.off(n.End())} }

func parseBinding(abs, rel string, src []byte) *bfile {
	f := &bfile{Path: abs, Rel: rel, Src: src, Fset: token.NewFileSet()}
	f.classifyPath()
	af, err := parser.ParseFile(f.Fset, abs, src, parser.SkipObjectResolution|parser.ParseComments)
	if err != nil {
		f.ParseErr = err
		return f
	}
	f.AST = af
	f.Imports = af.Imports
	wr := map[string]*wrapperDecl{}
	for _, d := range af.Decls {
		switch d := d.(type) {
		case *ast.GenDecl:
			if d.Tok != token.TYPE {
				continue
			}
			for _, s := range d.Specs {
				ts := s.(*ast.TypeSpec)
				st, ok := ts.Type.(*ast.StructType)
				if !ok || !strings.HasPrefix(ts.Name.Name, "_") {
					continue
				}
				w := &wrapperDecl{Name: ts.Name.Name, Spec: ts, Struct: st}
				wr[w.Name] = w
				f.Wrappers = append(f.Wrappers, w)
			}
		}
	}
	for _, d := range af.Decls {
		fd, ok := d.(*ast.FuncDecl)
		if !ok {
			continue
		}
		if fd.Recv != nil && len(fd.Recv.List) == 1 {
			t := fd.Recv.List[0].Type
			if st, ok := t.(*ast.StarExpr); ok {
				t = st.X
			}
			if id, ok := t.(*ast.Ident); ok {
				if w := wr[id.Name]; w != nil {
					w.Methods = append(w.Methods, fd)
				}
			}
			continue
		}
		if fd.Recv == nil && fd.Name.Name == "init" && fd.Body != nil && filepath.Base(rel) != fileMapTypes && filepath.Base(rel) != fileComposed {
			f.parseInit(fd)
		}
	}
	return f
}

func strLit(e ast.Expr) (string, bool) {
	bl, ok := e.(*ast.BasicLit)
	if !ok || bl.Kind != token.STRING {
		return "", false
	}
	s, err := strconv.Unquote(bl.Value)
	return s, err == nil
}

func (f *bfile) tableFor(key string, create bool) *table {
	for _, t := range f.Tables {
		if t.Key == key {
			return t
		}
	}
	if !create {
		return nil
	}
	t := &table{Key: key, Path: path.Dir(key), Name: path.Base(key)}
	f.Tables = append(f.Tables, t)
	return t
}

func isSymbolsIndex(e ast.Expr) (string, bool) {
	ix, ok := e.(*ast.IndexExpr)
	if !ok {
		return "", false
	}
	id, ok := ix.X.(*ast.Ident)
	if !ok || id.Name != "Symbols" {
		return "", false
	}
	return strLit(ix.Index)
}

func (f *bfile) parseInit(fd *ast.FuncDecl) {
	for _, st := range fd.Body.List {
		as, ok := st.(*ast.AssignStmt)
		if !ok || as.Tok != token.ASSIGN || len(as.Lhs) != 1 || len(as.Rhs) != 1 {
			f.Shape = append(f.Shape, problem{File: f.Rel, Name: fmt.Sprintf("line %d", f.Fset.Position(st.Pos()).Line), Sig: "shape", Msg: "statement in init is not a Symbols[...] assignment"})
			continue
		}
		// Symbols["k"] = map[string]reflect.Value{...}
		if key, ok := isSymbolsIndex(as.Lhs[0]); ok {
			cl, ok := as.Rhs[0].(*ast.CompositeLit)
			if !ok {
				f.Shape = append(f.Shape, problem{File: f.Rel, Table: key, Name: key, Sig: "shape", Msg: "Symbols[...] is not assigned a map literal"})
				continue
			}
			if f.tableFor(key, false) != nil {
				f.Shape = append(f.Shape, problem{File: f.Rel, Table: key, Name: key, Sig: "shape", Msg: "table assigned twice in one file"})
				continue
			}
			t := f.tableFor(key, true)
			for _, el := range cl.Elts {
				kv, ok := el.(*ast.KeyValueExpr)
				if !ok {
					f.Shape = append(f.Shape, problem{File: f.Rel, Table: key, Name: key, Sig: "shape", Msg: "map literal element without key"})
					continue
				}
				name, ok := strLit(kv.Key)
				if !ok {
					f.Shape = append(f.Shape, problem{File: f.Rel, Table: key, Name: key, Sig: "shape", Msg: "map key is not a string literal"})
					continue
				}
				e := f.classify(kv.Value)
				e.Key = name
				e.KV = f.span(kv)
				t.Entries = append(t.Entries, e)
			}
			continue
		}
		// Symbols["k"]["n"] = reflect.ValueOf(...)
		if ix, ok := as.Lhs[0].(*ast.IndexExpr); ok {
			if key, ok := isSymbolsIndex(ix.X); ok {
				if name, ok := strLit(ix.Index); ok {
					t := f.tableFor(key, true)
					e := f.classify(as.Rhs[0])
					e.Key = name
					e.KV = f.span(as)
					t.Indexed = true
					t.Entries = append(t.Entries, e)
					continue
				}
			}
		}
		f.Shape = append(f.Shape, problem{File: f.Rel, Name: fmt.Sprintf("line %d", f.Fset.Position(st.Pos()).Line), Sig: "shape", Msg: "statement in init is not a Symbols[...] assignment"})
	}
}

// qualSel decomposes pkg.Name.
func qualSel(e ast.Expr) (string, string, bool) {
	se, ok := e.(*ast.SelectorExpr)
	if !ok {
		return "", "", false
	}
	id, ok := se.X.(*ast.Ident)
	if !ok {
		return "", "", false
	}
	return id.Name, se.Sel.Name, true
}

// classify recognises the value expression of an entry.
func (f *bfile) classify(v ast.Expr) *entry {
	e := &entry{Form: formBad, Val: f.span(v)}
	call, ok := v.(*ast.CallExpr)
	if !ok {
		e.Bad = "value is not a call"
		return e
	}
	elem := false
	if se, ok := call.Fun.(*ast.SelectorExpr); ok && se.Sel.Name == "Elem" && len(call.Args) == 0 {
		if inner, ok := se.X.(*ast.CallExpr); ok {
			elem = true
			call = inner
		}
	}
	rq, rs, ok := qualSel(call.Fun)
	if !ok || rs != "ValueOf" || len(call.Args) != 1 || call.Ellipsis.IsValid() {
		e.Bad = "value is not reflect.ValueOf(x)"
		return e
	}
	e.RQual = rq
	arg := call.Args[0]
	e.Inner = f.span(arg)
	e.Form = formOther
	if elem {
		ue, ok := arg.(*ast.UnaryExpr)
		if !ok || ue.Op != token.AND {
			e.Bad = ".Elem() applied to something else than reflect.ValueOf(&pkg.Name)"
			return e
		}
		q, s, ok := qualSel(ue.X)
		if !ok {
			e.Bad = "address of something else than pkg.Name"
			return e
		}
		e.Form, e.Qual, e.Sel = formAddr, q, s
		e.Inner = f.span(ue.X)
		return e
	}
	switch a := arg.(type) {
	case *ast.SelectorExpr:
		if q, s, ok := qualSel(a); ok {
			e.Form, e.Qual, e.Sel = formPlain, q, s
			return e
		}
	case *ast.Ident:
		e.Form, e.Sel = formLocal, a.Name
		return e
	case *ast.CallExpr:
		// (*T)(nil)
		if pe, ok := a.Fun.(*ast.ParenExpr); ok {
			if st, ok := pe.X.(*ast.StarExpr); ok && len(a.Args) == 1 && !a.Ellipsis.IsValid() {
				if id, ok := a.Args[0].(*ast.Ident); ok && id.Name == "nil" {
					if q, s, ok := qualSel(st.X); ok {
						e.Form, e.Qual, e.Sel = formType, q, s
						e.Inner = f.span(st.X)
						return e
					}
					if id, ok := st.X.(*ast.Ident); ok {
						e.Form, e.Sel = formLocalType, id.Name
						e.Inner = f.span(st.X)
						return e
					}
				}
			}
		}
		// constant.MakeFromLiteral("lit", token.X, 0)
		if q, s, ok := qualSel(a.Fun); ok && s == "MakeFromLiteral" && len(a.Args) == 3 && !a.Ellipsis.IsValid() {
			lit, ok1 := strLit(a.Args[0])
			tq, ts, ok2 := qualSel(a.Args[1])
			z, ok3 := a.Args[2].(*ast.BasicLit)
			if ok1 && ok2 && ok3 && z.Kind == token.INT && z.Value == "0" {
				e.Form, e.CQual, e.TQual, e.Lit, e.Tok = formLit, q, tq, lit, ts
				e.LitSp = f.span(a.Args[0])
				return e
			}
		}
	}
	e.Bad = "argument of reflect.ValueOf is not pkg.Name, &pkg.Name, (*pkg.Name)(nil) or constant.MakeFromLiteral(lit, token.X, 0)"
	return e
}

// wrapperPrefix is the prefix extract gives the interface wrappers of a package.
func wrapperPrefix(importPath string) string {
	return strings.NewReplacer("/", "_", "-", "_", ".", "_", "~", "_").Replace("_" + importPath + "_")
}
