// Package c14 checks that every standard-library binding of yaegi denotes the
// symbol it is named after: a go/parser walk over the binding files decided
// against go/types (golang.org/x/tools/go/packages, installed GOROOT) and the
// GOROOT/api/go1*.txt files.
package c14

import (
	"crypto/sha256"
	"encoding/json"
	"fmt"
	"os"
	"os/exec"
	"path/filepath"
	"runtime"
	"sort"
	"strings"
	"time"

	"verif/internal/vf"
)

// unit is the set of binding files that share one type-check of the wrapped
// packages: both release files of one package, or all four syscall /
// unrestricted files of one platform.
type unit struct {
	ID     string
	Kind   string // std, syscall, unsafe, unrestricted, self, composed
	GOOS   string // "" = host
	GOARCH string
	Files  []string // relative to the stdlib directory
}

// installedMinor is N of the go1.N toolchain (and GOROOT) in use.
func installedMinor() int {
	n := 0
	fmt.Sscanf(runtime.Version(), "go1.%d", &n)
	return n
}

func stdlibDir() string {
	if d := os.Getenv("VERIF_C14_STDLIB_DIR"); d != "" {
		return d
	}
	if d := os.Getenv("VERIF_REPO"); d != "" {
		// a scratch copy of the repository (seeded-change runs)
		return d + "/stdlib"
	}
	return "/repo/stdlib"
}

func overridden() bool { return os.Getenv("VERIF_C14_STDLIB_DIR") != "" }

func apiDir() (string, error) {
	if d := os.Getenv("VERIF_C14_API_DIR"); d != "" {
		return d, nil
	}
	out, err := exec.Command("go", "env", "GOROOT").Output()
	if err != nil {
		return "", fmt.Errorf("go env GOROOT: %v", err)
	}
	return filepath.Join(strings.TrimSpace(string(out)), "api"), nil
}

// listUnits enumerates the binding files under root.
func listUnits(root string) ([]*unit, error) {
	byID := map[string]*unit{}
	get := func(id, kind, goos, goarch string) *unit {
		u := byID[id]
		if u == nil {
			u = &unit{ID: id, Kind: kind, GOOS: goos, GOARCH: goarch}
			byID[id] = u
		}
		return u
	}
	addGlob := func(pattern string, fn func(rel string)) error {
		m, err := filepath.Glob(filepath.Join(root, pattern))
		if err != nil {
			return err
		}
		sort.Strings(m)
		for _, p := range m {
			fn(relOf(root, p))
		}
		return nil
	}
	err := addGlob("go1_*.go", func(rel string) {
		m := fileNameRE.FindStringSubmatch(rel)
		if m == nil {
			return
		}
		u := get("std:"+m[2], "std", "", "")
		u.Files = append(u.Files, rel)
	})
	if err != nil {
		return nil, err
	}
	for _, d := range []string{dirSyscall, dirUnrestrict, dirUnsafe} {
		d := d
		err := addGlob(d+"/*.go", func(rel string) {
			base := filepath.Base(rel)
			if strings.HasSuffix(base, "_test.go") {
				return
			}
			if m := fileNameRE.FindStringSubmatch(base); m != nil {
				if s := syscallNameRE.FindStringSubmatch(m[2]); s != nil && d != dirUnsafe {
					u := get("syscall:"+s[1]+"_"+s[2], "syscall", s[1], s[2])
					u.Files = append(u.Files, rel)
					return
				}
			}
			switch d {
			case dirUnsafe:
				u := get("unsafe", "unsafe", "", "")
				u.Files = append(u.Files, rel)
			case dirUnrestrict:
				u := get("unrestricted", "unrestricted", "", "")
				u.Files = append(u.Files, rel)
			default:
				u := get("syscall-self", "self", "", "")
				u.Files = append(u.Files, rel)
			}
		})
		if err != nil {
			return nil, err
		}
	}
	for _, n := range []string{fileComposed, fileMapTypes} {
		if _, err := os.Stat(filepath.Join(root, n)); err == nil {
			u := get("composed", "composed", "", "")
			u.Files = append(u.Files, n)
		}
	}
	var out []*unit
	for _, u := range byID {
		sort.Strings(u.Files)
		out = append(out, u)
	}
	sort.Slice(out, func(i, j int) bool { return out[i].ID < out[j].ID })
	return out, nil
}

// selectUnits applies the tier: quick keeps every non-syscall unit, the host
// syscall platform and six further platforms picked by the seed.
func selectUnits(all []*unit, tier string, seed int64) (sel []*unit, dropped int) {
	if tier != "quick" {
		return all, 0
	}
	type cand struct {
		u *unit
		h string
	}
	var cands []cand
	for _, u := range all {
		if u.Kind != "syscall" || (u.GOOS == runtime.GOOS && u.GOARCH == runtime.GOARCH) {
			sel = append(sel, u)
			continue
		}
		h := sha256.Sum256([]byte(fmt.Sprintf("c14|%d|%s", seed, u.ID)))
		cands = append(cands, cand{u, fmt.Sprintf("%x", h[:8])})
	}
	sort.Slice(cands, func(i, j int) bool { return cands[i].h < cands[j].h })
	for i, c := range cands {
		if i < 6 {
			sel = append(sel, c.u)
		} else {
			dropped++
		}
	}
	sort.Slice(sel, func(i, j int) bool { return sel[i].ID < sel[j].ID })
	return sel, dropped
}

// loadedUnit is a unit with its parsed files and type information.
type loadedUnit struct {
	u     *unit
	files []*bfile
	w     *world
}

func parseUnit(root string, u *unit) ([]*bfile, error) {
	var fs []*bfile
	for _, rel := range u.Files {
		abs := filepath.Join(root, filepath.FromSlash(rel))
		src, err := os.ReadFile(abs)
		if err != nil {
			return nil, err
		}
		fs = append(fs, parseBinding(abs, rel, src))
	}
	return fs, nil
}

var composedPkgs = []string{"bufio", "io", "net", "net/http", "encoding", "encoding/json", "encoding/xml", "fmt", "log", "reflect"}

// hostPaths lists the packages the tables of the files wrap.
func hostPaths(files []*bfile, kind string) []string {
	var out []string
	for _, f := range files {
		for _, t := range f.Tables {
			if !isSelfTable(t) && t.Path != "unsafe" {
				out = append(out, t.Path)
			}
		}
	}
	if kind == "composed" {
		out = append(out, composedPkgs...)
	}
	return out
}

func dedup(s []string) []string {
	sort.Strings(s)
	var out []string
	for i, x := range s {
		if i == 0 || x != s[i-1] {
			out = append(out, x)
		}
	}
	return out
}

// checkUnit runs every check on the files of one unit.
func checkUnit(lu *loadedUnit, api *apiDB, st *stats) ([]problem, error) {
	var out []problem
	w := lu.w
	for _, f := range lu.files {
		f.Unpinned = f.GOOS != "" && f.Release != 0 && f.Release < installedMinor() && !api.tracked(f.GOOS, f.GOARCH, f.Release)
	}
	for _, f := range lu.files {
		if f.ParseErr != nil {
			out = append(out, problem{File: f.Rel, Name: "file", Sig: "parse", Msg: f.ParseErr.Error()})
			continue
		}
		out = append(out, f.Shape...)
		base := filepath.Base(f.Rel)
		if lu.u.Kind == "composed" {
			if base == fileComposed {
				ps, err := checkComposed(f, w, st)
				if err != nil {
					return nil, err
				}
				out = append(out, ps...)
			}
			ps, err := checkMapTypes(f, w, st)
			if err != nil {
				return nil, err
			}
			out = append(out, ps...)
			continue
		}
		for _, t := range f.Tables {
			ps, err := checkTable(f, t, w, st)
			if err != nil {
				return nil, err
			}
			out = append(out, ps...)
		}
		ps, err := checkWrappers(f, w, api, st)
		if err != nil {
			return nil, err
		}
		for _, p := range ps {
			if f.Unpinned && p.Sig != "wrapper-forward" && p.Sig != "wrapper-unbound" && p.Sig != "wrapper-undeclared" && p.Sig != "wrapper-orphan" {
				// type-level comparisons against a newer GOROOT on an untracked port
				st.skipped["undecidable-untracked-port-vs-newer-goroot"]++
				if len(st.undecided) < 40 {
					st.undecided = append(st.undecided, fmt.Sprintf("%s %s: %s", p.File, p.Name, p.Msg))
				}
				continue
			}
			out = append(out, p)
		}
	}
	// completeness per (release, table key)
	for _, f := range lu.files {
		if f.ParseErr != nil || f.Release == 0 || f.Dir == dirUnrestrict {
			continue
		}
		for _, t := range f.Tables {
			if isSelfTable(t) {
				continue
			}
			ctx := ""
			if f.Dir == dirSyscall {
				if !api.tracked(f.GOOS, f.GOARCH, f.Release) {
					st.skipped["completeness-not-claimed-port-untracked-by-api-files"]++
					continue
				}
				ctx = f.GOOS + "-" + f.GOARCH
			}
			bound := map[string]bool{}
			for _, g := range lu.files {
				if g.ParseErr != nil || (g.Release != f.Release && g.Release != 0) {
					continue
				}
				if gt := g.tableFor(t.Key, false); gt != nil {
					for _, e := range gt.Entries {
						bound[e.Key] = true
					}
				}
			}
			out = append(out, checkCompleteness(api, f.Rel, t.Key, f.Release, ctx, bound, w, st)...)
		}
	}
	return out, nil
}

func loadUnit(root, scratch string, u *unit, files []*bfile, host *world) (*loadedUnit, error) {
	lu := &loadedUnit{u: u, files: files}
	if u.Kind == "syscall" {
		w, err := loadWorld(scratch, u.GOOS, u.GOARCH, []string{"syscall"})
		if err != nil {
			return nil, err
		}
		lu.w = w
		return lu, nil
	}
	lu.w = host
	return lu, nil
}

const maxReportsPerUnit = 12

func run(ctx *vf.Ctx) {
	start := time.Now()
	root := stdlibDir()
	ad, err := apiDir()
	if err != nil {
		ctx.Inconclusive("%v", err)
		return
	}
	api, err := loadAPI(ad)
	if err != nil {
		ctx.Inconclusive("%v", err)
		return
	}
	all, err := listUnits(root)
	if err != nil || len(all) == 0 {
		ctx.Inconclusive("no binding files under %s: %v", root, err)
		return
	}
	sel, dropped := selectUnits(all, ctx.Tier, ctx.Seed)
	if ctx.Shard == 0 {
		if dropped > 0 {
			ctx.Note("quick tier: %d of %d units checked; %d syscall platforms left to the thorough tier (space not enumerated completely)", len(sel), len(all), dropped)
		} else {
			ctx.Note("all %d units (every binding file) enumerated: exhaustive over the finite space", len(all))
		}
		ctx.Note("api files: %s (newest go1.%d.txt, %d lines removed by except.txt)", ad, api.maxRel, api.excepted)
		checkRestrictedList(ctx)
	}
	var mine []*unit
	for i, u := range sel {
		if i%ctx.NShards == ctx.Shard {
			mine = append(mine, u)
		}
	}
	// parse, then one host load for all host units of this shard
	parsed := map[string][]*bfile{}
	var hostNeed []string
	for _, u := range mine {
		fs, err := parseUnit(root, u)
		if err != nil {
			ctx.Inconclusive("%v", err)
			return
		}
		parsed[u.ID] = fs
		if u.Kind != "syscall" {
			hostNeed = append(hostNeed, hostPaths(fs, u.Kind)...)
		}
	}
	_ = os.MkdirAll(ctx.Scratch, 0o755)
	host, err := loadWorld(ctx.Scratch, runtime.GOOS, runtime.GOARCH, dedup(hostNeed))
	if err != nil {
		ctx.Inconclusive("loading host packages: %v", err)
		return
	}
	st := newStats(true)
	var loaded []*loadedUnit
	nfiles := 0
	for _, u := range mine {
		lu, err := loadUnit(root, ctx.Scratch, u, parsed[u.ID], host)
		if err != nil {
			ctx.Inconclusive("loading %s: %v", u.ID, err)
			continue
		}
		ps, err := checkUnit(lu, api, st)
		if err != nil {
			ctx.Inconclusive("%s: %v", u.ID, err)
			continue
		}
		nfiles += len(lu.files)
		if !overridden() {
			ps = append(ps, runtimeCrossCheck(lu, st)...)
		}
		for i, p := range ps {
			if i >= maxReportsPerUnit {
				ctx.Note("unit %s: %d further problems not reported individually", u.ID, len(ps)-i)
				break
			}
			ctx.ReportViolation(p.signature(), p.Msg, p)
		}
		if len(ps) == 0 {
			loaded = append(loaded, lu)
		}
	}
	ctx.EvalN(st.bindings)
	for k, v := range st.forms {
		ctx.ClassN(k, v)
	}
	for k, v := range st.skipped {
		ctx.ClassN("skipped:"+k, v)
	}
	for _, k := range st.nontrivial {
		ctx.Nontrivial(k)
	}
	for _, s := range st.samples {
		ctx.Sample(s, 3)
	}
	for _, s := range st.undecided {
		ctx.Note("undecidable (port untracked by the API files, installed GOROOT newer than the file's release): %s", s)
	}
	ctx.SetExtra("files_checked", float64(nfiles))
	ctx.SetExtra("units_checked", float64(len(mine)))
	ctx.SetExtra("enumeration_seconds_max_shard", time.Since(start).Seconds())
	if overridden() {
		ctx.Note("VERIF_C14_STDLIB_DIR is set: runtime cross-check of the compiled-in tables skipped")
	}
	// sensitivity campaign: every corruption of a clean file must be reported
	mutationCampaign(ctx, loaded, api)
}

// checkRestrictedList compares the hard-coded replacement list with the
// `restricted` map of extract/extract.go (a note, not a verdict).
func checkRestrictedList(ctx *vf.Ctx) {
	b, err := os.ReadFile(filepath.Join(filepath.Dir(stdlibDir()), "extract", "extract.go"))
	if err != nil {
		return
	}
	want := map[string]bool{}
	for p, m := range restrictedFuncs {
		for _, l := range m {
			_ = p
			want[l] = true
		}
	}
	for _, m := range restrictedTypes {
		for _, l := range m {
			want[l] = true
		}
	}
	src := string(b)
	i := strings.Index(src, "var restricted = map[string]bool{")
	if i < 0 {
		ctx.Note("extract.go: restricted map not found")
		return
	}
	body := src[i:]
	if j := strings.Index(body, "\n}"); j >= 0 {
		body = body[:j]
	}
	got := map[string]bool{}
	for _, l := range strings.Split(body, "\n")[1:] {
		l = strings.TrimSpace(l)
		if strings.HasPrefix(l, "\"") {
			if k := strings.Index(l[1:], "\""); k >= 0 {
				got[l[1:1+k]] = true
			}
		}
	}
	if fmt.Sprint(keys(got)) != fmt.Sprint(keys(want)) {
		ctx.Note("extract.go restricted map %v differs from the list the check accepts %v", keys(got), keys(want))
	}
}

func keys(m map[string]bool) []string {
	var out []string
	for k := range m {
		out = append(out, k)
	}
	sort.Strings(out)
	return out
}

// replay re-checks the unit of the named file and reports whether the named
// problem is still present.
func replay(ctx *vf.Ctx, data json.RawMessage) (string, string) {
	var p problem
	if err := json.Unmarshal(data, &p); err != nil {
		return "bad replay file: " + err.Error(), "harness"
	}
	root := stdlibDir()
	ad, err := apiDir()
	if err != nil {
		return err.Error(), "harness"
	}
	api, err := loadAPI(ad)
	if err != nil {
		return err.Error(), "harness"
	}
	all, err := listUnits(root)
	if err != nil {
		return err.Error(), "harness"
	}
	for _, u := range all {
		has := false
		for _, f := range u.Files {
			if f == p.File {
				has = true
			}
		}
		if !has {
			continue
		}
		fs, err := parseUnit(root, u)
		if err != nil {
			return err.Error(), "harness"
		}
		_ = os.MkdirAll(ctx.Scratch, 0o755)
		var host *world
		if u.Kind != "syscall" {
			host, err = loadWorld(ctx.Scratch, runtime.GOOS, runtime.GOARCH, dedup(hostPaths(fs, u.Kind)))
			if err != nil {
				return err.Error(), "harness"
			}
		}
		lu, err := loadUnit(root, ctx.Scratch, u, fs, host)
		if err != nil {
			return err.Error(), "harness"
		}
		st := newStats(false)
		ps, err := checkUnit(lu, api, st)
		if err != nil {
			return err.Error(), "harness"
		}
		if !overridden() {
			ps = append(ps, runtimeCrossCheck(lu, st)...)
		}
		for _, q := range ps {
			if q.File == p.File && q.Table == p.Table && q.Name == p.Name && q.Sig == p.Sig {
				return q.Msg, q.signature()
			}
		}
		return "", ""
	}
	return "", ""
}

func init() {
	vf.Register(&vf.Check{
		ID:    "C14",
		Level: "exploration",
		Rule:  "finite space enumerated with go/parser: every \"Name\": reflect.ValueOf(..) entry of every Symbols[..] table in stdlib/go1_*.go, stdlib/{syscall,unsafe,unrestricted}/*.go, every _pkg_I wrapper struct with its methods, wrapper-composed.go and maptypes.go; oracle = go/types view of the wrapped package (go/packages, installed GOROOT, per GOOS/GOARCH for syscall) for shape, kind and constant value, GOROOT/api/go1*.txt (<= the file's release, minus except.txt) for completeness; evaluations = bindings + wrapper structs checked; non-trivial = entries that are not the plain identically named func/type: literal and typed constants, address-form variables, restricted replacements, unsafe shims, wrapper entries and wrapper structs (distinct by file, table, key and literal); cases = seeded corruptions of clean files (swap two values, change a literal digit, drop an entry, address form to plain, rename a W field, drop a variadic ..., retarget a forward) that the checker must report (sensitivity self-check, class mutation-detected)",
		Assumptions: []string{
			"go/types of the installed GOROOT (go1.23) stands for the go1.21/go1.22 packages: by the Go 1 compatibility promise every API object of those releases still exists with the same kind, signature and constant value; binding entries whose object is missing from the installed GOROOT are reported",
			"completeness is demanded only from GOROOT/api/go1.txt..go1.<release>.txt lines minus except.txt; syscall ports the API files do not track (and names absent from the installed GOROOT, generic objects, constraint interfaces, unsafe builtins) get no completeness claim (counted under skipped:*)",
			"for syscall the table of a platform and release is the union of stdlib/syscall and stdlib/unrestricted (the go:generate lines split the package by -exclude/-include)",
			"interface methods first listed in an API file newer than the file's release are optional in a wrapper",
			"the four Symbols[\"unsafe/unsafe\"][..] shims for builtins (Add, Sizeof, Alignof, Offsetof) cannot be bound as values; only their names are checked against the builtins of package unsafe",
			"tables keyed github.com/traefik/yaegi/... describe yaegi itself and are outside the property",
			"a float literal is accepted when it equals the package constant exactly or is textually what extract.fixConst prints for it",
		},
		Cases:  map[string]int{"quick": 480, "thorough": 6400},
		Shards: map[string]int{"quick": 16, "thorough": 16},
		Run:    run,
		Replay: replay,
	})
}
