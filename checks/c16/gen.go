package c16

import (
	"fmt"
	"path"
	"sort"
	"strings"

	"pgregory.net/rapid"

	"verif/internal/vf"
)

// features are the generator switches; each false value excludes a construct
// family because of a recorded known finding (see known.go for the
// predicates, which are shared with the failure classifier).
type features struct {
	on map[string]bool
}

func feats() features {
	f := features{on: map[string]bool{}}
	for _, k := range knownKeys {
		f.on[k] = !vf.IsKnown("C16", k)
	}
	return f
}

var namePool = []string{"a", "b", "c", "x"}
var depthPool = []int{1, 1, 1, 2, 2, 2, 3, 3, 4}

const maxSegs = 10

func genPath(t *rapid.T, lbl string, maxDepth int) []string {
	n := rapid.SampledFrom(depthPool).Draw(t, lbl+"-depth")
	if n > maxDepth {
		n = maxDepth
	}
	s := make([]string, n)
	for i := range s {
		s[i] = rapid.SampledFrom(namePool).Draw(t, lbl)
	}
	return s
}

// pct is true with probability of about p percent. It is built from
// unbiased bits (rapid's integer generators favour small values) and shrinks
// towards false.
func pct(t *rapid.T, lbl string, p int) bool {
	v := 0
	for i := 0; i < 4; i++ {
		v <<= 1
		if rapid.Bool().Draw(t, lbl) {
			v |= 1
		}
	}
	return v >= 16-(p*16+50)/100
}

// uniform draws an (almost) uniform integer in [0,n) from unbiased bits.
func uniform(t *rapid.T, lbl string, n int) int {
	v, span := 0, 1
	for span < n*8 {
		v <<= 1
		if rapid.Bool().Draw(t, lbl) {
			v |= 1
		}
		span <<= 1
	}
	return v % n
}

// genDirs draws the package directories; dirs[0] is the main directory.
func genDirs(t *rapid.T) []string {
	mainDir := strings.Join(genPath(t, "main", 3), "/")
	dirs := []string{mainDir}
	have := map[string]bool{mainDir: true}
	add := func(d string) {
		if d == "" || have[d] || len(segs(d)) > maxSegs {
			return
		}
		s := segs(d)
		if s[len(s)-1] == "vendor" {
			return
		}
		have[d] = true
		dirs = append(dirs, d)
	}
	n := 2 + uniform(t, "npkgs", 9)
	for k := 0; k < n; k++ {
		kind := uniform(t, "kind", 100)
		switch {
		case kind < 30: // plain package under GOPATH/src
			add(strings.Join(genPath(t, "top", 4), "/"))
		case kind < 80: // vendored under an ancestor of an existing package
			pool := dirs
			if kind >= 62 {
				// prefer an anchor that is itself vendored: vendor in vendor
				var v []string
				for _, d := range dirs {
					if vendorCount(d) > 0 {
						v = append(v, d)
					}
				}
				if len(v) > 0 {
					pool = v
				}
			}
			anchor := segs(rapid.SampledFrom(pool).Draw(t, "anchor"))
			// candidate parents: every prefix of the anchor not ending in vendor
			var parents []string
			for i := 0; i <= len(anchor); i++ {
				if i > 0 && anchor[i-1] == "vendor" {
					continue
				}
				parents = append(parents, strings.Join(anchor[:i], "/"))
			}
			// bias towards deep parents (the anchor itself and its parent)
			pi := len(parents) - 1 - rapid.SampledFrom([]int{0, 0, 0, 1, 1, 2, 3, 4}).Draw(t, "up")
			if pi < 0 {
				pi = 0
			}
			parent := parents[pi]
			var p string
			if len(dirs) > 1 && pct(t, "dup", 55) {
				p = canonical(rapid.SampledFrom(dirs[1:]).Draw(t, "dup-of"))
			}
			if p == "" {
				p = strings.Join(genPath(t, "vend", 3), "/")
			}
			add(path.Join(parent, "vendor", p))
		default: // sub-package of an existing package
			anchor := rapid.SampledFrom(dirs).Draw(t, "sub-anchor")
			add(path.Join(anchor, strings.Join(genPath(t, "sub", 2), "/")))
		}
	}
	return dirs
}

// relPath returns the relative import path from directory from to directory
// to ("./x", "../y/z"), or "" when it needs more than two "..".
func relPath(from, to string) string {
	a, b := segs(from), segs(to)
	i := 0
	for i < len(a) && i < len(b) && a[i] == b[i] {
		i++
	}
	ups := len(a) - i
	if ups > 2 || i == len(b) {
		return ""
	}
	rest := strings.Join(b[i:], "/")
	if ups == 0 {
		return "./" + rest
	}
	return strings.Repeat("../", ups) + rest
}

// genState carries what the import filters need.
type genState struct {
	f      features
	tr     *tree
	chosen map[string]string // import path -> directory
	relT   map[string]bool   // targets of relative imports
	absT   map[string]bool   // targets of non-relative imports
	// filtered counts candidate imports rejected per known-finding key
	filtered map[string]int
}

// allowed tells whether package d may import p (resolving to to) given the
// exclusion switches.
func (g *genState) allowed(d, p, to string, local map[string]string) bool {
	ed := edge{d, p, to}
	// The gc compiler refuses a package whose source imports its own import
	// path string, even when vendoring maps it to another directory; such an
	// import is only generated as a true self-cycle.
	if !isRel(p) && p == canonical(d) && to != d {
		return false
	}
	for _, k := range edgeKeys {
		if k != "main-location-unknown" && !g.f.on[k] && g.tr.edgeFeature(k, ed) {
			g.filtered[k]++
			return false
		}
	}
	if !g.f.on["same-path-two-dirs"] {
		if prev, ok := g.chosen[p]; ok && prev != to {
			g.filtered["same-path-two-dirs"]++
			return false
		}
		if prev, ok := local[p]; ok && prev != to {
			return false
		}
	}
	if !g.f.on["relative-and-absolute-twice"] {
		if isRel(p) && g.absT[to] || !isRel(p) && g.relT[to] {
			g.filtered["relative-and-absolute-twice"]++
			return false
		}
	}
	if !g.f.on["relative-import-root"] && g.relT[d] && g.tr.relRootFeature(ed) {
		g.filtered["relative-import-root"]++
		return false
	}
	return true
}

func (g *genState) commit(p, to string) {
	g.chosen[p] = to
	if isRel(p) {
		g.relT[to] = true
	} else {
		g.absT[to] = true
	}
}

// genCase draws a tree: an acyclic base graph, and for about a fifth of the
// cases back edges closing an import cycle.
func genCase(t *rapid.T, f features) (*Case, map[string]int) {
	dirs := genDirs(t)
	c := &Case{Modes: []string{"mapfs", "disk"}}
	for _, d := range dirs {
		c.Pkgs = append(c.Pkgs, Pkg{Dir: d})
	}
	g := &genState{f: f, tr: newTree(c), chosen: map[string]string{}, relT: map[string]bool{}, absT: map[string]bool{}, filtered: map[string]int{}}
	m := g.tr.m
	mainDir := dirs[0]

	// canonical import paths, sorted
	cset := map[string]bool{}
	for _, d := range dirs[1:] {
		cset[canonical(d)] = true
	}
	var cpaths []string
	for p := range cset {
		cpaths = append(cpaths, p)
	}
	sort.Strings(cpaths)

	// a random total order keeps the base graph acyclic
	// (creation order lets a package import what was vendored below it
	// later, which is what makes vendor-in-vendor chains reachable)
	rank := map[string]int{mainDir: -1}
	for i, d := range dirs[1:] {
		rank[d] = i
	}
	if len(dirs) > 1 && pct(t, "shuffle", 40) {
		perm := rapid.Permutation(dirs[1:]).Draw(t, "rank")
		for i, d := range perm {
			rank[d] = i
		}
	}

	for i := range c.Pkgs {
		d := c.Pkgs[i].Dir
		type cand struct {
			p, to  string
			vendor bool
		}
		var cands []cand
		if i == 0 {
			// relative imports first: the filters of the other packages
			// depend on which directories main reaches relatively
			for _, to := range dirs[1:] {
				if vendorCount(to) > 0 {
					continue
				}
				if rp := relPath(d, to); rp != "" {
					cands = append(cands, cand{rp, to, true})
				}
			}
		}
		for _, p := range cpaths {
			to, ok := m.resolve(d, p)
			if !ok || to == mainDir || rank[to] <= rank[d] {
				continue
			}
			cands = append(cands, cand{p, to, to != p})
		}
		nimp := 0
		for _, cd := range cands {
			prob := 40
			if cd.vendor {
				prob = 65
			}
			if isRel(cd.p) {
				prob = 20
				if nimp >= 2 {
					prob = 0
				}
			}
			if !pct(t, "imp", prob) || nimp >= 5 {
				continue
			}
			if !g.allowed(d, cd.p, cd.to, nil) {
				continue
			}
			g.commit(cd.p, cd.to)
			c.Pkgs[i].Imports = append(c.Pkgs[i].Imports, cd.p)
			nimp++
		}
		if i == 0 && nimp < 2 {
			// main imports two packages whenever it can
			have := map[string]bool{}
			for _, p := range c.Pkgs[i].Imports {
				have[p] = true
			}
			for _, cd := range cands {
				if nimp < 2 && !have[cd.p] && !isRel(cd.p) && g.allowed(d, cd.p, cd.to, nil) {
					g.commit(cd.p, cd.to)
					c.Pkgs[i].Imports = append(c.Pkgs[i].Imports, cd.p)
					nimp++
				}
			}
		}
	}

	if pct(t, "cyclic", 25) {
		addCycle(t, c, g, cpaths)
	}
	c.AbsMain = pct(t, "absmain", 40)
	c.Prelude = pct(t, "prelude", 30)
	c.Named = pct(t, "named", 30)
	if !f.on["main-location-unknown"] {
		for _, p := range c.Pkgs[0].Imports {
			if to, ok := m.resolve(mainDir, p); ok && g.tr.edgeFeature("main-location-unknown", edge{mainDir, p, to}) {
				c.Modes, c.AbsMain = []string{"disk"}, false
				g.filtered["main-location-unknown"] = 1
			}
		}
	}
	return c, g.filtered
}

// addCycle adds imports closing a cycle of length 1-4 through packages that
// are reachable from main. It reports the cycle length (0: none possible).
func addCycle(t *rapid.T, c *Case, g *genState, cpaths []string) int {
	m := g.tr.m
	e := m.expect()
	if e.bad != "" || len(e.reach) < 2 {
		return 0
	}
	mainDir := c.Pkgs[0].Dir
	starts := e.reach[1:]
	// long cycles are rarely possible, so they are tried first more often
	want := []int{1, 2, 2, 3, 3, 3, 4, 4, 4, 4}[uniform(t, "cyclen", 10)]
	rot := rapid.IntRange(0, 63).Draw(t, "cycrot")
	type step struct{ from, p, to string }
	out := func(d string) []step {
		var s []step
		for _, p := range cpaths {
			to, ok := m.resolve(d, p)
			if ok && to != mainDir {
				s = append(s, step{d, p, to})
			}
		}
		if len(s) > 0 {
			r := rot % len(s)
			s = append(s[r:], s[:r]...)
		}
		return s
	}
	var find func(start, cur string, left int, used map[string]bool, local map[string]string, acc []step) []step
	find = func(start, cur string, left int, used map[string]bool, local map[string]string, acc []step) []step {
		for _, st := range out(cur) {
			if !g.allowed(st.from, st.p, st.to, local) {
				continue
			}
			if left == 1 {
				if st.to == start {
					return append(acc, st)
				}
				continue
			}
			if used[st.to] || st.to == start {
				continue
			}
			used[st.to] = true
			old, had := local[st.p]
			local[st.p] = st.to
			if r := find(start, st.to, left-1, used, local, append(acc, st)); r != nil {
				return r
			}
			if had {
				local[st.p] = old
			} else {
				delete(local, st.p)
			}
			delete(used, st.to)
		}
		return nil
	}
	var order []int
	for k := want; k >= 1; k-- {
		order = append(order, k)
	}
	for k := want + 1; k <= 4; k++ {
		order = append(order, k)
	}
	for _, k := range order {
		for si := range starts {
			start := starts[(si+rot)%len(starts)]
			steps := find(start, start, k, map[string]bool{}, map[string]string{}, nil)
			if steps == nil {
				continue
			}
			for _, st := range steps {
				pk := &c.Pkgs[m.dirs[st.from]]
				has := false
				for _, p := range pk.Imports {
					if p == st.p {
						has = true
					}
				}
				if !has {
					pk.Imports = append(pk.Imports, st.p)
				}
				g.commit(st.p, st.to)
			}
			return k
		}
	}
	return 0
}

// labels classifies a case for the generator histogram and tells whether it
// is non-trivial by the check's rule.
func labels(c *Case, e *expectation) (ls []string, nontrivial bool) {
	set := map[string]bool{}
	add := func(format string, a ...any) { set[fmt.Sprintf(format, a...)] = true }
	if c.Prelude {
		add("second-program-on-the-interpreter")
	}
	if c.Named {
		add("declared-names-differ-from-directories")
	}
	nonGopath := false
	targets := map[string]map[string]bool{}
	m := newModel(c)
	for _, ed := range e.edges {
		if targets[ed.Path] == nil {
			targets[ed.Path] = map[string]bool{}
		}
		targets[ed.Path][ed.To] = true
		switch {
		case strings.HasPrefix(ed.Path, "./"):
			add("relative-./")
			nonGopath = true
		case strings.HasPrefix(ed.Path, "../"):
			add("relative-../")
			nonGopath = true
		case ed.To != ed.Path:
			nonGopath = true
			lvl := vendorLevel(ed.From, ed.Path, ed.To)
			if lvl > 3 {
				lvl = 3
			}
			add("vendor-level-%d", lvl)
			if strings.HasPrefix(ed.To, "vendor/") {
				add("vendor-at-gopath-src")
			}
			if vendorCount(ed.To) >= 2 {
				add("nested-vendor")
			}
			if _, ok := m.dirs[ed.Path]; ok {
				add("vendor-shadows-gopath")
			}
			if ed.From == c.Pkgs[0].Dir {
				add("vendor-from-main")
			}
		default:
			if vendorCount(ed.From) > 0 {
				add("gopath-from-vendored-importer")
			}
		}
		d := len(segs(canonical(ed.To)))
		if d > 4 {
			d = 4
		}
		add("import-path-depth-%d", d)
		s := segs(ed.To)
		rep := false
		for i := range s {
			for j := i + 1; j < len(s); j++ {
				if s[i] == s[j] && s[i] != "vendor" {
					rep = true
				}
			}
		}
		if rep {
			add("repeated-path-element")
		}
	}
	// the same canonical path present at several places of the tree
	place := map[string]int{}
	for _, p := range c.Pkgs[1:] {
		place[canonical(p.Dir)]++
	}
	for _, ed := range e.edges {
		if !isRel(ed.Path) && place[ed.Path] >= 2 {
			add("dup-import-path")
		}
	}
	for _, ts := range targets {
		if len(ts) >= 2 {
			add("same-path-two-dirs")
		}
	}
	diamond := false
	for _, n := range e.importers() {
		if n >= 2 {
			diamond = true
		}
	}
	if diamond {
		add("diamond")
	}
	if e.cyclic {
		add("cycle-len-%d", len(e.cycle))
		add("cyclic")
	} else {
		add("acyclic")
	}
	if len(e.reach) < len(c.Pkgs) {
		add("has-unreachable-decoy")
	}
	switch n := len(e.reach); {
	case n <= 2:
		add("reach-1..2")
	case n <= 4:
		add("reach-3..4")
	case n <= 6:
		add("reach-5..6")
	default:
		add("reach-7+")
	}
	for _, ed := range e.edges {
		if ed.From != c.Pkgs[0].Dir && !isRel(ed.Path) && ed.To != ed.Path {
			add("vendor-from-package")
			if vendorCount(ed.From) > 0 {
				add("vendor-from-vendored-importer")
			}
		}
	}
	if len(c.Modes) == 1 {
		add("mode-%s-only", c.Modes[0])
	}
	if c.AbsMain {
		add("disk-main-path-absolute")
	} else {
		add("disk-main-path-relative")
	}
	for k := range newTree(c).features(e.edges) {
		add("construct:%s", k)
	}
	for l := range set {
		ls = append(ls, l)
	}
	sort.Strings(ls)
	return ls, nonGopath && diamond
}
