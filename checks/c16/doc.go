// Package c16 holds the check of property C16.
package c16
