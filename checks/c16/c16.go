// Package c16 checks source import resolution (GOPATH + vendor + relative
// imports, once-only evaluation, cycle detection) against a hand-written
// reference model that is itself cross-checked with the Go toolchain in
// GOPATH mode.
package c16

import (
	"context"
	"encoding/json"
	"fmt"
	"io"
	"os"
	"os/exec"
	"path/filepath"
	"regexp"
	"runtime/debug"
	"strings"
	"sync"
	"time"

	"pgregory.net/rapid"

	"verif/internal/vf"
	"verif/internal/yrun"
)

// runner evaluates cases in worker subprocesses (an undetected import cycle
// recurses until the Go stack limit, which kills the process).
type runner struct {
	pool    *yrun.Pool
	scratch string
	seq     int
	oldwd   string
}

// newRunner makes scratch the working directory: disk trees are evaluated
// through a main path relative to the working directory with an absolute
// GOPATH, exactly as example/pkg/pkg_test.go does (the interpreter derives
// the main package's location under GOPATH/src from cwd + that path).
func newRunner(scratch string) (*runner, error) {
	if err := os.MkdirAll(scratch, 0o755); err != nil {
		return nil, err
	}
	abs, err := filepath.EvalSymlinks(scratch)
	if err != nil {
		return nil, err
	}
	old, _ := os.Getwd()
	if err := os.Chdir(abs); err != nil {
		return nil, err
	}
	return &runner{pool: yrun.NewPool(2, filepath.Join(abs, "pool"), "C16_WORKER=1"), scratch: abs, oldwd: old}, nil
}

func (r *runner) close() {
	r.pool.Close()
	if r.oldwd != "" {
		_ = os.Chdir(r.oldwd)
	}
}

func writeTree(root string, files map[string]string) error {
	for k, v := range files {
		p := filepath.Join(root, filepath.FromSlash(k))
		if err := os.MkdirAll(filepath.Dir(p), 0o755); err != nil {
			return err
		}
		if err := os.WriteFile(p, []byte(v), 0o644); err != nil {
			return err
		}
	}
	return nil
}

// evaluate runs the tree through the requested source filesystems.
func (r *runner) evaluate(c *Case) (map[string]yrun.Outcome, error) {
	files := c.render()
	if c.Prelude {
		for k, v := range preludeFiles() {
			files[k] = v
		}
	}
	res := map[string]yrun.Outcome{}
	var mu sync.Mutex
	var wg sync.WaitGroup
	r.seq++
	seq := r.seq
	for _, mode := range c.Modes {
		var job *yrun.Job
		var cleanup string
		switch mode {
		case "mapfs":
			m := map[string]string{}
			for k, v := range files {
				m["gp/"+k] = v
			}
			job = &yrun.Job{GoPath: "gp", Files: m, Path: "gp/" + c.mainFile()}
			if c.Prelude {
				job.BeforePath = "gp/" + preludeMain
			}
		case "disk":
			name := fmt.Sprintf("t%d", seq)
			root := filepath.Join(r.scratch, name)
			if err := writeTree(root, files); err != nil {
				return nil, err
			}
			cleanup = root
			job = &yrun.Job{GoPath: root, Path: filepath.FromSlash(name + "/" + c.mainFile())}
			if c.AbsMain {
				job.Path = filepath.Join(root, filepath.FromSlash(c.mainFile()))
			}
			if c.Prelude {
				job.BeforePath = filepath.FromSlash(name + "/" + preludeMain)
				if c.AbsMain {
					job.BeforePath = filepath.Join(root, filepath.FromSlash(preludeMain))
				}
			}
		default:
			return nil, fmt.Errorf("unknown mode %q", mode)
		}
		wg.Add(1)
		go func(mode string, job *yrun.Job, cleanup string) {
			defer wg.Done()
			out := r.pool.Run(job, 3*time.Minute)
			if out.Class == yrun.Crash {
				// the pool only keeps the tail of the dead worker's stderr;
				// the reason of a Go fatal error is at its head
				out.Err = "head of stderr on re-run: " + crashHead(job, r.scratch) + " | " + out.Err
			}
			if cleanup != "" {
				_ = os.RemoveAll(cleanup)
			}
			mu.Lock()
			res[mode] = out
			mu.Unlock()
		}(mode, job, cleanup)
	}
	wg.Wait()
	return res, nil
}

// crashHead re-runs a job that killed its worker in a one-shot worker process
// and returns the beginning of what that process wrote to stderr.
func crashHead(job *yrun.Job, dir string) string {
	self, err := os.Executable()
	if err != nil {
		return err.Error()
	}
	jr, jw, err := os.Pipe()
	if err != nil {
		return err.Error()
	}
	or, ow, err := os.Pipe()
	if err != nil {
		return err.Error()
	}
	se, err := os.CreateTemp(dir, "crash-*.err")
	if err != nil {
		return err.Error()
	}
	defer os.Remove(se.Name())
	defer se.Close()
	cmd := exec.Command(self, "worker")
	cmd.ExtraFiles = []*os.File{jr, ow}
	cmd.Stderr = se
	cmd.Env = append(os.Environ(), "C16_WORKER=1")
	if err := cmd.Start(); err != nil {
		return err.Error()
	}
	jr.Close()
	ow.Close()
	b, _ := json.Marshal(job)
	_, _ = jw.Write(append(b, '\n'))
	jw.Close()
	go func() { _, _ = io.Copy(io.Discard, or) }()
	done := make(chan struct{})
	go func() { _ = cmd.Wait(); close(done) }()
	select {
	case <-done:
	case <-time.After(3 * time.Minute):
		_ = cmd.Process.Kill()
		<-done
	}
	or.Close()
	buf := make([]byte, 600)
	n, _ := se.ReadAt(buf, 0)
	return string(buf[:n])
}

var (
	rePos   = regexp.MustCompile(`[^\s:"]*\.go:\d+:\d+:?`)
	reQuote = regexp.MustCompile(`"[^"]*"`)
	reTmp   = regexp.MustCompile(`(/[^\s:"]*)?/?(t\d+|gp)/src/[^\s:"]*`)
)

func normErr(s string) string {
	s = rePos.ReplaceAllString(s, "")
	s = reQuote.ReplaceAllString(s, `"…"`)
	s = reTmp.ReplaceAllString(s, "<dir>")
	s = strings.Join(strings.Fields(s), " ")
	if len(s) > 70 {
		s = s[:70]
	}
	return s
}

// judge compares one outcome with the model. It returns a failure signature
// and message, or an inconclusive reason.
func judge(c *Case, e *expectation, mode string, out yrun.Outcome) (sig, msg, inconclusive string) {
	stackOverflow := out.Class == yrun.Crash && (strings.Contains(out.Err, "stack overflow") || strings.Contains(out.Err, "goroutine stack exceeds"))
	switch {
	case out.Class == yrun.Timeout:
		return "", "", "wall-clock backstop hit in mode " + mode
	case out.Class == yrun.Crash && !stackOverflow:
		return "", "", "worker died in mode " + mode + ": " + out.Err
	}
	desc := func() string {
		s := out.Class
		if out.Err != "" {
			e := out.Err
			if len(e) > 300 {
				e = e[:300] + "…"
			}
			s += " (" + e + ")"
		}
		return s
	}
	if e.cyclic {
		cyc := strings.Join(append(append([]string{}, e.cycle...), e.cycle[0]), " -> ")
		switch {
		case (out.Class == yrun.Error || out.Class == yrun.Compile) && strings.Contains(out.Err, "import cycle"):
			return "", "", ""
		case out.Class == yrun.Error || out.Class == yrun.Compile:
			return "cycle-other-error:" + normErr(out.Err), fmt.Sprintf("[%s] import cycle %s: the error does not report a cycle: %s", mode, cyc, desc()), ""
		case out.Class == yrun.OK:
			return "cycle-accepted", fmt.Sprintf("[%s] import cycle %s: EvalPath returned no error", mode, cyc), ""
		case stackOverflow || out.Class == yrun.Diverged || out.Class == yrun.Deadlock:
			return "cycle-not-terminated", fmt.Sprintf("[%s] import cycle %s: no error, evaluation did not terminate (%s)", mode, cyc, out.Class), ""
		default:
			return "cycle-" + out.Class, fmt.Sprintf("[%s] import cycle %s: %s", mode, cyc, desc()), ""
		}
	}
	if out.Class != yrun.OK {
		switch {
		case stackOverflow:
			return "acyclic-not-terminated", fmt.Sprintf("[%s] acyclic tree: unbounded recursion in the interpreter", mode), ""
		case strings.Contains(out.Err, "import cycle"):
			return "false-cycle", fmt.Sprintf("[%s] acyclic tree: %s", mode, desc()), ""
		case out.Class == yrun.Error || out.Class == yrun.Compile:
			return "acyclic-error:" + normErr(out.Err), fmt.Sprintf("[%s] acyclic tree: %s", mode, desc()), ""
		default:
			return "acyclic-" + out.Class, fmt.Sprintf("[%s] acyclic tree: %s", mode, desc()), ""
		}
	}
	got := lineCounts(out.Stdout)
	if sameLines(got, e.lines) {
		return "", "", ""
	}
	sig, msg = analyse(c, e, got)
	return sig, "[" + mode + "] " + msg, ""
}

// analyse finds the import edge closest to main whose observed target
// differs from the model, and classifies it.
func analyse(c *Case, e *expectation, got map[string]int) (sig, msg string) {
	seen := map[[2]string][]string{}
	for _, l := range sortedKeys(got) {
		f := strings.Fields(l)
		if len(f) == 4 && f[0] == "see" {
			k := [2]string{f[1], f[2]}
			for i := 0; i < got[l]; i++ {
				seen[k] = append(seen[k], f[3])
			}
		}
	}
	var missing *edge
	for i, ed := range e.edges {
		ts := seen[[2]string{ed.From, ed.Path}]
		if len(ts) == 0 {
			if missing == nil {
				missing = &e.edges[i]
			}
			continue
		}
		for _, tgot := range ts {
			if tgot != ed.To {
				return classifyWrongDir(c, ed),
					fmt.Sprintf("import %q from %s resolved to %s, the model says %s", ed.Path, ed.From, tgot, ed.To)
			}
		}
		if len(ts) > 1 {
			return "report-repeated", fmt.Sprintf("package %s reported its import %q %d times", ed.From, ed.Path, len(ts))
		}
	}
	for _, d := range e.reach {
		if n := got["init "+d]; n != 1 {
			return initSig(n), fmt.Sprintf("init of package %s ran %d times, want 1", d, n)
		}
	}
	for _, l := range sortedKeys(got) {
		if e.lines[l] == 0 {
			return "unexpected-output", fmt.Sprintf("unexpected output line %q", l)
		}
	}
	if missing != nil {
		return "missing-report", fmt.Sprintf("package %s never reported its import %q", missing.From, missing.Path)
	}
	return "output-mismatch", fmt.Sprintf("output differs: want %v got %v", e.lines, got)
}

func classifyWrongDir(c *Case, ed edge) string {
	switch {
	case isRel(ed.Path):
		return "wrong-dir:relative"
	case ed.From == c.Pkgs[0].Dir:
		return "wrong-dir:from-main"
	case ed.To != ed.Path:
		return "wrong-dir:vendored"
	}
	return "wrong-dir:gopath"
}

func initSig(n int) string {
	if n == 0 {
		return "init-missing"
	}
	return "init-repeated"
}

// check evaluates a case in all its modes and judges every outcome.
func (r *runner) check(c *Case) (sig, msg, inconclusive string) {
	e := newModel(c).expect()
	if e.bad != "" {
		return "", "", "malformed case: " + e.bad
	}
	outs, err := r.evaluate(c)
	if err != nil {
		return "", "", "cannot evaluate: " + err.Error()
	}
	type verdict struct{ mode, sig, msg string }
	var fails []verdict
	for _, mode := range c.Modes {
		s, m, inc := judge(c, e, mode, outs[mode])
		if inc != "" {
			return "", "", inc
		}
		if s != "" {
			fails = append(fails, verdict{mode, s, m})
		}
	}
	if len(fails) == 0 {
		return "", "", ""
	}
	var msgs []string
	for _, f := range fails {
		msgs = append(msgs, f.msg)
	}
	sig = fails[0].sig
	// modes in which the interpreter cannot know where main is under GOPATH
	blindOnly := true
	for _, f := range fails {
		if !(f.mode == "mapfs" || f.mode == "disk" && c.AbsMain) {
			blindOnly = false
		}
	}
	if k := attribute(c, e, "", blindOnly); k != "" {
		return k, strings.Join(msgs, "; "), ""
	}
	if len(fails) < len(c.Modes) {
		sig = fails[0].mode + "-only:" + sig
		for _, mode := range c.Modes {
			if mode != fails[0].mode {
				msgs = append(msgs, fmt.Sprintf("[%s] agrees with the model", mode))
			}
		}
	} else if len(fails) == 2 && fails[0].sig != fails[1].sig {
		sig = "modes-differ:" + fails[0].sig + "|" + fails[1].sig
	}
	return sig, strings.Join(msgs, "; "), ""
}

// toolchain builds and runs the tree with the Go toolchain in GOPATH mode and
// compares with the model. A disagreement is a defect of the model (harness),
// never of the interpreter.
func (r *runner) toolchain(c *Case, e *expectation) string {
	r.seq++
	root := filepath.Join(r.scratch, fmt.Sprintf("go%d", r.seq))
	defer os.RemoveAll(root)
	if err := writeTree(root, c.render()); err != nil {
		return err.Error()
	}
	ctx, cancel := context.WithTimeout(context.Background(), 3*time.Minute)
	defer cancel()
	cmd := exec.CommandContext(ctx, "go", "run", ".")
	cmd.Dir = filepath.Join(root, "src", filepath.FromSlash(c.Pkgs[0].Dir))
	for _, kv := range os.Environ() {
		k := strings.SplitN(kv, "=", 2)[0]
		switch k {
		case "GOFLAGS", "GO111MODULE", "GOPATH", "PWD", "GOWORK":
			continue
		}
		cmd.Env = append(cmd.Env, kv)
	}
	cmd.Env = append(cmd.Env, "GOFLAGS=", "GO111MODULE=off", "GOPATH="+root, "PWD="+cmd.Dir, "GOTOOLCHAIN=local", "GOPROXY=off")
	var so, se strings.Builder
	cmd.Stdout, cmd.Stderr = &so, &se
	err := cmd.Run()
	if ctx.Err() != nil {
		return "go run timed out"
	}
	if e.cyclic {
		if err == nil || !strings.Contains(se.String(), "import cycle not allowed") {
			return fmt.Sprintf("the model says the tree is cyclic, go run said: err=%v stderr=%q", err, se.String())
		}
		return ""
	}
	if err != nil {
		return fmt.Sprintf("go run failed on an acyclic tree: %v stderr=%q", err, se.String())
	}
	if got := lineCounts(so.String()); !sameLines(got, e.lines) {
		return fmt.Sprintf("go run output differs from the model: want %v got %v", e.lines, got)
	}
	return ""
}

func toolchainEligible(c *Case) bool {
	for _, p := range c.Pkgs {
		for _, ip := range p.Imports {
			if isRel(ip) {
				return false
			}
		}
	}
	return true
}

func run(ctx *vf.Ctx) {
	r, err := newRunner(ctx.Scratch)
	if err != nil {
		ctx.Inconclusive("cannot set up scratch: %v", err)
		return
	}
	defer r.close()
	f := feats()
	xAcyclic, xCyclic := 3, 1
	if ctx.Tier == "thorough" {
		xAcyclic, xCyclic = 6, 2
	}
	crossChecked := 0
	hist, nEval := map[string]int{}, 0
	prop := func(t *rapid.T) {
		c, filtered := genCase(t, f)
		for _, k := range knownKeys {
			// candidate imports (for main-location-unknown: trees that lose
			// the MapFS and absolute-path runs) removed by an exclusion
			for i := 0; i < filtered[k]; i++ {
				ctx.Excluded(k)
			}
		}
		e := newModel(c).expect()
		if e.bad != "" {
			ctx.Inconclusive("generator produced a malformed case: %s", e.bad)
			t.Fatalf("malformed case")
		}
		for k := range newTree(c).features(e.edges) {
			if !f.on[k] && !(k == "main-location-unknown" && len(c.Modes) == 1 && !c.AbsMain) {
				b, _ := json.Marshal(c)
				ctx.Inconclusive("generator produced excluded construct %s: %s", k, b)
			}
		}
		ctx.Eval()
		ls, nt := labels(c, e)
		for _, l := range ls {
			ctx.Class(l)
			hist[l]++
		}
		nEval++
		if nt {
			b, _ := json.Marshal(c)
			ctx.Nontrivial(string(b))
			ctx.Sample(c, 2)
		}
		if toolchainEligible(c) {
			do := false
			if e.cyclic && xCyclic > 0 {
				xCyclic--
				do = true
			} else if !e.cyclic && nt && xAcyclic > 0 {
				xAcyclic--
				do = true
			}
			if do {
				crossChecked++
				if p := r.toolchain(c, e); p != "" {
					b, _ := json.Marshal(c)
					ctx.Inconclusive("reference model disagrees with the Go toolchain: %s; case %s", p, b)
				}
			}
		}
		sig, msg, inc := r.check(c)
		if inc != "" {
			ctx.Inconclusive("%s", inc)
			ctx.Done()
			return
		}
		if sig != "" {
			ctx.CaseFail(t, sig, msg, c.withFiles())
		}
		ctx.Done()
	}
	ctx.Rapid("trees", 0, ctx.Cases, 30*time.Second, prop)
	// generator self-check: every class the property names must be populated
	if nEval >= 1000 && !ctx.Survey {
		for _, l := range []string{"vendor-level-0", "vendor-level-1", "vendor-level-2", "vendor-level-3", "nested-vendor", "dup-import-path", "relative-./", "relative-../", "diamond", "cycle-len-1", "cycle-len-2", "cycle-len-3", "cycle-len-4", "vendor-from-package", "repeated-path-element"} {
			if hist[l]*200 < nEval {
				ctx.Inconclusive("generator self-check: class %s has only %d of %d cases (< 0.5%%)", l, hist[l], nEval)
			}
		}
	}
	ctx.SetExtra("toolchain_crosschecked_trees", float64(crossChecked))
	ctx.SetExtra("worker_restarts", float64(r.pool.Restarts))
}

func replay(ctx *vf.Ctx, data json.RawMessage) (string, string) {
	var c Case
	if err := json.Unmarshal(data, &c); err != nil {
		return "bad replay file: " + err.Error(), "harness"
	}
	if len(c.Modes) == 0 {
		c.Modes = []string{"mapfs", "disk"}
	}
	r, err := newRunner(ctx.Scratch)
	if err != nil {
		return "cannot set up scratch: " + err.Error(), "harness"
	}
	defer r.close()
	c.Files, c.Main = nil, ""
	if os.Getenv("C16_DUMP") != "" {
		b, _ := json.MarshalIndent(c.withFiles(), " ", " ")
		fmt.Fprintln(os.Stderr, string(b))
	}
	if os.Getenv("C16_TOOLCHAIN") != "" {
		// development aid: show what the Go toolchain says about the model
		e := newModel(&c).expect()
		switch {
		case e.bad != "":
			fmt.Fprintln(os.Stderr, "toolchain: case malformed:", e.bad)
		case !toolchainEligible(&c):
			fmt.Fprintln(os.Stderr, "toolchain: not applicable (relative imports)")
		default:
			if p := r.toolchain(&c, e); p != "" {
				fmt.Fprintln(os.Stderr, "toolchain DISAGREES with the model:", p)
			} else {
				fmt.Fprintf(os.Stderr, "toolchain: agrees with the model (cyclic=%v) %v\n", e.cyclic, sortedKeys(e.lines))
			}
		}
	}
	sig, msg, inc := r.check(&c)
	if inc != "" {
		return "inconclusive: " + inc, "harness"
	}
	return msg, sig
}

func init() {
	if os.Getenv("C16_WORKER") != "" {
		// an undetected import cycle recurses without bound; fail fast and
		// with little memory instead of growing a 1 GB stack per worker.
		debug.SetMaxStack(48 << 20)
	}
	vf.Register(&vf.Check{
		ID:    "C16",
		Level: "exploration",
		Rule:  "case = GOPATH tree: a main package at depth 1-3 under src and up to 10 further package directories (plain at depth 1-4; vendored under an ancestor of an existing package incl. vendor-in-vendor and GOPATH/src/vendor, about half re-using an import path present elsewhere; sub-packages), names from a 4-word pool so path elements repeat and collide; imports drawn among the paths that resolve in the reference model (plus ./ and ../ imports in main), acyclic by a rank order, or (about 1/4) with back edges closing a reachable cycle of length 1-4; every package prints an init marker and, per import, the importer's directory, the path and the imported package's Where marker; evaluated through fstest.MapFS and from disk (relative or absolute main path) in worker subprocesses; oracle = hand-written model of GOPATH+vendor resolution (cross-checked in every shard against `GO111MODULE=off go run` on sampled trees); checks: every importer sees the predicted directory, every reachable package initialises exactly once and no other does, both filesystems agree with the model, cyclic trees give an import-cycle error and terminate, acyclic trees give no error; non-trivial = >=1 reachable import not resolving to GOPATH/src/<path> (vendored or relative) and >=1 package with >=2 importers; distinct by full tree",
		Assumptions: []string{
			"disk trees are evaluated with an absolute GOPATH and either a main path relative to the working directory (as example/pkg/pkg_test.go does; cwd = parent of the GOPATH directory) or an absolute main path (cwd unrelated); the MapFS variant uses GoPath \"gp\" and EvalPath(\"gp/src/<dir>/main.go\")",
			"only directories holding a Go file count as packages (go/build rule); import paths never contain a vendor element, never denote the main package, and a package never imports its own import-path string unless that is a true self-import (the gc compiler rejects it even when vendoring maps it elsewhere)",
			"an import cycle must be reported by an error whose text contains \"import cycle\" (as the interpreter's and the toolchain's messages do); an unrelated error on a cyclic tree counts as a violation",
			"init order is not compared (property C15), only the multiset of output lines; every package has a single file; no directory is called main or internal",
			"relative imports are written only in the main file; they cannot be cross-checked with the Go toolchain (GOPATH mode rejects them inside GOPATH), the model resolves them against the importing file's directory as the property states",
			"an undetected cycle shows up as an unrelated error, as Go stack exhaustion of the worker (max stack lowered to 48 MB; confirmed by re-running the job and reading the fatal error), as an exhausted operation budget or as a stalled worker; none of these is a wall-clock verdict",
			"constructs recorded as known findings are excluded by the generator through the predicates in known.go (8 root causes on the unchanged tree)",
		},
		Cases:  map[string]int{"quick": 1500, "thorough": 60000},
		Shards: map[string]int{"quick": 16, "thorough": 16},
		Run:    run,
		Replay: replay,
	})
}
