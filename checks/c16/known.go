package c16

import (
	"path"
)

// knownKeys are the signatures of root causes that can be recorded in
// known_findings.jsonl, in classification priority order. Each one is a
// predicate over the tree (below); the generator avoids a construct when its
// key is listed as known, and a failing case that exhibits a construct is
// attributed to it.
var knownKeys = []string{
	// gta rewrites an import path "n/n" to "n" before looking it up.
	"doubled-path-collapsed",
	// the main file's imports are searched in GOPATH/src/vendor and
	// GOPATH/src before the vendor directories of its own ancestors.
	"main-vendor-shadowed",
	// the main file's location under GOPATH/src is only derived for a path
	// relative to the working directory on disk; through
	// Options.SourcecodeFilesystem, or with an absolute path, the vendor
	// directories of its ancestors are not used.
	"main-location-unknown",
	// a directory imported as "./x" and as "full/path/x" is evaluated twice.
	"relative-and-absolute-twice",
	// the imports of a package that was imported through a relative path are
	// resolved from the wrong directory.
	"relative-import-root",
	// a directory <ancestor>/vendor/<path> without Go files (it only has
	// sub-packages) stops the search.
	"vendor-dir-without-package",
	// an import path is also tried relative to the importer's directory (and
	// to each ancestor that has a vendor directory), so a sub-directory named
	// like the import path wins over vendor directories further up and GOPATH.
	"subdir-shadows-import",
	// packages are cached by import path only.
	"same-path-two-dirs",
}

// tree bundles a case with derived lookup tables.
type tree struct {
	c     *Case
	m     *model
	isDir map[string]bool // every directory below GOPATH/src
}

func newTree(c *Case) *tree {
	tr := &tree{c: c, m: newModel(c), isDir: map[string]bool{}}
	for _, p := range c.Pkgs {
		s := segs(p.Dir)
		for i := 1; i <= len(s); i++ {
			tr.isDir[path.Join(s[:i]...)] = true
		}
	}
	return tr
}

func (tr *tree) isPkg(d string) bool { _, ok := tr.m.dirs[d]; return ok }

func (tr *tree) mainDir() string { return tr.c.Pkgs[0].Dir }

// ownVendor: a non-relative import that resolves into a vendor directory
// below GOPATH/src/<something> (not GOPATH/src/vendor, not GOPATH/src).
func ownVendor(ed edge) bool {
	return !isRel(ed.Path) && ed.To != ed.Path && ed.To != "vendor/"+ed.Path
}

// edgeFeature evaluates the edge-level predicates.
func (tr *tree) edgeFeature(key string, ed edge) bool {
	switch key {
	case "doubled-path-collapsed":
		return path.Dir(ed.Path) == path.Base(ed.Path)
	case "main-vendor-shadowed":
		return ed.From == tr.mainDir() && ownVendor(ed) && (tr.isDir["vendor/"+ed.Path] || tr.isDir[ed.Path])
	case "main-location-unknown":
		return ed.From == tr.mainDir() && ownVendor(ed)
	case "vendor-dir-without-package":
		if isRel(ed.Path) {
			return false
		}
		s := segs(ed.From)
		for i := len(s); i >= 0; i-- {
			if i > 0 && s[i-1] == "vendor" {
				continue
			}
			cand := path.Join(path.Join(s[:i]...), "vendor", ed.Path)
			if cand == ed.To {
				return false
			}
			if tr.isDir[cand] && !tr.isPkg(cand) {
				return true
			}
		}
	case "subdir-shadows-import":
		if isRel(ed.Path) {
			return false
		}
		s := segs(ed.From)
		for i := len(s); i > 0; i-- {
			if s[i-1] == "vendor" {
				continue
			}
			a := path.Join(s[:i]...)
			if i < len(s) && !tr.isDir[a+"/vendor"] {
				continue // the search only stops at ancestors that have a vendor directory
			}
			if a+"/vendor/"+ed.Path == ed.To {
				return false
			}
			if sub := a + "/" + subdirFragment(s[:i], ed.Path); tr.isDir[sub] && sub != ed.To {
				return true
			}
		}
	}
	return false
}

// relRootFeature: ed is an import written in a package that main imports
// through a relative path r. The interpreter searches from the directory
// GOPATH/src/<r> instead of the package's directory, so the import is
// affected when it is vendored, or when the search from GOPATH/src/<r> meets
// some directory before it reaches GOPATH/src/<path>.
func (tr *tree) relRootFeature(ed edge) bool {
	if isRel(ed.Path) {
		return false
	}
	if ed.To != ed.Path {
		return true
	}
	r := path.Clean(relPath(tr.mainDir(), ed.From))
	if r == "." || r == ".." || len(r) > 2 && r[:3] == "../" {
		return false // the bogus root is outside GOPATH/src: nothing is found there
	}
	s := segs(r)
	for i := len(s); i > 0; i-- {
		a := path.Join(s[:i]...)
		if i < len(s) && !tr.isDir[a+"/vendor"] {
			continue
		}
		if tr.isDir[a+"/vendor/"+ed.Path] {
			return true
		}
		if sub := a + "/" + subdirFragment(s[:i], ed.Path); tr.isDir[sub] && sub != ed.To {
			return true
		}
	}
	return false
}

// subdirFragment is the part of import path p that the interpreter appends to
// a source root when it tries the path relative to that root: p itself, or,
// when the root has two or more elements and its last element occurs in p
// before p's last element, what follows the last such occurrence.
func subdirFragment(root []string, p string) string {
	ps := segs(p)
	if len(root) >= 2 {
		last := root[len(root)-1]
		for i := len(ps) - 2; i >= 0; i-- {
			if ps[i] == last {
				return path.Join(ps[i+1:]...)
			}
		}
	}
	return p
}

var edgeKeys = []string{"doubled-path-collapsed", "main-vendor-shadowed", "main-location-unknown", "vendor-dir-without-package", "subdir-shadows-import"}

// features returns the known-finding constructs present among the given
// edges (the reachable ones for classification).
func (tr *tree) features(edges []edge) map[string]bool {
	fs := map[string]bool{}
	relT, absT := map[string]bool{}, map[string]bool{}
	targets := map[string]map[string]bool{}
	for _, ed := range edges {
		for _, k := range edgeKeys {
			if tr.edgeFeature(k, ed) {
				fs[k] = true
			}
		}
		if isRel(ed.Path) {
			relT[ed.To] = true
		} else {
			absT[ed.To] = true
		}
		if targets[ed.Path] == nil {
			targets[ed.Path] = map[string]bool{}
		}
		targets[ed.Path][ed.To] = true
	}
	for d := range relT {
		if absT[d] {
			fs["relative-and-absolute-twice"] = true
		}
	}
	for _, ed := range edges {
		if relT[ed.From] && tr.relRootFeature(ed) {
			fs["relative-import-root"] = true
		}
	}
	for _, ts := range targets {
		if len(ts) >= 2 {
			fs["same-path-two-dirs"] = true
		}
	}
	return fs
}

// attribute maps a failing case to the known root cause whose construct it
// exhibits, or returns the generic signature.
func attribute(c *Case, e *expectation, generic string, blindOnly bool) string {
	fs := newTree(c).features(e.edges)
	for _, k := range knownKeys {
		if !fs[k] {
			continue
		}
		if k == "main-location-unknown" && !blindOnly {
			continue
		}
		return k
	}
	return generic
}
