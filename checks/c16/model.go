package c16

import (
	"fmt"
	"path"
	"sort"
	"strings"
)

// Pkg is one package directory of a generated GOPATH tree.
type Pkg struct {
	// Dir is the directory relative to GOPATH/src, "/"-separated, e.g.
	// "a/b/vendor/x".
	Dir string `json:"dir"`
	// Imports are the import paths as written in the package's only file.
	Imports []string `json:"imports"`
}

// Case is one tree. Pkgs[0] is the main package (file main.go), every other
// package has one file p.go. The file contents are a pure function of the
// case (see render), so the case is the tree.
type Case struct {
	Pkgs []Pkg `json:"pkgs"`
	// Modes lists the source filesystems the tree is evaluated through:
	// "mapfs" (Options.SourcecodeFilesystem = fstest.MapFS) and/or "disk".
	Modes []string `json:"modes"`
	// AbsMain: the disk run passes the main file by absolute path (the
	// working directory is then unrelated to it) instead of a path relative
	// to the working directory.
	AbsMain bool `json:"abs_main,omitempty"`
	// Prelude: another program, in a directory of its own (src/zzpre, importing
	// the source package zzpredep), is evaluated on the same interpreter before
	// the main file: what the first evaluation resolved must not leak into the
	// resolution of the second one.
	Prelude bool `json:"prelude,omitempty"`
	// Named: the packages declare a name which differs from their directory
	// ("q" + directory) and the importers refer to them by that declared name,
	// without alias, whenever the last elements of a file's import paths are
	// distinct (otherwise, and always when not Named, every import has an alias).
	Named bool `json:"named,omitempty"`
	// Files and Main are informational copies of render() and mainFile() in
	// stored replay files (paths relative to the GOPATH root); replay
	// re-renders the tree from Pkgs.
	Files map[string]string `json:"files,omitempty"`
	Main  string            `json:"main,omitempty"`
}

// withFiles returns a copy of the case that carries the rendered tree.
func (c *Case) withFiles() *Case {
	d := *c
	d.Files, d.Main = c.render(), c.mainFile()
	return &d
}

func isRel(p string) bool { return strings.HasPrefix(p, "./") || strings.HasPrefix(p, "../") }

func segs(d string) []string {
	if d == "" {
		return nil
	}
	return strings.Split(d, "/")
}

// canonical returns the import path under which the package in dir is known:
// the part after the last vendor element.
func canonical(dir string) string {
	s := segs(dir)
	for i := len(s) - 1; i >= 0; i-- {
		if s[i] == "vendor" {
			return strings.Join(s[i+1:], "/")
		}
	}
	return dir
}

func vendorCount(dir string) int {
	n := 0
	for _, s := range segs(dir) {
		if s == "vendor" {
			n++
		}
	}
	return n
}

// model is the reference model of GOPATH+vendor import resolution.
type model struct {
	c    *Case
	dirs map[string]int // package directory -> index in c.Pkgs
}

func newModel(c *Case) *model {
	m := &model{c: c, dirs: map[string]int{}}
	for i, p := range c.Pkgs {
		m.dirs[p.Dir] = i
	}
	return m
}

// resolve returns the package directory an import of p from a file in
// directory from denotes: relative paths against from; otherwise the nearest
// <ancestor>/vendor/p walking up from the importing directory to GOPATH/src,
// else GOPATH/src/p. Only directories that hold a package count.
func (m *model) resolve(from, p string) (string, bool) {
	if isRel(p) {
		t := path.Join(from, p)
		if t == "." || strings.HasPrefix(t, "..") {
			return t, false
		}
		_, ok := m.dirs[t]
		return t, ok
	}
	s := segs(from)
	for i := len(s); i >= 0; i-- {
		if i > 0 && s[i-1] == "vendor" {
			continue
		}
		cand := path.Join(path.Join(s[:i]...), "vendor", p)
		if _, ok := m.dirs[cand]; ok {
			return cand, true
		}
	}
	_, ok := m.dirs[p]
	return p, ok
}

// vendorLevel tells how many directories above the importer the vendor
// directory of a vendored target sits (0 = importer's own directory), or -1
// when the target is not reached through a vendor directory.
func vendorLevel(from, p, target string) int {
	if isRel(p) || !strings.HasSuffix(target, "vendor/"+p) {
		return -1
	}
	parent := strings.TrimSuffix(strings.TrimSuffix(target, "vendor/"+p), "/")
	return len(segs(from)) - len(segs(parent))
}

type edge struct {
	From, Path, To string
}

// expectation is what the model predicts for a case.
type expectation struct {
	bad    string // non-empty: the case is malformed (harness trouble)
	cyclic bool
	cycle  []string // one cycle (directories), when cyclic
	reach  []string // reachable package directories, BFS order from main
	edges  []edge   // import edges of reachable packages, BFS order
	lines  map[string]int
}

func (m *model) expect() *expectation {
	e := &expectation{lines: map[string]int{}}
	c := m.c
	if len(c.Pkgs) == 0 {
		e.bad = "no packages"
		return e
	}
	if len(m.dirs) != len(c.Pkgs) {
		e.bad = "duplicate package directory"
		return e
	}
	mainDir := c.Pkgs[0].Dir
	seen := map[string]bool{mainDir: true}
	queue := []string{mainDir}
	adj := map[string][]string{}
	for len(queue) > 0 {
		d := queue[0]
		queue = queue[1:]
		e.reach = append(e.reach, d)
		dup := map[string]bool{}
		for _, p := range c.Pkgs[m.dirs[d]].Imports {
			if dup[p] {
				e.bad = fmt.Sprintf("%s imports %q twice", d, p)
				return e
			}
			dup[p] = true
			t, ok := m.resolve(d, p)
			if !ok {
				e.bad = fmt.Sprintf("import %q from %s does not resolve in the model", p, d)
				return e
			}
			if t == mainDir {
				e.bad = fmt.Sprintf("import %q from %s denotes the main package", p, d)
				return e
			}
			e.edges = append(e.edges, edge{d, p, t})
			adj[d] = append(adj[d], t)
			if !seen[t] {
				seen[t] = true
				queue = append(queue, t)
			}
		}
	}
	// cycle search (iterative colouring is not needed: graphs are tiny)
	color := map[string]int{}
	var stack []string
	var dfs func(d string) bool
	dfs = func(d string) bool {
		color[d] = 1
		stack = append(stack, d)
		for _, t := range adj[d] {
			if color[t] == 1 {
				for i, s := range stack {
					if s == t {
						e.cycle = append([]string{}, stack[i:]...)
					}
				}
				return true
			}
			if color[t] == 0 && dfs(t) {
				return true
			}
		}
		stack = stack[:len(stack)-1]
		color[d] = 2
		return false
	}
	e.cyclic = dfs(mainDir)
	for _, d := range e.reach {
		e.lines["init "+d]++
	}
	for _, ed := range e.edges {
		e.lines[fmt.Sprintf("see %s %s %s", ed.From, ed.Path, ed.To)]++
	}
	return e
}

// importers returns, for every reachable package, the number of distinct
// reachable importers.
func (e *expectation) importers() map[string]int {
	n := map[string]int{}
	seen := map[[2]string]bool{}
	for _, ed := range e.edges {
		k := [2]string{ed.From, ed.To}
		if !seen[k] {
			seen[k] = true
			n[ed.To]++
		}
	}
	return n
}

// pkgName is the package clause name used for a directory.
func pkgName(dir string) string {
	s := segs(dir)
	n := s[len(s)-1]
	if n == "main" {
		return "main_"
	}
	return n
}

// render produces the file tree of a case, keyed by path relative to the
// GOPATH root ("src/..."), "/"-separated.
func (c *Case) render() map[string]string {
	files := map[string]string{}
	for i, p := range c.Pkgs {
		var b strings.Builder
		name, file := pkgName(p.Dir), "p.go"
		if c.Named {
			name = "q" + name
		}
		if i == 0 {
			name, file = "main", "main.go"
		}
		// identifier under which each import is referred to
		ident := make([]string, len(p.Imports))
		last := map[string]int{}
		for _, ip := range p.Imports {
			last[path.Base(ip)]++
		}
		fmt.Fprintf(&b, "package %s\n\nimport (\n\t\"fmt\"\n", name)
		for k, ip := range p.Imports {
			if base := path.Base(ip); c.Named && last[base] == 1 && base != "." && base != ".." && base != "fmt" {
				ident[k] = "q" + pkgName(base)
				fmt.Fprintf(&b, "\t%q\n", ip)
				continue
			}
			ident[k] = fmt.Sprintf("i%d", k)
			fmt.Fprintf(&b, "\ti%d %q\n", k, ip)
		}
		fmt.Fprintf(&b, ")\n\nvar Where = %q\n\nvar reported bool\n\n", p.Dir)
		fmt.Fprintf(&b, "func init() { fmt.Println(%q) }\n\n", "init "+p.Dir)
		b.WriteString("func Report() {\n\tif reported {\n\t\treturn\n\t}\n\treported = true\n")
		for k, ip := range p.Imports {
			fmt.Fprintf(&b, "\tfmt.Println(\"see\", %q, %q, %s.Where)\n\t%s.Report()\n", p.Dir, ip, ident[k], ident[k])
		}
		b.WriteString("}\n")
		if i == 0 {
			b.WriteString("\nfunc main() { Report() }\n")
		}
		files["src/"+p.Dir+"/"+file] = b.String()
	}
	return files
}

// preludeFiles is the tree of the program evaluated first under Prelude; its
// files are not named after those of the generated tree.
func preludeFiles() map[string]string {
	return map[string]string{
		"src/zzpre/pre.go":     "package main\n\nimport _ \"zzpredep\"\n\nfunc main() {}\n",
		"src/zzpredep/pdep.go": "package zzpredep\n\nimport \"fmt\"\n\nfunc init() { fmt.Println(\"prelude\") }\n",
	}
}

const preludeMain = "src/zzpre/pre.go"

func (c *Case) mainFile() string { return "src/" + c.Pkgs[0].Dir + "/main.go" }

// lineCounts turns program output into a multiset of lines.
func lineCounts(out string) map[string]int {
	m := map[string]int{}
	for _, l := range strings.Split(out, "\n") {
		l = strings.TrimRight(l, "\r")
		if l != "" && l != "prelude" { // the line of the program evaluated first
			m[l]++
		}
	}
	return m
}

func sortedKeys(m map[string]int) []string {
	var k []string
	for s := range m {
		k = append(k, s)
	}
	sort.Strings(k)
	return k
}

func sameLines(a, b map[string]int) bool {
	if len(a) != len(b) {
		return false
	}
	for k, v := range a {
		if b[k] != v {
			return false
		}
	}
	return true
}
