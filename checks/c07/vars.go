package c07

import (
	"reflect"
)

// VarCase is a variable shared across the boundary.
type VarCase struct {
	Side  string `json:"side"` // host-var (supplied through Use), script-var (obtained from the interpreter)
	Ty    *Ty    `json:"ty"`
	Init  *Val   `json:"init"`
	New   *Val   `json:"new"`   // value assigned by the other side
	Third *Val   `json:"third"` // value assigned back
	Route string `json:"route"` // script-var: eval-qualified, eval-bare, symbols, globals
	// host-var: how the script reads host.V for its own comparison (return:
	// through func Get() T { return host.V }; operand: host.V used as an
	// operand or argument; define: x := host.V) and how it assigns it
	// (literal: host.V = <literal>; local: x := <literal>; host.V = x)
	Read  string `json:"read,omitempty"`
	Write string `json:"write,omitempty"`
}

func (v *VarCase) labels() []string {
	ls := []string{"var:" + v.Side, "var-kind:" + kindClass(v.Ty)}
	if v.Side == "script-var" {
		ls = append(ls, "route:"+v.Route, "scriptvar-write:"+v.Write)
	} else {
		ls = append(ls, "hostvar-read:"+v.Read, "hostvar-write:"+v.Write)
	}
	return ls
}

func (g *gen) genVar() *Case {
	v := &VarCase{}
	v.Side = rapid_sample(g, []string{"host-var", "script-var"}, "side")
	v.Ty = g.ty(g.intn(0, 2, "depth"))
	v.Init = g.val(v.Ty, 1)
	v.New = g.val(v.Ty, 1)
	v.Third = g.val(v.Ty, 1)
	v.Route = rapid_sample(g, []string{"eval-qualified", "eval-bare", "symbols", "globals"}, "route")
	v.Read = rapid_sample(g, []string{"return", "operand", "define"}, "hostvarread")
	v.Write = rapid_sample(g, []string{"literal", "local"}, "hostvarwrite")
	if v.Side == "host-var" && v.Ty.K == "ptr" && v.Init.Nil {
		// a nil pointer in an Exports map denotes a type, not a variable
		v.Init = &Val{E: []*Val{zeroVal(v.Ty.Elem)}}
	}
	return &Case{Dir: "var", V: v}
}

func (c *Case) runVar() *failure {
	v := c.V
	b := &builder{}
	s := newScript(b)
	t := v.Ty
	ts := t.src()
	exports := map[string]reflect.Value{}
	var src string
	if v.Side == "host-var" {
		hv := reflect.New(t.rtype())
		hv.Elem().Set(b.build(t, v.Init))
		exports["V"] = hv.Elem()
		rd, pre := "host.V", ""
		switch v.Read {
		case "return":
			rd = "Get()"
		case "define":
			rd, pre = "x", "x := host.V; "
		}
		set := "host.V = " + s.lit(t, v.New, true)
		if v.Write == "local" {
			set = "var x " + ts + " = " + s.lit(t, v.New, true) + "; host.V = x"
		}
		src = "var Fail string\n\n" +
			"func Get() " + ts + " { return host.V }\n" +
			"func Check1() { " + pre + "if !(" + s.eqCall(t, rd, s.lit(t, stripFn(v.Init), false)) + ") { Fail += \"init;\" } }\n" +
			"func Set() { " + set + " }\n" +
			"func Check3() { " + pre + "if !(" + s.eqCall(t, rd, s.lit(t, stripFn(v.Third), false)) + ") { Fail += \"third;\" } }\n"
		c.Src = s.header() + src
		s.exports(exports)
		i, err := newInterp(exports)
		if err != nil {
			return failf("harness", nil, "%v", err)
		}
		return guarded(i, func() *failure {
			if _, err := i.Eval(c.Src); err != nil {
				return evalErr("evaluating the script", err)
			}
			run := func(name string) ([]reflect.Value, *failure) {
				fv, err := i.Eval("main." + name)
				if err != nil {
					return nil, evalErr("Eval(main."+name+")", err)
				}
				return call("native call of "+name, fv, nil, false)
			}
			out, fl := run("Get")
			if fl != nil {
				return fl
			}
			if g, w := describe(out[0]), describeModel(t, v.Init); g != w {
				return failf("hostvar-read", t, "host.V read by the script and returned: got %s, want %s", g, w)
			}
			if _, fl := run("Check1"); fl != nil {
				return fl
			}
			if _, fl := run("Set"); fl != nil {
				return fl
			}
			if g, w := describe(hv.Elem()), describeModel(t, v.New); g != w {
				return failf("hostvar-write", t, "host variable after the script assigned it: got %s, want %s", g, w)
			}
			hv.Elem().Set(b.build(t, v.Third))
			if _, fl := run("Check3"); fl != nil {
				return fl
			}
			r, fl := global(i, "Fail")
			if fl != nil {
				return fl
			}
			if r.String() != "" {
				return failf("hostvar-script-view", t, "the script saw a different host.V than the host holds: %s", r.String())
			}
			return nil
		})
	}
	setx := "V = " + s.lit(t, v.Third, true)
	if v.Write == "local" {
		setx = "var x " + ts + " = " + s.lit(t, v.Third, true) + "; V = x"
	}
	src = "var Fail string\nvar V " + ts + " = " + s.lit(t, v.Init, true) + "\n\n" +
		"func Check2() { if !(" + s.eqCall(t, "V", s.lit(t, stripFn(v.New), false)) + ") { Fail += \"new;\" } }\n" +
		"func Set() { " + setx + " }\n"
	c.Src = s.header() + src
	s.exports(exports)
	i, err := newInterp(exports)
	if err != nil {
		return failf("harness", nil, "%v", err)
	}
	return guarded(i, func() *failure {
		if _, err := i.Eval(c.Src); err != nil {
			return evalErr("evaluating the script", err)
		}
		get := func() (reflect.Value, *failure) {
			switch v.Route {
			case "symbols":
				return i.Symbols("main")["main"]["V"], nil
			case "globals":
				return i.Globals()["V"], nil
			}
			name := "main.V"
			if v.Route == "eval-bare" {
				name = "V"
			}
			r, err := i.Eval(name)
			if err != nil {
				return r, evalErr("Eval("+name+")", err)
			}
			return r, nil
		}
		run := func(name string) *failure {
			fv, err := i.Eval("main." + name)
			if err != nil {
				return evalErr("Eval(main."+name+")", err)
			}
			_, fl := call("native call of "+name, fv, nil, false)
			return fl
		}
		hv, fl := get()
		if fl != nil {
			return fl
		}
		if g, w := describeAs(t, hv), describeModel(t, v.Init); g != w {
			return failf("scriptvar-read", t, "script variable V obtained through %s: got %s, want %s", v.Route, g, w)
		}
		if hv.IsValid() && hv.CanSet() && hv.Type() == t.rtype() {
			hv.Set(b.build(t, v.New))
			if fl := run("Check2"); fl != nil {
				return fl
			}
			r, fl := global(i, "Fail")
			if fl != nil {
				return fl
			}
			if r.String() != "" {
				return failf("scriptvar-write", t, "the script does not see the value the host stored in V through %s", v.Route)
			}
			if fl := run("Set"); fl != nil {
				return fl
			}
			// the settable value is the variable: it shows the script's assignment
			if g, w := describe(hv), describeModel(t, v.Third); g != w {
				return failf("scriptvar-reread", t, "V held by the host after the script assigned it: got %s, want %s", g, w)
			}
		} else {
			if fl := run("Set"); fl != nil {
				return fl
			}
		}
		hv2, fl := get()
		if fl != nil {
			return fl
		}
		if g, w := describeAs(t, hv2), describeModel(t, v.Third); g != w {
			return failf("scriptvar-read", t, "script variable V obtained again through %s after the script assigned it: got %s, want %s", v.Route, g, w)
		}
		return nil
	})
}
