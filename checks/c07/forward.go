package c07

import (
	"fmt"
	"reflect"
	"strings"
)

// FwdCase: a value of a script type, held in a variable of a script-declared
// interface type, travels through script functions taking and returning that
// interface and reaches a host function through an interface{} (or variadic
// interface{}) parameter. The host must receive the dynamic value, whatever
// the number of times the interface value was passed on and whatever the form
// of the first argument (result of a call nested in the call, variable,
// conversion, one result of a call with two results).
type FwdCase struct {
	Kind   string `json:"kind"`   // named-int, struct, pointer
	K      int    `json:"k"`      // the value
	Hops   int    `json:"hops"`   // forwards through id(v Valuer) Valuer
	Source string `json:"source"` // call, var, conv, tuple
	Host   string `json:"host"`   // any, variadic, pair
}

func (g *gen) genFwd() *Case {
	return &Case{Dir: "fwd", F: &FwdCase{
		Kind:   pick(g, []string{"named-int", "struct", "pointer"}, "fwd-kind"),
		K:      g.intn(1, 50, "fwd-k"),
		Hops:   g.intn(0, 3, "fwd-hops"),
		Source: pick(g, []string{"call", "call", "var", "conv", "tuple"}, "fwd-source"),
		Host:   pick(g, []string{"any", "any", "variadic", "pair"}, "fwd-host"),
	}}
}

// fwdDescribe is the host function: the kind and the value of what it received.
func fwdDescribe(vs ...interface{}) string {
	var b strings.Builder
	for _, v := range vs {
		rv := reflect.ValueOf(v)
		for rv.IsValid() && rv.Kind() == reflect.Ptr && !rv.IsNil() {
			b.WriteString("*")
			rv = rv.Elem()
		}
		if !rv.IsValid() {
			b.WriteString("nil;")
			continue
		}
		fmt.Fprintf(&b, "%s:%v;", rv.Kind(), rv.Interface())
	}
	return b.String()
}

func (x *FwdCase) want() string {
	one := ""
	switch x.Kind {
	case "named-int":
		one = fmt.Sprintf("int:%d;", x.K)
	case "struct":
		one = fmt.Sprintf("struct:{%d %d};", x.K, x.K+1)
	default:
		one = fmt.Sprintf("*struct:{%d %d};", x.K, x.K+1)
	}
	if x.Host == "pair" {
		return "int:7;" + one
	}
	return one
}

func (c *Case) runFwd() *failure {
	x := c.F
	var src strings.Builder
	src.WriteString("package main\n\nimport \"host\"\n\n")
	src.WriteString("type Valuer interface{ Val() int }\n\ntype N int\n\nfunc (n N) Val() int { return int(n) }\n\ntype P struct{ X, Y int }\n\nfunc (p P) Val() int { return p.X }\n\ntype Q struct{ X, Y int }\n\nfunc (q *Q) Val() int { return q.Y }\n\n")
	mk := ""
	switch x.Kind {
	case "named-int":
		mk = fmt.Sprintf("N(%d)", x.K)
	case "struct":
		mk = fmt.Sprintf("P{%d, %d}", x.K, x.K+1)
	default:
		mk = fmt.Sprintf("&Q{%d, %d}", x.K, x.K+1)
	}
	fmt.Fprintf(&src, "func pick() Valuer { return %s }\n\nfunc pick2() (Valuer, int) { return %s, 1 }\n\nfunc id(v Valuer) Valuer { return v }\n\n", mk, mk)
	switch x.Host {
	case "any":
		src.WriteString("func show(v Valuer) string { return host.Describe1(v) }\n\n")
	case "variadic":
		src.WriteString("func show(v Valuer) string { return host.Describe(v) }\n\n")
	default:
		src.WriteString("func show(v Valuer) string { return host.Describe(7, v) }\n\n")
	}
	arg, pre := "pick()", ""
	switch x.Source {
	case "var":
		pre, arg = "\tv := pick()\n", "v"
	case "conv":
		arg = "Valuer(" + mk + ")"
	case "tuple":
		pre, arg = "\tv, _ := pick2()\n", "v"
	}
	for h := 0; h < x.Hops; h++ {
		arg = "id(" + arg + ")"
	}
	fmt.Fprintf(&src, "func Call() string {\n%s\treturn show(%s)\n}\n", pre, arg)
	c.Src = src.String()
	exports := map[string]reflect.Value{
		"Describe":  reflect.ValueOf(fwdDescribe),
		"Describe1": reflect.ValueOf(func(v interface{}) string { return fwdDescribe(v) }),
	}
	i, err := newInterp(exports)
	if err != nil {
		return failf("setup", nil, "%v", err)
	}
	return guarded(i, func() *failure {
		if _, err := i.Eval(c.Src); err != nil {
			return evalErr("eval", err)
		}
		f, err := i.Eval("main.Call")
		if err != nil {
			return evalErr("Eval(main.Call)", err)
		}
		out, fl := call("call", f, nil, false)
		if fl != nil {
			return fl
		}
		if got, want := out[0].String(), x.want(); got != want {
			return failf("forward", nil, "the host received %q, the script passed %q [%s through %d forward(s), argument form %s, host parameter %s]", got, want, x.Kind, x.Hops, x.Source, x.Host)
		}
		return nil
	})
}
