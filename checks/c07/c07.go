// Package c07 checks that values and calls cross the host/script boundary
// unchanged: round-trip identity of rapid-drawn values over rapid-drawn
// signatures, in both directions, through every access route.
package c07

import (
	"encoding/json"
	"sort"
	"time"

	"pgregory.net/rapid"

	"verif/internal/vf"
)

// run executes the case and returns (signature, message) of a violation.
func (c *Case) check() (string, string) {
	var f *failure
	switch c.Dir {
	case "s2h":
		f = c.runS2H()
	case "h2s":
		f = c.runH2S()
	case "method":
		f = c.runMethod()
	case "x2":
		f = c.runX2()
	case "iface":
		f = c.runIface()
	case "var":
		f = c.runVar()
	case "fwd":
		f = c.runFwd()
	default:
		return "harness", "unknown direction " + c.Dir
	}
	if f == nil {
		return "", ""
	}
	return c.classify(f), f.step + ": " + f.msg
}

// classify names the root-cause class of a failure: the first known shape
// feature present in the case, else direction/step/kind of the element.
func (c *Case) classify(f *failure) string {
	for _, kf := range knownFeatures {
		if kf.has(c, f) {
			return kf.key
		}
	}
	sig := c.Dir + "/" + f.step
	if f.ty != nil {
		sig += "/" + f.ty.K
	}
	return sig
}

func run(ctx *vf.Ctx) {
	sw := loadSwitches()
	keys := make([]string, 0, len(sw))
	for k := range sw {
		keys = append(keys, k)
	}
	sort.Strings(keys)
	for _, k := range keys {
		ctx.Excluded(k)
	}
	ctx.Rapid("boundary", 0, ctx.Cases, 30*time.Second, func(t *rapid.T) {
		g := &gen{t: t, sw: sw}
		c := g.genCase()
		ctx.Eval()
		labels, nontrivial := c.labels()
		for _, l := range labels {
			ctx.Class(l)
		}
		sig, msg := c.check()
		if nontrivial {
			cc := *c
			cc.Src = ""
			b, _ := json.Marshal(&cc)
			ctx.Nontrivial(string(b))
		}
		ctx.Sample(c, 3)
		if sig != "" {
			ctx.CaseFail(t, sig, msg, c)
		}
		ctx.Done()
	})
}

func replay(ctx *vf.Ctx, data json.RawMessage) (string, string) {
	var c Case
	if err := json.Unmarshal(data, &c); err != nil {
		return "bad replay file: " + err.Error(), "harness"
	}
	sig, msg := c.check()
	return msg, sig
}

// ReplayRaw re-runs a stored case (development aid).
func ReplayRaw(data json.RawMessage) (string, string) { return replay(nil, data) }

func init() {
	vf.Register(&vf.Check{
		ID:    "C07",
		Level: "exploration",
		Rule:  "case = one boundary scenario drawn with rapid: a signature from the type grammar (all basic kinds, five host-declared structs, five host-declared named non-struct types (int, string, slice, map, func), pointers, arrays, slices, maps, error, interface{}, func types; depth <= 3; 0-4 parameters, 0-3 results, variadic or not) with drawn argument/result values rendered as Go values on the host side and as literals on the script side, in one of the directions script->host (reflect.MakeFunc host function registered through Use, called directly or through a func variable; arguments inline, through local/package variables or as results of script calls incl. f(g()); call forms return/assign/nested/discard/defer/cond/package var/expression; host-side mutation), host methods, host->script (script function reached through Eval, Symbols or Globals, called natively, drawn mutation, plus Eval of the same call), twice across (closures wrapped and handed back), interpreted types as host interfaces, host/script variables; oracle = round-trip identity (canonical deep description of what arrived = what was sent, func values compared by probing them); non-trivial = the signature has a composite, func-typed, interface-typed or variadic element; distinct by full recipe",
		Assumptions: []string{
			"a variadic call without extra arguments may deliver an empty non-nil slice (reflect.Call does), nil-ness is only compared for the f(s...) form",
			"func values are compared by their results on fixed probe arguments, errors by dynamic type and message",
			"NaN, infinities and negative zero are not generated (identity by ==)",
			"a case is declared stuck only when no interpreted operation happened for 20 s; runaway scripts are cut by an operation budget",
			"in an Exports map a nil pointer denotes a type: host variables of pointer type start non-nil",
			"the script's package-level check variables are read with Eval of the bare name, cross-checked with Globals()",
		},
		Cases:  map[string]int{"quick": 3000, "thorough": 150000},
		Shards: map[string]int{"quick": 8, "thorough": 16},
		Run:    run,
		Replay: replay,
	})
}
