package c07

import (
	"bytes"
	"fmt"
	"io"
	"reflect"
	"sort"
	"strconv"
	"strings"
	"verif/internal/vf"
)

// IfaceCase passes a value of an interpreted type to a host function whose
// parameter is a host interface.
type IfaceCase struct {
	Kind  string `json:"kind"`  // stringer, error, reader, writer, sort
	Under string `json:"under"` // struct, int, string, slice
	Ptr   bool   `json:"ptr"`   // pointer receiver (the value is passed as &v)
	// Pass: direct, var (through a variable of the host interface type),
	// variadic, slice, return (returned to the host by a script function),
	// keep (host keeps the value and calls the method after further Evals),
	// script-iface (through a variable of a script-declared interface type)
	Pass  string `json:"pass"`
	Tag   string `json:"tag"`   // string data of the value
	N     int    `json:"n"`     // integer data of the value
	Chunk int    `json:"chunk"` // reader: bytes per Read call
	Ints  []int  `json:"ints"`  // sort: the data
	Desc  bool   `json:"desc"`  // sort: descending Less
	Data  string `json:"data"`  // writer: what the host writes
}

func (x *IfaceCase) labels() []string {
	ls := []string{"iface:" + x.Kind, "iface-under:" + x.Under, "iface-pass:" + x.Pass}
	if x.Ptr {
		ls = append(ls, "iface-ptr-recv")
	}
	return ls
}

// host functions taking host interfaces
type hostIface struct {
	kept    fmt.Stringer
	keptErr error
}

func (h *hostIface) exports(m map[string]reflect.Value) {
	m["Str"] = reflect.ValueOf(func(s fmt.Stringer) string { return s.String() })
	m["Strs"] = reflect.ValueOf(func(ss ...fmt.Stringer) string {
		var parts []string
		for _, s := range ss {
			parts = append(parts, s.String())
		}
		return strings.Join(parts, "|")
	})
	m["StrSlice"] = reflect.ValueOf(func(ss []fmt.Stringer) string {
		var parts []string
		for _, s := range ss {
			parts = append(parts, s.String())
		}
		return strings.Join(parts, "|")
	})
	m["Keep"] = reflect.ValueOf(func(s fmt.Stringer) fmt.Stringer { h.kept = s; return s })
	m["Err"] = reflect.ValueOf(func(e error) string {
		if e == nil {
			return "<nil>"
		}
		return e.Error()
	})
	m["Errs"] = reflect.ValueOf(func(es ...error) string {
		var parts []string
		for _, e := range es {
			parts = append(parts, e.Error())
		}
		return strings.Join(parts, "|")
	})
	m["ErrSlice"] = reflect.ValueOf(func(es []error) string {
		var parts []string
		for _, e := range es {
			parts = append(parts, e.Error())
		}
		return strings.Join(parts, "|")
	})
	m["ErrOfT2"] = reflect.ValueOf(func(t T2) string {
		if t.E == nil {
			return "<nil>"
		}
		return t.E.Error()
	})
	m["CallStr"] = reflect.ValueOf(func(f func() string) string { return f() })
	m["KeepErr"] = reflect.ValueOf(func(e error) error { h.keptErr = e; return e })
	m["Read"] = reflect.ValueOf(func(r io.Reader) (string, error) {
		b, err := io.ReadAll(io.LimitReader(r, 1<<12))
		return string(b), err
	})
	m["Write"] = reflect.ValueOf(func(w io.Writer, s string) (int, error) { return w.Write([]byte(s)) })
	m["Sort"] = reflect.ValueOf(func(s sort.Interface) int { sort.Sort(s); return s.Len() })
	m["CopyTo"] = reflect.ValueOf(func(w io.Writer, s string) int64 { n, _ := io.Copy(w, strings.NewReader(s)); return n })
	m["CopyFrom"] = reflect.ValueOf(func(r io.Reader) string {
		var b bytes.Buffer
		_, _ = io.Copy(&b, r)
		return b.String()
	})
}

func (g *gen) genIface() *Case {
	x := &IfaceCase{}
	x.Kind = rapid_sample(g, []string{"stringer", "stringer", "error", "error", "reader", "reader", "writer", "writer", "sort", "sort", "copy-to", "copy-from"}, "ifacekind")
	if x.Kind == "copy-to" && vf.IsKnown("C07", "copy-to-embedded-buffer-uses-script-write") {
		x.Kind = "copy-from"
	}
	x.Tag = rapid_sample(g, []string{"", "a", "héllo", "tag with space", "x\ny"}, "tag")
	x.N = g.intn(-5, 120, "n")
	switch x.Kind {
	case "stringer", "error":
		x.Under = rapid_sample(g, []string{"struct", "int", "string", "slice", "embed"}, "under")
		x.Ptr = g.coin(35, "ptrrecv")
		x.Pass = rapid_sample(g, []string{"direct", "direct", "var", "variadic", "slice", "return", "keep", "script-iface", "method-value", "field"}, "pass")
		if x.Pass == "field" && x.Kind != "error" {
			x.Pass = "direct"
		}
	case "reader":
		x.Under = "struct"
		x.Ptr = true
		x.Chunk = g.intn(1, 5, "chunk")
		x.Pass = rapid_sample(g, []string{"direct", "var"}, "pass")
	case "writer":
		x.Under = "struct"
		x.Ptr = true
		x.Data = rapid_sample(g, stringVals, "data")
		x.Pass = rapid_sample(g, []string{"direct", "var"}, "pass")
	case "copy-to", "copy-from":
		// a struct which embeds a host type (*bytes.Buffer, *strings.Reader) and
		// overrides its Write / Read: io.Copy in the host must use the optional
		// method promoted from the embedded host type (ReadFrom / WriteTo)
		x.Under = "embed-host"
		x.Ptr = true
		x.Data = rapid_sample(g, stringVals, "data")
		x.Pass = rapid_sample(g, []string{"direct", "var"}, "pass")
	case "sort":
		x.Under = rapid_sample(g, []string{"slice", "struct"}, "under")
		x.Ptr = x.Under == "struct" && g.coin(50, "ptrrecv")
		for i, n := 0, g.intn(0, 6, "nints"); i < n; i++ {
			x.Ints = append(x.Ints, g.intn(-9, 9, "int"))
		}
		x.Desc = g.coin(40, "desc")
		x.Pass = rapid_sample(g, []string{"direct", "var"}, "pass")
	}
	return &Case{Dir: "iface", I: x}
}

// text is what String()/Error() of the script value must return.
func (x *IfaceCase) text() string {
	switch x.Under {
	case "struct", "embed":
		return x.Tag + "#" + strconv.Itoa(x.N)
	case "int":
		return "N" + strconv.Itoa(x.N)
	case "string":
		return "<" + x.Tag + ">"
	default:
		return x.Tag + strconv.Itoa(3)
	}
}

func (c *Case) runIface() *failure {
	x := c.I
	var src strings.Builder
	src.WriteString("package main\n\nimport (\n\t\"bytes\"\n\t\"fmt\"\n\t\"host\"\n\t\"io\"\n\t\"sort\"\n\t\"strconv\"\n\t\"strings\"\n)\n\nvar _ = fmt.Sprint\nvar _ = io.EOF\nvar _ = sort.Ints\nvar _ = strconv.Itoa\nvar _ host.T0\nvar _ bytes.Buffer\nvar _ = strings.ToUpper\n\n")
	recv := "v V"
	if x.Ptr {
		recv = "v *V"
	}
	meth, itype, hf := "String", "fmt.Stringer", "Str"
	if x.Kind == "error" {
		meth, itype, hf = "Error", "error", "Err"
	}
	var newV string // expression creating the value passed
	switch x.Kind {
	case "stringer", "error":
		deref := "v"
		if x.Ptr {
			deref = "(*v)"
		}
		switch x.Under {
		case "struct":
			src.WriteString("type V struct {\n\tTag string\n\tN   int\n}\n\n")
			fmt.Fprintf(&src, "func (%s) %s() string { return v.Tag + \"#\" + strconv.Itoa(v.N) }\n", recv, meth)
			newV = fmt.Sprintf("V{Tag: %s, N: %d}", strconv.Quote(x.Tag), x.N)
		case "embed":
			irecv := "v Inner"
			if x.Ptr {
				irecv = "v *Inner"
			}
			src.WriteString("type Inner struct {\n\tTag string\n\tN   int\n}\n\ntype V struct {\n\tInner\n\tExtra int\n}\n\n")
			fmt.Fprintf(&src, "func (%s) %s() string { return v.Tag + \"#\" + strconv.Itoa(v.N) }\n", irecv, meth)
			newV = fmt.Sprintf("V{Inner: Inner{Tag: %s, N: %d}, Extra: 7}", strconv.Quote(x.Tag), x.N)
		case "int":
			src.WriteString("type V int\n\n")
			fmt.Fprintf(&src, "func (%s) %s() string { return \"N\" + strconv.Itoa(int(%s)) }\n", recv, meth, deref)
			newV = fmt.Sprintf("V(%d)", x.N)
		case "string":
			src.WriteString("type V string\n\n")
			fmt.Fprintf(&src, "func (%s) %s() string { return \"<\" + string(%s) + \">\" }\n", recv, meth, deref)
			newV = fmt.Sprintf("V(%s)", strconv.Quote(x.Tag))
		default:
			src.WriteString("type V []string\n\n")
			fmt.Fprintf(&src, "func (%s) %s() string { return %s[0] + strconv.Itoa(len(%s)) }\n", recv, meth, deref, deref)
			newV = fmt.Sprintf("V{%s, \"b\", \"c\"}", strconv.Quote(x.Tag))
		}
	case "reader":
		src.WriteString("type V struct {\n\tdata string\n\tpos  int\n}\n\n")
		fmt.Fprintf(&src, "func (v *V) Read(p []byte) (int, error) {\n\tif v.pos >= len(v.data) {\n\t\treturn 0, io.EOF\n\t}\n\tn := %d\n\tif n > len(p) {\n\t\tn = len(p)\n\t}\n\tif n > len(v.data)-v.pos {\n\t\tn = len(v.data) - v.pos\n\t}\n\tcopy(p, v.data[v.pos:v.pos+n])\n\tv.pos += n\n\tReads++\n\treturn n, nil\n}\n", x.Chunk)
		newV = fmt.Sprintf("V{data: %s}", strconv.Quote(x.Tag))
	case "writer":
		src.WriteString("type V struct {\n\tbuf []byte\n}\n\n")
		src.WriteString("func (v *V) Write(p []byte) (int, error) {\n\tv.buf = append(v.buf, p...)\n\treturn len(p), nil\n}\n")
		newV = "V{}"
	case "copy-to":
		src.WriteString("type V struct {\n\t*bytes.Buffer\n\twrites int\n}\n\n")
		src.WriteString("func (v *V) Write(p []byte) (int, error) {\n\tv.writes++\n\treturn v.Buffer.Write(p)\n}\n")
		newV = "V{Buffer: &bytes.Buffer{}}"
	case "copy-from":
		src.WriteString("type V struct {\n\t*strings.Reader\n\treads int\n}\n\n")
		src.WriteString("func (v *V) Read(p []byte) (int, error) {\n\tv.reads++\n\tn, err := v.Reader.Read(p)\n\tfor i := 0; i < n; i++ {\n\t\tp[i] = '#'\n\t}\n\treturn n, err\n}\n")
		newV = fmt.Sprintf("V{Reader: strings.NewReader(%s)}", strconv.Quote(x.Data))
	case "sort":
		less := "<"
		if x.Desc {
			less = ">"
		}
		var is []string
		for _, n := range x.Ints {
			is = append(is, strconv.Itoa(n))
		}
		if x.Under == "slice" {
			src.WriteString("type V []int\n\n")
			fmt.Fprintf(&src, "func (v V) Len() int           { return len(v) }\nfunc (v V) Less(i, j int) bool { return v[i] %s v[j] }\nfunc (v V) Swap(i, j int)      { v[i], v[j] = v[j], v[i] }\n", less)
			newV = "V{" + strings.Join(is, ", ") + "}"
		} else {
			src.WriteString("type V struct {\n\txs []int\n}\n\n")
			fmt.Fprintf(&src, "func (%s) Len() int           { return len(v.xs) }\nfunc (%s) Less(i, j int) bool { return v.xs[i] %s v.xs[j] }\nfunc (%s) Swap(i, j int)      { v.xs[i], v.xs[j] = v.xs[j], v.xs[i] }\n", recv, recv, less, recv)
			newV = "V{xs: []int{" + strings.Join(is, ", ") + "}}"
		}
	}
	val := "x"
	if x.Ptr {
		val = "&x"
	}
	src.WriteString("\nvar Reads int\nvar Out string\nvar OutN int\nvar OutErr string\nvar Ints []int\n")
	src.WriteString("type scriptIface interface{ " + meth + "() string }\n\n")
	switch x.Kind {
	case "stringer", "error":
		switch x.Pass {
		case "direct":
			fmt.Fprintf(&src, "func Run() {\n\tx := %s\n\tOut = host.%s(%s)\n}\n", newV, hf, val)
		case "var":
			fmt.Fprintf(&src, "func Run() {\n\tx := %s\n\tvar s %s = %s\n\tOut = host.%s(s)\n}\n", newV, itype, val, hf)
		case "script-iface":
			fmt.Fprintf(&src, "func Run() {\n\tx := %s\n\tvar s scriptIface = %s\n\tOut = host.%s(s)\n}\n", newV, val, hf)
		case "variadic":
			fmt.Fprintf(&src, "func Run() {\n\tx := %s\n\ty := %s\n\tOut = host.%ss(%s, %s)\n}\n", newV, newV, hf, val, strings.Replace(val, "x", "y", 1))
		case "slice":
			fmt.Fprintf(&src, "func Run() {\n\tx := %s\n\ty := %s\n\tOut = host.%sSlice([]%s{%s, %s})\n}\n", newV, newV, hf, itype, val, strings.Replace(val, "x", "y", 1))
		case "method-value":
			fmt.Fprintf(&src, "func Run() {\n\tx := %s\n\tOut = host.CallStr(x.%s)\n}\n", newV, meth)
		case "field":
			fmt.Fprintf(&src, "func Run() {\n\tx := %s\n\tOut = host.ErrOfT2(host.T2{E: %s})\n}\n", newV, val)
		case "return":
			fmt.Fprintf(&src, "func Get() %s {\n\tx := %s\n\treturn %s\n}\n", itype, newV, val)
		case "keep":
			k := "Keep"
			if x.Kind == "error" {
				k = "KeepErr"
			}
			fmt.Fprintf(&src, "func Run() {\n\tx := %s\n\tr := host.%s(%s)\n\tOut = r.%s()\n}\n", newV, k, val, meth)
		}
	case "reader":
		if x.Pass == "var" {
			fmt.Fprintf(&src, "func Run() {\n\tx := %s\n\tvar r io.Reader = &x\n\ts, err := host.Read(r)\n\tOut = s\n\tif err != nil {\n\t\tOutErr = err.Error()\n\t}\n}\n", newV)
		} else {
			fmt.Fprintf(&src, "func Run() {\n\tx := %s\n\ts, err := host.Read(&x)\n\tOut = s\n\tif err != nil {\n\t\tOutErr = err.Error()\n\t}\n}\n", newV)
		}
	case "writer":
		arg := "&x"
		pre := ""
		if x.Pass == "var" {
			pre = "\tvar w io.Writer = &x\n"
			arg = "w"
		}
		fmt.Fprintf(&src, "func Run() {\n\tx := %s\n%s\tn, err := host.Write(%s, %s)\n\tOutN = n\n\tif err != nil {\n\t\tOutErr = err.Error()\n\t}\n\tOut = string(x.buf)\n}\n", newV, pre, arg, strconv.Quote(x.Data))
	case "copy-to":
		arg, pre := "&x", ""
		if x.Pass == "var" {
			pre, arg = "\tvar w io.Writer = &x\n", "w"
		}
		fmt.Fprintf(&src, "func Run() {\n\tx := %s\n%s\tOutN = int(host.CopyTo(%s, %s))\n\tOut = x.Buffer.String()\n\tReads = x.writes\n}\n", newV, pre, arg, strconv.Quote(x.Data))
	case "copy-from":
		arg, pre := "&x", ""
		if x.Pass == "var" {
			pre, arg = "\tvar r io.Reader = &x\n", "r"
		}
		fmt.Fprintf(&src, "func Run() {\n\tx := %s\n%s\tOut = host.CopyFrom(%s)\n\tReads = x.reads\n}\n", newV, pre, arg)
	case "sort":
		arg := val
		pre := ""
		if x.Pass == "var" {
			pre = "\tvar s sort.Interface = " + val + "\n"
			arg = "s"
		}
		get := "x"
		if x.Under == "struct" {
			get = "x.xs"
		}
		fmt.Fprintf(&src, "func Run() {\n\tx := %s\n%s\tOutN = host.Sort(%s)\n\tInts = %s\n}\n", newV, pre, arg, get)
	}
	c.Src = src.String()

	hi := &hostIface{}
	exports := map[string]reflect.Value{}
	hi.exports(exports)
	i, err := newInterp(exports)
	if err != nil {
		return failf("harness", nil, "%v", err)
	}
	return guarded(i, func() *failure {
		if _, err := i.Eval(c.Src); err != nil {
			return evalErr("evaluating the script", err)
		}
		str := func(name string) (string, *failure) {
			v, fl := global(i, name)
			if fl != nil {
				return "", fl
			}
			return v.String(), nil
		}
		num := func(name string) (int, *failure) {
			v, fl := global(i, name)
			if fl != nil {
				return 0, fl
			}
			return int(v.Int()), nil
		}
		if x.Pass == "return" {
			fv, err := i.Eval("main.Get")
			if err != nil {
				return evalErr("Eval(main.Get)", err)
			}
			out, fl := call("native call of Get", fv, nil, false)
			if fl != nil {
				return fl
			}
			var got string
			var fl2 *failure
			func() {
				defer func() {
					if p := recover(); p != nil {
						if _, ok := p.(budgetExceeded); ok {
							panic(p)
						}
						fl2 = failf("escaped", nil, "calling %s on the value returned by Get: %v", meth, p)
					}
				}()
				if out[0].Kind() == reflect.Interface && out[0].IsNil() {
					fl2 = failf("iface-result", nil, "Get returned a nil %s", itype)
					return
				}
				if x.Kind == "error" {
					got = out[0].Interface().(error).Error()
				} else {
					got = out[0].Interface().(fmt.Stringer).String()
				}
			}()
			if fl2 != nil {
				return fl2
			}
			if got != x.text() {
				return failf("iface-result", nil, "%s() of the value returned by Get: got %q, want %q", meth, got, x.text())
			}
			return nil
		}
		fv, err := i.Eval("main.Run")
		if err != nil {
			return evalErr("Eval(main.Run)", err)
		}
		if _, fl := call("native call of Run", fv, nil, false); fl != nil {
			return fl
		}
		out, fl := str("Out")
		if fl != nil {
			return fl
		}
		switch x.Kind {
		case "stringer", "error":
			want := x.text()
			if x.Pass == "variadic" || x.Pass == "slice" {
				want = want + "|" + want
			}
			if out != want {
				return failf("iface-method", nil, "host calling %s() on the script value: got %q, want %q", meth, out, want)
			}
			if x.Pass == "keep" {
				if _, err := i.Eval("var Later = 1"); err != nil {
					return evalErr("unrelated Eval", err)
				}
				var got string
				var fl2 *failure
				func() {
					defer func() {
						if p := recover(); p != nil {
							if _, ok := p.(budgetExceeded); ok {
								panic(p)
							}
							fl2 = failf("escaped", nil, "calling %s on the kept value: %v", meth, p)
						}
					}()
					if x.Kind == "error" {
						got = hi.keptErr.Error()
					} else {
						got = hi.kept.String()
					}
				}()
				if fl2 != nil {
					return fl2
				}
				if got != want {
					return failf("iface-method", nil, "host calling %s() later on the kept script value: got %q, want %q", meth, got, want)
				}
			}
		case "reader":
			if out != x.Tag {
				return failf("iface-method", nil, "host reading from the script io.Reader: got %q, want %q", out, x.Tag)
			}
			if e, fl := str("OutErr"); fl != nil {
				return fl
			} else if e != "" {
				return failf("iface-method", nil, "host reading from the script io.Reader: error %q", e)
			}
			n, fl := num("Reads")
			if fl != nil {
				return fl
			}
			if want := (len(x.Tag) + x.Chunk - 1) / x.Chunk; n != want {
				return failf("iface-method", nil, "script Read ran %d times, want %d", n, want)
			}
		case "writer":
			if out != x.Data {
				return failf("iface-method", nil, "script io.Writer received %q, the host wrote %q", out, x.Data)
			}
			n, fl := num("OutN")
			if fl != nil {
				return fl
			}
			if n != len(x.Data) {
				return failf("iface-method", nil, "host got n=%d from the script Write, want %d", n, len(x.Data))
			}
		case "copy-to", "copy-from":
			// compiled Go: *V has ReadFrom (WriteTo) promoted from the embedded
			// host type, io.Copy uses it and never calls the overriding Write (Read)
			if out != x.Data {
				return failf("iface-method", nil, "%s through io.Copy in the host: got %q, want %q (the optional method promoted from the embedded host type moves the data unchanged)", x.Kind, out, x.Data)
			}
			n, fl := num("Reads")
			if fl != nil {
				return fl
			}
			if n != 0 {
				return failf("iface-method", nil, "%s: the overriding method of the script type ran %d times; io.Copy must use the ReadFrom/WriteTo promoted from the embedded host type", x.Kind, n)
			}
		case "sort":
			n, fl := num("OutN")
			if fl != nil {
				return fl
			}
			if n != len(x.Ints) {
				return failf("iface-method", nil, "Len() seen by the host: %d, want %d", n, len(x.Ints))
			}
			v, fl := global(i, "Ints")
			if fl != nil {
				return fl
			}
			want := append([]int{}, x.Ints...)
			sort.Ints(want)
			if x.Desc {
				for a, b := 0, len(want)-1; a < b; a, b = a+1, b-1 {
					want[a], want[b] = want[b], want[a]
				}
			}
			got, _ := v.Interface().([]int)
			if fmt.Sprint(got) != fmt.Sprint(want) {
				return failf("iface-method", nil, "after host sort.Sort on the script value: got %v, want %v", got, want)
			}
		}
		return nil
	})
}
