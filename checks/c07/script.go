package c07

import (
	"fmt"
	"reflect"
	"sort"
	"strconv"
	"strings"
)

// script accumulates the helper declarations a generated script needs and
// the host symbols it refers to.
type script struct {
	decls   []string          // helper declarations, in order of creation
	byKey   map[string]string // helper key -> name
	hostFns []hostFn          // host func values referenced as host.FnK
	b       *builder          // builds the host funcs
	n       int
}

type hostFn struct {
	name string
	t    *Ty
	fn   *Fn
}

func newScript(b *builder) *script {
	return &script{byKey: map[string]string{}, b: b}
}

func (s *script) fresh(prefix string) string {
	s.n++
	return prefix + strconv.Itoa(s.n)
}

// exports returns the host func values referenced by the rendered literals.
func (s *script) exports(m map[string]reflect.Value) {
	for _, h := range s.hostFns {
		m[h.name] = s.b.buildFn(h.t, h.fn)
	}
}

// header renders the package clause, imports and helpers.
func (s *script) header() string {
	var b strings.Builder
	b.WriteString("package main\n\nimport (\n\t\"errors\"\n\t\"host\"\n)\n\nvar _ = errors.New\nvar _ host.T0\n\n")
	for _, d := range s.decls {
		b.WriteString(d)
		b.WriteString("\n")
	}
	return b.String()
}

func floatLit(f float64, bits int) string {
	return strconv.FormatFloat(f, 'g', -1, bits)
}

// lit renders the value as script source. typed: the context fixes the type
// (an untyped constant is enough).
func (s *script) lit(t *Ty, v *Val, typed bool) string {
	conv := func(x string) string {
		if typed && !v.B2() {
			return x
		}
		return t.K + "(" + x + ")"
	}
	switch {
	case t.K == "bool":
		return strconv.FormatBool(v.B)
	case isIntKind(t.K):
		x := strconv.FormatInt(v.I, 10)
		if t.K == "int" && !v.B2() {
			return x
		}
		return conv(x)
	case isUintKind(t.K):
		return conv(strconv.FormatUint(v.U, 10))
	case t.K == "float32":
		return conv(floatLit(f64(v), 32))
	case t.K == "float64":
		return conv(floatLit(f64(v), 64))
	case t.K == "complex64":
		return conv("complex(" + floatLit(f64(v), 32) + ", " + floatLit(f64im(v), 32) + ")")
	case t.K == "complex128":
		return conv("complex(" + floatLit(f64(v), 64) + ", " + floatLit(f64im(v), 64) + ")")
	case t.K == "string":
		return strconv.Quote(v.S)
	case t.K == "struct":
		names, fts := fieldTys(t.Name)
		var parts []string
		for i, ft := range fts {
			if v.Alt {
				parts = append(parts, s.lit(ft, v.E[i], true))
			} else {
				parts = append(parts, names[i]+": "+s.lit(ft, v.E[i], true))
			}
		}
		return t.src() + "{" + strings.Join(parts, ", ") + "}"
	case t.K == "named":
		u := namedUnder[t.Name]
		switch {
		case v.Nil && typed && !v.Alt:
			return "nil"
		case v.Nil:
			return t.src() + "(nil)"
		case v.Alt && (u.K == "slice" || u.K == "map"):
			// composite literal of the named type
			return t.src() + strings.TrimPrefix(s.lit(u, v, true), u.src())
		case v.Alt && u.K == "func" && typed:
			return s.lit(u, v, true)
		}
		w := v.clone()
		w.Alt = false
		return t.src() + "(" + s.lit(u, w, true) + ")"
	case t.K == "ptr":
		if v.Nil {
			if typed {
				return "nil"
			}
			return "(" + t.src() + ")(nil)"
		}
		e := v.E[0]
		if v.Alt && !e.Nil && (t.Elem.K == "struct" || t.Elem.K == "array" || t.Elem.K == "slice" || t.Elem.K == "map") {
			return "&" + s.lit(t.Elem, e, false)
		}
		return s.ptrHelper(t.Elem) + "(" + s.lit(t.Elem, e, true) + ")"
	case t.K == "array":
		var parts []string
		for _, e := range v.E {
			parts = append(parts, s.lit(t.Elem, e, true))
		}
		return t.src() + "{" + strings.Join(parts, ", ") + "}"
	case t.K == "slice":
		if v.Nil {
			if typed && !v.Alt {
				return "nil"
			}
			return "(" + t.src() + ")(nil)"
		}
		var parts []string
		for _, e := range v.E {
			parts = append(parts, s.lit(t.Elem, e, true))
		}
		return t.src() + "{" + strings.Join(parts, ", ") + "}"
	case t.K == "map":
		if v.Nil {
			if typed && !v.Alt {
				return "nil"
			}
			return "(" + t.src() + ")(nil)"
		}
		var parts []string
		for i := 0; i+1 < len(v.E); i += 2 {
			parts = append(parts, s.lit(t.Key, v.E[i], true)+": "+s.lit(t.Elem, v.E[i+1], true))
		}
		return t.src() + "{" + strings.Join(parts, ", ") + "}"
	case t.K == "error":
		if v.Nil {
			if typed {
				return "nil"
			}
			return "error(nil)"
		}
		if v.HostErr {
			return "host.E0{Code: " + strconv.FormatInt(v.I, 10) + "}"
		}
		return "errors.New(" + strconv.Quote(v.S) + ")"
	case t.K == "iface":
		if v.Nil {
			if typed {
				return "nil"
			}
			return "interface{}(nil)"
		}
		return s.lit(v.T, v.E[0], false)
	case t.K == "func":
		if v.Nil {
			if typed {
				return "nil"
			}
			return "(" + t.src() + ")(nil)"
		}
		switch {
		case v.Fn.Host:
			name := s.fresh("Fn")
			s.hostFns = append(s.hostFns, hostFn{name, t, v.Fn})
			return "host." + name
		case v.Fn.Named:
			name := s.fresh("named")
			s.decls = append(s.decls, "func "+name+s.fnSigBody(t, v.Fn)+"\n")
			return name
		}
		return "func" + s.fnSigBody(t, v.Fn)
	}
	panic("c07: lit: bad kind " + t.K)
}

// B2 reports the "explicit conversion even in a typed context" flag of a
// basic value (stored in Alt).
func (v *Val) B2() bool { return v.Alt }

// fnSigBody renders "(params) (results) { return ... }" of a func value.
func (s *script) fnSigBody(t *Ty, fn *Fn) string {
	names := make([]string, len(t.In))
	for i := range names {
		names[i] = "a" + strconv.Itoa(i)
	}
	var b strings.Builder
	b.WriteString(t.sigSrc(names))
	b.WriteString(" { ")
	if len(t.Out) > 0 {
		b.WriteString("return ")
		for j, rt := range t.Out {
			if j > 0 {
				b.WriteString(", ")
			}
			b.WriteString(s.fnExpr(t, fn, j, rt, names))
		}
		b.WriteString(" ")
	}
	b.WriteString("}")
	return b.String()
}

func (s *script) fnExpr(t *Ty, fn *Fn, j int, rt *Ty, names []string) string {
	c := fn.Const[j].clone()
	if rt.isBasic() {
		c.Alt = true // explicit conversion
	}
	cl := s.lit(rt, c, false)
	u := fn.Use[j]
	if !fnUsable(t, u, rt) {
		return cl
	}
	switch {
	case isIntKind(rt.K) || isUintKind(rt.K):
		return cl + " + " + rt.K + "(" + names[u] + ")"
	case rt.K == "string":
		return cl + " + " + names[u]
	case rt.K == "bool":
		return cl + " != " + names[u]
	default:
		return "-" + names[u]
	}
}

// ptrHelper returns the name of `func ptrN(v T) *T { return &v }`.
func (s *script) ptrHelper(t *Ty) string {
	key := "ptr " + t.src()
	if n, ok := s.byKey[key]; ok {
		return n
	}
	n := s.fresh("ptr")
	s.byKey[key] = n
	s.decls = append(s.decls, fmt.Sprintf("func %s(v %s) *%s { return &v }\n", n, t.src(), t.src()))
	return n
}

// eq returns the name of a script function `func eqN(a, b T) bool` that
// compares two values of t deeply (nil-ness of slices and maps included,
// func values by probing them, errors by message).
func (s *script) eq(t *Ty) string {
	key := "eq " + t.src()
	if n, ok := s.byKey[key]; ok {
		return n
	}
	n := s.fresh("eq")
	s.byKey[key] = n
	ts := t.src()
	var body string
	switch {
	case t.isBasic():
		body = "return a == b"
	case t.K == "struct":
		names, fts := fieldTys(t.Name)
		var parts []string
		for i, ft := range fts {
			parts = append(parts, s.eqCall(ft, "a."+names[i], "b."+names[i]))
		}
		body = "return " + strings.Join(parts, " && ")
	case t.K == "named":
		u := namedUnder[t.Name]
		if u.isBasic() {
			body = "return a == b"
		} else {
			body = "return " + s.eqCall(u, "("+u.src()+")(a)", "("+u.src()+")(b)")
		}
	case t.K == "ptr":
		body = "if a == nil || b == nil { return a == nil && b == nil }\n\treturn " + s.eqCall(t.Elem, "*a", "*b")
	case t.K == "array":
		body = "for i := range a {\n\t\tif !(" + s.eqCall(t.Elem, "a[i]", "b[i]") + ") { return false }\n\t}\n\treturn true"
	case t.K == "slice":
		body = "if (a == nil) != (b == nil) || len(a) != len(b) { return false }\n\tfor i := range a {\n\t\tif !(" + s.eqCall(t.Elem, "a[i]", "b[i]") + ") { return false }\n\t}\n\treturn true"
	case t.K == "map":
		body = "if (a == nil) != (b == nil) || len(a) != len(b) { return false }\n\tfor k, x := range a {\n\t\ty, ok := b[k]\n\t\tif !ok || !(" + s.eqCall(t.Elem, "x", "y") + ") { return false }\n\t}\n\treturn true"
	case t.K == "error":
		body = "if a == nil || b == nil { return a == nil && b == nil }\n\treturn a.Error() == b.Error()"
	case t.K == "iface":
		var b strings.Builder
		b.WriteString("switch x := a.(type) {\n\tcase nil:\n\t\treturn b == nil\n")
		for _, k := range basicNames {
			fmt.Fprintf(&b, "\tcase %s:\n\t\ty, ok := b.(%s)\n\t\treturn ok && x == y\n", k, k)
		}
		for _, sn := range structNames {
			st := &Ty{K: "struct", Name: sn}
			fmt.Fprintf(&b, "\tcase %s:\n\t\ty, ok := b.(%s)\n\t\treturn ok && %s\n", st.src(), st.src(), s.eqCall(st, "x", "y"))
		}
		for _, et := range ifaceExtra {
			fmt.Fprintf(&b, "\tcase %s:\n\t\ty, ok := b.(%s)\n\t\treturn ok && %s\n", et.src(), et.src(), s.eqCall(et, "x", "y"))
		}
		b.WriteString("\t}\n\treturn false")
		body = b.String()
	case t.K == "func":
		var b strings.Builder
		b.WriteString("if a == nil || b == nil { return a == nil && b == nil }\n")
		pv := probeVals(t)
		var args []string
		for i, p := range pv {
			if t.Var && i == len(pv)-1 {
				for _, e := range p.E {
					args = append(args, s.lit(t.In[i].Elem, e, true))
				}
				continue
			}
			args = append(args, s.lit(t.In[i], p, true))
		}
		call := "(" + strings.Join(args, ", ") + ")"
		if len(t.Out) == 0 {
			b.WriteString("\ta" + call + "\n\tb" + call + "\n\treturn true")
		} else {
			var xs, ys, cmp []string
			for j := range t.Out {
				xs = append(xs, "x"+strconv.Itoa(j))
				ys = append(ys, "y"+strconv.Itoa(j))
				cmp = append(cmp, "x"+strconv.Itoa(j)+" == y"+strconv.Itoa(j))
			}
			b.WriteString("\t" + strings.Join(xs, ", ") + " := a" + call + "\n")
			b.WriteString("\t" + strings.Join(ys, ", ") + " := b" + call + "\n")
			b.WriteString("\treturn " + strings.Join(cmp, " && "))
		}
		body = b.String()
	}
	s.decls = append(s.decls, fmt.Sprintf("func %s(a, b %s) bool {\n\t%s\n}\n", n, ts, body))
	return n
}

func (s *script) eqCall(t *Ty, a, b string) string {
	if t.isBasic() {
		return a + " == " + b
	}
	return s.eq(t) + "(" + a + ", " + b + ")"
}

// sortedKeys is a small helper for deterministic iteration.
func sortedKeys(m map[string]reflect.Value) []string {
	var ks []string
	for k := range m {
		ks = append(ks, k)
	}
	sort.Strings(ks)
	return ks
}
