package c07

import (
	"fmt"
	"reflect"
	"strconv"
	"strings"
	"sync"
)

// Methods of the host structs. Every method reports its receiver and
// arguments to the recorder and returns the results planned by the case.

type methodCall struct {
	name string
	recv string
	args []string
}

var mrec struct {
	sync.Mutex
	calls []methodCall
	plan  []reflect.Value // results to return
	fn    func(int) int   // for Apply
}

func mcall(name string, recv interface{}, args ...interface{}) []reflect.Value {
	mt := methodTy(name)
	rec := methodCall{name: name, recv: describe(reflect.ValueOf(recv))}
	for i, a := range args {
		rec.args = append(rec.args, describeAs(mt.In[i], reflect.ValueOf(a)))
	}
	mrec.Lock()
	mrec.calls = append(mrec.calls, rec)
	plan := mrec.plan
	mrec.Unlock()
	return plan
}

func (t T0) Sum(a int, b ...int) int { return int(mcall("T0.Sum", t, a, b)[0].Int()) }
func (t *T0) Set(a int, s string) (int, string) {
	r := mcall("T0.Set", *t, a, s)
	t.A, t.B = a, s
	return int(r[0].Int()), r[1].String()
}
func (t T0) Pair() (int, string) { r := mcall("T0.Pair", t); return int(r[0].Int()), r[1].String() }
func (t T0) Mix(u uint8, f float32, s string, c complex64, i64 int64) string {
	return mcall("T0.Mix", t, u, f, s, c, i64)[0].String()
}
func (t T1) Scale(k float64, u uint8) T1 { return mcall("T1.Scale", t, k, u)[0].Interface().(T1) }
func (t *T1) Push(xs ...int) int {
	r := mcall("T1.Push", *t, xs)
	t.Y = append(t.Y, xs...)
	return int(r[0].Int())
}
func (t T2) Lookup(k string, e error) (int, error) {
	r := mcall("T2.Lookup", t, k, e)
	err, _ := r[1].Interface().(error)
	return int(r[0].Int()), err
}
func (t T3) Any(v interface{}, rest ...interface{}) interface{} {
	return mcall("T3.Any", t, v, rest)[0].Interface()
}
func (t T4) Apply(f func(int) int, x int) int {
	mcall("T4.Apply", t, f, x)
	if f == nil {
		return -1
	}
	return f(x)
}
func (t *T4) Flip(b bool, c complex128) bool {
	r := mcall("T4.Flip", *t, b, c)
	t.B, t.C = b, c
	return r[0].Bool()
}

// methodNames lists "Type.Method" and whether the receiver is a pointer.
var methodNames = []string{"T0.Sum", "T0.Set", "T0.Pair", "T0.Mix", "T1.Scale", "T1.Push", "T2.Lookup", "T3.Any", "T4.Apply", "T4.Flip"}

var ptrMethods = map[string]bool{"T0.Set": true, "T1.Push": true, "T4.Flip": true}

// methodTy is the func type of a method without its receiver.
func methodTy(name string) *Ty {
	parts := strings.SplitN(name, ".", 2)
	m, ok := reflect.PointerTo(structTypes[parts[0]]).MethodByName(parts[1])
	if !ok {
		panic("c07: no method " + name)
	}
	ft := tyFromReflect(m.Type)
	ft.In = ft.In[1:]
	return ft
}

// MethodCase is a call of a host method from the script.
type MethodCase struct {
	Name   string `json:"name"` // T0.Sum ...
	Recv   *Val   `json:"recv"`
	RForm  string `json:"rform"` // var, ptr, lit
	Args   []*Val `json:"args"`  // the variadic one is the slice of extras
	Spread bool   `json:"spread,omitempty"`
	Rets   []*Val `json:"rets"`
	Form   string `json:"form"` // assign, return, discard, expr
}

func (m *MethodCase) labels() []string {
	ls := []string{"method:" + m.Name, "method-recv:" + m.RForm, "method-form:" + m.Form}
	mt := methodTy(m.Name)
	if mt.Var {
		ls = append(ls, "variadic")
		if m.Spread {
			ls = append(ls, "variadic:spread")
		}
	}
	if len(mt.Out) > 1 {
		ls = append(ls, "multi-result")
	}
	return ls
}

func (g *gen) genMethod() *Case {
	m := &MethodCase{Name: methodNames[g.intn(0, len(methodNames)-1, "method")]}
	st := &Ty{K: "struct", Name: strings.SplitN(m.Name, ".", 2)[0]}
	m.Recv = g.val(st, 1)
	mt := methodTy(m.Name)
	sigc := &Case{Sig: mt}
	m.Args, m.Spread = g.args(mt)
	_ = sigc
	for _, rt := range mt.Out {
		m.Rets = append(m.Rets, stripFn(g.val(rt, 1)))
	}
	forms := []string{"var", "ptr"}
	if !ptrMethods[m.Name] {
		forms = append(forms, "lit")
	}
	m.RForm = forms[g.intn(0, len(forms)-1, "rform")]
	ff := []string{"assign", "return", "discard"}
	if len(mt.Out) == 1 {
		ff = append(ff, "expr")
	}
	m.Form = ff[g.intn(0, len(ff)-1, "mform")]
	if m.Name == "T4.Apply" {
		// the result is f(x), or -1 for a nil func
		m.Rets = []*Val{{I: 0}}
	}
	return &Case{Dir: "method", M: m}
}

func (c *Case) runMethod() *failure {
	m := c.M
	b := &builder{}
	s := newScript(b)
	mt := methodTy(m.Name)
	st := &Ty{K: "struct", Name: strings.SplitN(m.Name, ".", 2)[0]}
	mname := strings.SplitN(m.Name, ".", 2)[1]
	nf := len(mt.In)
	if mt.Var {
		nf--
	}
	var argx []string
	for k := 0; k < nf; k++ {
		argx = append(argx, s.lit(mt.In[k], m.Args[k], true))
	}
	if mt.Var {
		if m.Spread {
			argx = append(argx, s.lit(mt.In[nf], m.Args[nf], false)+"...")
		} else {
			for _, e := range m.Args[nf].E {
				argx = append(argx, s.lit(mt.In[nf].Elem, e, true))
			}
		}
	}
	// expected results
	rets := m.Rets
	if m.Name == "T4.Apply" {
		r := &Val{I: -1}
		if !m.Args[0].Nil {
			var nb builder
			ft := mt.In[0]
			out := evalFn(ft, m.Args[0].Fn, []reflect.Value{nb.build(mt.In[1], m.Args[1])})
			r = &Val{I: out[0].Int()}
		}
		rets = []*Val{r}
	}
	var body []string
	body = append(body, "t := "+s.lit(st, m.Recv, false))
	recvx := "t"
	switch m.RForm {
	case "ptr":
		body = append(body, "p := &t")
		recvx = "p"
	case "lit":
		recvx = s.lit(st, m.Recv, false)
	}
	callx := recvx + "." + mname + "(" + strings.Join(argx, ", ") + ")"
	nout := len(mt.Out)
	rn := make([]string, nout)
	var rts []string
	for j := range rn {
		rn[j] = "r" + strconv.Itoa(j)
		rts = append(rts, mt.Out[j].src())
	}
	resTypes := ""
	returns := false
	switch {
	case m.Form == "return" && nout > 0:
		resTypes = " (" + strings.Join(rts, ", ") + ")"
		body = append(body, "return "+callx)
		returns = true
	case m.Form == "assign" && nout > 0:
		resTypes = " (" + strings.Join(rts, ", ") + ")"
		body = append(body, strings.Join(rn, ", ")+" := "+callx)
		for j, rt := range mt.Out {
			body = append(body, fmt.Sprintf("if !(%s) { Fail += \"r%d;\" }", s.eqCall(rt, rn[j], s.lit(rt, rets[j], false)), j))
		}
		returns = true
	case m.Form == "expr":
		body = append(body, fmt.Sprintf("if !(%s) { Fail += \"r0;\" }", s.eqCall(mt.Out[0], callx, s.lit(mt.Out[0], rets[0], false))))
	default:
		body = append(body, callx)
	}
	// the receiver after the call
	after := m.Recv.clone()
	if m.RForm != "lit" {
		switch m.Name {
		case "T0.Set":
			after.E[0], after.E[1] = m.Args[0].clone(), m.Args[1].clone()
		case "T1.Push":
			y := after.E[1]
			if len(m.Args[0].E) > 0 {
				y.Nil = false
				for _, e := range m.Args[0].E {
					y.E = append(y.E, e.clone())
				}
			}
		case "T4.Flip":
			after.E[3], after.E[2] = m.Args[0].clone(), m.Args[1].clone()
		}
	}
	if !(m.Form == "return" && nout > 0) {
		if m.Name == "T1.Push" {
			// appending to an empty non-nil slice keeps it non-nil: compare fields
			body = append(body, fmt.Sprintf("if !(len(t.Y) == %d) { Fail += \"recv;\" }", len(after.E[1].E)))
			for q, e := range after.E[1].E {
				body = append(body, fmt.Sprintf("if !(t.Y[%d] == %s) { Fail += \"recv;\" }", q, s.lit(basic("int"), e, true)))
			}
		} else {
			body = append(body, fmt.Sprintf("if !(%s) { Fail += \"recv;\" }", s.eqCall(st, "t", s.lit(st, stripFn(after), false))))
		}
	}
	if returns && m.Form == "assign" {
		body = append(body, "return "+strings.Join(rn, ", "))
	}
	c.Src = s.header() + "var Fail string\n\nfunc Call()" + resTypes + " {\n\t" + strings.Join(body, "\n\t") + "\n}\n"

	exports := map[string]reflect.Value{}
	s.exports(exports)
	i, err := newInterp(exports)
	if err != nil {
		return failf("harness", nil, "%v", err)
	}
	mrec.Lock()
	mrec.calls = nil
	mrec.plan = nil
	for j, rt := range mt.Out {
		mrec.plan = append(mrec.plan, b.build(rt, m.Rets[j]))
	}
	mrec.Unlock()
	return guarded(i, func() *failure {
		if _, err := i.Eval(c.Src); err != nil {
			return evalErr("evaluating the script", err)
		}
		fv, err := i.Eval("main.Call")
		if err != nil {
			return evalErr("Eval(main.Call)", err)
		}
		out, fl := call("Call()", fv, nil, false)
		if fl != nil {
			return fl
		}
		mrec.Lock()
		calls := mrec.calls
		mrec.Unlock()
		if len(calls) != 1 || calls[0].name != m.Name {
			return failf("call-count", nil, "host method %s was called %d times, want 1", m.Name, len(calls))
		}
		if want := describeModel(st, m.Recv); calls[0].recv != want {
			return failf("receiver", st, "receiver seen by the host method: got %s, want %s", calls[0].recv, want)
		}
		for k := range mt.In {
			want := describeModel(mt.In[k], m.Args[k])
			got := calls[0].args[k]
			if mt.Var && k == nf && !m.Spread {
				vv := &Val{E: m.Args[k].E}
				want = describeModel(mt.In[k], vv)
				if sameDesc(got, want, len(vv.E) == 0, mt.In[k]) {
					continue
				}
			}
			if got != want {
				return failf("arg", mt.In[k], "argument %d received by host method %s: got %s, the script passed %s", k, m.Name, got, want)
			}
		}
		if returns {
			if len(out) != nout {
				return failf("result-host", nil, "Call returned %d values, want %d", len(out), nout)
			}
			for j, rt := range mt.Out {
				if g, want := describeAs(rt, out[j]), describeModel(rt, rets[j]); g != want {
					return failf("result-host", rt, "result %d of %s handed back by Call: got %s, want %s", j, m.Name, g, want)
				}
			}
		}
		r, fl := global(i, "Fail")
		if fl != nil {
			return fl
		}
		if r.String() != "" {
			return failf("script-view", nil, "the script saw different values than the host supplied: %s", r.String())
		}
		return nil
	})
}
