package c07

import (
	"reflect"
	"strconv"
)

// knownFeature names a root-cause class by a predicate over the case shape.
type knownFeature struct {
	key string
	has func(c *Case, f *failure) bool
}

// knownFeatures is consulted in order when a failure is classified.
var knownFeatures = []knownFeature{}

func (g *gen) genCase() *Case {
	c := g.genCase1()
	g.applySwitches(c)
	return c
}

func (g *gen) genCase1() *Case {
	switch k := g.intn(0, 99, "direction"); {
	case k < 36:
		return g.genS2H()
	case k < 66:
		return g.genH2S()
	case k < 74:
		return g.genMethod()
	case k < 86:
		return g.genX2()
	case k < 93:
		return g.genIface()
	case k < 96:
		return g.genFwd()
	default:
		return g.genVar()
	}
}

// signature draws parameter and result types.
func (g *gen) signature() *Ty {
	sig := &Ty{K: "func"}
	for i, n := 0, g.intn(0, 4, "nparams"); i < n; i++ {
		sig.In = append(sig.In, g.ty(g.intn(0, 2, "depth")))
	}
	for i, n := 0, g.intn(0, 3, "nresults"); i < n; i++ {
		sig.Out = append(sig.Out, g.ty(g.intn(0, 2, "depth")))
	}
	if g.coin(30, "variadic") {
		if len(sig.In) == 4 {
			sig.In = sig.In[:3]
		}
		sig.In = append(sig.In, &Ty{K: "slice", Elem: g.ty(g.intn(0, 1, "vdepth"))})
		sig.Var = true
	}
	return sig
}

func (g *gen) args(sig *Ty) ([]*Val, bool) {
	var vs []*Val
	spread := false
	for k, pt := range sig.In {
		if sig.Var && k == len(sig.In)-1 {
			spread = g.coin(35, "spread")
			v := &Val{}
			if spread {
				v = g.val(pt, 1)
			} else {
				for i, n := 0, pick(g, []int{0, 0, 1, 1, 2, 3}, "nextra"); i < n; i++ {
					v.E = append(v.E, g.val(pt.Elem, 1))
				}
			}
			vs = append(vs, v)
			continue
		}
		vs = append(vs, g.val(pt, 1))
	}
	return vs, spread
}

func (g *gen) genS2H() *Case {
	c := &Case{Dir: "s2h"}
	c.Sig = g.signature()
	forceCond := false
	if g.coin(6, "boolresult") {
		c.Sig.Out = []*Ty{basic("bool")}
		forceCond = g.coin(60, "forcecond")
	}
	c.Args, c.Spread = g.args(c.Sig)
	for _, rt := range c.Sig.Out {
		v := g.val(rt, 1)
		c.Rets = append(c.Rets, stripFn(v))
	}
	nout := len(c.Sig.Out)
	forms := []string{"return", "assign", "assign", "discard", "defer", "pkgvar"}
	if nout > 0 {
		forms = append(forms, "nested", "nested-script", "assign")
	}
	if nout == 1 {
		forms = append(forms, "expr", "expr")
		if c.Sig.Out[0].K == "bool" {
			forms = append(forms, "cond", "cond", "cond")
		}
	}
	c.Form = pick(g, forms, "form")
	if forceCond {
		c.Form = "cond"
	}
	if c.Form == "assign" {
		kinds := []string{"define", "local", "global"}
		if nout >= 2 {
			kinds = append(kinds, "redeclare", "redeclare")
		}
		c.Assign = pick(g, kinds, "assignkind")
		if c.Assign == "redeclare" {
			c.Redecl = g.intn(0, nout-1, "redeclpos")
		} else if nout > 0 && g.coin(25, "blank") {
			c.Blank = make([]bool, nout)
			c.Blank[g.intn(0, nout-1, "blankpos")] = true
		}
	}
	c.ArgMode = pick(g, []string{"inline", "inline", "local", "local", "global", "call", "call", "multicall"}, "argmode")
	c.HostVia = pick(g, []string{"", "", "", "local-var", "global-var"}, "hostvia")
	c.Closure = g.coin(25, "closure")
	if c.Form == "pkgvar" {
		c.Closure = false
	}
	if g.coin(50, "mutate") {
		c.Mut = g.pickMut(c)
	}
	return c
}

// pickMut draws a mutation of one mutable argument, if any.
func (g *gen) pickMut(c *Case) *Mut {
	var cand []int
	for k, pt := range c.Sig.In {
		if c.Sig.Var && k == len(c.Sig.In)-1 && !c.Spread {
			continue
		}
		if len(mutKinds(pt, c.Args[k])) > 0 {
			cand = append(cand, k)
		}
	}
	if len(cand) == 0 {
		return nil
	}
	k := cand[g.intn(0, len(cand)-1, "mutarg")]
	return g.mut(k, c.Sig.In[k], c.Args[k])
}

func sameTy(a, b *Ty) bool { return a.src() == b.src() }

func (g *gen) genH2S() *Case {
	c := &Case{Dir: "h2s"}
	if g.coin(15, "static") {
		c.Static = true
		c.Sig = tyFromReflect(staticSigs[g.intn(0, len(staticSigs)-1, "staticsig")])
	} else {
		c.Sig = g.signature()
		// make some results echoes of parameters
		for j := range c.Sig.Out {
			if len(c.Sig.In) > 0 && g.coin(55, "echotype") {
				c.Sig.Out[j] = c.Sig.In[g.intn(0, len(c.Sig.In)-1, "echoparam")]
			}
		}
	}
	c.Args, c.Spread = g.args(c.Sig)
	for k, pt := range c.Sig.In {
		if pt.K == "func" && !c.Args[k].Nil {
			c.Args[k].Fn.Host = g.coin(50, "hostfn")
		}
	}
	for j, rt := range c.Sig.Out {
		e := -1
		var cand []int
		for k, pt := range c.Sig.In {
			if sameTy(pt, rt) {
				cand = append(cand, k)
			}
			if pt.K == "func" && !c.Args[k].Nil && len(pt.Out) == 1 && sameTy(pt.Out[0], rt) {
				cand = append(cand, -2-k)
			}
		}
		if len(cand) > 0 && g.coin(85, "echo") {
			e = cand[g.intn(0, len(cand)-1, "echowhich")]
		}
		c.Echo = append(c.Echo, e)
		if e == -1 {
			c.Rets = append(c.Rets, stripFn(g.val(rt, 1)))
		} else {
			c.Rets = append(c.Rets, zeroVal(rt))
		}
		_ = j
	}
	c.Route = pick(g, []string{"eval-qualified", "eval-bare", "symbols", "globals"}, "route")
	c.FuncVar = c.Route == "globals" || g.coin(20, "funcvar")
	c.NamedRes = g.coin(25, "namedres")
	if g.coin(55, "mutate") {
		c.Mut = g.pickMut(c)
	}
	return c
}

// elemKinds lists the kinds of the signature elements (top level).
func (c *Case) labels() ([]string, bool) {
	var ls []string
	ls = append(ls, "dir:"+c.Dir)
	nontrivial := false
	switch c.Dir {
	case "s2h", "h2s":
		sig := c.Sig
		if sig.Var {
			ls = append(ls, "variadic")
			n := len(c.Args[len(c.Args)-1].E)
			switch {
			case c.Spread:
				ls = append(ls, "variadic:spread")
			case n == 0:
				ls = append(ls, "variadic:0-extra")
			case n == 1:
				ls = append(ls, "variadic:1-extra")
			default:
				ls = append(ls, "variadic:n-extra")
			}
			nontrivial = true
		}
		switch len(sig.Out) {
		case 0:
			ls = append(ls, "results:0")
		case 1:
			ls = append(ls, "results:1")
		default:
			ls = append(ls, "multi-result")
		}
		seen := map[string]bool{}
		for _, rt := range sig.Out {
			if rt.K == "error" {
				seen["error-result"] = true
			}
			if rt.K == "func" {
				seen["func-result"] = true
			}
			if !rt.isBasic() {
				nontrivial = true
			}
			seen["result-kind:"+kindClass(rt)] = true
		}
		zero := false
		for k, pt := range sig.In {
			if pt.K == "func" {
				seen["func-param"] = true
			}
			if !pt.isBasic() {
				nontrivial = true
			}
			seen["param-kind:"+kindClass(pt)] = true
			if !(sig.Var && k == len(sig.In)-1) && isZero(pt, c.Args[k]) {
				zero = true
			}
		}
		if zero {
			seen["zero-valued-arg"] = true
		}
		for k := range seen {
			ls = append(ls, k)
		}
		// the cross product the design asks for, as one compact label
		flag := func(b bool) string {
			if b {
				return "1"
			}
			return "0"
		}
		route := c.Route
		if c.Dir == "s2h" {
			route = "use"
		}
		ls = append(ls, "shape:"+c.Dir+"/"+route+"/variadic"+flag(sig.Var)+"-multi"+flag(len(sig.Out) > 1)+"-err"+flag(seen["error-result"])+"-fparam"+flag(seen["func-param"])+"-fresult"+flag(seen["func-result"])+"-zero"+flag(zero))
		if c.Mut != nil {
			ls = append(ls, "mutation:"+c.Mut.Kind)
		}
		if c.Dir == "s2h" {
			ls = append(ls, "form:"+c.Form, "args:"+c.argMode())
			if c.Form == "assign" {
				ls = append(ls, "assign:"+c.Assign)
			}
			if c.HostVia != "" {
				ls = append(ls, "host-func-via-var")
			}
		} else {
			ls = append(ls, "route:"+c.Route)
			if c.Static {
				ls = append(ls, "static-native-call")
			}
		}
	case "method":
		nontrivial = true
		ls = append(ls, c.M.labels()...)
	case "x2":
		nontrivial = true
		ls = append(ls, c.X.labels()...)
	case "iface":
		nontrivial = true
		ls = append(ls, c.I.labels()...)
	case "var":
		nontrivial = !c.V.Ty.isBasic()
		ls = append(ls, c.V.labels()...)
	case "fwd":
		nontrivial = c.F.Hops > 0 || c.F.Source != "conv"
		ls = append(ls, "fwd:kind:"+c.F.Kind, "fwd:hops:"+strconv.Itoa(c.F.Hops), "fwd:source:"+c.F.Source, "fwd:host:"+c.F.Host)
	}
	// deterministic order
	sortStrings(ls)
	return ls, nontrivial
}

func kindClass(t *Ty) string {
	if t.isBasic() {
		return "basic"
	}
	return t.K
}

func sortStrings(s []string) {
	for i := 1; i < len(s); i++ {
		for j := i; j > 0 && s[j] < s[j-1]; j-- {
			s[j], s[j-1] = s[j-1], s[j]
		}
	}
}

var _ = reflect.TypeOf
