package c07

import (
	"fmt"
	"reflect"
	"strconv"
	"strings"
)

// X2Case is a callback scenario that crosses the boundary twice.
type X2Case struct {
	// Flow: wrap-return (host closure -> script Wrap -> returned to host),
	// wrap-take (script wraps host.H and hands it to host.Take),
	// pass-through (script hands host.H itself to host.Take),
	// closure-state (script closure with captured state, called later),
	// host-result (host function returns a func the script calls and keeps).
	Flow  string   `json:"flow"`
	FT    *Ty      `json:"ft"`              // the func type (basic parameters and results)
	H     *Fn      `json:"h"`               // behaviour of the host closure / of the script closure (closure-state)
	Calls [][]*Val `json:"calls"`           // arguments of the later calls
	Via   string   `json:"via,omitempty"`   // closure-state: result or take
	Evals int      `json:"evals,omitempty"` // number of unrelated Evals between the steps
	Rich  bool     `json:"rich,omitempty"`  // the func type has composite parameters or results
}

func (x *X2Case) labels() []string {
	ls := []string{"x2:" + x.Flow}
	if x.FT.Var {
		ls = append(ls, "variadic")
	}
	if len(x.FT.Out) > 1 {
		ls = append(ls, "multi-result")
	}
	ls = append(ls, "func-param", "func-result")
	if x.Rich {
		ls = append(ls, "x2-composite-func-type")
	}
	return ls
}

func (g *gen) genX2() *Case {
	x := &X2Case{}
	x.Flow = rapid_sample(g, []string{"wrap-return", "wrap-take", "pass-through", "closure-state", "host-result"}, "flow")
	if g.coin(50, "richfunc") {
		x.FT = g.richFuncTy()
		x.Rich = true
	} else {
		x.FT = g.funcTy()
	}
	x.H = g.fn(x.FT)
	for i, n := 0, g.intn(1, 3, "ncalls"); i < n; i++ {
		var args []*Val
		for k, pt := range x.FT.In {
			if x.FT.Var && k == len(x.FT.In)-1 {
				v := &Val{}
				for q, m := 0, g.intn(0, 2, "nextra"); q < m; q++ {
					v.E = append(v.E, g.val(pt.Elem, 1))
				}
				args = append(args, v)
				continue
			}
			args = append(args, g.val(pt, 1))
		}
		x.Calls = append(x.Calls, args)
	}
	x.Via = rapid_sample(g, []string{"result", "take"}, "via")
	x.Evals = g.intn(0, 2, "evals")
	return &Case{Dir: "x2", X: x}
}

func rapid_sample(g *gen, xs []string, label string) string {
	return xs[g.intn(0, len(xs)-1, label)]
}

// wrapperSrc renders a script func literal of type ft that counts its calls
// in Calls and forwards to f.
func wrapperSrc(ft *Ty, f string) string {
	names := make([]string, len(ft.In))
	fwd := make([]string, len(ft.In))
	for i := range names {
		names[i] = "a" + strconv.Itoa(i)
		fwd[i] = names[i]
		if ft.Var && i == len(names)-1 {
			fwd[i] += "..."
		}
	}
	callx := f + "(" + strings.Join(fwd, ", ") + ")"
	if len(ft.Out) > 0 {
		callx = "return " + callx
	}
	return "func" + ft.sigSrc(names) + " { Calls++; " + callx + " }"
}

func (c *Case) runX2() *failure {
	x := c.X
	ft := x.FT
	b := &builder{}
	s := newScript(b)
	var taken []reflect.Value
	exports := map[string]reflect.Value{}
	h := b.buildFn(ft, x.H)
	exports["H"] = h
	exports["Take"] = reflect.MakeFunc(reflect.FuncOf([]reflect.Type{ft.rtype()}, nil, false), func(in []reflect.Value) []reflect.Value {
		taken = append(taken, in[0])
		return nil
	})
	exports["MkH"] = reflect.MakeFunc(reflect.FuncOf(nil, []reflect.Type{ft.rtype()}, false), func(in []reflect.Value) []reflect.Value {
		return []reflect.Value{h}
	})
	fts := ft.src()
	var src strings.Builder
	src.WriteString("var Calls int\nvar Count int\nvar Saved " + fts + "\n\n")
	hostCalls := true // the host closure h is at the end of the chain
	switch x.Flow {
	case "wrap-return":
		src.WriteString("func Wrap(f " + fts + ") " + fts + " {\n\treturn " + wrapperSrc(ft, "f") + "\n}\n")
	case "wrap-take":
		src.WriteString("func Wrap(f " + fts + ") " + fts + " {\n\treturn " + wrapperSrc(ft, "f") + "\n}\n")
		src.WriteString("func Run() { host.Take(Wrap(host.H)) }\n")
	case "pass-through":
		src.WriteString("func Run() { host.Take(host.H) }\n")
	case "closure-state":
		hostCalls = false
		lit := s.fnSigBody(ft, x.H)
		// insert the state update at the start of the body
		idx := strings.Index(lit, "{ ")
		lit = lit[:idx] + "{ n++; Count = n; " + lit[idx+2:]
		src.WriteString("func Mk() " + fts + " {\n\tn := 0\n\treturn func" + lit + "\n}\n")
		src.WriteString("func Run() { host.Take(Mk()) }\n")
	case "host-result":
		src.WriteString("func Run() { Saved = host.MkH(); host.Take(Saved) }\n")
	}
	// the call of the func kept by the script (host-result), rendered before
	// the header so that the helpers it needs are declared
	var savedArgs []string
	if x.Flow == "host-result" {
		for k, a := range x.Calls[0] {
			if ft.Var && k == len(x.Calls[0])-1 {
				for _, e := range a.E {
					savedArgs = append(savedArgs, s.lit(ft.In[k].Elem, e, true))
				}
				continue
			}
			savedArgs = append(savedArgs, s.lit(ft.In[k], a, true))
		}
	}
	c.Src = s.header() + src.String()
	s.exports(exports)
	i, err := newInterp(exports)
	if err != nil {
		return failf("harness", nil, "%v", err)
	}
	return guarded(i, func() *failure {
		if _, err := i.Eval(c.Src); err != nil {
			return evalErr("evaluating the script", err)
		}
		noise := func(tag string) *failure {
			for q := 0; q < x.Evals; q++ {
				if _, err := i.Eval(fmt.Sprintf("var Noise%s%d = []int{%d, 2, 3}", tag, q, q)); err != nil {
					return evalErr("unrelated Eval", err)
				}
			}
			return nil
		}
		native := func(name string, args ...reflect.Value) ([]reflect.Value, *failure) {
			fv, err := i.Eval("main." + name)
			if err != nil {
				return nil, evalErr("Eval(main."+name+")", err)
			}
			if !fv.IsValid() || fv.Kind() != reflect.Func {
				return nil, failf("access", nil, "Eval(main.%s) is not a func", name)
			}
			return call("native call of "+name, fv, args, false)
		}
		var g reflect.Value
		switch {
		case x.Flow == "wrap-return":
			out, fl := native("Wrap", h)
			if fl != nil {
				return fl
			}
			g = out[0]
		case x.Flow == "closure-state" && x.Via == "result":
			out, fl := native("Mk")
			if fl != nil {
				return fl
			}
			g = out[0]
		default:
			if _, fl := native("Run"); fl != nil {
				return fl
			}
			if len(taken) != 1 {
				return failf("call-count", nil, "host.Take was called %d times, want 1", len(taken))
			}
			g = taken[0]
		}
		if !g.IsValid() || g.Kind() != reflect.Func || g.IsNil() {
			return failf("func-value", ft, "the func value that reached the host is %v", g)
		}
		if g.Type() != ft.rtype() {
			return failf("func-value", ft, "the func value that reached the host has type %v, want %v", g.Type(), ft.rtype())
		}
		wantWrapped := 0
		for n, args := range x.Calls {
			if fl := noise(fmt.Sprintf("c%d", n)); fl != nil {
				return fl
			}
			hb := &builder{}
			av := make([]reflect.Value, len(args))
			for k, a := range args {
				av[k] = hb.build(ft.In[k], a)
			}
			before := len(b.calls)
			out, fl := call(fmt.Sprintf("call %d of the func value", n), g, av, ft.Var)
			if fl != nil {
				return fl
			}
			want := evalFn(ft, x.H, av)
			if len(out) != len(want) {
				return failf("chain-result", ft, "call %d returned %d values, want %d", n, len(out), len(want))
			}
			for j := range want {
				if gd, wd := describe(out[j]), describe(want[j]); gd != wd {
					return failf("chain-result", ft, "call %d, result %d through the chain: got %s, want %s", n, j, gd, wd)
				}
			}
			if hostCalls {
				if len(b.calls) != before+1 {
					return failf("call-count", ft, "call %d reached the host closure %d times, want 1", n, len(b.calls)-before)
				}
				rec := b.calls[len(b.calls)-1]
				for k := range av {
					wd := describe(av[k])
					if ft.Var && k == len(av)-1 && len(args[k].E) == 0 {
						if !sameDesc(rec.args[k], wd, true, ft.In[k]) {
							return failf("chain-arg", ft, "call %d, argument %d seen by the host closure: got %s, want %s", n, k, rec.args[k], wd)
						}
						continue
					}
					if rec.args[k] != wd {
						return failf("chain-arg", ft, "call %d, argument %d seen by the host closure: got %s, want %s", n, k, rec.args[k], wd)
					}
				}
			}
			wantWrapped++
			switch x.Flow {
			case "wrap-return", "wrap-take":
				v, fl := global(i, "Calls")
				if fl != nil {
					return fl
				}
				if int(v.Int()) != wantWrapped {
					return failf("chain-state", ft, "after %d calls the script wrapper counted %d", wantWrapped, v.Int())
				}
			case "closure-state":
				v, fl := global(i, "Count")
				if fl != nil {
					return fl
				}
				if int(v.Int()) != wantWrapped {
					return failf("chain-state", ft, "after %d calls the captured counter of the script closure is %d", wantWrapped, v.Int())
				}
			}
		}
		if x.Flow == "host-result" {
			// the func kept by the script is still callable from the script
			args := x.Calls[0]
			xs := savedArgs
			av := make([]reflect.Value, len(args))
			var nb builder
			for k, a := range args {
				av[k] = nb.build(ft.In[k], a)
			}
			if len(ft.Out) == 1 {
				ex := "Saved(" + strings.Join(xs, ", ") + ")"
				v, err := i.Eval(ex)
				if err != nil {
					return evalErr("Eval("+ex+")", err)
				}
				want := evalFn(ft, x.H, av)
				if gd, wd := describeAs(ft.Out[0], v), describe(want[0]); gd != wd {
					return failf("chain-result", ft, "Eval(%s): got %s, want %s", ex, gd, wd)
				}
			}
		}
		return nil
	})
}
