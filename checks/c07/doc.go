// Package c07 holds the check of property C07.
package c07
