package c07

import (
	"math"
	"strconv"

	"pgregory.net/rapid"

	"verif/internal/vf"
)

// switches are the generator exclusions for recorded known findings.
type switches map[string]bool

// knownKeys lists every signature the generator knows how to avoid.
var knownKeys = []string{}

func loadSwitches() switches {
	sw := switches{}
	for _, k := range knownKeys {
		if vf.IsKnown("C07", k) {
			sw[k] = true
		}
	}
	devSwitches(sw)
	return sw
}

type gen struct {
	t  *rapid.T
	sw switches
	// noFunc / noIface / noError: restrictions of the current position
	noFunc bool
}

// intn draws uniformly from [lo, hi]. rapid's own integer generators are
// biased towards small values and bounds, which would skew every choice of
// the generator; a drawn uint64 is mixed instead (0 maps to lo, so shrinking
// still ends on the first alternative).
func (g *gen) intn(lo, hi int, label string) int {
	u := rapid.Uint64().Draw(g.t, label)
	u *= 0x9E3779B97F4A7C15
	u ^= u >> 29
	return lo + int((u>>8)%uint64(hi-lo+1))
}

// coin is true with probability pct/100 (shrinks towards false).
func (g *gen) coin(pct int, label string) bool { return g.intn(0, 99, label) >= 100-pct }

func pick[T any](g *gen, xs []T, label string) T { return xs[g.intn(0, len(xs)-1, label)] }

// noNamed: named non-struct host types are switched off.
func (g *gen) noNamed() bool { return g.sw["no-named-types"] }

func (g *gen) basicTy() *Ty {
	return basic(pick(g, basicNames, "basic"))
}

// simpleBasicTy prefers the common kinds.
func (g *gen) simpleBasicTy() *Ty {
	if g.coin(50, "common") {
		return basic(pick(g, []string{"int", "string", "bool", "float64", "uint8", "int64"}, "commonkind"))
	}
	return g.basicTy()
}

func (g *gen) funcTy() *Ty {
	t := &Ty{K: "func"}
	for i, n := 0, g.intn(0, 3, "fnparams"); i < n; i++ {
		t.In = append(t.In, g.simpleBasicTy())
	}
	for i, n := 0, g.intn(0, 2, "fnresults"); i < n; i++ {
		t.Out = append(t.Out, g.simpleBasicTy())
	}
	if g.coin(15, "fnvariadic") {
		t.In = append(t.In, &Ty{K: "slice", Elem: g.simpleBasicTy()})
		t.Var = true
	}
	return t
}

// richFuncTy draws a func type whose parameters and results may be
// composite (no func types inside).
func (g *gen) richFuncTy() *Ty {
	old := g.noFunc
	g.noFunc = true
	defer func() { g.noFunc = old }()
	t := &Ty{K: "func"}
	for i, n := 0, g.intn(0, 3, "fnparams"); i < n; i++ {
		t.In = append(t.In, g.ty(g.intn(0, 1, "depth")))
	}
	for i, n := 0, g.intn(0, 2, "fnresults"); i < n; i++ {
		t.Out = append(t.Out, g.ty(g.intn(0, 1, "depth")))
	}
	if g.coin(15, "fnvariadic") {
		t.In = append(t.In, &Ty{K: "slice", Elem: g.ty(0)})
		t.Var = true
	}
	return t
}

func (g *gen) keyTy() *Ty {
	switch g.intn(0, 9, "keykind") {
	case 0:
		return &Ty{K: "struct", Name: "T0"}
	case 1:
		return &Ty{K: "array", N: g.intn(1, 2, "keyarr"), Elem: g.simpleBasicTy()}
	case 2, 3, 4:
		return basic(pick(g, []string{"string", "int", "uint8", "bool", "int64"}, "keybasic"))
	case 5:
		if !g.noNamed() {
			return &Ty{K: "named", Name: pick(g, []string{"N0", "S0"}, "keynamed")}
		}
	}
	k := g.basicTy()
	return k
}

// ty draws a type with at most depth composite layers.
func (g *gen) ty(depth int) *Ty {
	k := g.intn(0, 99, "tykind")
	if depth <= 0 && k >= 64 {
		k = k % 64
	}
	switch {
	case k < 30:
		return g.basicTy()
	case k < 38:
		return &Ty{K: "struct", Name: pick(g, structNames, "struct")}
	case k < 44:
		if g.noNamed() {
			return &Ty{K: "struct", Name: pick(g, structNames, "struct")}
		}
		return &Ty{K: "named", Name: pick(g, namedNames, "named")}
	case k < 50:
		return &Ty{K: "error"}
	case k < 57:
		return &Ty{K: "iface"}
	case k < 64:
		if g.noFunc {
			return g.basicTy()
		}
		return g.funcTy()
	case k < 73:
		if g.coin(45, "ptrstruct") {
			return &Ty{K: "ptr", Elem: &Ty{K: "struct", Name: pick(g, structNames, "struct")}}
		}
		return &Ty{K: "ptr", Elem: g.ty(depth - 1)}
	case k < 84:
		return &Ty{K: "slice", Elem: g.ty(depth - 1)}
	case k < 89:
		return &Ty{K: "array", N: g.intn(0, 3, "arrlen"), Elem: g.ty(depth - 1)}
	default:
		return &Ty{K: "map", Key: g.keyTy(), Elem: g.ty(depth - 1)}
	}
}

var intEdges = map[string][]int64{
	"int":   {0, 1, -1, math.MaxInt64, math.MinInt64, 42},
	"int8":  {0, 1, -1, math.MaxInt8, math.MinInt8, 42},
	"int16": {0, 1, -1, math.MaxInt16, math.MinInt16, 4242},
	"int32": {0, 1, -1, math.MaxInt32, math.MinInt32, 65, 0x10FFFF},
	"int64": {0, 1, -1, math.MaxInt64, math.MinInt64, 1 << 40},
}

var uintEdges = map[string][]uint64{
	"uint":    {0, 1, math.MaxUint64, 42},
	"uint8":   {0, 1, math.MaxUint8, 200},
	"uint16":  {0, 1, math.MaxUint16, 40000},
	"uint32":  {0, 1, math.MaxUint32, 3000000000},
	"uint64":  {0, 1, math.MaxUint64, 1 << 63},
	"uintptr": {0, 1, math.MaxUint64, 4096},
}

var floatVals = []float64{0, 1, -1.5, 0.1, 2.5, 1e100, math.MaxFloat64, math.SmallestNonzeroFloat64, -123456.789, 3}
var float32Vals = []float64{0, 1, -1.5, float64(float32(0.1)), 2.5, math.MaxFloat32, math.SmallestNonzeroFloat32, 16777216, -0.375}

var stringVals = []string{"", "a", "héllo", "\xff", "a\"b\\n", "\x00z", "日本", "line\nbreak", "tab\t", "long string with spaces and 0123456789"}

func (g *gen) floatBits(bits int) float64 {
	if bits == 32 {
		if g.coin(70, "f32edge") {
			return pick(g, float32Vals, "f32")
		}
		f := rapid.Float32().Draw(g.t, "f32any")
		if f != f || math.IsInf(float64(f), 0) || (f == 0 && math.Signbit(float64(f))) {
			return 0.5
		}
		return float64(f)
	}
	if g.coin(70, "f64edge") {
		return pick(g, floatVals, "f64")
	}
	f := rapid.Float64().Draw(g.t, "f64any")
	if f != f || math.IsInf(f, 0) || (f == 0 && math.Signbit(f)) {
		return 0.25
	}
	return f
}

func (g *gen) str() string {
	if g.coin(80, "stredge") {
		return pick(g, stringVals, "str")
	}
	return rapid.StringN(0, 8, 16).Draw(g.t, "strany")
}

// val draws a value of t. depth bounds the nesting of interface contents.
func (g *gen) val(t *Ty, depth int) *Val {
	if g.coin(8, "zero") {
		return zeroVal(t)
	}
	v := &Val{}
	switch {
	case t.K == "bool":
		v.B = g.coin(50, "bool")
	case isIntKind(t.K):
		e := intEdges[t.K]
		v.I = e[g.intn(0, len(e)-1, "intedge")]
		if g.coin(30, "intsmall") {
			v.I = int64(g.intn(-100, 100, "int"))
		}
		v.Alt = g.coin(15, "explicit")
	case isUintKind(t.K):
		e := uintEdges[t.K]
		v.U = e[g.intn(0, len(e)-1, "uintedge")]
		if g.coin(30, "uintsmall") {
			v.U = uint64(g.intn(0, 100, "uint"))
		}
		v.Alt = g.coin(15, "explicit")
	case t.K == "float32":
		setF64(v, g.floatBits(32))
		v.Alt = g.coin(15, "explicit")
	case t.K == "float64":
		setF64(v, g.floatBits(64))
		v.Alt = g.coin(15, "explicit")
	case t.K == "complex64":
		setF64(v, g.floatBits(32))
		v.U2 = math.Float64bits(g.floatBits(32))
		v.Alt = g.coin(15, "explicit")
	case t.K == "complex128":
		setF64(v, g.floatBits(64))
		v.U2 = math.Float64bits(g.floatBits(64))
		v.Alt = g.coin(15, "explicit")
	case t.K == "string":
		v.S = g.str()
	case t.K == "struct":
		_, fts := fieldTys(t.Name)
		for _, ft := range fts {
			v.E = append(v.E, g.val(ft, depth-1))
		}
		v.Alt = g.coin(15, "positional")
	case t.K == "named":
		v = g.val(namedUnder[t.Name], depth)
		v.Alt = g.coin(40, "namedlit")
	case t.K == "ptr":
		if g.coin(15, "nilptr") {
			v.Nil = true
			break
		}
		v.E = []*Val{g.val(t.Elem, depth-1)}
		v.Alt = g.coin(50, "addrof")
	case t.K == "array":
		for i := 0; i < t.N; i++ {
			v.E = append(v.E, g.val(t.Elem, depth-1))
		}
	case t.K == "slice":
		switch k := g.intn(0, 9, "slicekind"); {
		case k == 0:
			v.Nil = true
			v.Alt = g.coin(30, "typednil")
		case k == 1:
			// empty, not nil
		default:
			for i, n := 0, g.intn(1, 3, "slicelen"); i < n; i++ {
				v.E = append(v.E, g.val(t.Elem, depth-1))
			}
		}
	case t.K == "map":
		switch k := g.intn(0, 9, "mapkind"); {
		case k == 0:
			v.Nil = true
			v.Alt = g.coin(30, "typednil")
		case k == 1:
		default:
			seen := map[string]bool{}
			for i, n := 0, g.intn(1, 3, "maplen"); i < n; i++ {
				kv := g.val(t.Key, 0)
				kv.Alt = false
				d := describeModel(t.Key, kv)
				if seen[d] {
					continue
				}
				seen[d] = true
				v.E = append(v.E, kv, g.val(t.Elem, depth-1))
			}
		}
	case t.K == "error":
		switch k := g.intn(0, 9, "errkind"); {
		case k < 3:
			v.Nil = true
		case k < 5 && !g.sw["host-error-type"]:
			v.HostErr = true
			v.I = int64(g.intn(0, 99, "code"))
		default:
			v.S = "err:" + g.str()
		}
	case t.K == "iface":
		if g.coin(20, "niliface") {
			v.Nil = true
			break
		}
		switch k := g.intn(0, 99, "ifacedyn"); {
		case depth > 0 && k < 30:
			v.T = &Ty{K: "struct", Name: pick(g, structNames, "ifstruct")}
		case depth > 0 && k < 45 && !g.sw["no-rich-iface"]:
			v.T = ifaceExtra[g.intn(0, len(ifaceExtra)-1, "ifextra")]
		default:
			v.T = g.basicTy()
		}
		e := g.val(v.T, depth-1)
		v.E = []*Val{e}
	case t.K == "func":
		if g.coin(15, "nilfunc") {
			v.Nil = true
			break
		}
		v.Fn = g.fn(t)
		switch k := g.intn(0, 9, "fnorigin"); {
		case k < 2:
			v.Fn.Host = true
		case k < 4:
			v.Fn.Named = true
		}
	}
	return v
}

// fn draws the behaviour of a func value of type t.
func (g *gen) fn(t *Ty) *Fn {
	fn := &Fn{}
	for _, rt := range t.Out {
		c := g.val(rt, 0)
		c.Alt = false
		fn.Const = append(fn.Const, c)
		var usable []int
		for u := range t.In {
			if fnUsable(t, u, rt) {
				usable = append(usable, u)
			}
		}
		u := -1
		if len(usable) > 0 && g.coin(80, "useparam") {
			u = usable[g.intn(0, len(usable)-1, "param")]
		}
		fn.Use = append(fn.Use, u)
	}
	return fn
}

// ifaceExtra are further dynamic types of generated interface{} values.
var ifaceExtra = []*Ty{
	{K: "ptr", Elem: &Ty{K: "struct", Name: "T0"}},
	{K: "slice", Elem: &Ty{K: "int"}},
	{K: "map", Key: &Ty{K: "string"}, Elem: &Ty{K: "int"}},
	{K: "named", Name: "N0"},
	{K: "named", Name: "L0"},
}

// isZero reports whether v is the zero value of t.
func isZero(t *Ty, v *Val) bool {
	var nb builder
	return nb.build(t, v).IsZero()
}

// Mut is one mutation of an argument performed by the callee.
type Mut struct {
	Arg  int    `json:"arg"`
	Kind string `json:"kind"` // elem, entry, pointee, field, arr-elem (by value), struct-field (by value)
	Idx  int    `json:"idx"`
	Key  *Val   `json:"key,omitempty"`
	New  *Val   `json:"new"`
}

// mutations lists the mutation kinds applicable to (t, v).
func mutKinds(t *Ty, v *Val) []string {
	var ks []string
	switch t.K {
	case "slice":
		if !v.Nil && len(v.E) > 0 {
			ks = append(ks, "elem")
		}
	case "map":
		if !v.Nil {
			ks = append(ks, "entry")
		}
	case "ptr":
		if !v.Nil {
			ks = append(ks, "pointee")
			if t.Elem.K == "struct" {
				ks = append(ks, "field")
			}
		}
	case "array":
		if t.N > 0 {
			ks = append(ks, "arr-elem")
		}
	case "struct":
		ks = append(ks, "struct-field")
	}
	return ks
}

// mutTarget is the type of the mutated place.
func mutTarget(t *Ty, m *Mut) *Ty {
	switch m.Kind {
	case "elem", "entry", "arr-elem", "pointee":
		return t.Elem
	case "field":
		_, fts := fieldTys(t.Elem.Name)
		return fts[m.Idx]
	case "struct-field":
		_, fts := fieldTys(t.Name)
		return fts[m.Idx]
	}
	panic("c07: bad mutation kind")
}

func (g *gen) mut(arg int, t *Ty, v *Val) *Mut {
	ks := mutKinds(t, v)
	if len(ks) == 0 {
		return nil
	}
	m := &Mut{Arg: arg, Kind: ks[g.intn(0, len(ks)-1, "mutkind")]}
	switch m.Kind {
	case "elem":
		m.Idx = g.intn(0, len(v.E)-1, "mutidx")
	case "arr-elem":
		m.Idx = g.intn(0, t.N-1, "mutidx")
	case "entry":
		if len(v.E) > 0 && g.coin(50, "existingkey") {
			m.Key = v.E[2*g.intn(0, len(v.E)/2-1, "mutkey")].clone()
		} else {
			m.Key = g.val(t.Key, 0)
			m.Key.Alt = false
		}
	case "field":
		_, fts := fieldTys(t.Elem.Name)
		m.Idx = g.intn(0, len(fts)-1, "mutfield")
	case "struct-field":
		_, fts := fieldTys(t.Name)
		m.Idx = g.intn(0, len(fts)-1, "mutfield")
	}
	m.New = g.val(mutTarget(t, m), 1)
	return m
}

// applyMutVal returns the value after the mutation as seen by the callee
// (callee = true) or by the caller (by-value kinds are unchanged).
func applyMutVal(t *Ty, v *Val, m *Mut, callee bool) *Val {
	c := v.clone()
	switch m.Kind {
	case "elem":
		c.E[m.Idx] = m.New.clone()
	case "arr-elem", "struct-field":
		if callee {
			c.E[m.Idx] = m.New.clone()
		}
	case "pointee":
		c.E[0] = m.New.clone()
	case "field":
		c.E[0].E[m.Idx] = m.New.clone()
	case "entry":
		kd := describeModel(t.Key, m.Key)
		for i := 0; i+1 < len(c.E); i += 2 {
			if describeModel(t.Key, c.E[i]) == kd {
				c.E[i+1] = m.New.clone()
				return c
			}
		}
		c.E = append(c.E, m.Key.clone(), m.New.clone())
	}
	return c
}

// mutStmt renders the mutation of the place named name.
func (s *script) mutStmt(t *Ty, name string, m *Mut) string {
	nl := s.lit(mutTarget(t, m), m.New, true)
	switch m.Kind {
	case "elem", "arr-elem":
		return name + "[" + strconv.Itoa(m.Idx) + "] = " + nl
	case "entry":
		// the key is written with an explicit conversion: an untyped constant
		// index of a map[complex64]T is converted to complex128 by the
		// interpreter (constant conversion is C03's subject, not the boundary)
		k := m.Key.clone()
		if t.Key.isBasic() {
			k.Alt = true
		}
		return name + "[" + s.lit(t.Key, k, true) + "] = " + nl
	case "pointee":
		return "*" + name + " = " + nl
	case "field":
		ns, _ := fieldTys(t.Elem.Name)
		return name + "." + ns[m.Idx] + " = " + nl
	case "struct-field":
		ns, _ := fieldTys(t.Name)
		return name + "." + ns[m.Idx] + " = " + nl
	}
	panic("c07: bad mutation kind")
}
