package c07

import (
	"errors"
	"fmt"
	"reflect"
	"strconv"
	"strings"
	"time"
	"verif/internal/yrun"

	"github.com/traefik/yaegi/interp"
	"github.com/traefik/yaegi/stdlib"
)

// Case is the rapid-independent recipe of one boundary scenario. Both the
// script source and the host-side values are rebuilt from it.
type Case struct {
	Dir string `json:"dir"` // s2h, method, h2s, x2, iface, var

	// s2h and h2s: the signature and the drawn values
	Sig    *Ty    `json:"sig,omitempty"`    // func type (In, Out, Var)
	Args   []*Val `json:"args,omitempty"`   // one per parameter; the variadic one is the slice of extra arguments
	Spread bool   `json:"spread,omitempty"` // variadic call written f(a, s...)
	Rets   []*Val `json:"rets,omitempty"`   // drawn results (s2h), literal results (h2s)
	Mut    *Mut   `json:"mut,omitempty"`    // mutation performed by the callee

	// s2h
	Form    string `json:"form,omitempty"`     // return, assign, nested, nested-script, discard, defer, cond, pkgvar, expr
	Assign  string `json:"assign,omitempty"`   // define, local, global, redeclare
	Redecl  int    `json:"redecl,omitempty"`   // redeclare: the result position whose variable exists before the := and is captured by a pointer and a closure
	Blank   []bool `json:"blank,omitempty"`    // assign: result positions assigned to _
	ArgMode string `json:"arg_mode,omitempty"` // inline, local, global, call (each argument is the result of a script function), multicall (host.F(mkAll()))
	HostVia string `json:"host_via,omitempty"` // "" (host.F(...)), local-var (hf := host.F; hf(...)), global-var
	Closure bool   `json:"closure,omitempty"`  // the call sits in a func literal called at once

	// h2s
	Route    string `json:"route,omitempty"`     // eval-qualified, eval-bare, symbols, globals
	FuncVar  bool   `json:"func_var,omitempty"`  // declared as var F = func...
	NamedRes bool   `json:"named_res,omitempty"` // named results
	Echo     []int  `json:"echo,omitempty"`      // result j echoes parameter Echo[j] (>= 0), is literal Rets[j] (-1) or applies func parameter -2-k to the probe arguments
	Static   bool   `json:"static,omitempty"`    // the signature is one of the statically typed ones (called without reflect)

	// method, x2, iface, var: see the respective files
	M *MethodCase `json:"m,omitempty"`
	X *X2Case     `json:"x,omitempty"`
	I *IfaceCase  `json:"i,omitempty"`
	V *VarCase    `json:"v,omitempty"`
	F *FwdCase    `json:"f,omitempty"`

	// Src is the generated script (informational; rebuilt on replay).
	Src string `json:"src,omitempty"`
}

// failure is a violated expectation.
type failure struct {
	step string // where: arg, result-host, result-script, mutation, eval, escaped, ...
	msg  string
	ty   *Ty // type of the offending element, if any
}

func failf(step string, ty *Ty, format string, a ...any) *failure {
	return &failure{step: step, ty: ty, msg: fmt.Sprintf(format, a...)}
}

// ---------------------------------------------------------------------------
// interpreter session with operation budget and progress watchdog

type budgetExceeded struct{}

const opBudget = 3_000_000

func newInterp(exports map[string]reflect.Value) (*interp.Interpreter, error) {
	i := interp.New(interp.Options{Stdout: discard{}, Stderr: discard{}})
	if err := i.Use(stdlib.Symbols); err != nil {
		return nil, err
	}
	exports["T0"] = reflect.ValueOf((*T0)(nil))
	exports["T1"] = reflect.ValueOf((*T1)(nil))
	exports["T2"] = reflect.ValueOf((*T2)(nil))
	exports["T3"] = reflect.ValueOf((*T3)(nil))
	exports["T4"] = reflect.ValueOf((*T4)(nil))
	exports["E0"] = reflect.ValueOf((*E0)(nil))
	exports["N0"] = reflect.ValueOf((*N0)(nil))
	exports["S0"] = reflect.ValueOf((*S0)(nil))
	exports["L0"] = reflect.ValueOf((*L0)(nil))
	exports["M0"] = reflect.ValueOf((*M0)(nil))
	exports["F0"] = reflect.ValueOf((*F0)(nil))
	if err := i.Use(interp.Exports{"host/host": exports}); err != nil {
		return nil, err
	}
	i.VerifSetStepHook(func() {
		if i.VerifOps() > opBudget {
			panic(budgetExceeded{})
		}
	})
	return i, nil
}

type discard struct{}

func (discard) Write(p []byte) (int, error) { return len(p), nil }

// guarded runs f (which drives interpreter i) on its own goroutine. It
// returns a failure when a Go panic escapes f, when the operation budget is
// exhausted or when no interpreted operation happens for 20 s.
func guarded(i *interp.Interpreter, f func() *failure) *failure {
	done := make(chan *failure, 1)
	go func() {
		var r *failure
		defer func() {
			if p := recover(); p != nil {
				if _, ok := p.(budgetExceeded); ok {
					r = failf("diverged", nil, "more than %d interpreted operations", opBudget)
				} else {
					r = failf("escaped", nil, "a Go panic escaped to the host: %v", p)
				}
			}
			done <- r
		}()
		r = f()
	}()
	last, clock := i.VerifOps(), yrun.NewStallClock()
	t := time.NewTicker(100 * time.Millisecond)
	defer t.Stop()
	for {
		select {
		case r := <-done:
			return r
		case <-t.C:
			if n := i.VerifOps(); n != last {
				last = n
				clock.Reset()
			} else if clock.Idle() > 20*time.Second {
				return failf("stuck", nil, "no interpreted operation and no return for 20s")
			}
		}
	}
}

// evalErr classifies an error returned by Eval.
func evalErr(what string, err error) *failure {
	var p interp.Panic
	if errors.As(err, &p) {
		if _, ok := p.Value.(budgetExceeded); ok {
			return failf("diverged", nil, "%s: more than %d interpreted operations", what, opBudget)
		}
		return failf("panic", nil, "%s panicked: %v", what, p.Value)
	}
	return failf("eval-error", nil, "%s: %v", what, err)
}

// global reads a package-level variable of the script: Eval of the bare
// name, cross-checked with Globals().
func global(i *interp.Interpreter, name string) (reflect.Value, *failure) {
	v, err := i.Eval(name)
	if err != nil {
		return v, evalErr("Eval("+name+")", err)
	}
	g := i.Globals()[name]
	if !v.IsValid() || !g.IsValid() {
		return v, failf("access", nil, "script variable %s: Eval gives %v, Globals gives %v", name, v, g)
	}
	if dv, dg := describe(v), describe(g); dv != dg {
		return v, failf("access-disagree", nil, "script variable %s: Eval(%s) gives %s, Globals()[%s] gives %s", name, name, dv, name, dg)
	}
	return v, nil
}

// call calls a func value natively, converting panics into failures.
func call(what string, f reflect.Value, args []reflect.Value, spread bool) (out []reflect.Value, fl *failure) {
	defer func() {
		if p := recover(); p != nil {
			if _, ok := p.(budgetExceeded); ok {
				panic(p)
			}
			fl = failf("escaped", nil, "%s: a Go panic escaped to the host: %v", what, p)
		}
	}()
	if spread {
		return f.CallSlice(args), nil
	}
	return f.Call(args), nil
}

// ---------------------------------------------------------------------------
// script -> host

func (c *Case) nFixed() int {
	if c.Sig.Var {
		return len(c.Sig.In) - 1
	}
	return len(c.Sig.In)
}

// argMode is the effective argument passing mode.
func (c *Case) argMode() string {
	total := c.nFixed()
	if c.Sig.Var {
		total += len(c.Args[len(c.Args)-1].E)
	}
	switch {
	case c.ArgMode == "":
		return "inline"
	case c.ArgMode == "multicall" && (total == 0 || (c.Sig.Var && c.Spread) || c.Mut != nil):
		return "inline"
	}
	return c.ArgMode
}

// argIsVar reports whether argument k is passed through a script variable.
func (c *Case) argIsVar(k int) bool {
	m := c.argMode()
	return m == "local" || m == "global" || (c.Mut != nil && c.Mut.Arg == k && m != "multicall")
}

// returnsResults reports whether Call hands the results of host.F back.
func (c *Case) returnsResults() bool {
	switch c.Form {
	case "return", "assign", "pkgvar":
		return true
	}
	return false
}

func stripFn(v *Val) *Val {
	c := v.clone()
	var rec func(*Val)
	rec = func(x *Val) {
		if x == nil {
			return
		}
		if x.Fn != nil {
			x.Fn.Host, x.Fn.Named = false, false
		}
		for _, e := range x.E {
			rec(e)
		}
	}
	rec(c)
	return c
}

func (c *Case) runS2H() *failure {
	b := &builder{}
	s := newScript(b)
	sig := c.Sig
	nf := c.nFixed()

	// argument expressions
	var pre []string     // local declarations
	var globals []string // package-level declarations
	var argx []string
	mode := c.argMode()
	// place renders one argument (or extra argument) and returns its expression
	mutName := ""
	place := func(name string, t *Ty, v *Val, mutated bool) (expr string) {
		if mutated {
			defer func() { mutName = expr }()
		}
		m := mode
		if mutated && (m == "inline" || m == "call") {
			m = "local"
		}
		if c.Form == "pkgvar" && m == "local" {
			m = "global"
		}
		switch m {
		case "local":
			pre = append(pre, fmt.Sprintf("var %s %s = %s", name, t.src(), s.lit(t, v, true)))
			return name
		case "global":
			// package-level names differ from the parameter names of generated
			// func literals (a0, a1...): the interpreter's initialisation-order
			// analysis takes a shadowing parameter for a reference to the
			// global ("variable definition loop", C15's subject)
			name = "g_" + name
			globals = append(globals, fmt.Sprintf("var %s %s = %s", name, t.src(), s.lit(t, v, true)))
			return name
		case "call":
			globals = append(globals, fmt.Sprintf("func mk_%s() %s { return %s }", name, t.src(), s.lit(t, v, true)))
			return "mk_" + name + "()"
		}
		return s.lit(t, v, true)
	}
	if mode == "multicall" {
		var ts, ls []string
		for k := 0; k < nf; k++ {
			ts = append(ts, sig.In[k].src())
			ls = append(ls, s.lit(sig.In[k], c.Args[k], true))
		}
		if sig.Var {
			for _, e := range c.Args[nf].E {
				ts = append(ts, sig.In[nf].Elem.src())
				ls = append(ls, s.lit(sig.In[nf].Elem, e, true))
			}
		}
		globals = append(globals, "func mkAll() ("+strings.Join(ts, ", ")+") { return "+strings.Join(ls, ", ")+" }")
		argx = []string{"mkAll()"}
	} else {
		for k := 0; k < nf; k++ {
			argx = append(argx, place("a"+strconv.Itoa(k), sig.In[k], c.Args[k], c.Mut != nil && c.Mut.Arg == k))
		}
		if sig.Var {
			vt, vv := sig.In[nf], c.Args[nf]
			switch {
			case c.Spread && mode == "inline" && !(c.Mut != nil && c.Mut.Arg == nf):
				argx = append(argx, s.lit(vt, vv, false)+"...")
			case c.Spread:
				argx = append(argx, place("a"+strconv.Itoa(nf), vt, vv, c.Mut != nil && c.Mut.Arg == nf)+"...")
			default:
				for j, e := range vv.E {
					argx = append(argx, place(fmt.Sprintf("e%d", j), vt.Elem, e, false))
				}
			}
		}
	}
	callee := "host.F"
	switch c.HostVia {
	case "local-var":
		if c.Form != "pkgvar" {
			pre = append(pre, "hf := host.F")
			callee = "hf"
			break
		}
		fallthrough
	case "global-var":
		globals = append(globals, "var hf = host.F")
		callee = "hf"
	}
	callx := callee + "(" + strings.Join(argx, ", ") + ")"

	var body []string
	body = append(body, pre...)
	nout := len(sig.Out)
	rnames := make([]string, nout)
	for j := range rnames {
		rnames[j] = "r" + strconv.Itoa(j)
	}
	checkResults := func(names []string) {
		for j, rt := range sig.Out {
			if len(c.Blank) > j && c.Blank[j] {
				continue
			}
			body = append(body, fmt.Sprintf("if !(%s) { Fail += \"r%d;\" }", s.eqCall(rt, names[j], s.lit(rt, stripFn(c.Rets[j]), false)), j))
		}
	}
	resTypes := ""
	if c.returnsResults() && nout > 0 {
		var ts []string
		for _, rt := range sig.Out {
			ts = append(ts, rt.src())
		}
		resTypes = " (" + strings.Join(ts, ", ") + ")"
	}
	switch c.Form {
	case "return":
		if nout == 0 {
			body = append(body, callx)
		} else {
			body = append(body, "return "+callx)
		}
	case "assign":
		lhs := make([]string, nout)
		for j := range lhs {
			lhs[j] = rnames[j]
			if len(c.Blank) > j && c.Blank[j] {
				lhs[j] = "_"
			}
		}
		switch {
		case nout == 0:
			body = append(body, callx)
		case c.Assign == "define":
			allBlank := true
			for j := range lhs {
				if lhs[j] == "_" {
					body = append(body, fmt.Sprintf("var %s %s", rnames[j], sig.Out[j].src()))
				} else {
					allBlank = false
				}
			}
			op := " := "
			if allBlank {
				op = " = "
			}
			body = append(body, strings.Join(lhs, ", ")+op+callx)
		case c.Assign == "redeclare" && nout >= 2 && c.Redecl < nout:
			// r0, r1 := host.F(...) where r1 exists already: it is assigned, not
			// re-created, so a pointer to it and a closure over it taken before
			// the statement see the result
			j := c.Redecl
			body = append(body, fmt.Sprintf("var %s %s", rnames[j], sig.Out[j].src()))
			body = append(body, fmt.Sprintf("p%s := &%s", rnames[j], rnames[j]))
			body = append(body, fmt.Sprintf("c%s := func() %s { return %s }", rnames[j], sig.Out[j].src(), rnames[j]))
			body = append(body, strings.Join(rnames, ", ")+" := "+callx)
			want := s.lit(sig.Out[j], stripFn(c.Rets[j]), false)
			body = append(body, fmt.Sprintf("if !(%s) { Fail += \"r%d-ptr;\" }", s.eqCall(sig.Out[j], "(*p"+rnames[j]+")", want), j))
			body = append(body, fmt.Sprintf("if !(%s) { Fail += \"r%d-closure;\" }", s.eqCall(sig.Out[j], "c"+rnames[j]+"()", want), j))
		case c.Assign == "global":
			for j := range lhs {
				globals = append(globals, fmt.Sprintf("var %s %s", rnames[j], sig.Out[j].src()))
			}
			body = append(body, strings.Join(lhs, ", ")+" = "+callx)
		default:
			for j := range lhs {
				body = append(body, fmt.Sprintf("var %s %s", rnames[j], sig.Out[j].src()))
			}
			body = append(body, strings.Join(lhs, ", ")+" = "+callx)
		}
		checkResults(rnames)
	case "nested":
		body = append(body, "host.G("+callx+")")
	case "nested-script":
		var ps []string
		for j, rt := range sig.Out {
			ps = append(ps, fmt.Sprintf("x%d %s", j, rt.src()))
		}
		saved := body
		body = nil
		xn := make([]string, nout)
		for j := range xn {
			xn[j] = "x" + strconv.Itoa(j)
		}
		checkResults(xn)
		globals = append(globals, "func sink("+strings.Join(ps, ", ")+") {\n\tSunk++\n\t"+strings.Join(body, "\n\t")+"\n}")
		body = append(saved, "sink("+callx+")")
	case "discard":
		body = append(body, callx)
	case "defer":
		body = append(body, "defer "+callx)
	case "cond":
		body = append(body, "if "+callx+" { Branch = \"T\" } else { Branch = \"F\" }")
	case "expr":
		body = append(body, fmt.Sprintf("if !(%s) { Fail += \"r0;\" }", s.eqCall(sig.Out[0], callx, s.lit(sig.Out[0], stripFn(c.Rets[0]), false))))
	case "pkgvar":
		if nout > 0 {
			globals = append(globals, "var "+strings.Join(rnames, ", ")+" = "+callx)
			checkResults(rnames)
		} else {
			globals = append(globals, "var _ = func() bool { "+callx+"; return true }()")
		}
	}
	// mutation visible in the script
	if c.Mut != nil && c.Form != "return" && c.Form != "pkgvar" && c.Form != "defer" {
		k := c.Mut.Arg
		after := applyMutVal(sig.In[k], c.Args[k], c.Mut, false)
		body = append(body, fmt.Sprintf("if !(%s) { Fail += \"mut;\" }", s.eqCall(sig.In[k], mutName, s.lit(sig.In[k], stripFn(after), false))))
	}
	if c.returnsResults() && c.Form != "return" && nout > 0 {
		body = append(body, "return "+strings.Join(rnames, ", "))
	}
	var src strings.Builder
	inner := "\t" + strings.Join(body, "\n\t") + "\n"
	if c.Closure {
		ret := ""
		if resTypes != "" {
			ret = "return "
		}
		inner = "\t" + ret + "func()" + resTypes + " {\n\t" + strings.Join(body, "\n\t\t") + "\n\t}()\n"
	}
	fmt.Fprintf(&src, "var Fail string\nvar Branch string\nvar Sunk int\n%s\n\nfunc Call()%s {\n%s}\n", strings.Join(globals, "\n"), resTypes, inner)
	c.Src = s.header() + src.String()

	// host side
	var recv [][]string
	var sunk [][]string
	exports := map[string]reflect.Value{}
	s.exports(exports)
	exports["F"] = reflect.MakeFunc(sig.rtype(), func(in []reflect.Value) []reflect.Value {
		d := make([]string, len(in))
		for k, a := range in {
			d[k] = describe(a)
		}
		recv = append(recv, d)
		if c.Mut != nil {
			applyMutReflect(b, sig.In[c.Mut.Arg], in[c.Mut.Arg], c.Mut)
		}
		out := make([]reflect.Value, nout)
		for j, rt := range sig.Out {
			out[j] = b.build(rt, c.Rets[j])
		}
		return out
	})
	gt := &Ty{K: "func", In: sig.Out}
	exports["G"] = reflect.MakeFunc(gt.rtype(), func(in []reflect.Value) []reflect.Value {
		d := make([]string, len(in))
		for k, a := range in {
			d[k] = describe(a)
		}
		sunk = append(sunk, d)
		return nil
	})
	i, err := newInterp(exports)
	if err != nil {
		return failf("harness", nil, "%v", err)
	}
	return guarded(i, func() *failure {
		if _, err := i.Eval(c.Src); err != nil {
			return evalErr("evaluating the script", err)
		}
		fv, err := i.Eval("main.Call")
		if err != nil {
			return evalErr("Eval(main.Call)", err)
		}
		if !fv.IsValid() || fv.Kind() != reflect.Func {
			return failf("access", nil, "Eval(main.Call) is not a func: %v", fv)
		}
		out, fl := call("Call()", fv, nil, false)
		if fl != nil {
			return fl
		}
		// 1. what the host function received
		if len(recv) != 1 {
			return failf("call-count", nil, "host.F was called %d times, want 1", len(recv))
		}
		got := recv[0]
		if len(got) != len(sig.In) {
			return failf("arg", nil, "host.F received %d arguments, want %d", len(got), len(sig.In))
		}
		for k := 0; k < len(sig.In); k++ {
			want := describeModel(sig.In[k], c.Args[k])
			if sig.Var && k == nf && !c.Spread {
				vv := &Val{E: c.Args[k].E}
				want = describeModel(sig.In[k], vv)
				if len(vv.E) == 0 && (got[k] == sig.In[k].rtype().String()+":nil" || got[k] == sig.In[k].rtype().String()+":[]") {
					continue
				}
			}
			if got[k] != want {
				return failf("arg", sig.In[k], "argument %d received by the host function: got %s, the script passed %s", k, got[k], want)
			}
		}
		// 2. results seen by the host through Call
		if c.returnsResults() {
			if len(out) != nout {
				return failf("result-host", nil, "Call returned %d values, want %d", len(out), nout)
			}
			for j, rt := range sig.Out {
				want := describeModel(rt, c.Rets[j])
				if c.Form == "assign" && len(c.Blank) > j && c.Blank[j] {
					want = describeModel(rt, zeroVal(rt))
				}
				if g := describe(out[j]); g != want {
					return failf("result-host", rt, "result %d of host.F handed back by Call: got %s, host.F returned %s", j, g, want)
				}
			}
		}
		// 3. the script's own view
		if c.Form == "nested" {
			if len(sunk) != 1 {
				return failf("call-count", nil, "host.G was called %d times, want 1", len(sunk))
			}
			for j, rt := range sig.Out {
				if want := describeModel(rt, c.Rets[j]); sunk[0][j] != want {
					return failf("nested-arg", rt, "host.G(host.F(...)) argument %d: got %s, host.F returned %s", j, sunk[0][j], want)
				}
			}
		}
		for _, v := range [][2]string{{"Fail", ""}, {"Branch", ""}, {"Sunk", ""}} {
			r, fl := global(i, v[0])
			if fl != nil {
				return fl
			}
			switch v[0] {
			case "Fail":
				if r.String() != "" {
					return failf("script-view", c.failTy(r.String()), "the script saw different values than the host supplied: %s", r.String())
				}
			case "Branch":
				if c.Form == "cond" {
					want := "F"
					if c.Rets[0].B {
						want = "T"
					}
					if r.String() != want {
						return failf("script-view", sig.Out[0], "if host.F(...) took branch %q, host.F returned %v", r.String(), c.Rets[0].B)
					}
				}
			case "Sunk":
				if c.Form == "nested-script" && r.Int() != 1 {
					return failf("call-count", nil, "sink was called %d times", r.Int())
				}
			}
		}
		return nil
	})
}

// failTy maps a script-side failure list ("r1;mut;") to the type concerned.
func (c *Case) failTy(s string) *Ty {
	first := strings.SplitN(s, ";", 2)[0]
	if first == "mut" && c.Mut != nil {
		return c.Sig.In[c.Mut.Arg]
	}
	if strings.HasPrefix(first, "r") {
		if j, err := strconv.Atoi(first[1:]); err == nil && j < len(c.Sig.Out) {
			return c.Sig.Out[j]
		}
	}
	return nil
}

// applyMutReflect performs the mutation on a host value.
func applyMutReflect(b *builder, t *Ty, v reflect.Value, m *Mut) {
	nv := b.build(mutTarget(t, m), m.New)
	switch m.Kind {
	case "elem":
		v.Index(m.Idx).Set(nv)
	case "entry":
		v.SetMapIndex(b.build(t.Key, m.Key), nv)
	case "pointee":
		v.Elem().Set(nv)
	case "field":
		v.Elem().Field(m.Idx).Set(nv)
	case "arr-elem", "struct-field":
		// by value: a private copy is changed, nothing is visible outside
	}
}

// ---------------------------------------------------------------------------
// host -> script

// staticCall calls f through a type assertion to its static Go type when
// the signature is one of the statically known ones.
func staticCall(f interface{}, a []reflect.Value) (out []reflect.Value, ok bool) {
	v := func(xs ...interface{}) []reflect.Value {
		r := make([]reflect.Value, len(xs))
		for i, x := range xs {
			r[i] = reflect.ValueOf(x)
		}
		return r
	}
	switch fn := f.(type) {
	case func(int) int:
		return v(fn(int(a[0].Int()))), true
	case func(string, int) (string, int):
		r0, r1 := fn(a[0].String(), int(a[1].Int()))
		return v(r0, r1), true
	case func([]int) []int:
		return v(fn(a[0].Interface().([]int))), true
	case func(T0) T0:
		return v(fn(a[0].Interface().(T0))), true
	case func(*T0) *T0:
		return v(fn(a[0].Interface().(*T0))), true
	case func(map[string]int, string) int:
		return v(fn(a[0].Interface().(map[string]int), a[1].String())), true
	case func(float64, bool) (bool, float64):
		r0, r1 := fn(a[0].Float(), a[1].Bool())
		return v(r0, r1), true
	case func(func(int) int) func(int) int:
		return v(fn(a[0].Interface().(func(int) int))), true
	case func(string, ...int) []int:
		return v(fn(a[0].String(), a[1].Interface().([]int)...)), true
	case func() string:
		return v(fn()), true
	case func(uint8, int64):
		fn(uint8(a[0].Uint()), a[1].Int())
		return nil, true
	case func(T1, []string) (T1, []string):
		r0, r1 := fn(a[0].Interface().(T1), a[1].Interface().([]string))
		return v(r0, r1), true
	}
	return nil, false
}

// staticSigs are the signatures staticCall knows.
var staticSigs = []reflect.Type{
	reflect.TypeOf((func(int) int)(nil)),
	reflect.TypeOf((func(string, int) (string, int))(nil)),
	reflect.TypeOf((func([]int) []int)(nil)),
	reflect.TypeOf((func(T0) T0)(nil)),
	reflect.TypeOf((func(*T0) *T0)(nil)),
	reflect.TypeOf((func(map[string]int, string) int)(nil)),
	reflect.TypeOf((func(float64, bool) (bool, float64))(nil)),
	reflect.TypeOf((func(func(int) int) func(int) int)(nil)),
	reflect.TypeOf((func(string, ...int) []int)(nil)),
	reflect.TypeOf((func() string)(nil)),
	reflect.TypeOf((func(uint8, int64))(nil)),
	reflect.TypeOf((func(T1, []string) (T1, []string))(nil)),
}

func (c *Case) runH2S() *failure {
	b := &builder{}
	s := newScript(b)
	sig := c.Sig
	nf := c.nFixed()
	nout := len(sig.Out)

	pn := make([]string, len(sig.In))
	for k := range pn {
		pn[k] = "p" + strconv.Itoa(k)
	}
	// callee view of the parameters after the mutation
	calleeArgs := make([]*Val, len(c.Args))
	callerArgs := make([]*Val, len(c.Args))
	for k := range c.Args {
		calleeArgs[k], callerArgs[k] = c.Args[k], c.Args[k]
		if sig.Var && k == nf && !c.Spread {
			// the callee sees a fresh non-nil slice of the extra arguments
			// (nil-ness with zero extras is not compared)
			calleeArgs[k] = &Val{E: c.Args[k].E}
			callerArgs[k] = calleeArgs[k]
		}
	}
	var stmts []string
	if c.Mut != nil {
		k := c.Mut.Arg
		stmts = append(stmts, s.mutStmt(sig.In[k], pn[k], c.Mut))
		calleeArgs[k] = applyMutVal(sig.In[k], calleeArgs[k], c.Mut, true)
		callerArgs[k] = applyMutVal(sig.In[k], callerArgs[k], c.Mut, false)
	}
	// result expressions and the model's results
	resx := make([]string, nout)
	model := make([]string, nout)
	lenient := make([]bool, nout)
	for j, rt := range sig.Out {
		e := c.Echo[j]
		switch {
		case e >= 0:
			resx[j] = pn[e]
			model[j] = describeModel(rt, calleeArgs[e])
			lenient[j] = sig.Var && e == nf && !c.Spread && len(c.Args[e].E) == 0
		case e == -1:
			resx[j] = s.lit(rt, c.Rets[j], true)
			model[j] = describeModel(rt, c.Rets[j])
		default:
			k := -2 - e
			ft := sig.In[k]
			pv := probeVals(ft)
			var xs []string
			for q, p := range pv {
				if ft.Var && q == len(pv)-1 {
					for _, x := range p.E {
						xs = append(xs, s.lit(ft.In[q].Elem, x, true))
					}
					continue
				}
				xs = append(xs, s.lit(ft.In[q], p, true))
			}
			resx[j] = pn[k] + "(" + strings.Join(xs, ", ") + ")"
			var nb builder
			args := make([]reflect.Value, len(pv))
			for q, p := range pv {
				args[q] = nb.build(ft.In[q], p)
			}
			model[j] = describe(evalFn(ft, c.Args[k].Fn, args)[0])
		}
	}
	var decl strings.Builder
	rsig := ""
	if nout > 0 {
		var ts []string
		for j, rt := range sig.Out {
			if c.NamedRes {
				ts = append(ts, fmt.Sprintf("r%d %s", j, rt.src()))
			} else {
				ts = append(ts, rt.src())
			}
		}
		rsig = " (" + strings.Join(ts, ", ") + ")"
	}
	var ps []string
	for k, pt := range sig.In {
		if sig.Var && k == nf {
			ps = append(ps, pn[k]+" ..."+pt.Elem.src())
		} else {
			ps = append(ps, pn[k]+" "+pt.src())
		}
	}
	if c.FuncVar {
		decl.WriteString("var F = func(" + strings.Join(ps, ", ") + ")" + rsig + " {\n")
	} else {
		decl.WriteString("func F(" + strings.Join(ps, ", ") + ")" + rsig + " {\n")
	}
	decl.WriteString("\tCalls++\n")
	for _, st := range stmts {
		decl.WriteString("\t" + st + "\n")
	}
	if nout > 0 {
		if c.NamedRes {
			for j := range resx {
				fmt.Fprintf(&decl, "\tr%d = %s\n", j, resx[j])
			}
			decl.WriteString("\treturn\n")
		} else {
			decl.WriteString("\treturn " + strings.Join(resx, ", ") + "\n")
		}
	}
	decl.WriteString("}\n")
	// globals for the metamorphic evaluation inside the script
	var globals []string
	for j, rt := range sig.Out {
		globals = append(globals, fmt.Sprintf("var R%d %s", j, rt.src()))
	}
	mutArg := -1
	if c.Mut != nil && !(sig.Var && c.Mut.Arg == nf && !c.Spread) {
		mutArg = c.Mut.Arg
		globals = append(globals, fmt.Sprintf("var A%d %s = %s", mutArg, sig.In[mutArg].src(), s.lit(sig.In[mutArg], c.Args[mutArg], true)))
	}
	var argx []string
	for k := 0; k < nf; k++ {
		if k == mutArg {
			argx = append(argx, "A"+strconv.Itoa(k))
		} else {
			argx = append(argx, s.lit(sig.In[k], c.Args[k], true))
		}
	}
	if sig.Var {
		switch {
		case c.Spread && mutArg == nf:
			argx = append(argx, fmt.Sprintf("A%d...", nf))
		case c.Spread:
			argx = append(argx, s.lit(sig.In[nf], c.Args[nf], false)+"...")
		default:
			for _, e := range c.Args[nf].E {
				argx = append(argx, s.lit(sig.In[nf].Elem, e, true))
			}
		}
	}
	callx := "F(" + strings.Join(argx, ", ") + ")"
	c.Src = s.header() + "var Calls int\n" + strings.Join(globals, "\n") + "\n\n" + decl.String()

	exports := map[string]reflect.Value{}
	s.exports(exports)
	i, err := newInterp(exports)
	if err != nil {
		return failf("harness", nil, "%v", err)
	}
	return guarded(i, func() *failure {
		if _, err := i.Eval(c.Src); err != nil {
			return evalErr("evaluating the script", err)
		}
		var fv reflect.Value
		switch c.Route {
		case "eval-qualified", "eval-bare":
			name := "main.F"
			if c.Route == "eval-bare" {
				name = "F"
			}
			v, err := i.Eval(name)
			if err != nil {
				return evalErr("Eval("+name+")", err)
			}
			fv = v
		case "symbols":
			fv = i.Symbols("main")["main"]["F"]
		case "globals":
			fv = i.Globals()["F"]
		}
		if !fv.IsValid() || fv.Kind() != reflect.Func {
			return failf("access", nil, "%s did not give a func value for F: %v", c.Route, fv)
		}
		if fv.Type() != sig.rtype() {
			return failf("access", nil, "%s gives F with type %v, want %v", c.Route, fv.Type(), sig.rtype())
		}
		// native call
		hb := &builder{}
		args := make([]reflect.Value, 0, len(c.Args))
		for k := 0; k < nf; k++ {
			args = append(args, hb.build(sig.In[k], c.Args[k]))
		}
		spread := false
		if sig.Var {
			if c.Spread {
				args = append(args, hb.build(sig.In[nf], c.Args[nf]))
				spread = true
			} else {
				for _, e := range c.Args[nf].E {
					args = append(args, hb.build(sig.In[nf].Elem, e))
				}
			}
		}
		var out []reflect.Value
		var fl *failure
		static := false
		if c.Static && fv.CanInterface() {
			sa := args
			if sig.Var && !c.Spread {
				// staticCall takes the variadic part as one slice
				sl := reflect.MakeSlice(sig.In[nf].rtype(), 0, 0)
				sl = reflect.Append(sl, args[nf:]...)
				sa = append(append([]reflect.Value{}, args[:nf]...), sl)
			}
			func() {
				defer func() {
					if p := recover(); p != nil {
						if _, ok := p.(budgetExceeded); ok {
							panic(p)
						}
						fl = failf("escaped", nil, "native call of F: a Go panic escaped to the host: %v", p)
					}
				}()
				out, static = staticCall(fv.Interface(), sa)
			}()
		}
		if !static && fl == nil {
			out, fl = call("native call of F", fv, args, spread)
		}
		if fl != nil {
			return fl
		}
		if len(out) != nout {
			return failf("result-native", nil, "native call returned %d values, want %d", len(out), nout)
		}
		native := make([]string, nout)
		for j, rt := range sig.Out {
			native[j] = describe(out[j])
			if static {
				// values re-wrapped from static types lose the interface static type
				native[j] = describeAs(rt, out[j])
			}
			if !sameDesc(native[j], model[j], lenient[j], rt) {
				return failf("result-native", rt, "result %d of the native call of F: got %s, want %s", j, native[j], model[j])
			}
		}
		// mutation visible on the host side
		for k := 0; k < nf || (k == nf && sig.Var && c.Spread); k++ {
			want := describeModel(sig.In[k], callerArgs[k])
			if g := describe(args[k]); g != want {
				step := "mutation-host"
				if c.Mut == nil || c.Mut.Arg != k {
					step = "arg-damaged"
				}
				return failf(step, sig.In[k], "argument %d after the native call: got %s, want %s", k, g, want)
			}
		}
		// calls of host closures made by the script
		for _, rec := range hb.calls {
			_ = rec
		}
		// metamorphic: the same call evaluated inside the script
		var evalOut []reflect.Value
		switch {
		case nout == 1:
			v, err := i.Eval("main." + callx)
			if err != nil {
				return evalErr("Eval(main."+callx+")", err)
			}
			evalOut = []reflect.Value{v}
		case nout == 0:
			if _, err := i.Eval("main." + callx); err != nil {
				return evalErr("Eval(main."+callx+")", err)
			}
		default:
			var lhs []string
			for j := range sig.Out {
				lhs = append(lhs, "R"+strconv.Itoa(j))
			}
			x := strings.Join(lhs, ", ") + " = " + callx
			if _, err := i.Eval(x); err != nil {
				return evalErr("Eval("+x+")", err)
			}
			gl := i.Globals()
			for j := range sig.Out {
				evalOut = append(evalOut, gl["R"+strconv.Itoa(j)])
			}
		}
		for j, rt := range sig.Out {
			if !evalOut[j].IsValid() {
				return failf("result-eval", rt, "result %d of Eval(%s) is invalid", j, callx)
			}
			g := describeAs(rt, evalOut[j])
			if !sameDesc(g, model[j], lenient[j], rt) {
				return failf("result-eval", rt, "result %d of Eval(%s): got %s, the native call gave %s, the model %s", j, callx, g, native[j], model[j])
			}
		}
		if mutArg >= 0 {
			av := i.Globals()["A"+strconv.Itoa(mutArg)]
			if !av.IsValid() {
				return failf("access", nil, "Globals() has no A%d", mutArg)
			}
			want := describeModel(sig.In[mutArg], callerArgs[mutArg])
			if g := describeAs(sig.In[mutArg], av); g != want {
				return failf("mutation-script", sig.In[mutArg], "script variable A%d after Eval(%s): got %s, want %s", mutArg, callx, g, want)
			}
		}
		cv, fl := global(i, "Calls")
		if fl != nil {
			return fl
		}
		if cv.Int() != 2 {
			return failf("call-count", nil, "F ran %d times, want 2", cv.Int())
		}
		return nil
	})
}

// describeAs describes v as a value of static type t (values obtained
// through Interface() or Eval lose an interface static type).
func describeAs(t *Ty, v reflect.Value) string {
	rt := t.rtype()
	if v.IsValid() && v.Type() != rt && rt.Kind() == reflect.Interface {
		if v.Type().AssignableTo(rt) {
			w := reflect.New(rt).Elem()
			w.Set(v)
			return describe(w)
		}
	}
	if !v.IsValid() && rt.Kind() == reflect.Interface {
		return describe(reflect.New(rt).Elem())
	}
	return describe(v)
}

// sameDesc compares descriptions; lenient accepts nil for an empty slice.
func sameDesc(got, want string, lenient bool, t *Ty) bool {
	if got == want {
		return true
	}
	if lenient {
		p := t.rtype().String()
		return (got == p+":nil" || got == p+":[]") && (want == p+":nil" || want == p+":[]")
	}
	return false
}
