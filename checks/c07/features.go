package c07

import (
	"os"
	"strings"

	"verif/internal/vf"
)

// A known feature is a shape predicate naming one root-cause class. A
// failure of a case that has the feature is reported under the feature's
// key; when the key is listed in known_findings.jsonl the generator removes
// the feature from every drawn case (avoid), so the campaign explores the
// rest of the domain.

type feature struct {
	key   string
	has   func(c *Case, f *failure) bool
	avoid func(g *gen, c *Case) // rewrites the case so that has() is false
}

// visit walks every (type, value) pair of the case that is rendered as a
// script literal or built as a host value.
func (c *Case) visit(fn func(t *Ty, v *Val)) {
	var rec func(t *Ty, v *Val)
	rec = func(t *Ty, v *Val) {
		if t == nil || v == nil {
			return
		}
		fn(t, v)
		switch t.K {
		case "struct":
			_, fts := fieldTys(t.Name)
			for i, ft := range fts {
				if i < len(v.E) {
					rec(ft, v.E[i])
				}
			}
		case "named":
			// visited again under the underlying type
			u := namedUnder[t.Name]
			if !u.isBasic() {
				rec(u, v)
			}
		case "ptr":
			if !v.Nil && len(v.E) > 0 {
				rec(t.Elem, v.E[0])
			}
		case "array", "slice":
			for _, e := range v.E {
				rec(t.Elem, e)
			}
		case "map":
			for i := 0; i+1 < len(v.E); i += 2 {
				rec(t.Key, v.E[i])
				rec(t.Elem, v.E[i+1])
			}
		case "iface":
			if !v.Nil && len(v.E) > 0 {
				rec(v.T, v.E[0])
			}
		}
	}
	list := func(ts []*Ty, vs []*Val) {
		for i, t := range ts {
			if i < len(vs) {
				rec(t, vs[i])
			}
		}
	}
	if c.Sig != nil {
		list(c.Sig.In, c.Args)
		list(c.Sig.Out, c.Rets)
		if c.Mut != nil {
			t := c.Sig.In[c.Mut.Arg]
			rec(mutTarget(t, c.Mut), c.Mut.New)
			if c.Mut.Key != nil {
				rec(t.Key, c.Mut.Key)
			}
		}
	}
	if c.M != nil {
		mt := methodTy(c.M.Name)
		rec(&Ty{K: "struct", Name: strings.SplitN(c.M.Name, ".", 2)[0]}, c.M.Recv)
		list(mt.In, c.M.Args)
		list(mt.Out, c.M.Rets)
	}
	if c.X != nil {
		for _, args := range c.X.Calls {
			list(c.X.FT.In, args)
		}
		if c.X.H != nil {
			list(c.X.FT.Out, c.X.H.Const)
		}
	}
	if c.V != nil {
		rec(c.V.Ty, c.V.Init)
		rec(c.V.Ty, c.V.New)
		rec(c.V.Ty, c.V.Third)
	}
}

// anyVal reports whether some value of the case satisfies p.
func (c *Case) anyVal(p func(t *Ty, v *Val) bool) bool {
	found := false
	c.visit(func(t *Ty, v *Val) {
		if p(t, v) {
			found = true
		}
	})
	return found
}

func positionalFuncField(t *Ty, v *Val) bool {
	return t.K == "struct" && t.Name == "T4" && v.Alt && len(v.E) > 0 && !v.E[0].Nil
}

var features = []feature{
	{
		key: "host-struct-positional-literal-func-field",
		has: func(c *Case, f *failure) bool { return c.anyVal(positionalFuncField) },
		avoid: func(g *gen, c *Case) {
			c.visit(func(t *Ty, v *Val) {
				if positionalFuncField(t, v) {
					v.Alt = false
				}
			})
		},
	},
	{
		key: "defer-host-call-spread",
		has: func(c *Case, f *failure) bool {
			return c.Dir == "s2h" && c.Form == "defer" && c.Sig.Var && c.Spread
		},
		avoid: func(g *gen, c *Case) { c.Form = "discard" },
	},
	{
		key:   "script-value-in-host-struct-interface-field",
		has:   func(c *Case, f *failure) bool { return c.Dir == "iface" && c.I.Pass == "field" },
		avoid: func(g *gen, c *Case) { c.I.Pass = "direct" },
	},
	{
		key:   "script-value-as-variadic-host-interface",
		has:   func(c *Case, f *failure) bool { return c.Dir == "iface" && c.I.Pass == "variadic" },
		avoid: func(g *gen, c *Case) { c.I.Pass = "direct" },
	},
	{
		key:   "script-interface-value-as-host-interface",
		has:   func(c *Case, f *failure) bool { return c.Dir == "iface" && c.I.Pass == "script-iface" },
		avoid: func(g *gen, c *Case) { c.I.Pass = "var" },
	},
	{
		key: "host-var-operand-read-at-compile-time",
		has: func(c *Case, f *failure) bool {
			return c.Dir == "var" && c.V.Side == "host-var" && c.V.Read != "return" && stepIn(f, "hostvar-script-view")
		},
		avoid: func(g *gen, c *Case) { c.V.Read = "return" },
	},
	{
		key: "host-var-assign-direct-result-lost",
		has: func(c *Case, f *failure) bool {
			return c.Dir == "var" && c.V.Side == "host-var" && c.V.Write == "literal" && !c.V.Ty.isBasic() && stepIn(f, "hostvar-write")
		},
		avoid: func(g *gen, c *Case) { c.V.Write = "local" },
	},
	{
		key: "eval-qualified-var-stale",
		has: func(c *Case, f *failure) bool {
			return c.Dir == "var" && c.V.Side == "script-var" && c.V.Route == "eval-qualified" && stepIn(f, "scriptvar-read")
		},
		avoid: func(g *gen, c *Case) { c.V.Route = "eval-bare" },
	},
	{
		key: "iface-var-init-host-struct-takes-concrete-type",
		has: func(c *Case, f *failure) bool {
			return c.Dir == "var" && c.V.Side == "script-var" && ifaceHoldsHostStruct(c.V.Ty, c.V.Init) && stepIn(f, "escaped", "panic")
		},
		avoid: func(g *gen, c *Case) { c.V.Init = &Val{Nil: true} },
	},
	{
		key: "iface-var-assigned-host-struct-literal-replaces-slot",
		has: func(c *Case, f *failure) bool {
			return c.Dir == "var" && c.V.Side == "script-var" && c.V.Write == "literal" && ifaceHoldsHostStruct(c.V.Ty, c.V.Third) && stepIn(f, "scriptvar-reread")
		},
		avoid: func(g *gen, c *Case) { c.V.Write = "local" },
	},
	{
		key: "defer-host-call-with-local-closure-deadlock",
		has: func(c *Case, f *failure) bool {
			if c.Dir != "s2h" || c.Form != "defer" {
				return false
			}
			for k, pt := range c.Sig.In {
				safe := pt.K == "func" && c.argMode() == "inline" && !c.argIsVar(k) && c.HostVia == ""
				if !safe && hasScriptClosure(pt, c.Args[k]) {
					return true
				}
			}
			return false
		},
		avoid: func(g *gen, c *Case) { c.Form = "discard" },
	},
	{
		key: "named-func-from-call-result-as-host-arg",
		has: func(c *Case, f *failure) bool {
			if c.Dir != "s2h" {
				return false
			}
			if m := c.argMode(); m != "call" && m != "multicall" {
				return false
			}
			found := false
			c.topFuncArgs(func(v *Val) {
				if v.Fn.Named {
					found = true
				}
			})
			return found
		},
		avoid: func(g *gen, c *Case) {
			c.topFuncArgs(func(v *Val) { v.Fn.Named = false })
		},
	},
	{
		key: "script-call-spread-with-named-func-arg",
		has: func(c *Case, f *failure) bool {
			if c.Dir != "h2s" || !c.Sig.Var || !c.Spread {
				return false
			}
			found := false
			c.topFuncArgs(func(v *Val) {
				if v.Fn.Named {
					found = true
				}
			})
			return found
		},
		avoid: func(g *gen, c *Case) {
			c.topFuncArgs(func(v *Val) { v.Fn.Named = false })
		},
	},
	{
		key: "named-script-func-as-host-named-func-type",
		has: func(c *Case, f *failure) bool {
			return c.anyVal(func(t *Ty, v *Val) bool {
				return t.K == "named" && t.Name == "F0" && !v.Nil && v.Fn != nil && v.Fn.Named && v.Alt
			})
		},
		avoid: func(g *gen, c *Case) {
			c.visit(func(t *Ty, v *Val) {
				if t.K == "named" && t.Name == "F0" && v.Fn != nil && v.Fn.Named {
					v.Alt = false
				}
			})
		},
	},
	{
		key: "return-nil-as-host-named-func-type",
		has: func(c *Case, f *failure) bool {
			found := false
			c.scriptReturned(func(t *Ty, v *Val) {
				if t.K == "named" && t.Name == "F0" && v.Nil && !v.Alt {
					found = true
				}
			})
			return found
		},
		avoid: func(g *gen, c *Case) {
			c.scriptReturned(func(t *Ty, v *Val) {
				if t.K == "named" && t.Name == "F0" && v.Nil {
					v.Alt = true
				}
			})
		},
	},
}

// scriptReturned visits the values that a script function returns as a
// top-level operand of a return statement.
func (c *Case) scriptReturned(fn func(t *Ty, v *Val)) {
	switch c.Dir {
	case "h2s":
		for j, rt := range c.Sig.Out {
			if c.Echo[j] == -1 {
				fn(rt, c.Rets[j])
			}
		}
	case "s2h":
		if m := c.argMode(); m != "call" && m != "multicall" {
			return
		}
		for k, pt := range c.Sig.In {
			if c.Sig.Var && k == len(c.Sig.In)-1 {
				if !c.Spread {
					for _, e := range c.Args[k].E {
						fn(pt.Elem, e)
					}
					continue
				}
			}
			fn(pt, c.Args[k])
		}
	}
}

// topFuncArgs visits the non-nil func values that are arguments (or extra
// variadic arguments) themselves.
func (c *Case) topFuncArgs(fn func(v *Val)) {
	for k, pt := range c.Sig.In {
		switch {
		case c.Sig.Var && k == len(c.Sig.In)-1 && !c.Spread:
			if pt.Elem.isFunc() {
				for _, e := range c.Args[k].E {
					if !e.Nil {
						fn(e)
					}
				}
			}
		case pt.isFunc() && !c.Args[k].Nil:
			fn(c.Args[k])
		}
	}
}

// stepIn reports whether the failure was detected at one of the steps; a nil
// failure (the generator asking for the shape alone) always matches.
func stepIn(f *failure, steps ...string) bool {
	if f == nil {
		return true
	}
	for _, s := range steps {
		if f.step == s {
			return true
		}
	}
	return false
}

func ifaceHoldsHostStruct(t *Ty, v *Val) bool {
	if v.Nil {
		return false
	}
	return (t.K == "error" && v.HostErr) || (t.K == "iface" && v.T != nil && v.T.K == "struct")
}

// hasScriptClosure reports whether the value contains a script func literal.
func hasScriptClosure(t *Ty, v *Val) bool {
	c := &Case{Sig: &Ty{K: "func", In: []*Ty{t}}, Args: []*Val{v}}
	return c.anyVal(func(t *Ty, v *Val) bool {
		return t.K == "func" && !v.Nil && v.Fn != nil && !v.Fn.Host && !v.Fn.Named
	})
}

func init() {
	for _, f := range features {
		knownKeys = append(knownKeys, f.key)
		f := f
		knownFeatures = append(knownFeatures, knownFeature{key: f.key, has: f.has})
	}
}

// devSwitches lets a developer switch exclusions on without editing
// known_findings.jsonl: C07_SW=key1,key2 (or "all").
func devSwitches(sw switches) {
	s := os.Getenv("C07_SW")
	if s == "" {
		return
	}
	for _, k := range strings.Split(s, ",") {
		if k == "all" {
			for _, kk := range knownKeys {
				sw[kk] = true
			}
			continue
		}
		sw[k] = true
	}
}

// applySwitches removes every switched-off feature from the case.
func (g *gen) applySwitches(c *Case) {
	for _, f := range features {
		if g.sw[f.key] && f.has(c, nil) {
			f.avoid(g, c)
		}
	}
}

var _ = vf.IsKnown
