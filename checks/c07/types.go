package c07

import (
	"errors"
	"fmt"
	"math"
	"reflect"
	"sort"
	"strconv"
	"strings"
)

// ---------------------------------------------------------------------------
// Host-declared types exported to the script as package "host".

// T0 is a comparable host struct.
type T0 struct {
	A int
	B string
}

// T1 holds a float, a slice and a pointer to another host struct.
type T1 struct {
	X float64
	Y []int
	Z *T0
}

// T2 holds a map, a pointer to a basic value and an error.
type T2 struct {
	M map[string]int
	P *int
	E error
}

// T3 holds an empty interface, an array and a nested host struct.
type T3 struct {
	I   interface{}
	Arr [3]uint8
	In  T0
}

// T4 holds a func, a slice of host structs, a complex and a bool.
type T4 struct {
	F func(int) int
	S []T0
	C complex128
	B bool
}

// E0 is a host type implementing error.
type E0 struct{ Code int }

func (e E0) Error() string { return "E0#" + strconv.Itoa(e.Code) }

// Named non-struct host types.
type (
	// N0 is a named integer.
	N0 int64
	// S0 is a named string.
	S0 string
	// L0 is a named slice.
	L0 []string
	// M0 is a named map.
	M0 map[string][]int
	// F0 is a named func type.
	F0 func(int) int
)

var namedTypes = map[string]reflect.Type{
	"N0": reflect.TypeOf(N0(0)),
	"S0": reflect.TypeOf(S0("")),
	"L0": reflect.TypeOf(L0(nil)),
	"M0": reflect.TypeOf(M0(nil)),
	"F0": reflect.TypeOf(F0(nil)),
}

var namedNames = []string{"N0", "S0", "L0", "M0", "F0"}

var namedUnder = map[string]*Ty{
	"N0": {K: "int64"},
	"S0": {K: "string"},
	"L0": {K: "slice", Elem: &Ty{K: "string"}},
	"M0": {K: "map", Key: &Ty{K: "string"}, Elem: &Ty{K: "slice", Elem: &Ty{K: "int"}}},
	"F0": {K: "func", In: []*Ty{{K: "int"}}, Out: []*Ty{{K: "int"}}},
}

var structTypes = map[string]reflect.Type{
	"T0": reflect.TypeOf(T0{}),
	"T1": reflect.TypeOf(T1{}),
	"T2": reflect.TypeOf(T2{}),
	"T3": reflect.TypeOf(T3{}),
	"T4": reflect.TypeOf(T4{}),
}

var structNames = []string{"T0", "T1", "T2", "T3", "T4"}

var (
	errorType = reflect.TypeOf((*error)(nil)).Elem()
	ifaceType = reflect.TypeOf((*interface{})(nil)).Elem()
)

var basicTypes = map[string]reflect.Type{
	"bool": reflect.TypeOf(false), "int": reflect.TypeOf(int(0)), "int8": reflect.TypeOf(int8(0)),
	"int16": reflect.TypeOf(int16(0)), "int32": reflect.TypeOf(int32(0)), "int64": reflect.TypeOf(int64(0)),
	"uint": reflect.TypeOf(uint(0)), "uint8": reflect.TypeOf(uint8(0)), "uint16": reflect.TypeOf(uint16(0)),
	"uint32": reflect.TypeOf(uint32(0)), "uint64": reflect.TypeOf(uint64(0)), "uintptr": reflect.TypeOf(uintptr(0)),
	"float32": reflect.TypeOf(float32(0)), "float64": reflect.TypeOf(float64(0)),
	"complex64": reflect.TypeOf(complex64(0)), "complex128": reflect.TypeOf(complex128(0)),
	"string": reflect.TypeOf(""),
}

var basicNames = []string{"bool", "int", "int8", "int16", "int32", "int64", "uint", "uint8", "uint16", "uint32", "uint64", "uintptr", "float32", "float64", "complex64", "complex128", "string"}

// ---------------------------------------------------------------------------
// Type and value trees (the rapid-independent recipe stored in replay files).

// Ty is a type of the grammar.
type Ty struct {
	K    string `json:"k"`              // basic kind name, "struct", "named", "ptr", "array", "slice", "map", "error", "iface", "func"
	Name string `json:"name,omitempty"` // struct: T0..T4; named: N0, S0, L0, M0, F0
	N    int    `json:"n,omitempty"`    // array length
	Elem *Ty    `json:"elem,omitempty"` // ptr, array, slice, map value
	Key  *Ty    `json:"key,omitempty"`  // map key
	In   []*Ty  `json:"in,omitempty"`   // func parameters (a variadic last parameter is its slice type)
	Out  []*Ty  `json:"out,omitempty"`  // func results
	Var  bool   `json:"var,omitempty"`  // func is variadic
}

// Val is a value of some Ty.
type Val struct {
	Nil bool   `json:"nil,omitempty"` // ptr, slice, map, error, iface, func
	Alt bool   `json:"alt,omitempty"` // alternative rendering of the literal (explicit conversion, positional fields, &composite, T(nil))
	B   bool   `json:"b,omitempty"`
	I   int64  `json:"i,omitempty"`
	U   uint64 `json:"u,omitempty"`  // unsigned value, float bits, real part bits
	U2  uint64 `json:"u2,omitempty"` // imaginary part bits
	S   string `json:"s,omitempty"`  // string value, error message
	// E: array/slice elements, struct fields, the pointee (1), map pairs
	// (k, v, k, v...), the dynamic value of an interface (1), E0 code for
	// host-typed errors (none: Code is in I).
	E  []*Val `json:"e,omitempty"`
	T  *Ty    `json:"t,omitempty"`  // dynamic type of an interface value
	Fn *Fn    `json:"fn,omitempty"` // behaviour of a func value
	// HostErr: the error is the host type E0{Code: I} instead of errors.New(S).
	HostErr bool `json:"hosterr,omitempty"`
}

// Fn describes the behaviour of a generated func value: result j is
// combine(Const[j], parameter Use[j]) (Use[j] < 0: the constant).
type Fn struct {
	Const []*Val `json:"const"`
	Use   []int  `json:"use"`
	// Host: on the script side the value is a reference to a host function
	// registered through Use instead of a script func literal.
	Host bool `json:"host,omitempty"`
	// Named: on the script side the value is a named top-level script
	// function instead of a func literal.
	Named bool `json:"named,omitempty"`
}

func basic(k string) *Ty { return &Ty{K: k} }

func (t *Ty) isBasic() bool { _, ok := basicTypes[t.K]; return ok }

// isFunc reports whether t is a func type or a named func type.
func (t *Ty) isFunc() bool {
	return t.K == "func" || (t.K == "named" && namedUnder[t.Name].K == "func")
}

func isIntKind(k string) bool {
	switch k {
	case "int", "int8", "int16", "int32", "int64":
		return true
	}
	return false
}

func isUintKind(k string) bool {
	switch k {
	case "uint", "uint8", "uint16", "uint32", "uint64", "uintptr":
		return true
	}
	return false
}

func isFloatKind(k string) bool   { return k == "float32" || k == "float64" }
func isComplexKind(k string) bool { return k == "complex64" || k == "complex128" }

// rtype is the reflect type of t.
func (t *Ty) rtype() reflect.Type {
	if rt, ok := basicTypes[t.K]; ok {
		return rt
	}
	switch t.K {
	case "struct":
		return structTypes[t.Name]
	case "named":
		return namedTypes[t.Name]
	case "ptr":
		return reflect.PointerTo(t.Elem.rtype())
	case "array":
		return reflect.ArrayOf(t.N, t.Elem.rtype())
	case "slice":
		return reflect.SliceOf(t.Elem.rtype())
	case "map":
		return reflect.MapOf(t.Key.rtype(), t.Elem.rtype())
	case "error":
		return errorType
	case "iface":
		return ifaceType
	case "func":
		in := make([]reflect.Type, len(t.In))
		for i, p := range t.In {
			in[i] = p.rtype()
		}
		out := make([]reflect.Type, len(t.Out))
		for i, p := range t.Out {
			out[i] = p.rtype()
		}
		return reflect.FuncOf(in, out, t.Var)
	}
	panic("c07: bad type kind " + t.K)
}

// tyFromReflect converts the reflect type of a host struct field.
func tyFromReflect(rt reflect.Type) *Ty {
	if rt == errorType {
		return &Ty{K: "error"}
	}
	if rt == ifaceType {
		return &Ty{K: "iface"}
	}
	for n, st := range structTypes {
		if st == rt {
			return &Ty{K: "struct", Name: n}
		}
	}
	for n, nt := range namedTypes {
		if nt == rt {
			return &Ty{K: "named", Name: n}
		}
	}
	return structuralTy(rt)
}

// structuralTy converts rt by its structure, ignoring a type name.
func structuralTy(rt reflect.Type) *Ty {
	switch rt.Kind() {
	case reflect.Ptr:
		return &Ty{K: "ptr", Elem: tyFromReflect(rt.Elem())}
	case reflect.Array:
		return &Ty{K: "array", N: rt.Len(), Elem: tyFromReflect(rt.Elem())}
	case reflect.Slice:
		return &Ty{K: "slice", Elem: tyFromReflect(rt.Elem())}
	case reflect.Map:
		return &Ty{K: "map", Key: tyFromReflect(rt.Key()), Elem: tyFromReflect(rt.Elem())}
	case reflect.Func:
		t := &Ty{K: "func", Var: rt.IsVariadic()}
		for i := 0; i < rt.NumIn(); i++ {
			t.In = append(t.In, tyFromReflect(rt.In(i)))
		}
		for i := 0; i < rt.NumOut(); i++ {
			t.Out = append(t.Out, tyFromReflect(rt.Out(i)))
		}
		return t
	}
	for n, bt := range basicTypes {
		if bt.Kind() == rt.Kind() {
			return &Ty{K: n}
		}
	}
	panic("c07: unsupported reflect type " + rt.String())
}

// fieldTys lists the field names and types of a host struct.
func fieldTys(name string) ([]string, []*Ty) {
	rt := structTypes[name]
	var ns []string
	var ts []*Ty
	for i := 0; i < rt.NumField(); i++ {
		ns = append(ns, rt.Field(i).Name)
		ts = append(ts, tyFromReflect(rt.Field(i).Type))
	}
	return ns, ts
}

// src renders the type as script source.
func (t *Ty) src() string {
	if t.isBasic() {
		return t.K
	}
	switch t.K {
	case "struct", "named":
		return "host." + t.Name
	case "ptr":
		return "*" + t.Elem.src()
	case "array":
		return fmt.Sprintf("[%d]%s", t.N, t.Elem.src())
	case "slice":
		return "[]" + t.Elem.src()
	case "map":
		return "map[" + t.Key.src() + "]" + t.Elem.src()
	case "error":
		return "error"
	case "iface":
		return "interface{}"
	case "func":
		return "func" + t.sigSrc(nil)
	}
	panic("c07: bad type kind " + t.K)
}

// sigSrc renders "(params) (results)"; names, if given, name the parameters.
func (t *Ty) sigSrc(names []string) string {
	var b strings.Builder
	b.WriteString("(")
	for i, p := range t.In {
		if i > 0 {
			b.WriteString(", ")
		}
		if names != nil {
			b.WriteString(names[i] + " ")
		}
		if t.Var && i == len(t.In)-1 {
			b.WriteString("..." + p.Elem.src())
		} else {
			b.WriteString(p.src())
		}
	}
	b.WriteString(")")
	switch len(t.Out) {
	case 0:
	case 1:
		b.WriteString(" " + t.Out[0].src())
	default:
		b.WriteString(" (")
		for i, p := range t.Out {
			if i > 0 {
				b.WriteString(", ")
			}
			b.WriteString(p.src())
		}
		b.WriteString(")")
	}
	return b.String()
}

// walk visits t and all types nested in it.
func (t *Ty) walk(f func(*Ty)) {
	if t == nil {
		return
	}
	f(t)
	t.Elem.walk(f)
	t.Key.walk(f)
	for _, p := range t.In {
		p.walk(f)
	}
	for _, p := range t.Out {
		p.walk(f)
	}
	if t.K == "struct" {
		_, fts := fieldTys(t.Name)
		for _, ft := range fts {
			// host struct fields never nest a struct that nests itself
			ft.walk(f)
		}
	}
	if t.K == "named" {
		namedUnder[t.Name].walk(f)
	}
}

// has reports whether t contains a type of kind k (struct fields included).
func (t *Ty) has(k string) bool {
	found := false
	t.walk(func(x *Ty) {
		if x.K == k {
			found = true
		}
	})
	return found
}

// comparable reports whether values of t may be map keys in the grammar.
func (t *Ty) comparableKey() bool {
	if t.isBasic() {
		return true
	}
	switch t.K {
	case "struct":
		return t.Name == "T0"
	case "named":
		return t.Name == "N0" || t.Name == "S0"
	case "array":
		return t.Elem.comparableKey()
	}
	return false
}

// ---------------------------------------------------------------------------
// Values: zero, clone, float helpers.

func f64(v *Val) float64       { return math.Float64frombits(v.U) }
func f64im(v *Val) float64     { return math.Float64frombits(v.U2) }
func setF64(v *Val, f float64) { v.U = math.Float64bits(f) }

func (v *Val) clone() *Val {
	if v == nil {
		return nil
	}
	c := *v
	c.E = nil
	for _, e := range v.E {
		c.E = append(c.E, e.clone())
	}
	if v.Fn != nil {
		fn := *v.Fn
		fn.Const = nil
		for _, e := range v.Fn.Const {
			fn.Const = append(fn.Const, e.clone())
		}
		fn.Use = append([]int{}, v.Fn.Use...)
		c.Fn = &fn
	}
	return &c
}

// zeroVal is the zero value of t.
func zeroVal(t *Ty) *Val {
	switch t.K {
	case "named":
		return zeroVal(namedUnder[t.Name])
	case "ptr", "slice", "map", "error", "iface", "func":
		return &Val{Nil: true}
	case "array":
		v := &Val{}
		for i := 0; i < t.N; i++ {
			v.E = append(v.E, zeroVal(t.Elem))
		}
		return v
	case "struct":
		v := &Val{}
		_, fts := fieldTys(t.Name)
		for _, ft := range fts {
			v.E = append(v.E, zeroVal(ft))
		}
		return v
	}
	return &Val{}
}

// ---------------------------------------------------------------------------
// Host-side construction.

// callRec is one observed call of a generated host func value.
type callRec struct {
	fn   *Fn
	args []string // descriptions of the received arguments
}

// builder builds host values; calls of func values it builds are recorded.
type builder struct {
	calls []callRec
}

func (b *builder) build(t *Ty, v *Val) reflect.Value {
	rt := t.rtype()
	r := reflect.New(rt).Elem()
	switch {
	case t.K == "bool":
		r.SetBool(v.B)
	case isIntKind(t.K):
		r.SetInt(v.I)
	case isUintKind(t.K):
		r.SetUint(v.U)
	case isFloatKind(t.K):
		r.SetFloat(f64(v))
	case isComplexKind(t.K):
		r.SetComplex(complex(f64(v), f64im(v)))
	case t.K == "string":
		r.SetString(v.S)
	case t.K == "struct":
		_, fts := fieldTys(t.Name)
		for i, ft := range fts {
			r.Field(i).Set(b.build(ft, v.E[i]))
		}
	case t.K == "named":
		r.Set(b.build(namedUnder[t.Name], v).Convert(rt))
	case t.K == "ptr":
		if !v.Nil {
			p := reflect.New(rt.Elem())
			p.Elem().Set(b.build(t.Elem, v.E[0]))
			r.Set(p)
		}
	case t.K == "array":
		for i := 0; i < t.N; i++ {
			r.Index(i).Set(b.build(t.Elem, v.E[i]))
		}
	case t.K == "slice":
		if !v.Nil {
			s := reflect.MakeSlice(rt, len(v.E), len(v.E))
			for i, e := range v.E {
				s.Index(i).Set(b.build(t.Elem, e))
			}
			r.Set(s)
		}
	case t.K == "map":
		if !v.Nil {
			m := reflect.MakeMapWithSize(rt, len(v.E)/2)
			for i := 0; i+1 < len(v.E); i += 2 {
				m.SetMapIndex(b.build(t.Key, v.E[i]), b.build(t.Elem, v.E[i+1]))
			}
			r.Set(m)
		}
	case t.K == "error":
		if !v.Nil {
			if v.HostErr {
				r.Set(reflect.ValueOf(E0{Code: int(v.I)}))
			} else {
				r.Set(reflect.ValueOf(errors.New(v.S)))
			}
		}
	case t.K == "iface":
		if !v.Nil {
			r.Set(b.build(v.T, v.E[0]))
		}
	case t.K == "func":
		if !v.Nil {
			r.Set(b.buildFn(t, v.Fn))
		}
	default:
		panic("c07: build: bad kind " + t.K)
	}
	return r
}

// buildFn makes the host func value with the behaviour of fn.
func (b *builder) buildFn(t *Ty, fn *Fn) reflect.Value {
	return reflect.MakeFunc(t.rtype(), func(in []reflect.Value) []reflect.Value {
		rec := callRec{fn: fn}
		for _, a := range in {
			rec.args = append(rec.args, describe(a))
		}
		b.calls = append(b.calls, rec)
		return evalFn(t, fn, in)
	})
}

// evalFn is the model of a generated func value.
func evalFn(t *Ty, fn *Fn, in []reflect.Value) []reflect.Value {
	var nb builder
	out := make([]reflect.Value, len(t.Out))
	for j, rt := range t.Out {
		c := nb.build(rt, fn.Const[j])
		u := fn.Use[j]
		if u < 0 || u >= len(in) {
			out[j] = c
			continue
		}
		p := in[u]
		pk := t.In[u].K
		switch {
		case (isIntKind(rt.K) || isUintKind(rt.K)) && (isIntKind(pk) || isUintKind(pk)):
			var a, x uint64
			if isIntKind(rt.K) {
				a = uint64(c.Int())
			} else {
				a = c.Uint()
			}
			if isIntKind(pk) {
				x = uint64(p.Int())
			} else {
				x = p.Uint()
			}
			// the parameter is first converted to the result type (wraps),
			// then added (wraps): both equal truncation of the 64-bit sum
			if isIntKind(rt.K) {
				c.SetInt(int64(a + x))
			} else {
				c.SetUint(a + x)
			}
		case rt.K == "string" && pk == "string":
			c.SetString(c.String() + p.String())
		case rt.K == "bool" && pk == "bool":
			c.SetBool(c.Bool() != p.Bool())
		case isFloatKind(rt.K) && pk == rt.K:
			c.SetFloat(-p.Float())
		case isComplexKind(rt.K) && pk == rt.K:
			c.SetComplex(-p.Complex())
		}
		out[j] = c
	}
	return out
}

// fnUsable reports whether parameter u may feed result type rt.
func fnUsable(t *Ty, u int, rt *Ty) bool {
	if u < 0 || u >= len(t.In) || (t.Var && u == len(t.In)-1) {
		return false
	}
	pk := t.In[u].K
	switch {
	case (isIntKind(rt.K) || isUintKind(rt.K)) && (isIntKind(pk) || isUintKind(pk)):
		return true
	case rt.K == "string" && pk == "string", rt.K == "bool" && pk == "bool":
		return true
	case (isFloatKind(rt.K) || isComplexKind(rt.K)) && pk == rt.K:
		return true
	}
	return false
}

// probeVals are the fixed arguments a func value of type t is probed with.
func probeVals(t *Ty) []*Val {
	var vs []*Val
	for i, p := range t.In {
		if t.Var && i == len(t.In)-1 {
			vs = append(vs, &Val{E: []*Val{probeVal(p.Elem, i), probeVal(p.Elem, i+1)}})
			continue
		}
		vs = append(vs, probeVal(p, i))
	}
	return vs
}

func probeVal(t *Ty, i int) *Val {
	v := &Val{}
	switch {
	case t.K == "bool":
		v.B = i%2 == 0
	case isIntKind(t.K):
		v.I = int64(3 + i)
	case isUintKind(t.K):
		v.U = uint64(2 + i)
	case isFloatKind(t.K):
		setF64(v, 1.5+float64(i))
	case isComplexKind(t.K):
		setF64(v, 1+float64(i))
		v.U2 = math.Float64bits(2)
	case t.K == "string":
		v.S = "p" + strconv.Itoa(i)
	default:
		return zeroVal(t)
	}
	return v
}

// probe calls the func value f (type t) with the probe arguments and
// describes the results. A panic of the call is part of the description.
func probe(f reflect.Value, t *Ty) (desc string) {
	defer func() {
		if p := recover(); p != nil {
			if _, ok := p.(budgetExceeded); ok {
				panic(p)
			}
			desc = fmt.Sprintf("func{PANIC %v}", p)
		}
	}()
	var nb builder
	pv := probeVals(t)
	args := make([]reflect.Value, len(pv))
	for i, p := range pv {
		args[i] = nb.build(t.In[i], p)
	}
	var out []reflect.Value
	if t.Var {
		out = f.CallSlice(args)
	} else {
		out = f.Call(args)
	}
	parts := make([]string, len(out))
	for i, o := range out {
		parts[i] = describe(o)
	}
	return "func{" + strings.Join(parts, ", ") + "}"
}

// modelProbe describes what probing a func with behaviour fn must give.
func modelProbe(t *Ty, fn *Fn) string {
	var nb builder
	pv := probeVals(t)
	args := make([]reflect.Value, len(pv))
	for i, p := range pv {
		args[i] = nb.build(t.In[i], p)
	}
	out := evalFn(t, fn, args)
	parts := make([]string, len(out))
	for i, o := range out {
		parts[i] = describe(o)
	}
	return "func{" + strings.Join(parts, ", ") + "}"
}

// probeable reports whether a func type can be probed (basic params/results).
func probeable(rt reflect.Type) bool {
	for i := 0; i < rt.NumIn(); i++ {
		t := rt.In(i)
		if rt.IsVariadic() && i == rt.NumIn()-1 {
			t = t.Elem()
		}
		if _, ok := basicTypes[t.Kind().String()]; !ok || t.PkgPath() != "" {
			return false
		}
	}
	for i := 0; i < rt.NumOut(); i++ {
		t := rt.Out(i)
		if _, ok := basicTypes[t.Kind().String()]; !ok || t.PkgPath() != "" {
			return false
		}
	}
	return true
}

// describe renders a host value canonically: types of interface contents and
// of the top level are included, pointers are rendered through their pointee,
// map entries are sorted, floats are rendered by bits, func values by the
// results of probing them. Equal descriptions = deeply equal values.
func describe(v reflect.Value) string {
	if !v.IsValid() {
		return "<invalid>"
	}
	return v.Type().String() + ":" + desc(v, 0)
}

func desc(v reflect.Value, depth int) string {
	if depth > 12 {
		return "<too deep>"
	}
	switch v.Kind() {
	case reflect.Bool:
		return strconv.FormatBool(v.Bool())
	case reflect.Int, reflect.Int8, reflect.Int16, reflect.Int32, reflect.Int64:
		return strconv.FormatInt(v.Int(), 10)
	case reflect.Uint, reflect.Uint8, reflect.Uint16, reflect.Uint32, reflect.Uint64, reflect.Uintptr:
		return strconv.FormatUint(v.Uint(), 10)
	case reflect.Float32, reflect.Float64:
		return fmtFloat(v.Float())
	case reflect.Complex64, reflect.Complex128:
		c := v.Complex()
		return "(" + fmtFloat(real(c)) + "," + fmtFloat(imag(c)) + ")"
	case reflect.String:
		return strconv.Quote(v.String())
	case reflect.Struct:
		var parts []string
		for i := 0; i < v.NumField(); i++ {
			parts = append(parts, v.Type().Field(i).Name+":"+desc(v.Field(i), depth+1))
		}
		return "{" + strings.Join(parts, " ") + "}"
	case reflect.Ptr:
		if v.IsNil() {
			return "nil"
		}
		return "&" + desc(v.Elem(), depth+1)
	case reflect.Array:
		var parts []string
		for i := 0; i < v.Len(); i++ {
			parts = append(parts, desc(v.Index(i), depth+1))
		}
		return "[" + strings.Join(parts, " ") + "]"
	case reflect.Slice:
		if v.IsNil() {
			return "nil"
		}
		var parts []string
		for i := 0; i < v.Len(); i++ {
			parts = append(parts, desc(v.Index(i), depth+1))
		}
		return "[" + strings.Join(parts, " ") + "]"
	case reflect.Map:
		if v.IsNil() {
			return "nil"
		}
		var parts []string
		it := v.MapRange()
		for it.Next() {
			parts = append(parts, desc(it.Key(), depth+1)+"="+desc(it.Value(), depth+1))
		}
		sort.Strings(parts)
		return "map[" + strings.Join(parts, " ") + "]"
	case reflect.Interface:
		if v.IsNil() {
			return "nil"
		}
		e := v.Elem()
		if v.Type() == errorType {
			return "error(" + e.Type().String() + " " + strconv.Quote(errString(v)) + ")"
		}
		return "(" + e.Type().String() + ")" + desc(e, depth+1)
	case reflect.Func:
		if v.IsNil() {
			return "nil"
		}
		if !probeable(v.Type()) {
			return "func"
		}
		return probe(v, structuralTy(v.Type()))
	}
	return "<" + v.Kind().String() + ">"
}

func errString(v reflect.Value) (s string) {
	defer func() {
		if p := recover(); p != nil {
			if _, ok := p.(budgetExceeded); ok {
				panic(p)
			}
			s = fmt.Sprintf("PANIC %v", p)
		}
	}()
	return v.Interface().(error).Error()
}

func fmtFloat(f float64) string {
	return strconv.FormatFloat(f, 'g', -1, 64) + "#" + strconv.FormatUint(math.Float64bits(f), 16)
}

// describeModel describes the value (t, v) as describe would describe the
// host value built from it, without calling anything.
func describeModel(t *Ty, v *Val) string {
	var nb builder
	return describe(nb.build(t, v))
}
