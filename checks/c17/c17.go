// Package c17 checks build-constraint file selection against
// go/build.Context.MatchFile.
package c17

import (
	"encoding/json"
	"fmt"
	"go/build"
	"go/build/constraint"
	"io"
	"os"
	"sort"
	"strings"
	"time"

	"pgregory.net/rapid"

	"verif/internal/vf"
	"verif/internal/yrun"
)

// FileSpec is one file of the generated package.
type FileSpec struct {
	Name   string `json:"name"`
	Header string `json:"header"` // text before the package clause
}

// Case is one generated package plus configuration.
type Case struct {
	GOOS      string     `json:"goos"`
	GOARCH    string     `json:"goarch"`
	Tags      []string   `json:"tags"`
	YaegiTags []string   `json:"yaegi_tags"`
	// YaegiWhere: "" the tags are declared by an unconstrained file which sorts
	// first; "rejected-go-build" / "rejected-plus-build": by a first file which its
	// own constraint excludes, so that the tags are not added; "self": by a
	// first file which requires the first of the tags it declares.
	YaegiWhere string     `json:"yaegi_where,omitempty"`
	Files     []FileSpec `json:"files"`
	Test      bool       `json:"test"`
}

var osWords = []string{"aix", "android", "darwin", "dragonfly", "freebsd", "hurd", "illumos", "ios", "js", "linux", "nacl", "netbsd", "openbsd", "plan9", "solaris", "wasip1", "windows", "zos"}
var archWords = []string{"386", "amd64", "amd64p32", "arm", "armbe", "arm64", "arm64be", "loong64", "mips", "mipsle", "mips64", "mips64le", "mips64p32", "mips64p32le", "ppc", "ppc64", "ppc64le", "riscv", "riscv64", "s390", "s390x", "sparc", "sparc64", "wasm"}
var platforms = [][2]string{{"linux", "amd64"}, {"linux", "arm64"}, {"darwin", "arm64"}, {"windows", "amd64"}, {"windows", "386"}, {"freebsd", "arm"}, {"android", "arm64"}, {"ios", "arm64"}, {"illumos", "amd64"}, {"js", "wasm"}, {"wasip1", "wasm"}, {"plan9", "386"}, {"solaris", "amd64"}, {"linux", "riscv64"}, {"linux", "mips64le"}, {"aix", "ppc64"}}
var customTags = []string{"foo", "bar", "baz", "integration"}
var unknownWords = []string{"beos", "vax", "test", "Linux", "AMD64", "x", "go", "unixx"}

func isKnownOS(s string) bool {
	for _, w := range osWords {
		if w == s {
			return true
		}
	}
	return false
}
func isKnownArch(s string) bool {
	for _, w := range archWords {
		if w == s {
			return true
		}
	}
	return false
}

func minor() int {
	rt := build.Default.ReleaseTags
	var n int
	fmt.Sscanf(rt[len(rt)-1], "go1.%d", &n)
	return n
}

// features switches (exclusions for known findings)
type features struct {
	goBuild, unixTag, aliasOS, testSuffix, extraOS, adjacency, dotStem bool
}

func feats() features {
	return features{
		goBuild:    !vf.IsKnown("C17", "gobuild-line"),
		unixTag:    !vf.IsKnown("C17", "unix-tag"),
		aliasOS:    !vf.IsKnown("C17", "alias-os"),
		testSuffix: !vf.IsKnown("C17", "test-suffix"),
		extraOS:    !vf.IsKnown("C17", "name-word-list"),
		adjacency:  !vf.IsKnown("C17", "plusbuild-placement"),
		dotStem:    !vf.IsKnown("C17", "dot-stem"),
	}
}

func genTag(t *rapid.T, f features, goos, goarch string) string {
	switch rapid.IntRange(0, 9).Draw(t, "tagkind") {
	case 0:
		return goos
	case 1:
		return goarch
	case 2:
		return rapid.SampledFrom(osWords).Draw(t, "os")
	case 3:
		return rapid.SampledFrom(archWords).Draw(t, "arch")
	case 4:
		return fmt.Sprintf("go1.%d", minor()+rapid.IntRange(-3, 2).Draw(t, "rel"))
	case 5:
		if f.unixTag {
			return "unix"
		}
		return "foo"
	case 6, 7:
		return rapid.SampledFrom(customTags).Draw(t, "custom")
	case 8:
		return rapid.SampledFrom(unknownWords).Draw(t, "unk")
	default:
		return rapid.SampledFrom([]string{"linux", "amd64", "darwin", "windows"}).Draw(t, "common")
	}
}

func genExpr(t *rapid.T, f features, goos, goarch string, depth int) constraint.Expr {
	k := rapid.IntRange(0, 5).Draw(t, "exprkind")
	if depth <= 0 || k <= 1 {
		return &constraint.TagExpr{Tag: genTag(t, f, goos, goarch)}
	}
	switch k {
	case 2:
		x := genExpr(t, f, goos, goarch, depth-1)
		if n, ok := x.(*constraint.NotExpr); ok {
			return n.X // "!!x" is a syntax error in both constraint syntaxes
		}
		return &constraint.NotExpr{X: x}
	case 3, 4:
		return &constraint.AndExpr{X: genExpr(t, f, goos, goarch, depth-1), Y: genExpr(t, f, goos, goarch, depth-1)}
	default:
		return &constraint.OrExpr{X: genExpr(t, f, goos, goarch, depth-1), Y: genExpr(t, f, goos, goarch, depth-1)}
	}
}

func countOps(e constraint.Expr) int {
	switch x := e.(type) {
	case *constraint.NotExpr:
		return 1 + countOps(x.X)
	case *constraint.AndExpr:
		return 1 + countOps(x.X) + countOps(x.Y)
	case *constraint.OrExpr:
		return 1 + countOps(x.X) + countOps(x.Y)
	}
	return 0
}

// genHeader renders a constraint header. It returns the header text and the
// class labels describing it.
func genHeader(t *rapid.T, f features, goos, goarch string) (string, []string) {
	var b strings.Builder
	var labels []string
	if rapid.IntRange(0, 3).Draw(t, "lead") == 0 {
		b.WriteString("// Copyright notice.\n// Second line.\n\n")
		labels = append(labels, "lead-comment")
	}
	style := rapid.IntRange(0, 9).Draw(t, "style")
	if !f.goBuild && style >= 4 {
		style = style % 4
	}
	e := genExpr(t, f, goos, goarch, rapid.IntRange(0, 4).Draw(t, "depth"))
	if countOps(e) >= 2 {
		labels = append(labels, "ops>=2")
	}
	plus := func(e constraint.Expr) []string {
		lines, err := constraint.PlusBuildLines(e)
		if err != nil {
			return nil
		}
		return lines
	}
	switch {
	case style == 0:
		labels = append(labels, "no-constraint")
	case style <= 3: // only the old plus-build syntax
		lines := plus(e)
		if lines == nil {
			labels = append(labels, "no-constraint")
			break
		}
		labels = append(labels, "plusbuild")
		// groups: the +build lines of a file may stand in several comment groups
		// separated by blank lines (1), and a second constraint may follow in a
		// group of its own, after a blank line or a plain comment group (2): all
		// the lines before the package clause are and-ed
		groups := rapid.IntRange(0, 3).Draw(t, "groups")
		sep := func() {
			if rapid.Bool().Draw(t, "commentgroup") {
				b.WriteString("\n// A plain comment group.\n\n")
			} else {
				b.WriteString("\n")
			}
		}
		// the options of a line are separated by one space, by several, or by a tab
		if w := rapid.IntRange(0, 3).Draw(t, "optsep"); w > 0 {
			sp := []string{"", "  ", "\t", " \t "}[w]
			for i, l := range lines {
				if rest := strings.TrimPrefix(l, "// +build "); strings.Contains(rest, " ") {
					lines[i] = "// +build " + strings.Join(strings.Fields(rest), sp)
					labels = append(labels, "plusbuild-wide-separators")
				}
			}
		}
		for i, l := range lines {
			b.WriteString(l + "\n")
			if groups >= 1 && i+1 < len(lines) && rapid.Bool().Draw(t, "split") {
				sep()
				labels = append(labels, "plusbuild-groups")
			}
		}
		if groups >= 2 {
			if lines2 := plus(genExpr(t, f, goos, goarch, rapid.IntRange(0, 2).Draw(t, "depth2"))); lines2 != nil {
				sep()
				for _, l := range lines2 {
					b.WriteString(l + "\n")
				}
				labels = append(labels, "plusbuild-groups")
			}
		}
		if groups == 0 && f.adjacency && rapid.IntRange(0, 4).Draw(t, "adjacent") == 0 {
			// no blank line: the +build lines are part of the package doc and ignored by Go
			labels = append(labels, "plusbuild-adjacent")
			return b.String(), labels
		}
		b.WriteString("\n")
	case style <= 6: // go:build only
		labels = append(labels, "gobuild")
		b.WriteString("//go:build " + e.String() + "\n\n")
	case style <= 8: // both, consistent
		labels = append(labels, "both-consistent")
		b.WriteString("//go:build " + e.String() + "\n")
		for _, l := range plus(e) {
			b.WriteString(l + "\n")
		}
		b.WriteString("\n")
	default: // both, inconsistent: go:build wins
		e2 := genExpr(t, f, goos, goarch, 2)
		labels = append(labels, "both-inconsistent")
		b.WriteString("//go:build " + e.String() + "\n")
		for _, l := range plus(e2) {
			b.WriteString(l + "\n")
		}
		b.WriteString("\n")
	}
	if rapid.IntRange(0, 3).Draw(t, "doc") == 0 {
		b.WriteString("// Package pk is documented here.\n")
	}
	return b.String(), labels
}

func genName(t *rapid.T, f features, goos, goarch string, i int, test bool) (string, []string) {
	var labels []string
	stem := fmt.Sprintf("f%d", i)
	if f.dotStem && rapid.IntRange(0, 9).Draw(t, "dot") == 0 {
		stem += ".x"
		labels = append(labels, "dot-in-stem")
	}
	word := func(lbl string) string {
		switch rapid.IntRange(0, 6).Draw(t, lbl) {
		case 0:
			return goos
		case 1:
			return goarch
		case 2, 3:
			if f.extraOS {
				return rapid.SampledFrom(osWords).Draw(t, lbl+"os")
			}
			return rapid.SampledFrom([]string{"aix", "android", "darwin", "dragonfly", "freebsd", "illumos", "ios", "js", "linux", "netbsd", "openbsd", "plan9", "solaris", "wasip1", "windows"}).Draw(t, lbl+"os")
		case 4, 5:
			if f.extraOS {
				return rapid.SampledFrom(archWords).Draw(t, lbl+"arch")
			}
			return rapid.SampledFrom([]string{"386", "amd64", "arm", "arm64", "loong64", "mips", "mips64", "mips64le", "mipsle", "ppc64", "ppc64le", "s390x", "wasm"}).Draw(t, lbl+"arch")
		default:
			return rapid.SampledFrom(unknownWords).Draw(t, lbl+"unk")
		}
	}
	n := rapid.IntRange(0, 3).Draw(t, "nwords")
	name := stem
	deciding := false
	var words []string
	for k := 0; k < n; k++ {
		w := word(fmt.Sprintf("w%d", k))
		words = append(words, w)
		name += "_" + w
	}
	for k, w := range words {
		if k >= len(words)-2 && (isKnownOS(w) || isKnownArch(w)) {
			deciding = true
		}
	}
	if deciding {
		labels = append(labels, "name-os-arch")
	}
	if test && f.testSuffix && rapid.IntRange(0, 2).Draw(t, "testsuffix") == 0 {
		name += "_test"
		labels = append(labels, "name-test")
	} else if !test && rapid.IntRange(0, 5).Draw(t, "testsuffix") == 0 {
		name += "_test"
		labels = append(labels, "name-test")
	}
	switch rapid.IntRange(0, 19).Draw(t, "namevariant") {
	case 0:
		name = "_" + name
		labels = append(labels, "name-underscore")
	case 1:
		name = "." + name
		labels = append(labels, "name-dot")
	case 2:
		return name + ".txt", append(labels, "not-go")
	case 3:
		return name + ".go.bak", append(labels, "not-go")
	}
	return name + ".go", labels
}

func genCase(t *rapid.T) (*Case, []string) {
	f := feats()
	c := &Case{}
	var labels []string
	if rapid.IntRange(0, 2).Draw(t, "host") == 0 {
		c.GOOS, c.GOARCH = build.Default.GOOS, build.Default.GOARCH
		labels = append(labels, "platform-host")
	} else {
		var list [][2]string
		for _, p := range platforms {
			if !f.aliasOS && (p[0] == "android" || p[0] == "ios" || p[0] == "illumos") {
				continue
			}
			list = append(list, p)
		}
		p := rapid.SampledFrom(list).Draw(t, "platform")
		c.GOOS, c.GOARCH = p[0], p[1]
		labels = append(labels, "platform-other")
	}
	c.Tags = rapid.SliceOfNDistinct(rapid.SampledFrom(customTags), 0, 3, rapid.ID[string]).Draw(t, "tags")
	if rapid.IntRange(0, 3).Draw(t, "ytags") == 0 {
		c.YaegiTags = rapid.SliceOfNDistinct(rapid.SampledFrom(customTags), 1, 2, rapid.ID[string]).Draw(t, "yaegitags")
		labels = append(labels, "yaegi-tags")
		c.YaegiWhere = []string{"", "", "rejected-go-build", "rejected-plus-build", "self"}[rapid.IntRange(0, 4).Draw(t, "ywhere")]
		if c.YaegiWhere != "" {
			labels = append(labels, "yaegi-tags-"+c.YaegiWhere)
		}
	}
	c.Test = rapid.IntRange(0, 3).Draw(t, "testmode") == 0
	if c.Test {
		labels = append(labels, "mode-test")
	}
	n := rapid.IntRange(1, 5).Draw(t, "nfiles")
	seen := map[string]bool{}
	for i := 0; i < n; i++ {
		name, l1 := genName(t, f, c.GOOS, c.GOARCH, i, c.Test)
		hdr, l2 := genHeader(t, f, c.GOOS, c.GOARCH)
		if seen[name] {
			continue
		}
		seen[name] = true
		c.Files = append(c.Files, FileSpec{Name: name, Header: hdr})
		labels = append(labels, l1...)
		labels = append(labels, l2...)
	}
	return c, labels
}

const dir = "gp/src/pk"

func (c *Case) tree() map[string]string {
	files := map[string]string{}
	base := "package pk\n"
	if len(c.YaegiTags) > 0 {
		base = "// yaegi:tags " + strings.Join(c.YaegiTags, " ") + "\n\npackage pk\n"
		// a constrained carrier is a second file: the package keeps an
		// unconstrained one
		carrier := ""
		switch c.YaegiWhere {
		case "rejected-go-build":
			carrier = "//go:build neverset\n\n" + base
		case "rejected-plus-build":
			carrier = "// +build neverset\n\n" + base
		case "self":
			carrier = "//go:build " + c.YaegiTags[0] + "\n\n" + base
		}
		if carrier != "" {
			files[dir+"/a0tags.go"] = carrier
			base = "package pk\n"
		}
	}
	files[dir+"/a0base.go"] = base
	for i, f := range c.Files {
		files[dir+"/"+f.Name] = fmt.Sprintf("%spackage pk\n\nimport \"fmt\"\n\nfunc init() { fmt.Println(\"FILE %d\") }\n", f.Header, i)
	}
	files["gp/src/m/main.go"] = "package main\n\nimport _ \"pk\"\n\nfunc main() {}\n"
	return files
}

// activeTags are Options.BuildTags plus the tags declared by the first file, if
// that file takes part (the tags of an excluded file are not added).
func (c *Case) activeTags() []string {
	tags := append([]string{}, c.Tags...)
	switch c.YaegiWhere {
	case "rejected-go-build", "rejected-plus-build":
		return tags
	case "self":
		for _, t := range c.Tags {
			if t == c.YaegiTags[0] {
				return append(tags, c.YaegiTags...)
			}
		}
		return tags
	}
	return append(tags, c.YaegiTags...)
}

// expected computes the set of selected file indexes with go/build.
func (c *Case) expected() []int {
	files := c.tree()
	ctx := build.Context{
		GOOS: c.GOOS, GOARCH: c.GOARCH, Compiler: "gc",
		BuildTags:   c.activeTags(),
		ReleaseTags: build.Default.ReleaseTags,
		OpenFile: func(p string) (io.ReadCloser, error) {
			s, ok := files[p]
			if !ok {
				return nil, os.ErrNotExist
			}
			return io.NopCloser(strings.NewReader(s)), nil
		},
		JoinPath: func(e ...string) string { return strings.Join(e, "/") },
	}
	var sel []int
	for i, f := range c.Files {
		if !strings.HasSuffix(f.Name, ".go") {
			continue
		}
		if !c.Test && strings.HasSuffix(f.Name, "_test.go") {
			continue
		}
		ok, err := ctx.MatchFile(dir, f.Name)
		if err == nil && ok {
			sel = append(sel, i)
		}
	}
	return sel
}

func (c *Case) observed() ([]int, string) {
	j := &yrun.Job{GoPath: "gp", Files: c.tree(), Tags: c.Tags, GOOS: c.GOOS, GOARCH: c.GOARCH}
	if c.Test {
		j.Path, j.Test = "pk", true
	} else {
		j.Path = "gp/src/m/main.go"
	}
	out, _ := yrun.Execute(j, 0)
	if out.Class != yrun.OK {
		return nil, fmt.Sprintf("interpreter returned %s: %s", out.Class, out.Err)
	}
	var sel []int
	for _, line := range strings.Split(out.Stdout, "\n") {
		var i int
		if _, err := fmt.Sscanf(line, "FILE %d", &i); err == nil {
			sel = append(sel, i)
		}
	}
	sort.Ints(sel)
	return sel, ""
}

// check returns (signature, message) of a violation or "", "".
func (c *Case) check() (string, string) {
	want := c.expected()
	got, errmsg := c.observed()
	if errmsg != "" {
		return "eval-error", errmsg
	}
	if fmt.Sprint(want) == fmt.Sprint(got) {
		return "", ""
	}
	// first differing file
	in := func(l []int, i int) bool {
		for _, x := range l {
			if x == i {
				return true
			}
		}
		return false
	}
	for i, f := range c.Files {
		if in(want, i) != in(got, i) {
			return c.classify(f, in(want, i)), fmt.Sprintf("GOOS=%s GOARCH=%s tags=%v yaegi:tags=%v test=%v file %q header %q: go/build selects=%v, yaegi selects=%v",
				c.GOOS, c.GOARCH, c.Tags, c.YaegiTags, c.Test, f.Name, f.Header, in(want, i), in(got, i))
		}
	}
	return "selection", fmt.Sprintf("want %v got %v", want, got)
}

// classify attributes a differing file to a root-cause class by
// re-evaluating it with single aspects neutralised.
func (c *Case) classify(f FileSpec, want bool) string {
	one := func(name, header string, goos string) bool {
		d := &Case{GOOS: goos, GOARCH: c.GOARCH, Tags: c.Tags, YaegiTags: c.YaegiTags, Test: c.Test, Files: []FileSpec{{name, header}}}
		w := d.expected()
		g, e := d.observed()
		return e == "" && fmt.Sprint(w) == fmt.Sprint(g)
	}
	// does the name alone disagree?
	if !one(f.Name, "", c.GOOS) {
		base := strings.TrimSuffix(f.Name, ".go")
		switch {
		case strings.HasSuffix(base, "_test") && c.Test:
			return "test-suffix"
		case strings.Contains(strings.SplitN(base, "_", 2)[0], "."):
			return "dot-stem"
		case c.GOOS == "android" || c.GOOS == "ios" || c.GOOS == "illumos":
			return "alias-os"
		}
		for _, w := range strings.Split(base, "_") {
			switch w {
			case "hurd", "nacl", "zos", "amd64p32", "armbe", "arm64be", "mips64p32", "mips64p32le", "ppc", "riscv", "riscv64", "s390", "sparc", "sparc64":
				return "name-word-list"
			}
		}
		return "name-rule"
	}
	h := f.Header
	switch {
	case strings.Contains(h, "//go:build"):
		return "gobuild-line"
	case strings.Contains(h, "+build") && !strings.HasSuffix(h, "\n\n") && !strings.Contains(h, "\n\n// Package"):
		return "plusbuild-placement"
	case strings.Contains(h, "unix") && one("z.go", strings.ReplaceAll(h, "unix", "zzunix"), c.GOOS):
		return "unix-tag"
	case (c.GOOS == "android" || c.GOOS == "ios" || c.GOOS == "illumos") && one("z.go", h, "linux") == true && !one("z.go", h, c.GOOS):
		return "alias-os"
	case strings.Contains(h, "+build") && !strings.HasSuffix(h, "\n\n") && !strings.Contains(h, "\n\n// Package"):
		return "plusbuild-placement"
	}
	return "plusbuild-eval"
}

func nontrivialKey(c *Case, labels []string) (string, bool) {
	nt := false
	for _, l := range labels {
		switch l {
		case "name-os-arch", "ops>=2", "both-consistent", "both-inconsistent":
			nt = true
		}
	}
	b, _ := json.Marshal(c)
	return string(b), nt
}

func run(ctx *vf.Ctx) {
	prop := func(t *rapid.T) {
		c, labels := genCase(t)
		ctx.Eval()
		seen := map[string]bool{}
		for _, l := range labels {
			if !seen[l] {
				seen[l] = true
				ctx.Class(l)
			}
		}
		if k, nt := nontrivialKey(c, labels); nt {
			ctx.Nontrivial(k)
		}
		ctx.Sample(c, 3)
		if sig, msg := c.check(); sig != "" {
			ctx.CaseFail(t, sig, msg, c)
		}
		ctx.Done()
	}
	f := feats()
	for name, on := range map[string]bool{"gobuild-line": f.goBuild, "unix-tag": f.unixTag, "alias-os": f.aliasOS, "test-suffix": f.testSuffix, "name-word-list": f.extraOS, "plusbuild-placement": f.adjacency, "dot-stem": f.dotStem} {
		if !on {
			ctx.Excluded(name)
		}
	}
	ctx.Rapid("select", 0, ctx.Cases, 20*time.Second, prop)
}

func replay(ctx *vf.Ctx, data json.RawMessage) (string, string) {
	var c Case
	if err := json.Unmarshal(data, &c); err != nil {
		return "bad replay file: " + err.Error(), "harness"
	}
	sig, msg := c.check()
	return msg, sig
}

func init() {
	vf.Register(&vf.Check{
		ID:    "C17",
		Level: "exploration",
		Rule: "case = package directory of 1-5 files (name from stem + 0-3 words of {target OS/arch, known OS, known arch, unknown}, optional _test, _/. prefix, non-.go suffix; header from a boolean constraint grammar of depth<=4 rendered as // +build (in one or several comment groups, possibly with a second constraint in a later group), //go:build, both consistent, both inconsistent, adjacent-to-package) x target platform (host or one of 16 via the verif build-context hook) x Options.BuildTags x yaegi:tags x Test/NoTest; oracle go/build.Context.MatchFile per file; non-trivial = a known OS/arch word in a deciding name position, or a header with >=2 operators, or both syntaxes present; distinct by full case content",
		Assumptions: []string{
			"go/build.Context.MatchFile of the installed toolchain (go1.23) is the reference; ReleaseTags are the host toolchain's",
			"yaegi:tags lines are placed in a file that sorts before the generated ones: unconstrained (every other file sees the tags), excluded by its own //go:build or // +build line (the tags are not added), or requiring its own first tag",
			"tags cgo/gc/gccgo/goexperiment.* are outside the generator (not in the property's list)",
		},
		Cases:  map[string]int{"quick": 4000, "thorough": 300000},
		Shards: map[string]int{"quick": 8, "thorough": 16},
		Run:    run,
		Replay: replay,
	})
}
