// Package c01 holds the check of property C01.
package c01
