// Package c01 checks that interpreted programs behave like their compiled
// counterparts (differential against the native toolchain).
package c01

import (
	"encoding/json"
	"path/filepath"
	"sort"
	"strings"
	"time"

	"pgregory.net/rapid"

	"verif/internal/diff"
	"verif/internal/oracle"
	"verif/internal/progen"
	"verif/internal/vf"
	"verif/internal/yrun"
)

// Case is the replayable form of a failing program.
type Case struct {
	Src      string   `json:"src"`
	Features []string `json:"features,omitempty"`
}

// switches that are turned off when the matching finding is recorded as known
var knownSwitches = []string{"delete-big-uint-const", "keyed-lit-compare-in-logic", "shift-count-deep-const", "fallthrough-default-not-last", "fallthrough-into-empty-clause", "label-in-case-clause", "shadow-loopvar", "for-empty-body", "invalid-utf8", "closure-loopvar", "goto", "labels", "fallthrough", "shadow", "defer", "recursion", "range-int", "switch-default-middle", "if-init", "switch-init", "shifts", "methods", "multi-value", "op-assign", "range-map", "printf"}

func config(ctx *vf.Ctx) *progen.Config {
	cfg := progen.DefaultConfig()
	for _, s := range knownSwitches {
		if vf.IsKnown("C01", s) {
			cfg.Off[s] = true
			ctx.Excluded(s)
		}
	}
	return cfg
}

func features(p *progen.Program) []string {
	var fs []string
	for k := range p.Used {
		fs = append(fs, k)
	}
	sort.Strings(fs)
	return fs
}

var shortcutShapes = map[string]bool{"assign-call-to-place": true, "op-assign": true, "map-op-assign": true, "lhs-field": true, "lhs-index": true, "lhs-deref": true, "multi-value-define": true, "swap": true, "parallel-assign": true, "closure-loopvar": true, "closure-counter": true, "early-return": true}

func nontrivial(p *progen.Program, nat *oracle.Result) bool {
	if nat == nil || strings.Count(nat.Stdout, "\n") < 3 {
		return false
	}
	fam, sc := 0, false
	for k := range p.Used {
		fam++
		if shortcutShapes[k] {
			sc = true
		}
	}
	return fam >= 6 && sc
}

func run(ctx *vf.Ctx) {
	cfg := config(ctx)
	batch, err := oracle.NewBatch(filepath.Join(ctx.Scratch, "oracle"))
	if err != nil {
		ctx.Inconclusive("oracle: %v", err)
		return
	}
	// pass A: draw and store the programs
	illTyped := 0
	ctx.RapidCollect("gen", 0, ctx.Cases, func(t *rapid.T) {
		p := progen.Generate(t, cfg)
		if e := progen.TypeCheck(p.Src); e != "" {
			illTyped++
			ctx.Class("generator-ill-typed")
			return
		}
		batch.Add(oracle.Single(p.Src))
	})
	if illTyped*100 > ctx.Cases {
		ctx.Inconclusive("generator produced %d ill-typed programs of %d", illTyped, ctx.Cases)
		return
	}
	if err := batch.Build(); err != nil {
		ctx.Inconclusive("native build: %v", err)
		return
	}
	pool := yrun.NewPool(1, filepath.Join(ctx.Scratch, "workers"))
	defer pool.Close()
	discards := 0
	// pass B: same draws, compare
	ctx.Rapid("diff", 0, ctx.Cases, shrinkTime(ctx), func(t *rapid.T) {
		p := progen.Generate(t, cfg)
		if progen.TypeCheck(p.Src) != "" {
			ctx.Done()
			return
		}
		_, nat := batch.Ensure(oracle.Single(p.Src))
		out := pool.Run(&yrun.Job{Src: p.Src}, 3*time.Minute)
		v := diff.Compare(nat, &out)
		ctx.Eval()
		switch {
		case v.Inconclusive != "":
			ctx.Inconclusive("%s", v.Inconclusive)
		case v.Discard != "":
			discards++
			ctx.Class("discard:" + v.Discard)
		case v.Sig != "":
			ctx.CaseFail(t, v.Sig, v.Msg, Case{Src: p.Src, Features: features(p)})
		default:
			for k := range p.Used {
				ctx.Class(k)
			}
			if p.Faulty {
				ctx.Class("ends-in-panic")
			}
			if nontrivial(p, nat) {
				ctx.Nontrivial(p.Src)
			}
			ctx.Sample(map[string]any{"src": p.Src, "stdout_lines": strings.Count(nat.Stdout, "\n"), "panicked": nat.Panicked}, 2)
		}
		ctx.Done()
	})
	if discards*50 > ctx.Cases && ctx.Cases >= 50 {
		ctx.Inconclusive("%d of %d cases discarded (native side)", discards, ctx.Cases)
	}
}

func shrinkTime(ctx *vf.Ctx) time.Duration {
	if ctx.Tier == "thorough" {
		return 4 * time.Minute
	}
	return 60 * time.Second
}

func replay(ctx *vf.Ctx, data json.RawMessage) (string, string) {
	var c Case
	if err := json.Unmarshal(data, &c); err != nil {
		return "bad replay file: " + err.Error(), "harness"
	}
	batch, err := oracle.NewBatch(filepath.Join(ctx.Scratch, "oracle"))
	if err != nil {
		return "oracle: " + err.Error(), "harness"
	}
	_, nat := batch.Ensure(oracle.Single(c.Src))
	pool := yrun.NewPool(1, filepath.Join(ctx.Scratch, "workers"))
	defer pool.Close()
	out := pool.Run(&yrun.Job{Src: c.Src}, 3*time.Minute)
	v := diff.Compare(nat, &out)
	if v.Discard != "" {
		return "", ""
	}
	if v.Inconclusive != "" {
		return "", ""
	}
	return v.Msg, v.Sig
}

func init() {
	vf.Register(&vf.Check{
		ID:    "C01",
		Level: "exploration",
		Rule:  "case = one program drawn by the type-directed generator internal/progen (structs, arrays, slices, maps, pointers, helper functions incl. recursion, methods, closures, all for/range/switch/if/goto/labelled forms, compound assignment to fields/elements/pointees, multi-value calls, shadowing; ~12% end in a deliberate panic or run-time fault), type-checked with go/types, built natively and run under the interpreter; oracle = stdout bytes and ending (normal/panic) of the native binary; non-trivial = native output has >=3 lines, >=6 construct families used and >=1 shortcut-sensitive shape (assignment of call results to places, op-assign, field/index/pointee targets, swaps, loop-variable closures, early return); distinct by source text",
		Assumptions: []string{
			"the installed Go toolchain (go1.23, language level go1.22) is the reference",
			"programs avoid behaviour the spec leaves open: order of variable reads against calls that write them, map iteration order, out-of-range float conversions, printing of pointers, %T",
			"constructs listed under excluded_by_construction are switched off because of recorded known findings",
		},
		Cases:  map[string]int{"quick": 480, "thorough": 12000},
		Shards: map[string]int{"quick": 8, "thorough": 16},
		Run:    run,
		Replay: replay,
	})
}
