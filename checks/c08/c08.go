// Package c08 checks concurrent execution: schedule-independent concurrent
// scripts must print what the template predicts, host goroutines calling the
// same interpreted function must each get their own result, independent
// interpreters must not interfere, and the race detector (the check binary is
// built with -race) must not report a race inside the interpreter.
package c08

import (
	"bytes"
	"encoding/json"
	"fmt"
	"os"
	"path/filepath"
	"reflect"
	"runtime"
	"strings"
	"sync"
	"sync/atomic"
	"time"

	"github.com/traefik/yaegi/interp"
	"github.com/traefik/yaegi/stdlib"
	"pgregory.net/rapid"

	"verif/internal/vf"
)

// Case is one concurrent scenario.
type Case struct {
	Kind     string   `json:"kind"` // script | hostcalls | interpreters
	Template string   `json:"template"`
	Src      string   `json:"src"`
	Want     string   `json:"want"`
	Srcs     []string `json:"srcs,omitempty"`  // interpreters
	Wants    []string `json:"wants,omitempty"` // interpreters
	Procs    int      `json:"procs"`           // GOMAXPROCS
	Yield    int      `json:"yield"`           // runtime.Gosched every Yield-th interpreted operation (0 = never)
	HostG    int      `json:"host_g,omitempty"`
	Calls    int      `json:"calls,omitempty"`
}

type syncBuf struct {
	mu sync.Mutex
	b  bytes.Buffer
}

func (s *syncBuf) Write(p []byte) (int, error) {
	s.mu.Lock()
	defer s.mu.Unlock()
	return s.b.Write(p)
}
func (s *syncBuf) String() string {
	s.mu.Lock()
	defer s.mu.Unlock()
	return s.b.String()
}

func n(t *rapid.T, lo, hi int, l string) int { return rapid.IntRange(lo, hi).Draw(t, l) }

type tmpl struct {
	name string
	gen  func(t *rapid.T) (src, want string)
}

const hdr = "package main\n\nimport (\n\t\"fmt\"\n\t\"sync\"\n)\n\nvar _ sync.Mutex\n\n"

var templates = []tmpl{
	{"pipeline", func(t *rapid.T) (string, string) {
		stages, msgs, buf := n(t, 1, 5, "stages"), n(t, 1, 40, "msgs"), n(t, 0, 3, "buf")
		var b strings.Builder
		b.WriteString(hdr)
		b.WriteString("func stage(in, out chan int, add int) {\n\tfor v := range in {\n\t\tout <- v + add\n\t}\n\tclose(out)\n}\n\n")
		fmt.Fprintf(&b, "func main() {\n\tfirst := make(chan int, %d)\n\tin := first\n", buf)
		sumAdd := 0
		for s := 0; s < stages; s++ {
			add := n(t, 1, 9, "add")
			sumAdd += add
			fmt.Fprintf(&b, "\tout%d := make(chan int, %d)\n\tgo stage(in, out%d, %d)\n\tin = out%d\n", s, buf, s, add, s)
		}
		fmt.Fprintf(&b, "\tgo func() {\n\t\tfor i := 0; i < %d; i++ {\n\t\t\tfirst <- i\n\t\t}\n\t\tclose(first)\n\t}()\n\tsum, cnt := 0, 0\n\tfor v := range in {\n\t\tsum += v\n\t\tcnt++\n\t}\n\tfmt.Println(\"pipeline\", cnt, sum)\n}\n", msgs)
		return b.String(), fmt.Sprintf("pipeline %d %d\n", msgs, msgs*(msgs-1)/2+msgs*sumAdd)
	}},
	{"select-private-channels", func(t *rapid.T) (string, string) {
		w, m := n(t, 2, 16, "workers"), n(t, 5, 60, "msgs")
		src := hdr + fmt.Sprintf(`func worker(id int, in, out chan int, quit chan bool) {
	for {
		select {
		case v := <-in:
			out <- v*100 + id
		case <-quit:
			return
		}
	}
}

func main() {
	const W, M = %d, %d
	ins, outs := make([]chan int, W), make([]chan int, W)
	quit := make(chan bool)
	for w := 0; w < W; w++ {
		ins[w], outs[w] = make(chan int), make(chan int)
		go worker(w, ins[w], outs[w], quit)
	}
	var wg sync.WaitGroup
	bad := make([]int, W)
	sums := make([]int, W)
	for w := 0; w < W; w++ {
		wg.Add(1)
		go func(w int) {
			defer wg.Done()
			for i := 0; i < M; i++ {
				ins[w] <- i
				r := <-outs[w]
				if r%%100 != w || r/100 != i {
					bad[w]++
				}
				sums[w] += r / 100
			}
		}(w)
	}
	wg.Wait()
	close(quit)
	totalBad, total := 0, 0
	for w := 0; w < W; w++ {
		totalBad += bad[w]
		total += sums[w]
	}
	fmt.Println("select", totalBad, total)
}
`, w, m)
		return src, fmt.Sprintf("select 0 %d\n", w*m*(m-1)/2)
	}},
	{"mutex-counter", func(t *rapid.T) (string, string) {
		g, k := n(t, 2, 32, "goroutines"), n(t, 1, 60, "incs")
		src := hdr + fmt.Sprintf(`type counter struct {
	mu sync.Mutex
	n  int
	m  map[int]int
}

func (c *counter) inc(id int) {
	c.mu.Lock()
	c.n++
	c.m[id]++
	c.mu.Unlock()
}

func main() {
	c := &counter{m: map[int]int{}}
	var wg sync.WaitGroup
	for g := 0; g < %d; g++ {
		wg.Add(1)
		go func(id int) {
			defer wg.Done()
			for i := 0; i < %d; i++ {
				c.inc(id)
			}
		}(g)
	}
	wg.Wait()
	fmt.Println("counter", c.n, len(c.m), c.m[0])
}
`, g, k)
		return src, fmt.Sprintf("counter %d %d %d\n", g*k, g, k)
	}},
	{"producer-consumers", func(t *rapid.T) (string, string) {
		c, m, buf := n(t, 1, 8, "consumers"), n(t, 1, 80, "msgs"), n(t, 0, 4, "buf")
		src := hdr + fmt.Sprintf(`func main() {
	work := make(chan int, %d)
	res := make(chan int)
	for c := 0; c < %d; c++ {
		go func() {
			s := 0
			for v := range work {
				s += v * v
			}
			res <- s
		}()
	}
	for i := 0; i < %d; i++ {
		work <- i
	}
	close(work)
	total := 0
	for c := 0; c < %d; c++ {
		total += <-res
	}
	fmt.Println("prodcons", total)
}
`, buf, c, m, c)
		return src, fmt.Sprintf("prodcons %d\n", (m-1)*m*(2*m-1)/6)
	}},
	{"loopvar-goroutines", func(t *rapid.T) (string, string) {
		w := n(t, 2, 32, "w")
		src := hdr + fmt.Sprintf(`func square(x int) int {
	s := 0
	for i := 0; i < x; i++ {
		s += x
	}
	return s
}

func main() {
	res := make([]int, %d)
	var wg sync.WaitGroup
	for i := 0; i < %d; i++ {
		wg.Add(1)
		go func() {
			defer wg.Done()
			res[i] = square(i)
		}()
	}
	wg.Wait()
	fmt.Println("squares", res)
}
`, w, w)
		var sq []string
		for i := 0; i < w; i++ {
			sq = append(sq, fmt.Sprint(i*i))
		}
		return src, "squares [" + strings.Join(sq, " ") + "]\n"
	}},
	{"worker-forms", func(t *rapid.T) (string, string) {
		// Workers started by one go statement are alive together (they wait for a
		// gate) and work on their own variables: a named result, several of them,
		// a local variable, the fields of their own receiver. The function is a
		// package-level function, a method with a value or a pointer receiver, a
		// method value, or a function literal with named results.
		w, m := n(t, 2, 12, "w"), n(t, 1, 40, "m")
		form := n(t, 0, 7, "form")
		vars := n(t, 0, 2, "vars")
		sig, pre, upd, fin := "(acc int)", "", "acc += id*1000 + i", "out[id] = acc"
		switch vars {
		case 1:
			sig, upd, fin = "(acc, cnt int)", "acc += id*1000 + i\n\t\tcnt++", "out[id] = acc + cnt - n"
		case 2:
			sig, pre, upd, fin = "int", "acc := 0\n\t", "acc += id*1000 + i", "out[id] = acc\n\treturn acc"
		}
		if vars != 2 {
			fin += "\n\treturn"
		}
		body := fmt.Sprintf("{\n\tdefer wg.Done()\n\t%s<-gate\n\tfor i := 0; i < n; i++ {\n\t\t%s\n\t}\n\t%s\n}", pre, upd, fin)
		var decl, spawn, setup string
		switch form {
		case 0, 1:
			decl = "func work(id, n int, gate chan bool, out []int, wg *sync.WaitGroup) " + sig + " " + body + "\n\n"
			spawn = "go work(w, N, gate, out, &wg)"
		case 2: // value receiver
			decl = "type worker struct{ id int }\n\nfunc (k worker) work(n int, gate chan bool, out []int, wg *sync.WaitGroup) " + sig + " " + strings.Replace(body, "{\n", "{\n\tid := k.id\n", 1) + "\n\n"
			spawn = "go worker{w}.work(N, gate, out, &wg)"
		case 3: // pointer receiver, own element
			decl = "type worker struct{ id int }\n\nfunc (k *worker) work(n int, gate chan bool, out []int, wg *sync.WaitGroup) " + sig + " " + strings.Replace(body, "{\n", "{\n\tid := k.id\n", 1) + "\n\n"
			setup = "\tws := make([]worker, W)\n\tfor i := range ws {\n\t\tws[i].id = i\n\t}\n"
			spawn = "go ws[w].work(N, gate, out, &wg)"
		case 4: // pointer receiver on the iteration variable of a range loop
			decl = "type worker struct{ id int }\n\nfunc (k *worker) work(n int, gate chan bool, out []int, wg *sync.WaitGroup) " + sig + " " + strings.Replace(body, "{\n", "{\n\tid := k.id\n", 1) + "\n\n"
			setup = "\tws := make([]worker, W)\n\tfor i := range ws {\n\t\tws[i].id = i\n\t}\n"
			spawn = "RANGE"
		case 5: // method value
			decl = "type worker struct{ id int }\n\nfunc (k worker) work(n int, gate chan bool, out []int, wg *sync.WaitGroup) " + sig + " " + strings.Replace(body, "{\n", "{\n\tid := k.id\n", 1) + "\n\n"
			spawn = "f := worker{w}.work\n\t\tgo f(N, gate, out, &wg)"
		case 6: // function literal with the same results
			spawn = "go func(id, n int) " + sig + " " + strings.ReplaceAll(body, "\n", "\n\t\t") + "(w, N)"
		default: // function value in a variable
			decl = "func work(id, n int, gate chan bool, out []int, wg *sync.WaitGroup) " + sig + " " + body + "\n\n"
			setup = "\tf := work\n"
			spawn = "go f(w, N, gate, out, &wg)"
		}
		loop := "\tfor w := 0; w < W; w++ {\n\t\twg.Add(1)\n\t\t" + spawn + "\n\t}\n"
		if spawn == "RANGE" {
			loop = "\tfor _, k := range ws {\n\t\twg.Add(1)\n\t\tgo k.work(N, gate, out, &wg)\n\t}\n"
		}
		src := hdr + decl + fmt.Sprintf("func main() {\n\tconst W, N = %d, %d\n\tout := make([]int, W)\n\tgate := make(chan bool)\n\tvar wg sync.WaitGroup\n%s%s\tclose(gate)\n\twg.Wait()\n\tfmt.Println(\"forms\", out)\n}\n", w, m, setup, loop)
		var want []string
		for id := 0; id < w; id++ {
			want = append(want, fmt.Sprint(id*1000*m+m*(m-1)/2))
		}
		return src, "forms [" + strings.Join(want, " ") + "]\n"
	}},
	{"select-default-poll", func(t *rapid.T) (string, string) {
		w, m := n(t, 1, 8, "w"), n(t, 1, 30, "m")
		src := hdr + fmt.Sprintf(`func main() {
	data := make(chan int, 4)
	done := make(chan bool)
	var mu sync.Mutex
	got := 0
	for w := 0; w < %d; w++ {
		go func() {
			for {
				select {
				case v, ok := <-data:
					if !ok {
						done <- true
						return
					}
					mu.Lock()
					got += v
					mu.Unlock()
				default:
				}
			}
		}()
	}
	for i := 1; i <= %d; i++ {
		data <- i
	}
	close(data)
	for w := 0; w < %d; w++ {
		<-done
	}
	fmt.Println("poll", got)
}
`, w, m, w)
		return src, fmt.Sprintf("poll %d\n", m*(m+1)/2)
	}},
}

func newInterp(out *syncBuf) *interp.Interpreter {
	i := interp.New(interp.Options{Stdout: out, Stderr: &syncBuf{}, Args: []string{"prog"}})
	if err := i.Use(stdlib.Symbols); err != nil {
		panic(err)
	}
	return i
}

func yieldHook(i *interp.Interpreter, every int) {
	if every <= 0 {
		return
	}
	var cnt atomic.Int64
	i.VerifSetStepHook(func() {
		if cnt.Add(1)%int64(every) == 0 {
			runtime.Gosched()
		}
	})
}

// guarded runs f and gives up when the interpreter makes no progress for 30 s.
func guarded(is []*interp.Interpreter, f func()) (stuck bool) {
	done := make(chan struct{})
	go func() {
		defer close(done)
		f()
	}()
	sum := func() uint64 {
		var s uint64
		for _, i := range is {
			s += i.VerifOps()
		}
		return s
	}
	last, at := sum(), time.Now()
	t := time.NewTicker(100 * time.Millisecond)
	defer t.Stop()
	for {
		select {
		case <-done:
			return false
		case <-t.C:
			if v := sum(); v != last {
				last, at = v, time.Now()
			} else if time.Since(at) > 30*time.Second {
				return true
			}
		}
	}
}

func evalProgram(i *interp.Interpreter, src string) (err error) {
	defer func() {
		if p := recover(); p != nil {
			err = fmt.Errorf("escaped Go panic: %v", p)
		}
	}()
	_, err = i.Eval(src)
	return err
}

const hostScript = `package main

type acc struct{ base int }

func (a *acc) Add(x int) int {
	s := a.base
	for i := 0; i < x; i++ {
		s += 2
	}
	return s
}

var shared = &acc{base: 1000}

func Sum(x int) int {
	s := 0
	for i := 0; i <= x; i++ {
		s += i
	}
	return s
}

func MakeAdder(k int) func(int) int {
	total := k
	return func(d int) int {
		total += d
		return total
	}
}

func Method(x int) int { return shared.Add(x) }

func Pair(a, b int) (int, string) {
	buf := make([]byte, 0, 8)
	for i := 0; i < a%5+1; i++ {
		buf = append(buf, byte('a'+b%26))
	}
	return a*1000 + b, string(buf)
}
`

// hostCalls: N host goroutines call the same interpreted functions.
func hostCalls(c *Case) (string, string) {
	out := &syncBuf{}
	i := newInterp(out)
	yieldHook(i, c.Yield)
	if err := evalProgram(i, hostScript); err != nil {
		return "hostcalls-eval-error", err.Error()
	}
	get := func(name string) reflect.Value {
		v, err := i.Eval(name)
		if err != nil {
			panic(err)
		}
		return v
	}
	sum := get("main.Sum").Interface().(func(int) int)
	mk := get("main.MakeAdder").Interface().(func(int) func(int) int)
	method := get("main.Method").Interface().(func(int) int)
	pair := get("main.Pair").Interface().(func(int, int) (int, string))
	var bad atomic.Value
	var wg sync.WaitGroup
	stuck := guarded([]*interp.Interpreter{i}, func() {
		for g := 0; g < c.HostG; g++ {
			wg.Add(1)
			go func(g int) {
				defer wg.Done()
				defer func() {
					if p := recover(); p != nil {
						bad.Store(fmt.Sprintf("goroutine %d: Go panic escaped a native call of an interpreted function: %v", g, p))
					}
				}()
				add := mk(g) // private closure state per goroutine
				tot := g
				for k := 0; k < c.Calls; k++ {
					x := g*7 + k
					if got, want := sum(x), x*(x+1)/2; got != want {
						bad.Store(fmt.Sprintf("goroutine %d: Sum(%d) = %d, want %d", g, x, got, want))
						return
					}
					tot += k
					if got := add(k); got != tot {
						bad.Store(fmt.Sprintf("goroutine %d: its own adder returned %d, want %d", g, got, tot))
						return
					}
					if got, want := method(x), 1000+2*x; got != want {
						bad.Store(fmt.Sprintf("goroutine %d: Method(%d) = %d, want %d", g, x, got, want))
						return
					}
					n1, s1 := pair(g, k)
					if n1 != g*1000+k || s1 != strings.Repeat(string(rune('a'+k%26)), g%5+1) {
						bad.Store(fmt.Sprintf("goroutine %d: Pair(%d,%d) = %d %q", g, g, k, n1, s1))
						return
					}
				}
			}(g)
		}
		wg.Wait()
	})
	if stuck {
		return "hostcalls-stuck", "concurrent native calls of interpreted functions made no progress for 30 s"
	}
	if m, _ := bad.Load().(string); m != "" {
		return "hostcalls-wrong-result", m
	}
	return "", ""
}

func (c *Case) check() (string, string) {
	old := runtime.GOMAXPROCS(c.Procs)
	defer runtime.GOMAXPROCS(old)
	switch c.Kind {
	case "hostcalls":
		return hostCalls(c)
	case "interpreters":
		outs := make([]*syncBuf, len(c.Srcs))
		is := make([]*interp.Interpreter, len(c.Srcs))
		errs := make([]error, len(c.Srcs))
		for k := range c.Srcs {
			outs[k] = &syncBuf{}
			is[k] = newInterp(outs[k])
			yieldHook(is[k], c.Yield)
		}
		stuck := guarded(is, func() {
			var wg sync.WaitGroup
			for k := range c.Srcs {
				wg.Add(1)
				go func(k int) {
					defer wg.Done()
					errs[k] = evalProgram(is[k], c.Srcs[k])
				}(k)
			}
			wg.Wait()
		})
		if stuck {
			return "interpreters-stuck", "parallel interpreters made no progress for 30 s"
		}
		for k := range c.Srcs {
			if errs[k] != nil {
				return "interpreters-error", fmt.Sprintf("interpreter %d: %v", k, errs[k])
			}
			if got := outs[k].String(); got != c.Wants[k] {
				return "interpreters-output", fmt.Sprintf("interpreter %d printed %q, want %q", k, got, c.Wants[k])
			}
		}
		return "", ""
	default:
		out := &syncBuf{}
		i := newInterp(out)
		yieldHook(i, c.Yield)
		var err error
		if guarded([]*interp.Interpreter{i}, func() { err = evalProgram(i, c.Src) }) {
			return "script-stuck:" + c.Template, "the script made no progress for 30 s (output so far " + out.String() + ")"
		}
		if err != nil {
			return "script-error:" + c.Template, err.Error()
		}
		if got := out.String(); got != c.Want {
			return "script-output:" + c.Template, fmt.Sprintf("template %s printed %q, the schedule-independent result is %q", c.Template, got, c.Want)
		}
		return "", ""
	}
}

func genCase(t *rapid.T, skip map[string]bool) *Case {
	c := &Case{Procs: []int{1, 2, 4, 16}[n(t, 0, 3, "procs")]}
	if n(t, 0, 2, "yield?") > 0 {
		c.Yield = []int{1, 2, 3, 7, 20, 100}[n(t, 0, 5, "yield")]
	}
	var ts []tmpl
	for _, tm := range templates {
		if !skip[tm.name] {
			ts = append(ts, tm)
		}
	}
	switch n(t, 0, 9, "kind") {
	case 0, 1:
		c.Kind, c.Template = "hostcalls", "hostcalls"
		c.HostG, c.Calls = n(t, 2, 16, "hostg"), n(t, 1, 25, "calls")
	case 2:
		c.Kind, c.Template = "interpreters", "interpreters"
		k := n(t, 2, 6, "ninterp")
		for j := 0; j < k; j++ {
			tm := ts[n(t, 0, len(ts)-1, "itmpl")]
			s, w := tm.gen(t)
			c.Srcs, c.Wants = append(c.Srcs, s), append(c.Wants, w)
		}
	default:
		tm := ts[n(t, 0, len(ts)-1, "tmpl")]
		c.Kind, c.Template = "script", tm.name
		c.Src, c.Want = tm.gen(t)
	}
	return c
}

// raceLog returns the race detector reports written so far by this process
// (GORACE log_path is set by the driver).
func raceLog(dir string) string {
	var b strings.Builder
	files, _ := filepath.Glob(filepath.Join(dir, "race.*"))
	for _, f := range files {
		if d, err := os.ReadFile(f); err == nil {
			b.Write(d)
		}
	}
	return b.String()
}

// interpRace extracts the first report whose stacks lie in the interpreter.
func interpRace(log string) string {
	for _, rep := range strings.Split(log, "==================") {
		if strings.Contains(rep, "DATA RACE") && strings.Contains(rep, "github.com/traefik/yaegi/interp") {
			// races between two accesses made on behalf of the script through
			// reflect are attributed to the interpreter: the scripts are
			// race-free by construction
			lines := strings.Split(strings.TrimSpace(rep), "\n")
			var keep []string
			for _, l := range lines {
				if strings.Contains(l, "yaegi/interp") || strings.HasPrefix(l, "WARNING") || strings.HasPrefix(l, "Previous") || strings.HasPrefix(l, "Read at") || strings.HasPrefix(l, "Write at") {
					keep = append(keep, strings.TrimSpace(l))
				}
				if len(keep) > 14 {
					break
				}
			}
			return strings.Join(keep, " | ")
		}
	}
	return ""
}

var raceFrame = func(rep string) string {
	// signature: the first interpreter source location of the report
	for _, f := range strings.Fields(rep) {
		if strings.Contains(f, "/interp/") && strings.Contains(f, ".go:") {
			f = f[strings.LastIndex(f, "/interp/")+8:]
			if i := strings.Index(f, ":"); i >= 0 {
				return f[:i]
			}
		}
	}
	return "unknown"
}

func run(ctx *vf.Ctx) {
	skip := map[string]bool{}
	for _, tm := range templates {
		if vf.IsKnown("C08", "template:"+tm.name) {
			skip[tm.name] = true
			ctx.Excluded("template:" + tm.name)
		}
	}
	raceDir := os.Getenv("VERIF_RACE_DIR")
	raceSeen := 0
	ctx.Rapid("concurrent", 0, ctx.Cases, 40*time.Second, func(t *rapid.T) {
		c := genCase(t, skip)
		ctx.Done()
		sig, msg := c.check()
		ctx.Eval()
		ctx.Class("kind:" + c.Kind)
		ctx.Class("template:" + c.Template)
		ctx.Class(fmt.Sprintf("gomaxprocs:%d", c.Procs))
		ctx.Class(fmt.Sprintf("yield-every:%d", c.Yield))
		b, _ := json.Marshal(c)
		ctx.Nontrivial(string(b))
		ctx.Sample(map[string]any{"kind": c.Kind, "template": c.Template, "procs": c.Procs, "yield": c.Yield, "want": c.Want}, 4)
		if sig != "" {
			ctx.CaseFail(t, sig, msg, c)
			return
		}
		if raceDir != "" {
			log := raceLog(raceDir)
			if len(log) > raceSeen {
				fresh := log[raceSeen:]
				raceSeen = len(log)
				if rep := interpRace(fresh); rep != "" {
					ctx.CaseFail(t, "race:"+raceFrame(rep), "the race detector reports a data race inside the interpreter while running a race-free script: "+rep, c)
				}
			}
		}
	})
	if raceDir == "" {
		ctx.Note("race detector log not available (VERIF_RACE_DIR unset): only output and result oracles were active")
	}
}

func replay(ctx *vf.Ctx, data json.RawMessage) (string, string) {
	var c Case
	if err := json.Unmarshal(data, &c); err != nil {
		return "bad replay file: " + err.Error(), "harness"
	}
	raceDir := os.Getenv("VERIF_RACE_DIR")
	before := len(raceLog(raceDir))
	// schedule-dependent: repeat a few times
	for k := 0; k < 5; k++ {
		if sig, msg := c.check(); sig != "" {
			return msg, sig
		}
		if raceDir != "" {
			if log := raceLog(raceDir); len(log) > before {
				if rep := interpRace(log[before:]); rep != "" {
					return "data race inside the interpreter: " + rep, "race:" + raceFrame(rep)
				}
			}
		}
	}
	return "", ""
}

func init() {
	vf.Register(&vf.Check{
		ID:    "C08",
		Level: "exploration",
		Race:  true,
		Rule:  "case = (a) a race-free script from a template whose output is schedule-independent (pipeline of stages, workers with private channels in one select statement, mutex counter with map, producer/consumers with close+range, goroutines capturing the loop variable, select-with-default polling) with drawn goroutine/message/buffer counts, or (b) 2-16 host goroutines calling the same interpreted named function, closure factory, method and multi-result function with distinct arguments, or (c) 2-6 interpreters running different templates in parallel; crossed with GOMAXPROCS in {1,2,4,16} and a Gosched injected every n-th interpreted operation through the step hook; oracle: the analytically known output / per-goroutine results, no stuck run, and no race-detector report with a frame in yaegi/interp (binary built with -race, GORACE log read after every case); every case is non-trivial (>= 2 goroutines inside the same interpreted code); distinct by full case content",
		Assumptions: []string{
			"schedules are sampled (GOMAXPROCS, injected yields), not enumerated; the race detector adds happens-before reasoning",
			"scripts are data-race-free by construction, so a reported race with interpreter frames is attributed to the interpreter",
		},
		Cases:  map[string]int{"quick": 800, "thorough": 20000},
		Shards: map[string]int{"quick": 8, "thorough": 12},
		Run:    run,
		Replay: replay,
	})
}
