// Package c08 holds the check of property C08.
package c08
