// Package c13 checks property C13 "Restricted mode confines scripts": with the
// default symbol set a script cannot import unsafe, syscall or os/exec, the
// process-exit entry points are recoverable panics, the os environment
// functions act on the virtual environment only, and the redirected I/O
// functions use the streams and arguments of interp.Options.
//
// Families 1 (imports + symbol table), 2 (exit calls) and 4 (streams) are
// finite and enumerated completely; family 3 (environment) is a rapid
// campaign of operation histories against a map model.
package c13

import (
	"bytes"
	"encoding/json"
	"fmt"
	"log"
	"os"
	"os/exec"
	"path"
	"reflect"
	"sort"
	"strconv"
	"strings"
	"syscall"
	"time"

	"github.com/traefik/yaegi/interp"
	"github.com/traefik/yaegi/stdlib"
	ysyscall "github.com/traefik/yaegi/stdlib/syscall"
	"github.com/traefik/yaegi/stdlib/unrestricted"
	yunsafe "github.com/traefik/yaegi/stdlib/unsafe"
	"pgregory.net/rapid"

	"verif/internal/vf"
	"verif/internal/yrun"
)

const (
	sigLogDefault = "log-default-host-logger"
	sigFlagHost   = "flag-host-commandline"
	sentinelKey   = "VERIF_SENTINEL"
)

// Op is one environment operation of a family-3 history.
type Op struct {
	Kind string `json:"kind"` // set unset clear get lookup environ expand
	Key  string `json:"key,omitempty"`
	Val  string `json:"val,omitempty"` // value of set, template of expand
}

// Case is one cell (families 1, 2, 4) or one history (family 3). It holds
// everything Replay needs.
type Case struct {
	Family  string   `json:"family"` // symtab imports exit env streams
	Cell    string   `json:"cell"`
	Src     string   `json:"src,omitempty"`
	Env     []string `json:"env,omitempty"`
	Args    []string `json:"args,omitempty"`
	NoArgs  bool     `json:"no_args,omitempty"` // Options.Args is an empty, non-nil slice
	Stdin   string   `json:"stdin,omitempty"`
	Special bool     `json:"special_stdio,omitempty"` // worker started with YAEGI_SPECIAL_STDIO=1
	Auto    bool     `json:"auto_import,omitempty"`   // ImportUsed() then Eval(Src), in-process
	// Expect: import-error | import-ok (harness control) | recovered | panic |
	// stream | env | symtab
	Expect string `json:"expect"`
	Token  string `json:"token,omitempty"`  // must not reach the worker's real descriptors
	Needle string `json:"needle,omitempty"` // must appear in the Options stream (default Token)
	Stream string `json:"stream,omitempty"` // stdout | stderr | any
	Ops    []Op   `json:"ops,omitempty"`
	// Group attributes a cell to a recorded root cause (failure signature).
	Group string `json:"group,omitempty"`
	// Decoy: a second interpreter with other Options is created, loaded and
	// used in the same process before the case runs on the first one.
	Decoy bool `json:"decoy,omitempty"`
}

// ---------------------------------------------------------------------------
// running

type runner struct {
	scratch string
	pool    *yrun.Pool
	special *yrun.Pool
}

func newRunner(scratch string) *runner { return &runner{scratch: scratch} }

func (r *runner) close() {
	if r.pool != nil {
		r.pool.Close()
	}
	if r.special != nil {
		r.special.Close()
	}
}

func (r *runner) job(c *Case) *yrun.Job {
	return &yrun.Job{Src: c.Src, Env: c.Env, Args: c.Args, NoArgs: c.NoArgs, Stdin: c.Stdin, Decoy: c.Decoy}
}

// worker runs the case in a worker subprocess.
func (r *runner) worker(c *Case) yrun.Outcome {
	var p *yrun.Pool
	if c.Special {
		if r.special == nil {
			r.special = yrun.NewPool(1, r.scratch+"/pool-special", sentinelKey+"=host", "YAEGI_SPECIAL_STDIO=1")
		}
		p = r.special
	} else {
		if r.pool == nil {
			r.pool = yrun.NewPool(1, r.scratch+"/pool", sentinelKey+"=host", "YAEGI_SPECIAL_STDIO=")
		}
		p = r.pool
	}
	return p.Run(r.job(c), 2*time.Minute)
}

type verdict struct {
	sig, msg string
	harness  bool   // harness trouble, not a verdict
	note     string // evidence class of a passing cell (how an import was rejected)
}

func rejectKind(err string) string {
	switch {
	case strings.Contains(err, "unable to find source related to"):
		return "import-not-found"
	case strings.Contains(err, "undefined"):
		return "undefined-identifier"
	}
	if os.Getenv("C13_DEBUG") != "" {
		fmt.Fprintln(os.Stderr, "C13_DEBUG other rejection:", err)
	}
	return "other-error"
}

func fail(sig, f string, a ...any) verdict { return verdict{sig: sig, msg: fmt.Sprintf(f, a...)} }
func trouble(f string, a ...any) verdict   { return verdict{harness: true, msg: fmt.Sprintf(f, a...)} }

func brief(o yrun.Outcome) string {
	cut := func(s string) string {
		if len(s) > 300 {
			return s[:300] + "..."
		}
		return s
	}
	return fmt.Sprintf("class=%s err=%q stdout=%q stderr=%q realout=%q realerr=%q", o.Class, cut(o.Err), cut(o.Stdout), cut(o.Stderr), cut(o.RealOut), cut(o.RealErr))
}

// groupSig maps a failure of a cell to its signature: cells that belong to a
// root-cause group report that group, everything else the family signature.
func (c *Case) groupSig(sig string) string {
	if c.Group != "" {
		return c.Group
	}
	return sig
}

// check runs one case and returns the verdict (zero verdict = property held).
func (r *runner) check(c *Case) verdict {
	switch c.Family {
	case "symtab":
		return checkSymtab()
	case "env":
		return checkEnv(c)
	}
	if c.Auto {
		return checkAuto(c)
	}
	o := r.worker(c)
	if o.Class == yrun.Timeout || (o.Class == yrun.Crash && strings.HasPrefix(o.Err, "cannot start worker")) {
		return trouble("cell %s: %s", c.Cell, brief(o))
	}
	switch c.Expect {
	case "import-error":
		if o.Class == yrun.Compile || o.Class == yrun.Error {
			return verdict{note: "imports-rejected:" + rejectKind(o.Err)}
		}
		return fail(c.groupSig("import-accepted"), "cell %s: a script importing a package outside the default table must be rejected, got %s\n%s", c.Cell, brief(o), c.Src)
	case "import-ok":
		if o.Class == yrun.OK {
			return verdict{}
		}
		return trouble("control cell %s (an allowed package in the same import form) failed: %s", c.Cell, brief(o))
	case "recovered":
		switch {
		case o.Class == yrun.Crash:
			return fail(c.groupSig("exit-terminates-host"), "cell %s: the exit call terminated the host (worker) process: %s\n%s", c.Cell, brief(o), c.Src)
		case o.Class != yrun.OK || !strings.Contains(o.Stdout, "recovered true\n") || strings.Contains(o.Stdout, "unreachable"):
			return fail(c.groupSig("exit-not-recoverable"), "cell %s: the exit call must surface as a panic that the script recovers (want class ok and \"recovered true\"): %s\n%s", c.Cell, brief(o), c.Src)
		}
		return verdict{}
	case "panic":
		switch {
		case o.Class == yrun.Crash:
			return fail(c.groupSig("exit-terminates-host"), "cell %s: the unrecovered exit call terminated the host (worker) process: %s\n%s", c.Cell, brief(o), c.Src)
		case o.Class != yrun.Panic || strings.Contains(o.Stdout, "unreachable"):
			return fail(c.groupSig("exit-no-panic"), "cell %s: the unrecovered exit call must make Eval return a panic error: %s\n%s", c.Cell, brief(o), c.Src)
		}
		return verdict{}
	case "stream":
		needle := c.Needle
		if needle == "" {
			needle = c.Token
		}
		if o.Class == yrun.Crash {
			return fail(c.groupSig("stream-terminates-host"), "cell %s: worker died: %s\n%s", c.Cell, brief(o), c.Src)
		}
		if strings.Contains(o.RealOut, c.Token) || strings.Contains(o.RealErr, c.Token) {
			return fail(c.groupSig("stream-on-host"), "cell %s: token %q reached the host's real stdout/stderr: %s\n%s", c.Cell, c.Token, brief(o), c.Src)
		}
		if o.Class != yrun.OK {
			return fail(c.groupSig("stream-eval-"+o.Class), "cell %s: script did not run to completion: %s\n%s", c.Cell, brief(o), c.Src)
		}
		var ok bool
		switch c.Stream {
		case "stdout":
			ok = strings.Contains(o.Stdout, needle)
		case "stderr":
			ok = strings.Contains(o.Stderr, needle)
		default:
			ok = strings.Contains(o.Stdout, needle) || strings.Contains(o.Stderr, needle)
		}
		if !ok {
			return fail(c.groupSig("stream-not-options"), "cell %s: %q not found on Options.%s (stdin/args/streams of Options not used): %s\n%s", c.Cell, needle, c.Stream, brief(o), c.Src)
		}
		return verdict{}
	}
	return trouble("cell %s: unknown expectation %q", c.Cell, c.Expect)
}

// ---------------------------------------------------------------------------
// family 1: symbol table and imports

func pkgPath(key string) string {
	if i := strings.LastIndex(key, "/"); i >= 0 {
		return key[:i]
	}
	return key
}

func sortedKeys[V any](m map[string]V) []string {
	var ks []string
	for k := range m {
		ks = append(ks, k)
	}
	sort.Strings(ks)
	return ks
}

// forbiddenPkgs is {unsafe, syscall, os/exec} plus every package path that is
// a key of the three opt-in symbol tables, minus the paths that are also keys
// of the default table (os, log: unrestricted *overrides* of allowed
// packages, handled by the symbol comparison instead).
func forbiddenPkgs() (forbidden, overlap []string) {
	def := map[string]bool{}
	for k := range stdlib.Symbols {
		def[pkgPath(k)] = true
	}
	set := map[string]bool{"unsafe": true, "syscall": true, "os/exec": true}
	for _, tab := range []map[string]map[string]reflect.Value{yunsafe.Symbols, ysyscall.Symbols, unrestricted.Symbols} {
		for k := range tab {
			set[pkgPath(k)] = true
		}
	}
	named := map[string]bool{"unsafe": true, "syscall": true, "os/exec": true}
	for _, p := range sortedKeys(set) {
		if def[p] && !named[p] {
			overlap = append(overlap, p)
		} else {
			forbidden = append(forbidden, p)
		}
	}
	return
}

// checkSymtab enumerates stdlib.Symbols completely.
func checkSymtab() verdict {
	forbidden, overlap := forbiddenPkgs()
	isForbidden := map[string]bool{}
	for _, p := range forbidden {
		isForbidden[p] = true
	}
	type fp struct {
		name string
		ptr  uintptr
	}
	bad := []fp{
		{"os.Exit", reflect.ValueOf(os.Exit).Pointer()},
		{"log.Fatal", reflect.ValueOf(log.Fatal).Pointer()},
		{"log.Fatalf", reflect.ValueOf(log.Fatalf).Pointer()},
		{"log.Fatalln", reflect.ValueOf(log.Fatalln).Pointer()},
		{"syscall.Exit", reflect.ValueOf(syscall.Exit).Pointer()},
		{"os.FindProcess", reflect.ValueOf(os.FindProcess).Pointer()},
		{"log.New", reflect.ValueOf(log.New).Pointer()},
		{"exec.Command", reflect.ValueOf(exec.Command).Pointer()},
		{"exec.CommandContext", reflect.ValueOf(exec.CommandContext).Pointer()},
	}
	var msgs []string
	for _, key := range sortedKeys(stdlib.Symbols) {
		if isForbidden[pkgPath(key)] {
			msgs = append(msgs, fmt.Sprintf("default table has key %q of a forbidden package", key))
		}
		syms := stdlib.Symbols[key]
		for _, name := range sortedKeys(syms) {
			v := syms[name]
			if v.IsValid() && v.Kind() == reflect.Func && !v.IsNil() {
				p := v.Pointer()
				for _, b := range bad {
					if p == b.ptr {
						msgs = append(msgs, fmt.Sprintf("%s.%s is bound to the real %s", key, name, b.name))
					}
				}
			}
		}
	}
	if len(msgs) > 0 {
		sig := "symtab-unrestricted-symbol"
		if strings.Contains(msgs[0], "forbidden package") {
			sig = "symtab-forbidden-package"
		}
		return fail(sig, "%s", strings.Join(msgs, "; "))
	}
	// overlap packages (os, log): no symbol of the default table may be the
	// unrestricted version of it.
	for _, p := range overlap {
		for _, key := range sortedKeys(unrestricted.Symbols) {
			if pkgPath(key) != p {
				continue
			}
			def := stdlib.Symbols[key]
			for _, name := range sortedKeys(unrestricted.Symbols[key]) {
				u := unrestricted.Symbols[key][name]
				d, ok := def[name]
				if !ok || !d.IsValid() || !u.IsValid() {
					continue
				}
				same := false
				switch {
				case u.Kind() == reflect.Func && d.Kind() == reflect.Func:
					same = u.Pointer() == d.Pointer()
				case u.Kind() == reflect.Ptr && d.Kind() == reflect.Ptr && u.IsNil() && d.IsNil():
					same = u.Type() == d.Type() // type definitions are (*T)(nil)
				}
				if same {
					msgs = append(msgs, fmt.Sprintf("%s.%s of the default table is the unrestricted symbol", key, name))
				}
			}
		}
	}
	if len(msgs) > 0 {
		return fail("symtab-unrestricted-symbol", "%s", strings.Join(msgs, "; "))
	}
	return verdict{}
}

func symtabSize() (pkgs, syms, funcs int) {
	for _, m := range stdlib.Symbols {
		pkgs++
		for _, v := range m {
			syms++
			if v.IsValid() && v.Kind() == reflect.Func {
				funcs++
			}
		}
	}
	return
}

// useExpr is an expression that uses package p under the name n ("" for a
// dot import); "" when the package has no symbol we want to name.
func useExpr(p, n string) string {
	var sym string
	switch p {
	case "unsafe":
		sym = "Pointer(nil)"
	case "syscall":
		sym = "Getpid"
	case "os/exec":
		sym = "Command"
	case "strings":
		sym = "ToUpper"
	case "github.com/traefik/yaegi/stdlib/unsafe", "github.com/traefik/yaegi/stdlib/syscall", "github.com/traefik/yaegi/stdlib/unrestricted":
		sym = "Symbols"
	default:
		return ""
	}
	if n == "" {
		return sym
	}
	return n + "." + sym
}

var importForms = []string{"plain", "named", "dot", "blank", "grouped", "auto"}

func importSrc(p, form string) string {
	base := path.Base(p)
	body := func(use string) string {
		if use == "" {
			return "func main() {}\n"
		}
		return "func main() { _ = " + use + " }\n"
	}
	switch form {
	case "plain":
		return "package main\n\nimport " + strconv.Quote(p) + "\n\n" + body(useExpr(p, base))
	case "named":
		return "package main\n\nimport zz " + strconv.Quote(p) + "\n\n" + body(useExpr(p, "zz"))
	case "dot":
		return "package main\n\nimport . " + strconv.Quote(p) + "\n\n" + body(useExpr(p, ""))
	case "blank":
		return "package main\n\nimport _ " + strconv.Quote(p) + "\n\nfunc main() {}\n"
	case "grouped":
		use := useExpr(p, base)
		if use == "" {
			use = "0"
		}
		return "package main\n\nimport (\n\t\"fmt\"\n\t" + strconv.Quote(p) + "\n)\n\nfunc main() { fmt.Sprint(" + use + ") }\n"
	case "auto":
		return useExpr(p, base) // evaluated after ImportUsed()
	}
	return ""
}

func importCells() []*Case {
	forbidden, _ := forbiddenPkgs()
	var cells []*Case
	add := func(p, expect string) {
		for _, f := range importForms {
			src := importSrc(p, f)
			if src == "" {
				continue
			}
			cells = append(cells, &Case{Family: "imports", Cell: "import/" + f + "/" + p, Src: src, Auto: f == "auto", Expect: expect})
		}
	}
	for _, p := range forbidden {
		add(p, "import-error")
	}
	add("strings", "import-ok") // harness control: the templates themselves are valid
	return cells
}

// checkAuto: ImportUsed() then a bare use of the package, in this process
// (the expression contains no call of a dangerous function).
func checkAuto(c *Case) verdict {
	var so, se bytes.Buffer
	i := interp.New(interp.Options{Stdout: &so, Stderr: &se, Stdin: strings.NewReader(""), Args: []string{"prog"}})
	if err := i.Use(stdlib.Symbols); err != nil {
		return trouble("Use(stdlib.Symbols): %v", err)
	}
	i.ImportUsed()
	var err error
	func() {
		defer func() {
			if p := recover(); p != nil {
				err = fmt.Errorf("escaped panic: %v", p)
			}
		}()
		_, err = i.Eval(c.Src)
	}()
	switch c.Expect {
	case "import-error":
		if err == nil {
			return fail("import-accepted", "cell %s: after ImportUsed() the expression %q evaluates without error", c.Cell, c.Src)
		}
		return verdict{note: "imports-rejected:" + rejectKind(err.Error())}
	case "import-ok":
		if err != nil {
			return trouble("control cell %s failed: %v", c.Cell, err)
		}
	}
	return verdict{}
}

// ---------------------------------------------------------------------------
// family 2: exit calls

const recoverStmt = "defer func() { r := recover(); fmt.Println(\"recovered\", r != nil) }()"

type exitEntry struct {
	name    string
	imports []string
	setup   string // statement before the call ("" = none)
	fn      string // function (or method value) expression
	args    string
	group   string
}

func exitEntries() []exitEntry {
	es := []exitEntry{
		{name: "os.Exit", imports: []string{"os"}, fn: "os.Exit", args: "3"},
		{name: "log.Fatal", imports: []string{"log"}, fn: "log.Fatal", args: `"bye"`},
		{name: "log.Fatalf", imports: []string{"log"}, fn: "log.Fatalf", args: `"%s", "bye"`},
		{name: "log.Fatalln", imports: []string{"log"}, fn: "log.Fatalln", args: `"bye"`},
	}
	type src struct {
		name, setup, group string
		imports            []string
	}
	srcs := []src{
		{"log.New", `l := log.New(io.Discard, "", 0)`, "", []string{"io", "log"}},
		{"log.Default", `l := log.Default()`, sigLogDefault, []string{"log"}},
		{"new(log.Logger)", `l := new(log.Logger)`, "", []string{"log"}},
	}
	for _, s := range srcs {
		for _, m := range []struct{ name, args string }{{"Fatal", `"bye"`}, {"Fatalf", `"%s", "bye"`}, {"Fatalln", `"bye"`}} {
			es = append(es, exitEntry{name: s.name + "." + m.name, imports: s.imports, setup: s.setup, fn: "l." + m.name, args: m.args, group: s.group})
		}
	}
	return es
}

var exitForms = []string{"direct", "deferred", "goroutine", "funcvalue"}

func header(imports ...string) string {
	set := map[string]bool{}
	for _, i := range imports {
		if i != "" {
			set[i] = true
		}
	}
	var b strings.Builder
	b.WriteString("package main\n\n")
	if len(set) == 0 {
		return b.String()
	}
	b.WriteString("import (\n")
	for _, i := range sortedKeys(set) {
		b.WriteString("\t" + strconv.Quote(i) + "\n")
	}
	b.WriteString(")\n\n")
	return b.String()
}

func exitSrc(e exitEntry, form string, recovered bool) string {
	rec := ""
	if recovered {
		rec = "\t" + recoverStmt + "\n"
	}
	setup := ""
	if e.setup != "" {
		setup = "\t" + e.setup + "\n"
	}
	call := e.fn + "(" + e.args + ")"
	imps := append([]string{"fmt"}, e.imports...)
	switch form {
	case "direct":
		return header(imps...) + "func main() {\n" + rec + setup + "\t" + call + "\n\tfmt.Println(\"unreachable\")\n}\n"
	case "deferred":
		// the exit call is deferred in a callee, the script-level recover sits in main
		return header(imps...) + "func f() {\n" + setup + "\tdefer " + call + "\n\tfmt.Println(\"body\")\n}\n\nfunc main() {\n" + rec + "\tf()\n\tfmt.Println(\"unreachable\")\n}\n"
	case "goroutine":
		return header(append(imps, "sync")...) + "func main() {\n\tvar wg sync.WaitGroup\n\twg.Add(1)\n\tgo func() {\n\t\tdefer wg.Done()\n\t" + rec + "\t" + setup + "\t\t" + call + "\n\t\tfmt.Println(\"unreachable\")\n\t}()\n\twg.Wait()\n\tfmt.Println(\"joined\")\n}\n"
	case "funcvalue":
		return header(imps...) + "func main() {\n" + rec + setup + "\tfn := " + e.fn + "\n\tfn(" + e.args + ")\n\tfmt.Println(\"unreachable\")\n}\n"
	}
	return ""
}

func exitCells() []*Case {
	var cells []*Case
	for _, e := range exitEntries() {
		for _, f := range exitForms {
			cells = append(cells, &Case{Family: "exit", Cell: "exit/recovered/" + f + "/" + e.name, Src: exitSrc(e, f, true), Expect: "recovered", Group: e.group})
			if f != "goroutine" { // an unrecovered panic in a goroutine is outside this property (C06)
				cells = append(cells, &Case{Family: "exit", Cell: "exit/unrecovered/" + f + "/" + e.name, Src: exitSrc(e, f, false), Expect: "panic", Group: e.group})
			}
		}
	}
	return cells
}

// ---------------------------------------------------------------------------
// family 4: streams and arguments

func token(seed int64, cell string) string {
	return "TK" + vf.Hash(fmt.Sprintf("c13|%d|%s", seed, cell))[:12]
}

func streamCells(seed int64) []*Case {
	var cells []*Case
	add := func(name, stream, group string, build func(tok string) *Case) {
		cell := "streams/" + name
		tok := token(seed, cell)
		c := build(tok)
		c.Family, c.Cell, c.Expect, c.Token, c.Stream, c.Group = "streams", cell, "stream", tok, stream, group
		cells = append(cells, c)
	}
	q := strconv.Quote
	wrap := func(form, imports, stmt string) string {
		// stmt is a call expression statement
		switch form {
		case "direct":
			return header(strings.Fields(imports)...) + "func main() {\n\t" + stmt + "\n}\n"
		case "deferred":
			return header(strings.Fields(imports)...) + "func main() {\n\tdefer " + stmt + "\n}\n"
		case "goroutine":
			return header(strings.Fields(imports+" sync")...) + "func main() {\n\tvar wg sync.WaitGroup\n\twg.Add(1)\n\tgo func() {\n\t\tdefer wg.Done()\n\t\t" + stmt + "\n\t}()\n\twg.Wait()\n}\n"
		}
		return ""
	}
	// the builtins have no import: header() with no import renders "import ()" which is valid Go
	type pf struct{ pkg, fn, args, stream string }
	printers := []pf{
		{"fmt", "fmt.Print", "%s, \"\\n\"", "stdout"},
		{"fmt", "fmt.Printf", "\"%%s\\n\", %s", "stdout"},
		{"fmt", "fmt.Println", "%s", "stdout"},
		{"log", "log.Print", "%s", "stderr"},
		{"log", "log.Printf", "\"%%s\", %s", "stderr"},
		{"log", "log.Println", "%s", "stderr"},
		{"", "print", "%s, \"\\n\"", "any"},
		{"", "println", "%s", "any"},
	}
	for _, p := range printers {
		p := p
		for _, form := range []string{"direct", "deferred", "goroutine", "funcvalue"} {
			form := form
			if form == "funcvalue" && p.pkg == "" {
				continue // builtins are not values
			}
			add(p.fn+"/"+form, p.stream, "", func(tok string) *Case {
				args := fmt.Sprintf(p.args, q(tok))
				if form == "funcvalue" {
					return &Case{Src: header(p.pkg) + "func main() {\n\tfn := " + p.fn + "\n\tfn(" + args + ")\n}\n"}
				}
				return &Case{Src: wrap(form, p.pkg, p.fn+"("+args+")")}
			})
		}
	}
	// log functions that write and then panic, log text helpers
	for _, p := range []pf{
		{"log", "log.Panic", "%s", "stderr"}, {"log", "log.Panicf", "\"%%s\", %s", "stderr"}, {"log", "log.Panicln", "%s", "stderr"},
		{"log", "log.Fatal", "%s", "stderr"}, {"log", "log.Fatalf", "\"%%s\", %s", "stderr"}, {"log", "log.Fatalln", "%s", "stderr"},
	} {
		p := p
		add(p.fn+"/text", "stderr", "", func(tok string) *Case {
			return &Case{Src: header("log") + "func main() {\n\tdefer func() { recover() }()\n\t" + p.fn + "(" + fmt.Sprintf(p.args, q(tok)) + ")\n}\n"}
		})
	}
	add("log.Output", "stderr", "", func(tok string) *Case {
		return &Case{Src: header("log") + "func main() {\n\tlog.Output(1, " + q(tok) + ")\n}\n"}
	})
	add("log.SetPrefix+Print", "stderr", "", func(tok string) *Case {
		return &Case{Src: header("log") + "func main() {\n\tlog.SetFlags(0)\n\tlog.SetPrefix(" + q(tok) + ")\n\tlog.Print(\"x\")\n}\n", Needle: tok + "x"}
	})
	add("log.Writer", "stderr", "", func(tok string) *Case {
		return &Case{Src: header("log") + "func main() {\n\tlog.Writer().Write([]byte(" + q(tok+"\n") + "))\n}\n"}
	})
	add("log.Default.Print", "stderr", sigLogDefault, func(tok string) *Case {
		return &Case{Src: header("log") + "func main() {\n\tlog.Default().Print(" + q(tok) + ")\n}\n"}
	})
	add("log.Default.Println", "stderr", sigLogDefault, func(tok string) *Case {
		return &Case{Src: header("log") + "func main() {\n\tl := log.Default()\n\tl.Println(" + q(tok) + ")\n}\n"}
	})
	// scanning
	for _, s := range []struct{ fn, args string }{{"fmt.Scan", "&s"}, {"fmt.Scanln", "&s"}, {"fmt.Scanf", "\"%s\", &s"}} {
		s := s
		add(s.fn, "stdout", "", func(tok string) *Case {
			return &Case{Src: header("fmt") + "func main() {\n\tvar s string\n\tn, err := " + s.fn + "(" + s.args + ")\n\tfmt.Println(\"got\", s, n, err)\n}\n",
				Stdin: tok + "\n", Needle: "got " + tok + " 1 <nil>"}
		})
	}
	// os.Args
	add("os.Args", "stdout", "", func(tok string) *Case {
		return &Case{Src: header("fmt", "os") + "func main() {\n\tfmt.Println(\"args\", len(os.Args), os.Args[0], os.Args[1])\n}\n",
			Args: []string{"prog", tok}, Needle: "args 2 prog " + tok}
	})
	add("os.Args/range", "stdout", "", func(tok string) *Case {
		return &Case{Src: header("fmt", "os") + "func main() {\n\tfor i, a := range os.Args {\n\t\tfmt.Println(\"arg\", i, a)\n\t}\n}\n",
			Args: []string{"prog", "x", tok}, Needle: "arg 2 " + tok}
	})
	// argument lists of every small length, the empty one included: an empty
	// Options.Args is an argument list too, not a request for the host's
	add("os.Args/empty", "stdout", "", func(tok string) *Case {
		return &Case{Src: header("fmt", "os") + "func main() {\n\tfmt.Println(\"args\", len(os.Args), " + q(tok) + ")\n}\n",
			NoArgs: true, Needle: "args 0 " + tok}
	})
	add("os.Args/one", "stdout", "", func(tok string) *Case {
		return &Case{Src: header("fmt", "os") + "func main() {\n\tfmt.Println(\"args\", len(os.Args), os.Args[len(os.Args)-1])\n}\n",
			Args: []string{tok}, Needle: "args 1 " + tok}
	})
	add("os.Args/three", "stdout", "", func(tok string) *Case {
		return &Case{Src: header("fmt", "os") + "func main() {\n\tfmt.Println(\"args\", len(os.Args), os.Args[len(os.Args)-1])\n}\n",
			Args: []string{"prog", "-x", tok}, Needle: "args 3 " + tok}
	})
	add("flag.CommandLine.Parse/empty", "stdout", "", func(tok string) *Case {
		return &Case{Src: header("fmt", "flag", "os") + "func main() {\n\tflag.CommandLine.Parse(os.Args)\n\tn := 0\n\tflag.VisitAll(func(*flag.Flag) { n++ })\n\tfmt.Println(\"nargs\", flag.CommandLine.NArg(), n, " + q(tok) + ")\n}\n",
			NoArgs: true, Needle: "nargs 0 0 " + tok}
	})
	// flag through the redirected flag.CommandLine
	add("flag.CommandLine.Parse+Arg", "stdout", "", func(tok string) *Case {
		return &Case{Src: header("fmt", "flag", "os") + "func main() {\n\tflag.CommandLine.Parse(os.Args[1:])\n\tfmt.Println(\"arg\", flag.CommandLine.NArg(), flag.CommandLine.Arg(0))\n}\n",
			Args: []string{"prog", tok}, Needle: "arg 1 " + tok}
	})
	add("flag.CommandLine.String", "stdout", "", func(tok string) *Case {
		return &Case{Src: header("fmt", "flag", "os") + "func main() {\n\tv := flag.CommandLine.String(\"name\", \"dflt\", \"usage\")\n\tflag.CommandLine.Parse(os.Args[1:])\n\tfmt.Println(\"val\", *v)\n}\n",
			Args: []string{"prog", "-name", tok}, Needle: "val " + tok}
	})
	add("flag.CommandLine.PrintDefaults", "stderr", "", func(tok string) *Case {
		return &Case{Src: header("flag") + "func main() {\n\tflag.CommandLine.String(" + q(tok) + ", \"dflt\", \"usage\")\n\tflag.CommandLine.PrintDefaults()\n}\n"}
	})
	add("flag.CommandLine.Parse/error", "stderr", "", func(tok string) *Case {
		return &Case{Src: header("flag") + "func main() {\n\tdefer func() { recover() }()\n\tflag.CommandLine.Parse([]string{" + q("-"+tok) + "})\n}\n"}
	})
	// flag through the package-level functions and the program name
	add("flag.Parse+Arg", "stdout", sigFlagHost, func(tok string) *Case {
		return &Case{Src: header("fmt", "flag") + "func main() {\n\tflag.Parse()\n\tfmt.Println(\"arg\", flag.NArg(), flag.Arg(0))\n}\n",
			Args: []string{"prog", tok}, Needle: "arg 1 " + tok}
	})
	add("flag.Parse+Args", "stdout", sigFlagHost, func(tok string) *Case {
		return &Case{Src: header("fmt", "flag") + "func main() {\n\tflag.Parse()\n\tfmt.Println(\"args\", flag.Args())\n}\n",
			Args: []string{"prog", tok}, Needle: "args [" + tok + "]"}
	})
	add("flag.String+Parse", "stdout", sigFlagHost, func(tok string) *Case {
		return &Case{Src: header("fmt", "flag") + "func main() {\n\tv := flag.String(" + q("n"+tok) + ", \"dflt\", \"usage\")\n\tflag.Parse()\n\tfmt.Println(\"val\", *v)\n}\n",
			Args: []string{"prog", "-n" + tok, "v" + tok}, Needle: "val v" + tok}
	})
	add("flag.PrintDefaults", "stderr", sigFlagHost, func(tok string) *Case {
		return &Case{Src: header("flag") + "func main() {\n\tflag.String(" + q(tok) + ", \"dflt\", \"usage\")\n\tflag.PrintDefaults()\n}\n"}
	})
	add("flag.CommandLine.Name", "stdout", sigFlagHost, func(tok string) *Case {
		return &Case{Src: header("fmt", "flag") + "func main() {\n\tfmt.Println(\"name\", flag.CommandLine.Name())\n}\n",
			Args: []string{tok}, Needle: "name " + tok}
	})
	// os.Std* are redirected only under YAEGI_SPECIAL_STDIO (streams that are not files)
	add("special/os.Stdout", "stdout", "", func(tok string) *Case {
		return &Case{Special: true, Src: header("fmt", "os") + "func main() {\n\tfmt.Fprintln(os.Stdout, " + q(tok) + ")\n}\n"}
	})
	add("special/os.Stderr", "stderr", "", func(tok string) *Case {
		return &Case{Special: true, Src: header("fmt", "os") + "func main() {\n\tfmt.Fprintln(os.Stderr, " + q(tok) + ")\n}\n"}
	})
	add("special/os.Stdin", "stdout", "", func(tok string) *Case {
		return &Case{Special: true, Src: header("fmt", "os") + "func main() {\n\tvar s string\n\tfmt.Fscan(os.Stdin, &s)\n\tfmt.Println(\"got\", s)\n}\n",
			Stdin: tok + "\n", Needle: "got " + tok}
	})
	return cells
}

// ---------------------------------------------------------------------------
// family 3: environment

var envKeys = []string{"A", "B", "C_D", "k", "PATH", "HOME", sentinelKey}
var envVals = []string{"", "v", "w1", "a=b", "=", "x y", "$A", "é"}
var tmplPieces = []string{"x", ":", "/", " ", "$", "$$", "${}", "-é-"}

func genEnvCase(t *rapid.T) *Case {
	c := &Case{Family: "env", Expect: "env"}
	seeded := rapid.SliceOfNDistinct(rapid.SampledFrom(envKeys), 0, 4, rapid.ID[string]).Draw(t, "seedkeys")
	for _, k := range seeded {
		c.Env = append(c.Env, k+"="+rapid.SampledFrom(envVals).Draw(t, "seedval"))
	}
	n := rapid.IntRange(5, 40).Draw(t, "nops")
	kinds := []string{"set", "set", "set", "set", "unset", "unset", "clear", "get", "get", "get", "lookup", "lookup", "environ", "environ", "expand", "expand"}
	for i := 0; i < n; i++ {
		op := Op{Kind: rapid.SampledFrom(kinds).Draw(t, "kind")}
		switch op.Kind {
		case "set":
			op.Key = rapid.SampledFrom(envKeys).Draw(t, "key")
			op.Val = rapid.SampledFrom(envVals).Draw(t, "val")
		case "unset", "get", "lookup":
			op.Key = rapid.SampledFrom(envKeys).Draw(t, "key")
		case "expand":
			np := rapid.IntRange(1, 4).Draw(t, "npieces")
			for j := 0; j < np; j++ {
				switch rapid.IntRange(0, 3).Draw(t, "piece") {
				case 0:
					op.Val += rapid.SampledFrom(tmplPieces).Draw(t, "lit")
				case 1:
					op.Val += "$" + rapid.SampledFrom(envKeys).Draw(t, "key") + " "
				default:
					op.Val += "${" + rapid.SampledFrom(envKeys).Draw(t, "key") + "}"
				}
			}
		}
		c.Ops = append(c.Ops, op)
	}
	c.Src = envSrc(c.Ops)
	c.Decoy = rapid.Bool().Draw(t, "decoy")
	return c
}

func envSrc(ops []Op) string {
	var b strings.Builder
	b.WriteString(header("fmt", "os", "sort"))
	b.WriteString("func main() {\n\tsort.Strings(nil)\n")
	q := strconv.Quote
	for i, op := range ops {
		switch op.Kind {
		case "set":
			fmt.Fprintf(&b, "\tfmt.Println(%d, os.Setenv(%s, %s))\n", i, q(op.Key), q(op.Val))
		case "unset":
			fmt.Fprintf(&b, "\tfmt.Println(%d, os.Unsetenv(%s))\n", i, q(op.Key))
		case "clear":
			fmt.Fprintf(&b, "\tos.Clearenv()\n\tfmt.Println(%d, \"cleared\")\n", i)
		case "get":
			fmt.Fprintf(&b, "\tfmt.Printf(\"%d %%q\\n\", os.Getenv(%s))\n", i, q(op.Key))
		case "lookup":
			fmt.Fprintf(&b, "\t{\n\t\tv, ok := os.LookupEnv(%s)\n\t\tfmt.Printf(\"%d %%q %%v\\n\", v, ok)\n\t}\n", q(op.Key), i)
		case "environ":
			fmt.Fprintf(&b, "\t{\n\t\te := os.Environ()\n\t\tsort.Strings(e)\n\t\tfmt.Printf(\"%d %%q\\n\", e)\n\t}\n", i)
		case "expand":
			fmt.Fprintf(&b, "\tfmt.Printf(\"%d %%q\\n\", os.ExpandEnv(%s))\n", i, q(op.Val))
		}
	}
	b.WriteString("}\n")
	return b.String()
}

// envModel computes the expected output: a map seeded from Options.Env
// entries "KEY=VALUE" (split at the first '=').
func envModel(env []string, ops []Op) string {
	m := map[string]string{}
	for _, e := range env {
		if i := strings.IndexByte(e, '='); i >= 0 {
			m[e[:i]] = e[i+1:]
		}
	}
	var b strings.Builder
	for i, op := range ops {
		switch op.Kind {
		case "set":
			m[op.Key] = op.Val
			fmt.Fprintf(&b, "%d <nil>\n", i)
		case "unset":
			delete(m, op.Key)
			fmt.Fprintf(&b, "%d <nil>\n", i)
		case "clear":
			m = map[string]string{}
			fmt.Fprintf(&b, "%d cleared\n", i)
		case "get":
			fmt.Fprintf(&b, "%d %q\n", i, m[op.Key])
		case "lookup":
			v, ok := m[op.Key]
			fmt.Fprintf(&b, "%d %q %v\n", i, v, ok)
		case "environ":
			e := []string{}
			for k, v := range m {
				e = append(e, k+"="+v)
			}
			sort.Strings(e)
			fmt.Fprintf(&b, "%d %q\n", i, e)
		case "expand":
			fmt.Fprintf(&b, "%d %q\n", i, os.Expand(op.Val, func(k string) string { return m[k] }))
		}
	}
	return b.String()
}

func envLabels(c *Case) (labels []string, nontrivial bool) {
	set := map[string]bool{}
	removed := false
	if len(c.Env) > 0 {
		set["seeded-options-env"] = true
	}
	for _, e := range c.Env {
		if strings.Count(e, "=") > 1 {
			set["value-with-equals"] = true
		}
	}
	for _, op := range c.Ops {
		set["op-"+op.Kind] = true
		switch op.Kind {
		case "clear", "unset":
			removed = true
		case "get", "lookup", "environ", "expand":
			if removed {
				nontrivial = true
			}
		case "set":
			if op.Val == "" {
				set["empty-value"] = true
			}
			if strings.Contains(op.Val, "=") {
				set["value-with-equals"] = true
			}
		}
		switch op.Key {
		case "PATH", "HOME", sentinelKey:
			set["host-key"] = true
		}
	}
	if nontrivial {
		set["removal-then-read"] = true
	}
	return sortedKeys(set), nontrivial
}

func hostEnv() string {
	e := os.Environ()
	sort.Strings(e)
	return strings.Join(e, "\x00")
}

// envDiff names the variables that differ (values of pre-existing host
// variables are not printed).
func envDiff(before, after string) string {
	parse := func(s string) map[string]string {
		m := map[string]string{}
		for _, e := range strings.Split(s, "\x00") {
			if i := strings.IndexByte(e, '='); i > 0 {
				m[e[:i]] = e[i+1:]
			}
		}
		return m
	}
	b, a := parse(before), parse(after)
	var d []string
	for _, k := range sortedKeys(b) {
		if v, ok := a[k]; !ok {
			d = append(d, "removed "+k)
		} else if v != b[k] {
			d = append(d, fmt.Sprintf("changed %s to %q", k, v))
		}
	}
	for _, k := range sortedKeys(a) {
		if _, ok := b[k]; !ok {
			d = append(d, fmt.Sprintf("added %s=%q", k, a[k]))
		}
	}
	if len(d) > 12 {
		d = append(d[:12], fmt.Sprintf("... %d more", len(d)-12))
	}
	return strings.Join(d, "; ")
}

func restoreHostEnv(snap string) {
	os.Clearenv()
	for _, e := range strings.Split(snap, "\x00") {
		if i := strings.IndexByte(e, '='); i > 0 {
			os.Setenv(e[:i], e[i+1:])
		}
	}
}

// checkEnv runs a history in this process (it contains no exit call) and
// compares the output with the model and the process environment before/after.
func checkEnv(c *Case) verdict {
	if os.Getenv(sentinelKey) == "" {
		os.Setenv(sentinelKey, "host")
	}
	if c.Src == "" {
		c.Src = envSrc(c.Ops)
	}
	want := envModel(c.Env, c.Ops)
	before := hostEnv()
	o, _ := yrun.Execute(&yrun.Job{Src: c.Src, Env: c.Env, Decoy: c.Decoy}, 0)
	after := hostEnv()
	if before != after {
		restoreHostEnv(before)
		return fail("env-host-modified", "the host process environment changed while the script ran (Options.Env=%q): %s\n%s", c.Env, envDiff(before, after), c.Src)
	}
	if o.Class != yrun.OK {
		return fail("env-eval-"+o.Class, "environment script failed: %s\n%s", brief(o), c.Src)
	}
	if o.Stdout != want {
		gl, wl := strings.Split(o.Stdout, "\n"), strings.Split(want, "\n")
		for i := range wl {
			if i >= len(gl) || gl[i] != wl[i] {
				got := "<missing>"
				if i < len(gl) {
					got = gl[i]
				}
				if len(got) > 160 {
					got = got[:160] + "..."
				}
				return fail("env-model-mismatch", "Options.Env=%q: first differing line %d (op %+v): model %q, script %q\n%s", c.Env, i, opAt(c.Ops, i), wl[i], got, c.Src)
			}
		}
		return fail("env-model-mismatch", "Options.Env=%q: extra output %q\n%s", c.Env, o.Stdout, c.Src)
	}
	return verdict{}
}

func opAt(ops []Op, i int) Op {
	if i < len(ops) {
		return ops[i]
	}
	return Op{}
}

// ---------------------------------------------------------------------------
// run / replay

func cellKnown(c *Case) bool { return c.Group != "" && vf.IsKnown("C13", c.Group) }

func run(ctx *vf.Ctx) {
	r := newRunner(ctx.Scratch)
	defer r.close()

	// finite families: cell i is run by shard i mod NShards
	cells := []*Case{{Family: "symtab", Cell: "symtab/stdlib.Symbols", Expect: "symtab"}}
	cells = append(cells, importCells()...)
	cells = append(cells, exitCells()...)
	cells = append(cells, streamCells(ctx.Seed)...)
	for i, c := range cells {
		if i%ctx.NShards != ctx.Shard {
			continue
		}
		// every other stream and exit cell runs next to a second interpreter
		c.Decoy = (c.Family == "streams" || c.Family == "exit") && (i/ctx.NShards)%2 == 1
		if c.Decoy {
			ctx.Class("cells-with-second-interpreter")
		}
		if cellKnown(c) {
			ctx.Excluded(c.Group)
			ctx.Class("cells-excluded:" + c.Family)
			continue
		}
		ctx.Eval()
		ctx.Class("cells:" + c.Family)
		if c.Expect == "import-ok" {
			ctx.Class("cells:imports-control")
		}
		b, _ := json.Marshal(c)
		ctx.Nontrivial(string(b))
		if c.Family != "symtab" {
			ctx.Sample(map[string]string{"cell": c.Cell}, 2)
		}
		v := r.check(c)
		switch {
		case v.harness:
			ctx.Inconclusive("%s", v.msg)
		case v.sig != "":
			ctx.ReportViolation(v.sig, v.msg, c)
		case v.note != "":
			ctx.Class(v.note)
		}
	}
	if ctx.Shard == 0 {
		p, s, f := symtabSize()
		ctx.SetExtra("symtab_packages", float64(p))
		ctx.SetExtra("symtab_symbols", float64(s))
		ctx.SetExtra("symtab_funcs", float64(f))
		forb, over := forbiddenPkgs()
		ctx.Note("forbidden packages enumerated: %s; overlap packages compared symbol by symbol with stdlib/unrestricted: %s", strings.Join(forb, " "), strings.Join(over, " "))
		ctx.Note("finite cells total=%d (symtab 1, imports %d, exit %d, streams %d)", len(cells), len(importCells()), len(exitCells()), len(streamCells(ctx.Seed)))
	}

	// family 3: environment histories
	os.Setenv(sentinelKey, "host")
	prop := func(t *rapid.T) {
		c := genEnvCase(t)
		ctx.Eval()
		labels, nt := envLabels(c)
		if c.Decoy {
			labels = append(labels, "with-second-interpreter")
		}
		for _, l := range labels {
			ctx.Class("env:" + l)
		}
		ctx.Class("cells:env-histories")
		if nt {
			b, _ := json.Marshal(struct {
				E []string
				O []Op
			}{c.Env, c.Ops})
			ctx.Nontrivial(string(b))
		}
		ctx.Sample(map[string]any{"env": c.Env, "ops": c.Ops}, 1)
		if v := checkEnv(c); v.sig != "" {
			c.Cell = "env/history"
			ctx.CaseFail(t, v.sig, v.msg, c)
		}
		ctx.Done()
	}
	ctx.Rapid("env", 0, ctx.Cases, 20*time.Second, prop)
}

func replay(ctx *vf.Ctx, data json.RawMessage) (string, string) {
	var c Case
	if err := json.Unmarshal(data, &c); err != nil {
		return "bad replay file: " + err.Error(), "harness"
	}
	r := newRunner(ctx.Scratch)
	defer r.close()
	v := r.check(&c)
	if v.harness {
		return "harness trouble: " + v.msg, "harness"
	}
	return v.msg, v.sig
}

func init() {
	vf.Register(&vf.Check{
		ID:    "C13",
		Level: "exploration",
		Rule: "default symbol set (stdlib.Symbols) only. Finite families, enumerated completely, every script cell in a worker subprocess: " +
			"(1) stdlib.Symbols enumerated in-process (no key of unsafe/syscall/os/exec or of any stdlib/{unsafe,syscall,unrestricted} package; no func bound to os.Exit, log.Fatal*, log.New, syscall.Exit, os.FindProcess, exec.Command*; os/log symbols differ from stdlib/unrestricted) and forbidden package x import form {plain,named,dot,blank,grouped,ImportUsed auto-import} must fail, with an allowed package as control; " +
			"(2) exit entry {os.Exit, log.Fatal/f/ln, Fatal/f/ln of loggers from log.New, log.Default, new(log.Logger)} x {direct, deferred in callee, goroutine+WaitGroup, func value} x {script recovers: 'recovered true' and worker alive; unrecovered: Eval returns a panic error and worker alive}; " +
			"(4) every redirected function {fmt.Print*, print/println, log.Print*/Panic*/Fatal*/Output/SetPrefix/Writer, fmt.Scan*, os.Args, flag.CommandLine and package-level flag functions, os.Std* under YAEGI_SPECIAL_STDIO} x call forms carries a token that must be on the Options stream and absent from the worker's real stdout/stderr. " +
			"(3) rapid histories of 5-40 ops over Setenv/Unsetenv/Clearenv/Getenv/LookupEnv/Environ/ExpandEnv, keys incl. host keys, values incl. empty and '=', Options.Env seed of 0-4 entries, against a map model; host os.Environ() compared before/after each history. " +
			"non-trivial = a finite cell (distinct by content), or a history with >=1 Clearenv/Unsetenv followed by a read (distinct by Options.Env+ops)",
		Assumptions: []string{
			"Options.Env entries are of the documented form KEY=VALUE with distinct non-empty keys without '='; values may be empty or contain '='",
			"os.Expand of the installed toolchain with the model map is the reference for ExpandEnv",
			"print/println may use either Options stream (the property only says 'streams given in Options')",
			"environment histories run in the shard process (they contain no exit call) so that the host environment is observable; all other script cells run in worker subprocesses",
			"only the go1.22 binding files compile with the installed go1.23 toolchain; the go1.21 file set is not exercised",
			"the 'deferred' exit form defers the exit call in a callee and recovers in main (a panic raised by a deferred call is not seen by an earlier defer of the same frame in this interpreter: general defer machinery, property C06)",
			"an unrecovered exit call inside a goroutine is not demanded to be survivable (an unrecovered goroutine panic is C06's subject)",
		},
		Cases:      map[string]int{"quick": 1600, "thorough": 20000},
		Shards:     map[string]int{"quick": 16, "thorough": 16},
		Run:        run,
		Replay:     replay,
		Exhaustive: false,
	})
}
