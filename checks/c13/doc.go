// Package c13 holds the check of property C13.
package c13
