// Package c06 checks that panics, defers and recover follow Go semantics and
// that no panic escapes Eval (differential against the native toolchain plus
// invariants on the interpreter's result).
package c06

import (
	"encoding/json"
	"fmt"
	"os"
	"path/filepath"
	"regexp"
	"strconv"
	"strings"
	"time"

	"pgregory.net/rapid"

	"verif/internal/diff"
	"verif/internal/oracle"
	"verif/internal/progen"
	"verif/internal/vf"
	"verif/internal/yrun"
)

// Case is the replayable form of a failing program.
type Case struct {
	Src      string   `json:"src"`
	Features []string `json:"features,omitempty"`
}

// follow-up evaluations on the same interpreter: the interpreter must remain
// usable after the program ended (normally or with an uncaught panic). The
// generated main function returns at once when it is run a second time
// (yaegi re-runs main on every Eval in package main).
var followUps = []string{
	"1+1",
	"func c06again(a int) (r int) {\n\tdefer func() {\n\t\tif e := recover(); e != nil {\n\t\t\tr = a * 2\n\t\t}\n\t}()\n\tif a > 0 {\n\t\tpanic(a)\n\t}\n\treturn -1\n}",
	"c06again(21)",
}

func switches(ctx *vf.Ctx) map[string]bool {
	off := map[string]bool{}
	for _, k := range allKeys {
		if vf.IsKnown("C06", k) {
			off[k] = true
		}
	}
	// development aid: C06_OPEN=key,key re-enables excluded constructs to
	// look for further root causes behind a known finding
	for _, k := range strings.Split(os.Getenv("C06_OPEN"), ",") {
		delete(off, k)
	}
	return off
}

// mine mirrors the generated program's whitelist of its own panic values.
func mine(s string) bool {
	for _, p := range []string{"boom-", "err-", "wrap-", "myerr-"} {
		if strings.HasPrefix(s, p) {
			return true
		}
	}
	_, err := strconv.Atoi(s)
	return err == nil
}

var panicLineRe = regexp.MustCompile(`^\t?panic: (.*)$`)

// finalPanic returns the value text of the last panic of the chain printed
// by the native runtime ("panic: a [recovered]\n\tpanic: b").
func finalPanic(stderr string) (string, bool) {
	last, ok := "", false
	started := false
	for _, l := range strings.Split(stderr, "\n") {
		m := panicLineRe.FindStringSubmatch(l)
		if m == nil {
			if started {
				break
			}
			continue
		}
		started = true
		last, ok = m[1], true
	}
	last = strings.TrimSuffix(last, " [recovered]")
	return last, ok
}

// compare applies the C06 rule. It extends diff.Compare (same stdout bytes,
// same ending, no deadlock, divergence, crash or escaped panic) with the
// panic value and the usability of the interpreter afterwards.
func Compare(nat *oracle.Result, out *yrun.Outcome) diff.Verdict {
	v := diff.Compare(nat, out)
	if v.Sig != "" || v.Discard != "" || v.Inconclusive != "" {
		return v
	}
	if nat.Panicked {
		want, ok := finalPanic(nat.Stderr)
		if !ok {
			return diff.Verdict{Discard: "native-panic-line-missing"}
		}
		if mine(want) && out.PanicValue != want {
			return diff.Verdict{Sig: "panic-value", Msg: fmt.Sprintf("uncaught panic carries value %q, the native program ends with panic: %s", out.PanicValue, want)}
		}
		if !mine(want) && strings.TrimSpace(out.PanicValue) == "" {
			return diff.Verdict{Sig: "panic-value", Msg: "uncaught run-time fault returned with an empty panic value; native: " + want}
		}
	}
	if len(out.After) != len(followUps) {
		return diff.Verdict{Sig: "after-eval", Msg: fmt.Sprintf("follow-up evaluations did not run (%d of %d)", len(out.After), len(followUps))}
	}
	for i, a := range out.After {
		if a.Err != "" {
			return diff.Verdict{Sig: "after-eval", Msg: fmt.Sprintf("interpreter not usable afterwards: Eval(%q) returned error %s", followUps[i], a.Err)}
		}
	}
	if out.After[0].Value != "2" {
		return diff.Verdict{Sig: "after-eval", Msg: fmt.Sprintf("interpreter not usable afterwards: Eval(\"1+1\") = %q", out.After[0].Value)}
	}
	if out.After[2].Value != "42" {
		return diff.Verdict{Sig: "after-eval", Msg: fmt.Sprintf("interpreter not usable afterwards: a panic/recover function evaluated afterwards returned %q, want 42", out.After[2].Value)}
	}
	return diff.Verdict{}
}

func Job(src string) *yrun.Job { return &yrun.Job{Src: src, After: followUps} }

func run(ctx *vf.Ctx) {
	off := switches(ctx)
	batch, err := oracle.NewBatch(filepath.Join(ctx.Scratch, "oracle"))
	if err != nil {
		ctx.Inconclusive("oracle: %v", err)
		return
	}
	illTyped := 0
	ctx.RapidCollect("gen", 0, ctx.Cases, func(t *rapid.T) {
		p := Generate(t, off)
		src := p.Source()
		if e := progen.TypeCheck(src); e != "" {
			illTyped++
			ctx.Class("generator-ill-typed")
			ctx.Note("ill-typed: %s", e)
			return
		}
		batch.Add(oracle.Single(src))
	})
	if illTyped*100 > ctx.Cases {
		ctx.Inconclusive("generator produced %d ill-typed programs of %d", illTyped, ctx.Cases)
		return
	}
	if err := batch.Build(); err != nil {
		ctx.Inconclusive("native build: %v", err)
		return
	}
	pool := yrun.NewPool(1, filepath.Join(ctx.Scratch, "workers"))
	defer pool.Close()
	discards := 0
	ctx.Rapid("diff", 0, ctx.Cases, shrinkTime(ctx), func(t *rapid.T) {
		p := Generate(t, off)
		src := p.Source()
		if progen.TypeCheck(src) != "" {
			ctx.Done()
			return
		}
		_, nat := batch.Ensure(oracle.Single(src))
		out := pool.Run(Job(src), 3*time.Minute)
		v := Compare(nat, &out)
		ctx.Eval()
		switch {
		case v.Inconclusive != "":
			ctx.Inconclusive("%s", v.Inconclusive)
		case v.Discard != "":
			discards++
			ctx.Class("discard:" + v.Discard)
			if ctx.Survey {
				ctx.CaseFail(t, "discard-"+v.Discard, "native side cannot be judged: "+nat.Stderr, Case{Src: src})
			}
		case v.Sig != "":
			p.collectFeatures()
			ctx.CaseFail(t, v.Sig, v.Msg, Case{Src: src, Features: p.FeatureList()})
		default:
			p.collectFeatures()
			for k := range p.Features {
				ctx.Class(k)
			}
			for k, n := range p.Excluded {
				for i := 0; i < n; i++ {
					ctx.Excluded(k)
				}
			}
			if nat.Panicked {
				ctx.Class("ends:uncaught-panic")
				if w, _ := finalPanic(nat.Stderr); mine(w) {
					ctx.Class("ends:uncaught-explicit-panic")
				} else {
					ctx.Class("ends:uncaught-run-time-fault")
				}
			} else {
				ctx.Class("ends:normally")
			}
			if strings.Contains(nat.Stdout, " recovered") {
				ctx.Class("effective-recover")
			}
			if strings.Contains(nat.Stdout, "recovered-runtime") {
				ctx.Class("recovered-run-time-fault")
			}
			if strings.Contains(nat.Stdout, " deep recover-nil") {
				ctx.Class("ineffective-recover-one-call-too-deep")
			}
			found, frames, sites := p.FirstPanic()
			if found {
				ctx.Class("panics")
				if frames >= 2 && sites >= 1 {
					ctx.Nontrivial(src)
				}
			}
			ctx.Sample(map[string]any{"src": src, "stdout_lines": strings.Count(nat.Stdout, "\n"), "panicked": nat.Panicked}, 2)
		}
		ctx.Done()
	})
	if discards*50 > ctx.Cases && ctx.Cases >= 50 {
		ctx.Inconclusive("%d of %d cases discarded (native side)", discards, ctx.Cases)
	}
}

func shrinkTime(ctx *vf.Ctx) time.Duration {
	if ctx.Tier == "thorough" {
		return 4 * time.Minute
	}
	return 90 * time.Second
}

func replay(ctx *vf.Ctx, data json.RawMessage) (string, string) {
	var c Case
	if err := json.Unmarshal(data, &c); err != nil {
		return "bad replay file: " + err.Error(), "harness"
	}
	batch, err := oracle.NewBatch(filepath.Join(ctx.Scratch, "oracle"))
	if err != nil {
		return "oracle: " + err.Error(), "harness"
	}
	_, nat := batch.Ensure(oracle.Single(c.Src))
	pool := yrun.NewPool(1, filepath.Join(ctx.Scratch, "workers"))
	defer pool.Close()
	out := pool.Run(Job(c.Src), 3*time.Minute)
	v := Compare(nat, &out)
	if v.Discard != "" || v.Inconclusive != "" {
		return "", ""
	}
	if v.Sig != "" {
		// the stored minimal program of a known finding keeps that finding's key
		for _, k := range vf.LoadKnown() {
			if k.Property != "C06" || k.Status != "known" || k.Replay == "" {
				continue
			}
			if rf, err := vf.LoadReplay(k.Replay); err == nil {
				var kc Case
				if json.Unmarshal(rf.Case, &kc) == nil && kc.Src == c.Src {
					return v.Msg, k.Key
				}
			}
		}
	}
	return v.Msg, v.Sig
}

func init() {
	vf.Register(&vf.Check{
		ID:    "C06",
		Level: "exploration",
		Rule:  "case = one generated program: a call tree of depth <= 5 of generated functions (plus a recursive helper with a defer in every frame and function literals called at once), each with enter/exit/defer/raise markers; defer stacks built from function literals with and without arguments, named functions, methods with pointer and value receivers, func values (local literal, top-level function, func-typed parameter, nil), close/delete/copy/panic/recover as deferred builtins, conditional defers and defers in loops; defer arguments with visible side effects (counter calls, variables changed afterwards, receivers changed afterwards, an argument that panics); explicit panics (int, string, errors.New, custom error type, error variable, fmt.Errorf) and run-time faults (nil dereference, slice/array index, slice bounds, integer division/modulo by zero, nil-map write, failed assertion to concrete and from interface, close of closed channel) in function bodies, conditionally on the argument, and inside deferred functions; recover placed directly, as a call argument, in a named function or method, one call too deep, in a nested defer or absent; re-panic with the same or a new value; named results changed in deferred functions with and without recover; oracle = native build (stdout bytes, ending, last 'panic:' value) + Eval result class (ok / interp.Panic; escaped, crash, deadlock, divergence are violations) + panic value text for explicit panics + three follow-up evaluations on the same interpreter (1+1, definition and call of a panic/recover function); non-trivial = at the first panic >= 2 frames have pending defers and >= 1 recover site is pending (effective or deliberately ineffective); distinct by source text",
		Assumptions: []string{
			"the installed Go toolchain (go1.23, language level go1.22) is the reference, including for recover called by a deferred function of a frame that is not panicking itself",
			"the text and dynamic type of run-time fault values are not compared: programs print them as 'recovered-runtime', classified by a whitelist of the program's own panic values",
			"yaegi re-runs main on every Eval in package main, so the generated main returns at once when run again",
			"constructs listed under excluded_by_construction are switched off because of recorded known findings",
		},
		Cases:  map[string]int{"quick": 320, "thorough": 8000},
		Shards: map[string]int{"quick": 8, "thorough": 16},
		Run:    run,
		Replay: replay,
	})
}
