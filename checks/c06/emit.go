package c06

import (
	"fmt"
	"strings"
)

const preludeHead = `package main

import (
	"errors"
	"fmt"
	"strconv"
	"strings"
)

var (
	ran  bool
	cnt  int
	sink int
	errA = errors.New("err-A")
)

type MyErr struct{ code int }

func (m *MyErr) Error() string { return fmt.Sprint("myerr-", m.code) }

func newMyErr(c int) error { return &MyErr{c} }

type T struct{ n int }

func (t *T) pm(tag string, v int) { fmt.Println("defer", tag, "pm", t.n, v) }

func (t T) vm(tag string, v int) { fmt.Println("defer", tag, "vm", t.n, v) }

func (t *T) rec(tag string) {
	fmt.Println("defer", tag, "method-rec", t.n)
	r := recover()
	report(tag, r)
}

func next(tag string) int {
	cnt++
	fmt.Println("eval", tag, cnt)
	return cnt
}

func boomArg(tag string) int {
	fmt.Println("eval", tag, "panics")
	panic("boom-arg-" + tag)
}

func mine(s string) bool {
	if strings.HasPrefix(s, "boom-") || strings.HasPrefix(s, "err-") || strings.HasPrefix(s, "wrap-") || strings.HasPrefix(s, "myerr-") {
		return true
	}
	_, err := strconv.Atoi(s)
	return err == nil
}
`

const reportText = `
func report(tag string, r interface{}) {
	if r == nil {
		fmt.Println(tag, "recover-nil")
		return
	}
	s := fmt.Sprint(r)
	if mine(s) {
		fmt.Println(tag, "recovered", s)
	} else {
		fmt.Println(tag, "recovered-runtime")
	}
}
`

const reportAssert = `
func report(tag string, r interface{}) {
	if r == nil {
		fmt.Println(tag, "recover-nil")
		return
	}
	if vi, ok1 := r.(int); ok1 {
		fmt.Println(tag, "recovered int", vi)
		return
	}
	if vs, ok2 := r.(string); ok2 && mine(vs) {
		fmt.Println(tag, "recovered string", vs)
		return
	}
	if ve, ok3 := r.(error); ok3 && mine(ve.Error()) {
		fmt.Println(tag, "recovered error", ve.Error())
		return
	}
	fmt.Println(tag, "recovered-runtime")
}
`

const preludeTail = `
func namedPrint(tag string, v int) { fmt.Println("defer", tag, "named", v) }

func first(res, aux int) int {
	fmt.Println("aux", aux)
	return res
}

func namedRecover(tag string) {
	fmt.Println("defer", tag, "namedrec")
	r := recover()
	report(tag, r)
}

func deepRecover(tag string) {
	r := recover()
	report(tag+" deep", r)
}

func namedDeep(tag string) {
	fmt.Println("defer", tag, "nameddeep")
	deepRecover(tag)
}

func recur(tag string, n int, stop int) (res int) {
	defer func() {
		fmt.Println("defer recur", tag, n)
		if n == stop {
			r := recover()
			report(tag, r)
			res = -n
		}
	}()
	if n == 0 {
		panic("boom-recur-" + tag)
	}
	return recur(tag, n-1, stop) + 1
}

func deferVia(tag string, cb func(), mode int) {
	fmt.Println("enter via", tag)
	defer cb()
	if mode == 1 {
		panic("boom-via-" + tag)
	}
	if mode == 2 {
		var m map[string]int
		m[tag] = mode
	}
	fmt.Println("exit via", tag)
}
`

type emitter struct {
	b strings.Builder
	p *Prog
}

func (e *emitter) line(ind int, format string, a ...any) {
	e.b.WriteString(strings.Repeat("\t", ind))
	fmt.Fprintf(&e.b, format, a...)
	e.b.WriteByte('\n')
}

// call renders a call of function id: a function with the result group
// (res, aux int) is called through first, which prints aux and yields res.
func (e *emitter) call(id int, arg string) string {
	for _, f := range e.p.Fns {
		if f.ID == id && f.Group {
			return "first(" + fname(id) + "(" + arg + "))"
		}
	}
	return fname(id) + "(" + arg + ")"
}

func fname(id int) string {
	if id == 0 {
		return "main"
	}
	return fmt.Sprintf("f%d", id)
}

// explicitExpr is the Go expression of an explicit panic value.
func explicitExpr(kind, tag string, code int) string {
	switch kind {
	case "int":
		return fmt.Sprint(1000 + code)
	case "string":
		return fmt.Sprintf("%q", "boom-"+tag)
	case "errors.New":
		return fmt.Sprintf("errors.New(%q)", "err-"+tag)
	case "custom-error":
		return fmt.Sprintf("newMyErr(%d)", 2000+code)
	case "error-var":
		return "errA"
	case "fmt.Errorf":
		return fmt.Sprintf("fmt.Errorf(\"wrap-%%d-%s\", d)", tag)
	}
	panic("unknown explicit kind " + kind)
}

func (e *emitter) raise(ind int, r *Raise, tag string, code int) {
	if r.Cond >= 0 {
		e.line(ind, "if d == %d {", r.Cond)
	} else {
		e.line(ind, "{")
	}
	i := ind + 1
	e.line(i, "fmt.Println(\"raise %s %s\")", tag, r.Kind)
	switch r.Kind {
	case "nil-deref":
		e.line(i, "var p *T")
		e.line(i, "sink += p.n")
	case "index":
		e.line(i, "xs := []int{1, 2, 3}")
		e.line(i, "ix := len(xs) + d")
		e.line(i, "sink += xs[ix]")
	case "array-index":
		e.line(i, "var arr [4]int")
		e.line(i, "ix := 4 + d")
		e.line(i, "sink += arr[ix]")
	case "slice-bounds":
		e.line(i, "xs := []int{1, 2, 3}")
		e.line(i, "hi := 4 + d")
		e.line(i, "sink += len(xs[1:hi])")
	case "div-zero":
		e.line(i, "z := d - d")
		e.line(i, "sink += 10 / z")
	case "mod-zero":
		e.line(i, "z := d - d")
		e.line(i, "sink += 10 %% z")
	case "nil-map-write":
		e.line(i, "var m map[string]int")
		e.line(i, "m[\"k\"] = d")
	case "type-assert":
		e.line(i, "var x interface{} = \"s\"")
		e.line(i, "sink += x.(int)")
	case "type-assert-iface":
		e.line(i, "var ev error = errA")
		e.line(i, "sink += ev.(*MyErr).code")
	case "close-closed":
		e.line(i, "c := make(chan int)")
		e.line(i, "close(c)")
		e.line(i, "close(c)")
	default:
		e.line(i, "panic(%s)", explicitExpr(r.Kind, tag, code))
	}
	e.line(ind, "}")
}

func (e *emitter) body(ind int, fn *Fn, b *Body, tag string, code int) {
	if b.Nested != nil {
		e.line(ind, "defer func() {")
		e.line(ind+1, "fmt.Println(\"defer %s.n start\")", tag)
		e.body(ind+1, fn, b.Nested, tag+".n", code+5)
		e.line(ind, "}()")
	}
	switch b.Rec {
	case rDirect:
		e.line(ind, "r := recover()")
		e.line(ind, "report(%q, r)", tag)
	case rDirectArg:
		e.line(ind, "report(%q, recover())", tag)
	case rDeep:
		e.line(ind, "deepRecover(%q)", tag)
	}
	switch b.ModRes {
	case 1:
		e.line(ind, "res = res*2 + %d", code%7+1)
	case 2:
		e.line(ind, "if r != nil {")
		e.line(ind+1, "res = res*2 + %d", code%7+1)
		e.line(ind, "}")
	}
	if b.Callee >= 0 {
		e.line(ind, "fmt.Println(\"%s got\", %s)", tag, e.call(b.Callee, fmt.Sprint(b.CalleeArg)))
	}
	switch b.Act {
	case actRaise:
		e.raise(ind, b.Raise, tag, code)
	case actReSame:
		e.line(ind, "if r != nil {")
		e.line(ind+1, "fmt.Println(\"re-panic %s same\")", tag)
		e.line(ind+1, "panic(r)")
		e.line(ind, "}")
	case actReNew:
		e.line(ind, "if r != nil {")
		e.line(ind+1, "fmt.Println(\"re-panic %s new\")", tag)
		e.line(ind+1, "panic(%q)", "boom-re-"+tag)
		e.line(ind, "}")
	}
	e.line(ind, "fmt.Println(\"defer %s end\")", tag)
}

// arg returns the argument expression and emits its set-up line.
func (e *emitter) arg(ind int, st *Stmt, tag string) string {
	switch st.Arg {
	case aNext:
		return fmt.Sprintf("next(%q)", tag)
	case aBoom:
		return fmt.Sprintf("boomArg(%q)", tag)
	case aVar, aVarM:
		e.line(ind, "x%d := d + %d", st.N, st.N+10)
		return fmt.Sprintf("x%d", st.N)
	}
	return fmt.Sprint(st.N + 40)
}

func (e *emitter) argAfter(ind int, st *Stmt) {
	if st.Arg == aVarM {
		e.line(ind, "x%d += 100", st.N)
	}
}

func (e *emitter) deferStmt(ind int, fn *Fn, st *Stmt, tag string, code int) {
	n := st.N
	switch st.Form {
	case fLit:
		e.line(ind, "defer func() {")
		e.line(ind+1, "fmt.Println(\"defer %s start\")", tag)
		e.body(ind+1, fn, st.Body, tag, code)
		e.line(ind, "}()")
	case fLitArg:
		a := e.arg(ind, st, tag)
		e.line(ind, "defer func(v int) {")
		e.line(ind+1, "fmt.Println(\"defer %s start\", v)", tag)
		e.body(ind+1, fn, st.Body, tag, code)
		e.line(ind, "}(%s)", a)
		e.argAfter(ind, st)
	case fNamed:
		a := e.arg(ind, st, tag)
		e.line(ind, "defer namedPrint(%q, %s)", tag, a)
		e.argAfter(ind, st)
	case fBin:
		a := e.arg(ind, st, tag)
		e.line(ind, "defer fmt.Println(\"defer %s bin\", %s)", tag, a)
		e.argAfter(ind, st)
	case fNamedRec:
		e.line(ind, "defer namedRecover(%q)", tag)
	case fNamedDeep:
		e.line(ind, "defer namedDeep(%q)", tag)
	case fMPtr:
		e.line(ind, "t%d := &T{d + %d}", n, n+20)
		a := e.arg(ind, st, tag)
		e.line(ind, "defer t%d.pm(%q, %s)", n, tag, a)
		e.argAfter(ind, st)
		switch st.MutAfter {
		case "field":
			e.line(ind, "t%d.n += 100", n)
		case "rebind":
			e.line(ind, "t%d = &T{%d}", n, 900+n)
		}
	case fMVal:
		e.line(ind, "tv%d := T{d + %d}", n, n+20)
		a := e.arg(ind, st, tag)
		e.line(ind, "defer tv%d.vm(%q, %s)", n, tag, a)
		e.argAfter(ind, st)
		if st.MutAfter == "value" {
			e.line(ind, "tv%d.n += 100", n)
		}
	case fMRec:
		e.line(ind, "t%d := &T{d + %d}", n, n+20)
		e.line(ind, "defer t%d.rec(%q)", n, tag)
	case fFuncVal:
		e.line(ind, "h%d := func() {", n)
		e.line(ind+1, "fmt.Println(\"defer %s start\")", tag)
		e.body(ind+1, fn, st.Body, tag, code)
		e.line(ind, "}")
		e.line(ind, "defer h%d()", n)
	case fFuncValArg:
		a := e.arg(ind, st, tag)
		e.line(ind, "h%d := func(v int) {", n)
		e.line(ind+1, "fmt.Println(\"defer %s start\", v)", tag)
		e.body(ind+1, fn, st.Body, tag, code)
		e.line(ind, "}")
		e.line(ind, "defer h%d(%s)", n, a)
		e.argAfter(ind, st)
	case fFuncTop:
		a := e.arg(ind, st, tag)
		e.line(ind, "h%d := namedPrint", n)
		e.line(ind, "defer h%d(%q, %s)", n, tag, a)
		e.argAfter(ind, st)
	case fFuncTopRec:
		e.line(ind, "h%d := namedRecover", n)
		e.line(ind, "defer h%d(%q)", n, tag)
	case fClose:
		e.line(ind, "c%d := make(chan int, 1)", n)
		e.line(ind, "defer func() {")
		e.line(ind+1, "_, ok := <-c%d", n)
		e.line(ind+1, "fmt.Println(\"defer %s chan-open\", ok)", tag)
		e.line(ind, "}()")
		e.line(ind, "defer close(c%d)", n)
	case fDelete:
		e.line(ind, "m%d := map[string]int{\"a\": 1, \"b\": 2}", n)
		e.line(ind, "defer func() {")
		e.line(ind+1, "fmt.Println(\"defer %s map-len\", len(m%d))", tag, n)
		e.line(ind, "}()")
		e.line(ind, "defer delete(m%d, \"a\")", n)
	case fCopy:
		e.line(ind, "dst%d := make([]int, 3)", n)
		e.line(ind, "src%d := []int{d, 8, 9}", n)
		e.line(ind, "defer func() {")
		e.line(ind+1, "fmt.Println(\"defer %s dst\", dst%d)", tag, n)
		e.line(ind, "}()")
		e.line(ind, "defer copy(dst%d, src%d)", n, n)
		e.line(ind, "src%d[1] = 80", n)
	case fBPanic:
		e.line(ind, "defer panic(%s)", explicitExpr(st.Val, tag, code))
	case fCloseTwice:
		e.line(ind, "c%d := make(chan int)", n)
		e.line(ind, "close(c%d)", n)
		e.line(ind, "defer close(c%d)", n)
	case fBRecover:
		e.line(ind, "defer recover()")
	case fNilFunc:
		e.line(ind, "var h%d func()", n)
		e.line(ind, "defer h%d()", n)
	case fLoop:
		if st.Loop == lMethod {
			e.line(ind, "t%d := &T{d + %d}", n, n+20)
		}
		// deferred builtins registered several times by the same statement: an
		// earlier-registered (hence later-run) defer prints the state they leave
		switch st.Loop {
		case lDelete:
			e.line(ind, "m%d := map[int]int{0: 10, 1: 11, 2: 12, 3: 13, 7: 17}", n)
			e.line(ind, "defer func() { fmt.Println(\"defer %s map\", len(m%d), m%d) }()", tag, n, n)
		case lCopy:
			e.line(ind, "dst%d, src%d := make([]int, 8), [][]int{{1, 2}, {3, 4}, {5, 6}}", n, n)
			e.line(ind, "defer func() { fmt.Println(\"defer %s dst\", dst%d) }()", tag, n)
		case lClose:
			e.line(ind, "chs%d := []chan int{make(chan int), make(chan int), make(chan int)}", n)
			e.line(ind, "defer func() {")
			e.line(ind+1, "for k := 0; k < %d; k++ {", st.LoopN)
			e.line(ind+2, "_, ok := <-chs%d[k]", n)
			e.line(ind+2, "fmt.Println(\"defer %s closed\", !ok)", tag)
			e.line(ind+1, "}")
			e.line(ind, "}()")
		}
		e.line(ind, "for i := 0; i < %d; i++ {", st.LoopN)
		switch st.Loop {
		case lLitCap:
			e.line(ind+1, "defer func() {")
			e.line(ind+2, "fmt.Println(\"defer %s loop\", i)", tag)
			e.line(ind+1, "}()")
		case lLitArg:
			e.line(ind+1, "defer func(v int) {")
			e.line(ind+2, "fmt.Println(\"defer %s loop\", v)", tag)
			e.line(ind+1, "}(i)")
		case lNamedI:
			e.line(ind+1, "defer namedPrint(%q, i)", tag)
		case lNamedNx:
			e.line(ind+1, "defer namedPrint(%q, next(%q))", tag, tag)
		case lRec:
			e.line(ind+1, "defer func(v int) {")
			e.line(ind+2, "fmt.Println(\"defer %s loop-rec\", v)", tag)
			e.line(ind+2, "r := recover()")
			e.line(ind+2, "report(%q, r)", tag)
			e.line(ind+1, "}(i)")
		case lMethod:
			e.line(ind+1, "defer t%d.pm(%q, i)", n, tag)
		case lDelete:
			e.line(ind+1, "defer delete(m%d, i)", n)
		case lCopy:
			e.line(ind+1, "defer copy(dst%d[2*i:], src%d[i])", n, n)
		case lClose:
			e.line(ind+1, "defer close(chs%d[i])", n)
		case lBin:
			e.line(ind+1, "defer fmt.Println(\"defer %s loop-bin\", i)", tag)
		}
		e.line(ind, "}")
	}
}

func (e *emitter) fn(fn *Fn) {
	name := fname(fn.ID)
	switch {
	case fn.ID == 0:
		e.line(0, "func main() {")
		e.line(1, "if ran {")
		e.line(2, "return")
		e.line(1, "}")
		e.line(1, "ran = true")
		e.line(1, "d := 0")
	case fn.Group:
		e.line(0, "func %s(d int) (res, aux int) {", name)
	case fn.Named:
		e.line(0, "func %s(d int) (res int) {", name)
	default:
		e.line(0, "func %s(d int) int {", name)
	}
	e.line(1, "fmt.Println(\"enter %s\", d)", name)
	if fn.Named {
		e.line(1, "res = d * 10")
	}
	if fn.Group {
		e.line(1, "aux = d + 7")
	}
	for _, st := range fn.Stmts {
		tag := fmt.Sprintf("%s.%d", name, st.N)
		code := fn.ID*10 + st.N
		switch st.Kind {
		case sDefer:
			if st.Cond >= 0 {
				e.line(1, "if d == %d {", st.Cond)
				e.deferStmt(2, fn, st, tag, code)
				e.line(1, "}")
			} else {
				e.deferStmt(1, fn, st, tag, code)
			}
		case sRecur:
			e.line(1, "fmt.Println(\"%s got\", recur(%q, %d, %d))", tag, tag, st.RecurN, st.RecurStop)
		case sIIFE:
			e.line(1, "func() {")
			e.line(2, "fmt.Println(\"enter %s inner\")", tag)
			e.line(2, "defer func() {")
			e.line(3, "fmt.Println(\"defer %s start\")", tag)
			e.body(3, fn, st.Body, tag, code)
			e.line(2, "}()")
			if st.Raise != nil {
				e.raise(2, st.Raise, tag, code+3)
			}
			e.line(2, "fmt.Println(\"exit %s inner\")", tag)
			e.line(1, "}()")
		case sCall:
			ind := 1
			a := fmt.Sprint(st.CallArg)
			if st.CallN > 0 {
				e.line(1, "for i := 0; i < %d; i++ {", st.CallN)
				ind, a = 2, "i"
			}
			if st.AddRes {
				e.line(ind, "res += %s", e.call(st.Callee, a))
			} else {
				e.line(ind, "fmt.Println(\"%s got\", %s)", tag, e.call(st.Callee, a))
			}
			if st.CallN > 0 {
				e.line(1, "}")
			}
		case sRaise:
			e.raise(1, st.Raise, tag, code)
		case sVia:
			e.line(1, "deferVia(%q, func() {", tag)
			e.line(2, "fmt.Println(\"defer %s start\")", tag)
			e.body(2, fn, st.Body, tag, code)
			e.line(1, "}, %d)", st.ViaMode)
		}
	}
	switch {
	case fn.ID == 0:
		e.line(1, "fmt.Println(\"exit main\", sink, cnt)")
	case fn.Group:
		e.line(1, "fmt.Println(\"exit %s\", d, res, aux)", name)
		e.line(1, "return res + 1, aux * 2")
	case fn.Named:
		e.line(1, "fmt.Println(\"exit %s\", d, res)", name)
		e.line(1, "return res + 1")
	default:
		e.line(1, "fmt.Println(\"exit %s\", d)", name)
		e.line(1, "return d + %d", fn.ID)
	}
	e.line(0, "}")
}

// Source renders the program.
func (p *Prog) Source() string {
	e := &emitter{p: p}
	e.b.WriteString(preludeHead)
	if p.Assert {
		e.b.WriteString(reportAssert)
	} else {
		e.b.WriteString(reportText)
	}
	e.b.WriteString(preludeTail)
	for i := len(p.Fns) - 1; i >= 0; i-- {
		e.b.WriteByte('\n')
		e.fn(p.Fns[i])
	}
	return e.b.String()
}
