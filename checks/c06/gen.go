package c06

import (
	"fmt"
	"sort"

	"pgregory.net/rapid"
)

// Keys of recorded known findings; each one switches a narrow generator
// exclusion on (see known_findings.jsonl).
const (
	kDeferredPanic = "deferred-call-panic-skips-pending-defers"
	kFuncVal       = "defer-funcval-same-frame-deadlock"
	kLoopLit       = "defer-lit-in-loop-shares-loopvar"
	kArgsAliased   = "defer-args-not-copied"
	kRecvLate      = "defer-receiver-evaluated-late"
	kBuiltinPanic  = "defer-builtin-panic-runs-immediately"
	kReflectValue  = "recovered-value-is-reflect-value"
	kForeignFunc   = "recover-in-deferred-func-value-of-another-frame"
	kStaleResult   = "recovered-call-yields-stale-result"
)

var allKeys = []string{kDeferredPanic, kFuncVal, kLoopLit, kArgsAliased, kRecvLate, kBuiltinPanic, kReflectValue, kForeignFunc, kStaleResult}

// Prog is a generated program: Fns[0] is main, the others form a call tree
// (a function only calls functions one level deeper, depth <= 5).
type Prog struct {
	Fns      []*Fn
	Assert   bool // recovered values are classified by type assertions instead of by their text
	Features map[string]bool
	Excluded map[string]int
}

// Fn is one generated function.
type Fn struct {
	ID     int
	Depth  int // main = 0
	Parent int
	Named  bool // named result
	Group  bool // two named results declared as one group: (res, aux int)
	Stmts  []*Stmt
	// mayPanic: a call of the function may end in a panic (conservative)
	mayPanic bool
}

// Statement kinds.
const (
	sDefer = "defer"
	sCall  = "call"
	sRaise = "raise"
	sVia   = "via"
	sRecur = "recur" // call of the recursive prelude function (a defer in every frame)
	sIIFE  = "iife"  // function literal called at once, with a defer and a raise of its own
)

// Defer forms.
const (
	fLit        = "lit"         // defer func() { body }()
	fLitArg     = "litarg"      // defer func(v int) { body }(arg)
	fNamed      = "named"       // defer namedPrint(tag, arg)
	fBin        = "bin"         // defer fmt.Println(tag, arg)
	fNamedRec   = "namedrec"    // defer namedRecover(tag)
	fNamedDeep  = "nameddeep"   // defer namedDeep(tag): recover one call too deep
	fMPtr       = "method-ptr"  // defer t.pm(tag, arg)
	fMVal       = "method-val"  // defer tv.vm(tag, arg)
	fMRec       = "method-rec"  // defer t.rec(tag)
	fFuncVal    = "funcval"     // h := func() { body }; defer h()
	fFuncValArg = "funcval-arg" // h := func(v int) { body }; defer h(arg)
	fFuncTop    = "funcval-top" // h := namedPrint; defer h(tag, arg)
	fFuncTopRec = "funcval-toprec"
	fClose      = "close"
	fDelete     = "delete"
	fCopy       = "copy"
	fBPanic     = "builtin-panic"   // defer panic(v)
	fCloseTwice = "builtin-reclose" // defer close(c) on a closed channel: the deferred builtin faults
	fBRecover   = "builtin-recover" // defer recover(): no-op
	fNilFunc    = "nil-funcval"     // var h func(); defer h(): faults when the deferred call runs
	fLoop       = "loop"
)

// Loop bodies (defer statement inside a for loop).
const (
	lLitCap  = "loop-lit-capture" // defer func() { print(i) }()
	lLitArg  = "loop-lit-arg"     // defer func(v int) { print(v) }(i)
	lNamedI  = "loop-named-var"   // defer namedPrint(tag, i)
	lNamedNx = "loop-named-call"  // defer namedPrint(tag, next(tag))
	lRec     = "loop-recover"     // defer func() { report(recover()) }()
	lMethod  = "loop-method"      // defer t.pm(tag, i)
	lDelete  = "loop-delete"      // defer delete(m, i): a deferred builtin registered several times
	lCopy    = "loop-copy"        // defer copy(dst[2*i:], src[i])
	lClose   = "loop-close"       // defer close(chans[i])
	lBin     = "loop-bin"         // defer fmt.Println(tag, i)
)

// Argument sources of deferred calls.
const (
	aNext  = "next"  // next(tag): call with a visible side effect
	aVar   = "var"   // local variable
	aVarM  = "var-m" // local variable modified after the defer statement
	aConst = "const"
	aBoom  = "panics" // the argument expression panics: the call is never deferred
)

// Recover placements of a deferred body.
const (
	rNone      = ""
	rDirect    = "direct"     // r := recover()
	rDirectArg = "direct-arg" // report(tag, recover())
	rDeep      = "deep"       // helper called by the deferred function calls recover
)

// Actions of a deferred body.
const (
	actNone   = ""
	actRaise  = "raise"
	actReSame = "re-same" // panic(r)
	actReNew  = "re-new"  // panic(new value)
)

// Raise is an explicit panic or a run-time fault.
type Raise struct {
	Kind string
	Cond int // -1: always, else only when d == Cond
}

var explicitKinds = []string{"int", "string", "errors.New", "custom-error", "error-var", "fmt.Errorf"}
var faultKinds = []string{"nil-deref", "index", "array-index", "slice-bounds", "div-zero", "mod-zero", "nil-map-write", "type-assert", "type-assert-iface", "close-closed"}

func isFault(kind string) bool {
	for _, k := range faultKinds {
		if k == kind {
			return true
		}
	}
	return false
}

// Body is the body of a deferred function literal.
type Body struct {
	Rec       string
	ModRes    int // 0 no, 1 unconditionally, 2 only if a panic was recovered
	Act       string
	Raise     *Raise
	Callee    int // -1 none
	CalleeArg int
	Nested    *Body // a defer statement at the start of the deferred function
}

// Stmt is one statement of a generated function.
type Stmt struct {
	Kind string
	N    int // index within the function (names the tag and local variables)
	// defer
	Form     string
	Arg      string
	Body     *Body
	Loop     string
	LoopN    int
	MutAfter string // "", "field" (t.n += ..), "value" (tv.n += ..), "rebind" (t = &T{..})
	Val      string // panic value kind of defer panic(v)
	Cond     int    // defer statement executed only when d == Cond (-1: always)
	// call
	Callee  int
	CallArg int
	CallN   int  // >0: called in a loop with d = 0..CallN-1
	AddRes  bool // res += f(..) instead of printing
	// raise / via
	Raise   *Raise
	ViaMode int // 0 none, 1 explicit panic, 2 fault inside deferVia
	// recur: depth and the level that recovers (> depth: nobody)
	RecurN, RecurStop int
}

type gen struct {
	t   *rapid.T
	off map[string]bool
	p   *Prog
}

func (g *gen) feat(s string)            { g.p.Features[s] = true }
func (g *gen) excl(s string)            { g.p.Excluded[s]++ }
func (g *gen) intn(n int, l string) int { return rapid.IntRange(0, n-1).Draw(g.t, l) }
func (g *gen) flip(l string) bool       { return rapid.Bool().Draw(g.t, l) }

// pick draws an index with the given weights (simplest alternative first).
func (g *gen) pick(label string, weights ...int) int {
	total := 0
	for _, w := range weights {
		total += w
	}
	x := rapid.IntRange(0, total-1).Draw(g.t, label)
	for i, w := range weights {
		if x < w {
			return i
		}
		x -= w
	}
	return len(weights) - 1
}

// Generate draws a program.
func Generate(t *rapid.T, off map[string]bool) *Prog {
	g := &gen{t: t, off: off, p: &Prog{Features: map[string]bool{}, Excluded: map[string]int{}}}
	p := g.p
	nf := rapid.IntRange(2, 7).Draw(t, "nfuncs")
	p.Fns = append(p.Fns, &Fn{ID: 0, Depth: 0, Parent: -1})
	for i := 1; i < nf; i++ {
		// parent: prefer the previous function (deep chains), depth <= 5
		par := i - 1
		if i > 1 && g.pick("parent-kind", 3, 2) == 1 {
			par = rapid.IntRange(0, i-1).Draw(t, "parent")
		}
		for p.Fns[par].Depth >= 5 {
			par = p.Fns[par].Parent
		}
		p.Fns = append(p.Fns, &Fn{ID: i, Depth: p.Fns[par].Depth + 1, Parent: par})
	}
	if !off[kReflectValue] {
		p.Assert = g.pick("classify", 2, 1) == 1
	} else {
		g.excl(kReflectValue)
	}
	if p.Assert {
		g.feat("classify-by-type-assertion")
	} else {
		g.feat("classify-by-text")
	}
	for i := nf - 1; i >= 0; i-- {
		g.genFn(p.Fns[i])
	}
	return p
}

func (g *gen) children(fn *Fn) []int {
	var cs []int
	for _, f := range g.p.Fns {
		if f.Parent == fn.ID && f.ID != 0 {
			cs = append(cs, f.ID)
		}
	}
	return cs
}

// callable lists the functions fn may call: one level deeper, higher index.
func (g *gen) callable(fn *Fn) []int {
	var cs []int
	for _, f := range g.p.Fns {
		if f.ID > fn.ID && f.Depth == fn.Depth+1 {
			cs = append(cs, f.ID)
		}
	}
	return cs
}

func (g *gen) genRaise(allowCond bool) *Raise {
	r := &Raise{Cond: -1}
	if g.pick("raise-class", 1, 1) == 0 {
		r.Kind = explicitKinds[g.intn(len(explicitKinds), "explicit-kind")]
	} else {
		r.Kind = faultKinds[g.intn(len(faultKinds), "fault-kind")]
	}
	if allowCond && g.pick("raise-cond", 3, 2) == 1 {
		r.Cond = g.intn(3, "cond")
	}
	return r
}

func (g *gen) genFn(fn *Fn) {
	if fn.ID != 0 {
		fn.Named = g.flip("named-result")
	}
	callable := g.callable(fn)
	n := rapid.IntRange(1, 6).Draw(g.t, "nstmts")
	defersSoFar := 0
	stopped := false
	for s := 0; s < n && !stopped; s++ {
		st := &Stmt{N: len(fn.Stmts), Callee: -1, Cond: -1}
		wCall := 0
		if len(callable) > 0 {
			wCall = 3
		}
		switch g.pick("stmt-kind", 10, wCall, 2, 2, 1, 2) {
		case 0:
			st.Kind = sDefer
			g.genDefer(fn, st, defersSoFar == 0)
			defersSoFar++
			if st.Arg == aBoom && st.Cond < 0 {
				stopped = true
			}
		case 1:
			g.genCall(fn, st, callable)
		case 2:
			st.Kind = sRaise
			st.Raise = g.genRaise(fn.ID != 0)
			fn.mayPanic = true
			if st.Raise.Cond < 0 {
				stopped = true
			}
		case 3:
			st.Kind = sVia
			st.Body = g.genBody(fn, true, true)
			if g.off[kForeignFunc] && (st.Body.Rec == rDirect || st.Body.Rec == rDirectArg) {
				// recover in a function value that is deferred by another function
				g.excl(kForeignFunc)
				st.Body.Rec = rNone
				if st.Body.ModRes == 2 {
					st.Body.ModRes = 1
				}
				if st.Body.Act == actReSame || st.Body.Act == actReNew {
					st.Body.Act = actNone
				}
			}
			st.ViaMode = g.pick("via-mode", 1, 2, 2)
			if st.ViaMode != 0 || g.hot(st.Body) {
				fn.mayPanic = true
			}
		case 4:
			st.Kind = sRecur
			st.RecurN = rapid.IntRange(1, 3).Draw(g.t, "recur-n")
			st.RecurStop = rapid.IntRange(0, st.RecurN+1).Draw(g.t, "recur-stop")
			if st.RecurStop > st.RecurN {
				fn.mayPanic = true
			}
		case 5:
			st.Kind = sIIFE
			st.Body = g.genBody(fn, true, true)
			if g.pick("iife-raise", 1, 3) == 1 {
				st.Raise = g.genRaise(fn.ID != 0)
			}
			inner := st.Raise != nil
			caught := (st.Body.Rec == rDirect || st.Body.Rec == rDirectArg) && !g.hot(st.Body)
			if g.hot(st.Body) || (inner && !caught) {
				fn.mayPanic = true
			}
		}
		fn.Stmts = append(fn.Stmts, st)
	}
	// every child is called at least once, before an unconditional raise
	for _, c := range g.children(fn) {
		if g.calls(fn, c) {
			continue
		}
		limit := len(fn.Stmts)
		for i, st := range fn.Stmts {
			if st.Kind == sRaise && st.Raise.Cond < 0 {
				limit = i
				break
			}
		}
		pos := rapid.IntRange(0, limit).Draw(g.t, "call-pos")
		st := &Stmt{Callee: -1, Cond: -1}
		g.genCall(fn, st, []int{c})
		fn.Stmts = append(fn.Stmts, nil)
		copy(fn.Stmts[pos+1:], fn.Stmts[pos:])
		fn.Stmts[pos] = st
	}
	for i, st := range fn.Stmts {
		st.N = i
	}
	if fn.ID != 0 && !fn.Named && g.off[kStaleResult] && canRecover(fn) {
		// a function without named results that recovers returns zero values
		g.excl(kStaleResult)
		fn.Named = true
	}
	if fn.Named {
		fn.Group = g.flip("grouped-results")
	}
}

func (g *gen) calls(fn *Fn, c int) bool {
	for _, st := range fn.Stmts {
		if st.Kind == sCall && st.Callee == c {
			return true
		}
		for b := st.Body; b != nil; b = b.Nested {
			if b.Callee == c {
				return true
			}
		}
	}
	return false
}

func (g *gen) genCall(fn *Fn, st *Stmt, callable []int) {
	st.Kind = sCall
	st.Callee = callable[g.intn(len(callable), "callee")]
	st.CallArg = g.intn(3, "call-arg")
	if g.pick("call-loop", 4, 1) == 1 {
		st.CallN = rapid.IntRange(2, 3).Draw(g.t, "call-n")
	}
	if fn.Named {
		st.AddRes = g.pick("call-use", 2, 1) == 1
	}
	if g.p.Fns[st.Callee].mayPanic {
		fn.mayPanic = true
	}
}

// reSame is a re-panic with the recovered value (excluded while recovered
// values are reflect.Values: panic(r) wraps the value once more).
func (g *gen) reSame() string {
	if g.off[kReflectValue] {
		g.excl(kReflectValue)
		return actReNew
	}
	return actReSame
}

// canRecover: the function has a recover site that can be effective for a
// panic of its own frame.
func canRecover(fn *Fn) bool {
	for _, st := range fn.Stmts {
		if st.Kind != sDefer {
			continue
		}
		switch st.Form {
		case fNamedRec, fMRec, fFuncTopRec:
			return true
		case fLoop:
			if st.Loop == lRec {
				return true
			}
		}
		if st.Body != nil && (st.Body.Rec == rDirect || st.Body.Rec == rDirectArg) {
			return true
		}
	}
	return false
}

// hot: the deferred function may end in a panic of its own (raise, re-panic
// or an unrecovered panic of a callee).
func (g *gen) hot(b *Body) bool {
	if b == nil {
		return false
	}
	if b.Act == actReSame || b.Act == actReNew {
		return true
	}
	inner := b.Act == actRaise || (b.Callee >= 0 && g.p.Fns[b.Callee].mayPanic)
	if !inner {
		return false
	}
	if n := b.Nested; n != nil && (n.Rec == rDirect || n.Rec == rDirectArg) && n.Act == actNone {
		return false
	}
	return true
}

// genBody draws the body of a deferred function literal. canPanic: the body
// may end in a panic (re-panic, raise, call of a panicking function).
func (g *gen) genBody(fn *Fn, canPanic, top bool) *Body {
	b := &Body{Callee: -1}
	switch g.pick("recover", 4, 5, 2, 2) {
	case 1:
		b.Rec = rDirect
	case 2:
		b.Rec = rDirectArg
	case 3:
		b.Rec = rDeep
	}
	if fn.Named && g.pick("modres", 2, 1, 1) != 0 {
		b.ModRes = 1
		if b.Rec == rDirect && g.flip("modres-if-recovered") {
			b.ModRes = 2
		}
	}
	if !top {
		// nested bodies stay simple: optional re-panic only
		if b.Rec == rDirect && canPanic && g.pick("nested-act", 3, 1, 1) != 0 {
			if g.flip("nested-re-new") {
				b.Act = actReNew
			} else {
				b.Act = g.reSame()
			}
		}
		return b
	}
	if !canPanic {
		g.excl(kDeferredPanic)
	}
	callable := g.callable(fn)
	if len(callable) > 0 && g.pick("body-call", 3, 1) == 1 {
		c := callable[g.intn(len(callable), "body-callee")]
		if canPanic || !g.p.Fns[c].mayPanic {
			b.Callee = c
			b.CalleeArg = g.intn(3, "body-call-arg")
		}
	}
	if canPanic {
		w := []int{6, 2, 0, 0}
		if b.Rec == rDirect {
			w[2], w[3] = 2, 2
		}
		switch g.pick("body-act", w...) {
		case 1:
			b.Act = actRaise
			b.Raise = g.genRaise(false)
		case 2:
			b.Act = g.reSame()
		case 3:
			b.Act = actReNew
		}
	}
	// nested defer: mostly together with a panic of the deferred function itself
	wn := 1
	if b.Act == actRaise || (b.Callee >= 0 && g.p.Fns[b.Callee].mayPanic) {
		wn = 4
	}
	if g.pick("nested", 8, wn) == 1 {
		b.Nested = g.genBody(fn, canPanic, false)
	}
	return b
}

func (g *gen) genArg(label string) string {
	switch g.pick(label, 6, 4, 4, 2, 1) {
	case 4:
		return aBoom
	case 0:
		return aNext
	case 1:
		return aVar
	case 2:
		if g.off[kArgsAliased] {
			g.excl(kArgsAliased)
			return aVar
		}
		return aVarM
	}
	return aConst
}

func (g *gen) genDefer(fn *Fn, st *Stmt, first bool) {
	// under the known finding "a panicking deferred call skips the pending
	// defers of its frame" only the first registered defer (run last) may panic
	canPanic := first || !g.off[kDeferredPanic]
	forms := []string{fLit, fLitArg, fNamed, fBin, fNamedRec, fNamedDeep, fMPtr, fMVal, fMRec, fFuncVal, fFuncValArg, fFuncTop, fFuncTopRec, fClose, fDelete, fCopy, fBPanic, fCloseTwice, fBRecover, fLoop, fNilFunc}
	weights := []int{8, 3, 3, 2, 3, 2, 2, 2, 2, 3, 2, 2, 1, 2, 2, 2, 2, 1, 1, 5, 1}
	st.Form = forms[g.pick("defer-form", weights...)]
	// exclusions
	switch st.Form {
	case fFuncVal, fFuncValArg:
		if g.off[kFuncVal] {
			g.excl(kFuncVal)
			if st.Form == fFuncVal {
				st.Form = fLit
			} else {
				st.Form = fLitArg
			}
		}
	case fBPanic:
		if g.off[kBuiltinPanic] {
			g.excl(kBuiltinPanic)
			st.Form = fLit
		} else if !canPanic {
			g.excl(kDeferredPanic)
			st.Form = fLit
		}
	case fCloseTwice:
		if !canPanic {
			g.excl(kDeferredPanic)
			st.Form = fClose
		}
	case fNilFunc:
		if !canPanic {
			g.excl(kDeferredPanic)
			st.Form = fLit
		}
	}
	switch st.Form {
	case fLit, fFuncVal:
		st.Body = g.genBody(fn, canPanic, true)
	case fLitArg, fFuncValArg:
		st.Body = g.genBody(fn, canPanic, true)
		st.Arg = g.genArg("arg")
	case fNamed, fBin, fFuncTop:
		st.Arg = g.genArg("arg")
	case fMPtr:
		st.Arg = g.genArg("arg")
		switch g.pick("recv-mut", 2, 2, 1) {
		case 1:
			st.MutAfter = "field"
		case 2:
			if g.off[kRecvLate] {
				g.excl(kRecvLate)
			} else {
				st.MutAfter = "rebind"
			}
		}
	case fMVal:
		st.Arg = g.genArg("arg")
		if g.pick("recv-mut", 1, 2) == 1 {
			if g.off[kRecvLate] {
				g.excl(kRecvLate)
			} else {
				st.MutAfter = "value"
			}
		}
	case fBPanic:
		st.Val = explicitKinds[g.intn(len(explicitKinds), "explicit-kind")]
	case fLoop:
		loops := []string{lLitArg, lNamedI, lLitCap, lNamedNx, lRec, lMethod, lDelete, lCopy, lClose, lBin}
		st.Loop = loops[g.pick("loop-form", 3, 3, 3, 2, 2, 2, 2, 2, 2, 2)]
		st.LoopN = rapid.IntRange(1, 3).Draw(g.t, "loop-n")
		if st.Loop == lLitCap && g.off[kLoopLit] {
			g.excl(kLoopLit)
			st.Loop = lLitArg
		}
		if st.Loop == lNamedNx && g.off[kArgsAliased] {
			g.excl(kArgsAliased)
			st.Loop = lNamedI
		}
	}
	if st.Form == fBPanic || st.Form == fCloseTwice || st.Form == fNilFunc || st.Arg == aBoom || g.hot(st.Body) {
		fn.mayPanic = true
	}
	if fn.ID != 0 && g.pick("defer-cond", 5, 1) == 1 {
		st.Cond = g.intn(3, "defer-cond-d")
		g.feat("defer-conditional")
	}
	g.noteDefer(st)
}

// noteDefer records the feature classes of a defer statement.
func (g *gen) noteDefer(st *Stmt) {
	if st.Form == fLoop {
		g.feat("defer:" + st.Loop)
	} else {
		g.feat("defer:" + st.Form)
	}
	if st.Arg != "" {
		g.feat("defer-arg:" + st.Arg)
	}
	if st.MutAfter != "" {
		g.feat("defer-receiver-changed-after:" + st.MutAfter)
	}
}

// collectFeatures walks the finished program for the class histogram.
func (p *Prog) collectFeatures() {
	f := p.Features
	var body func(b *Body, nested bool)
	body = func(b *Body, nested bool) {
		if b == nil {
			return
		}
		pre := "recover:"
		if nested {
			pre = "recover-in-nested-defer:"
			f["nested-defer"] = true
		}
		if b.Rec == rNone {
			f[pre+"absent"] = true
		} else {
			f[pre+b.Rec] = true
		}
		if b.ModRes != 0 {
			f["named-result-modified-in-defer"] = true
			if b.Rec == rDirect || b.Rec == rDirectArg {
				f["named-result-modified-after-recover"] = true
			}
		}
		switch b.Act {
		case actRaise:
			f["panic-in-deferred-function"] = true
			f["raise:"+b.Raise.Kind] = true
		case actReSame, actReNew:
			f["re-panic:"+b.Act] = true
		}
		if b.Callee >= 0 {
			f["call-in-deferred-function"] = true
		}
		body(b.Nested, true)
	}
	for _, fn := range p.Fns {
		if fn.Named {
			f["named-result"] = true
		}
		if fn.Depth > 0 {
			f[fmt.Sprintf("depth>=%d", fn.Depth)] = true
		}
		for _, st := range fn.Stmts {
			switch st.Kind {
			case sRaise:
				f["raise:"+st.Raise.Kind] = true
				if st.Raise.Cond >= 0 {
					f["raise-conditional"] = true
				}
			case sVia:
				f["defer:funcval-param"] = true
				body(st.Body, false)
			case sRecur:
				f["recursion-with-defers"] = true
				f["raise:string"] = true
				if st.RecurStop <= st.RecurN {
					f["recover:direct"] = true
				}
			case sIIFE:
				f["defer-in-called-literal"] = true
				if st.Raise != nil {
					f["raise:"+st.Raise.Kind] = true
				}
				body(st.Body, false)
			case sCall:
				if st.CallN > 0 {
					f["call-in-loop"] = true
				}
			case sDefer:
				switch st.Form {
				case fNamedRec, fMRec, fFuncTopRec:
					f["recover:direct-in-named-function"] = true
				case fNamedDeep:
					f["recover:deep"] = true
				case fBPanic:
					f["raise:"+st.Val] = true
					f["panic-in-deferred-function"] = true
				case fCloseTwice:
					f["raise:close-closed"] = true
					f["panic-in-deferred-function"] = true
				case fNilFunc:
					f["raise:nil-deref"] = true
					f["panic-in-deferred-function"] = true
				case fLoop:
					if st.Loop == lRec {
						f["recover:direct"] = true
					}
				}
				body(st.Body, false)
			}
		}
	}
}

// FeatureList returns the sorted feature names.
func (p *Prog) FeatureList() []string {
	var fs []string
	for k := range p.Features {
		fs = append(fs, k)
	}
	sort.Strings(fs)
	return fs
}

// ---------------------------------------------------------------------------
// static walk up to the first panic: how many frames have pending defers and
// how many recover sites are pending at that moment (non-trivial rule).

type frameInfo struct {
	defers int
	sites  int
}

type walker struct {
	p      *Prog
	stack  []*frameInfo
	found  bool
	frames int
	sites  int
	steps  int
}

func bodySites(b *Body) int {
	n := 0
	for ; b != nil; b = b.Nested {
		if b.Rec != rNone {
			n++
		}
	}
	return n
}

func stmtSites(st *Stmt) int {
	switch st.Form {
	case fNamedRec, fNamedDeep, fMRec, fFuncTopRec:
		return 1
	case fLoop:
		if st.Loop == lRec {
			return st.LoopN
		}
		return 0
	}
	return bodySites(st.Body)
}

func (w *walker) hit() {
	w.found = true
	for _, fr := range w.stack {
		if fr.defers > 0 {
			w.frames++
		}
		w.sites += fr.sites
	}
}

func (w *walker) raise(r *Raise, d int) bool {
	if r.Cond >= 0 && r.Cond != d {
		return false
	}
	w.hit()
	return true
}

func (w *walker) body(b *Body) {
	// the deferred function is a frame of its own
	fr := &frameInfo{}
	w.stack = append(w.stack, fr)
	defer func() { w.stack = w.stack[:len(w.stack)-1] }()
	if b.Nested != nil {
		fr.defers++
		fr.sites += bodySites(b.Nested)
	}
	if b.Callee >= 0 {
		w.fn(w.p.Fns[b.Callee], b.CalleeArg)
		if w.found {
			return
		}
	}
	if b.Act == actRaise {
		w.raise(b.Raise, 0)
	}
}

func (w *walker) fn(fn *Fn, d int) {
	w.steps++
	if w.steps > 5000 {
		return
	}
	fr := &frameInfo{}
	w.stack = append(w.stack, fr)
	defer func() { w.stack = w.stack[:len(w.stack)-1] }()
	var pending []*Stmt
	for _, st := range fn.Stmts {
		switch st.Kind {
		case sDefer:
			if st.Cond >= 0 && st.Cond != d {
				continue
			}
			if st.Arg == aBoom {
				w.hit()
				return
			}
			n := 1
			if st.Form == fLoop {
				n = st.LoopN
			}
			fr.defers += n
			fr.sites += stmtSites(st)
			pending = append(pending, st)
		case sCall:
			args := []int{st.CallArg}
			if st.CallN > 0 {
				args = nil
				for i := 0; i < st.CallN; i++ {
					args = append(args, i)
				}
			}
			for _, a := range args {
				w.fn(w.p.Fns[st.Callee], a)
				if w.found {
					return
				}
			}
		case sRaise:
			if w.raise(st.Raise, d) {
				return
			}
		case sRecur:
			for i := 0; i <= st.RecurN; i++ {
				fi := &frameInfo{defers: 1}
				if st.RecurN-i == st.RecurStop {
					fi.sites = 1
				}
				w.stack = append(w.stack, fi)
			}
			w.hit()
			w.stack = w.stack[:len(w.stack)-st.RecurN-1]
			return
		case sIIFE:
			in := &frameInfo{defers: 1, sites: bodySites(st.Body)}
			w.stack = append(w.stack, in)
			if st.Raise != nil && w.raise(st.Raise, d) {
				w.stack = w.stack[:len(w.stack)-1]
				return
			}
			w.body(st.Body)
			w.stack = w.stack[:len(w.stack)-1]
			if w.found {
				return
			}
		case sVia:
			via := &frameInfo{defers: 1, sites: bodySites(st.Body)}
			w.stack = append(w.stack, via)
			if st.ViaMode != 0 {
				w.hit()
			} else {
				w.body(st.Body)
			}
			w.stack = w.stack[:len(w.stack)-1]
			if w.found {
				return
			}
		}
	}
	// normal return: run the deferred calls, last in first out
	for i := len(pending) - 1; i >= 0; i-- {
		st := pending[i]
		fr.defers--
		fr.sites -= stmtSites(st)
		if fr.sites < 0 {
			fr.sites = 0
		}
		switch {
		case st.Form == fBPanic || st.Form == fCloseTwice || st.Form == fNilFunc:
			w.hit()
			return
		case st.Body != nil:
			w.body(st.Body)
			if w.found {
				return
			}
		}
	}
}

// FirstPanic reports the state at the first panic of the program: whether
// there is one, the number of frames with pending defers and the number of
// pending recover sites.
func (p *Prog) FirstPanic() (found bool, frames, sites int) {
	w := &walker{p: p}
	w.fn(p.Fns[0], 0)
	return w.found, w.frames, w.sites
}
