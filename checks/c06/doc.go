// Package c06 holds the check of property C06.
package c06
