// Package checks links every property check into the vcheck binary.
package checks

import (
	_ "verif/checks/c01"
	_ "verif/checks/c02"
	_ "verif/checks/c03"
	_ "verif/checks/c04"
	_ "verif/checks/c05"
	_ "verif/checks/c06"
	_ "verif/checks/c07"
	_ "verif/checks/c08"
	_ "verif/checks/c09"
	_ "verif/checks/c10"
	_ "verif/checks/c11"
	_ "verif/checks/c12"
	_ "verif/checks/c13"
	_ "verif/checks/c14"
	_ "verif/checks/c15"
	_ "verif/checks/c16"
	_ "verif/checks/c17"
	_ "verif/checks/c18"
	_ "verif/checks/c19"
)
