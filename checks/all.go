// Package checks links every finished property check into the vcheck binary.
// (Checks under construction are built through cmd/dev/cNN only.)
package checks

import (
	_ "verif/checks/c01"
	_ "verif/checks/c02"
	_ "verif/checks/c03"
	_ "verif/checks/c06"
	_ "verif/checks/c09"
	_ "verif/checks/c11"
	_ "verif/checks/c12"
	_ "verif/checks/c13"
	_ "verif/checks/c14"
	_ "verif/checks/c15"
	_ "verif/checks/c16"
	_ "verif/checks/c17"
	_ "verif/checks/c18"
	_ "verif/checks/c19"
)
