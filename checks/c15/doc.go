// Package c15 holds the check of property C15.
package c15
