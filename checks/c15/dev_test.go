package c15

import (
	"fmt"
	"sort"
	"testing"

	"pgregory.net/rapid"
)

func TestDevInvalid(t *testing.T) {
	n := 0
	rapid.Check(t, func(rt *rapid.T) {
		p := generate(rt, switches{})
		if _, err := analyze(p.tree); err != nil && n < 2 {
			n++
			fmt.Println("=====", err)
			var names []string
			for k := range p.tree {
				names = append(names, k)
			}
			sort.Strings(names)
			for _, k := range names {
				fmt.Println("---", k)
				fmt.Println(p.tree[k])
			}
		}
	})
}
