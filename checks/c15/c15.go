// Package c15 checks that package-level variables are initialised in the order
// the Go specification requires, that init functions then run in source
// order before main, and that imported packages are initialised completely
// before their importers and exactly once (differential against the native
// toolchain, own generator of dependency graphs).
package c15

import (
	"encoding/json"
	"fmt"
	"path/filepath"
	"sort"
	"strings"
	"time"

	"pgregory.net/rapid"

	"verif/internal/diff"
	"verif/internal/oracle"
	"verif/internal/vf"
	"verif/internal/yrun"
)

// Case is the replayable form of a program: a source tree (package main in
// the root, sub-packages imported as PKGROOT/<dir>). Entry "file" evaluates
// main.go (EvalPath on a file: Compile + Execute), "dir" evaluates the root
// directory by its import path (EvalPath on a package: importSrc), which is
// the only way to run a main package made of several files. Default: "dir"
// when the root holds several Go files, else "file".
type Case struct {
	Files oracle.Tree `json:"files"`
	Entry string      `json:"entry,omitempty"`
}

const (
	keyFuncBody   = "dep-through-func-body"
	keyMultiPass  = "multi-pass-order"
	keyMultiVal   = "multi-value-decl-not-global"
	keyMultiLater = "multi-value-decl-func-declared-later"
	keyNN         = "multi-var-spec-single-unit"
)

func (c *Case) entry() string {
	if c.Entry == "file" || c.Entry == "dir" {
		return c.Entry
	}
	n := 0
	for name := range c.Files {
		if !strings.Contains(name, "/") && strings.HasSuffix(name, ".go") {
			n++
		}
	}
	if n > 1 {
		return "dir"
	}
	return "file"
}

func job(batch *oracle.Batch, id string, c *Case) *yrun.Job {
	if c.entry() == "dir" {
		return &yrun.Job{GoPath: batch.GoPath(), Path: "oracle/" + id}
	}
	return &yrun.Job{GoPath: batch.GoPath(), Path: batch.MainPath(id)}
}

// verdict of one case.
type verdict struct {
	diff.Verdict
	// indep: the only difference is the relative order of packages that do
	// not import each other (not part of the property statement).
	indep bool
}

// compare applies the property: equal initialisation log and final values.
// The property fixes the order inside a package and "imported before
// importer, exactly once"; the relative order of packages that do not import
// each other is not part of it, so when the outputs differ the comparison is
// repeated per package plus the importer constraint.
func compare(nat *oracle.Result, out *yrun.Outcome, an *analysis) verdict {
	v := diff.Compare(nat, out)
	if v.Sig != "stdout" {
		return verdict{Verdict: v}
	}
	nl, yl := lines(nat.Stdout), lines(out.Stdout)
	np, yp := project(nl), project(yl)
	var tags []string
	for t := range np {
		tags = append(tags, t)
	}
	for t := range yp {
		if _, ok := np[t]; !ok {
			tags = append(tags, t)
		}
	}
	sort.Strings(tags)
	for _, t := range tags {
		if strings.Join(np[t], "\n") != strings.Join(yp[t], "\n") {
			return verdict{Verdict: v}
		}
	}
	// same lines per package: every imported package must be finished before
	// the first line of its importer
	first, last := map[string]int{}, map[string]int{}
	for i, l := range yl {
		t := tag(l)
		if _, ok := first[t]; !ok {
			first[t] = i
		}
		last[t] = i
	}
	for _, d := range an.order {
		pa := an.pkgs[d]
		for _, k := range pa.imports {
			q := an.pkgs[k]
			fp, okp := first[pa.name]
			lq, okq := last[q.name]
			if okp && okq && lq > fp {
				return verdict{Verdict: diff.Verdict{Sig: "import-order", Msg: fmt.Sprintf("package %s prints (line %d %q) before its import %s has finished initialising (line %d %q)", pa.name, fp+1, yl[fp], q.name, lq+1, yl[lq])}}
			}
		}
	}
	if nat.Panicked != (out.Class == yrun.Panic) {
		return verdict{Verdict: diff.Verdict{Sig: "ending", Msg: "different ending"}}
	}
	return verdict{indep: true}
}

func lines(s string) []string {
	s = strings.TrimSuffix(s, "\n")
	if s == "" {
		return nil
	}
	return strings.Split(s, "\n")
}

func tag(l string) string {
	if i := strings.Index(l, ":"); i >= 0 {
		return l[:i]
	}
	return ""
}

func project(ls []string) map[string][]string {
	m := map[string][]string{}
	for _, l := range ls {
		m[tag(l)] = append(m[tag(l)], l)
	}
	return m
}

// signature names the root-cause class of a failing case. A failure is
// attributed to a recorded finding only when the program contains its trigger
// and the recorded findings together predict a deviation; the generator
// removes exactly these programs while the findings are recorded, so a
// failure of a generated case cannot hide behind them.
func signature(v diff.Verdict, f facts) string {
	if strings.HasPrefix(v.Sig, "error: assignment mismatch") && f.multiFuncLater {
		return keyMultiLater
	}
	if v.Sig == "stdout" || strings.HasPrefix(v.Sig, "error:") || v.Sig == "ending" || v.Sig == "worker-crash" || v.Sig == "escaped-panic" {
		switch {
		case f.multiRead:
			return keyMultiVal
		case f.recordedDiffer && f.nnMatters:
			return keyNN
		case f.recordedDiffer && f.hiddenMatters:
			return keyFuncBody
		case f.recordedDiffer && f.passMatters:
			return keyMultiPass
		case f.recordedDiffer:
			return keyFuncBody // only the combination of the recorded findings deviates
		}
		if v.Sig == "stdout" {
			return "init-log"
		}
	}
	return v.Sig
}

type switches struct {
	knownFuncBody   bool
	knownMultiPass  bool
	knownMultiVal   bool
	knownMultiLater bool
	knownNN         bool
}

func config(ctx *vf.Ctx) switches {
	return switches{
		knownFuncBody:   vf.IsKnown("C15", keyFuncBody),
		knownMultiPass:  vf.IsKnown("C15", keyMultiPass),
		knownMultiVal:   vf.IsKnown("C15", keyMultiVal),
		knownMultiLater: vf.IsKnown("C15", keyMultiLater),
		knownNN:         vf.IsKnown("C15", keyNN),
	}
}

func run(ctx *vf.Ctx) {
	sw := config(ctx)
	batch, err := oracle.NewBatch(filepath.Join(ctx.Scratch, "oracle"))
	if err != nil {
		ctx.Inconclusive("oracle: %v", err)
		return
	}
	// pass A: draw and store the programs
	illTyped, firstErr := 0, ""
	ctx.RapidCollect("gen", 0, ctx.Cases, func(t *rapid.T) {
		p := generate(t, sw)
		if _, err := analyze(p.tree); err != nil {
			illTyped++
			if firstErr == "" {
				firstErr = err.Error()
			}
			return
		}
		batch.Add(p.tree)
	})
	if illTyped*100 > ctx.Cases {
		ctx.Inconclusive("generator produced %d invalid programs of %d (first: %s)", illTyped, ctx.Cases, firstErr)
		return
	}
	if err := batch.Build(); err != nil {
		ctx.Inconclusive("native build: %v", err)
		return
	}
	pool := yrun.NewPool(1, filepath.Join(ctx.Scratch, "workers"))
	defer pool.Close()
	discards := 0
	// pass B: same draws, compare
	ctx.Rapid("diff", 0, ctx.Cases, shrinkTime(ctx), func(t *rapid.T) {
		p := generate(t, sw)
		an, err := analyze(p.tree)
		if err != nil {
			ctx.Class("generator-invalid")
			ctx.Done()
			return
		}
		f := an.facts(sw)
		if f.specDiffers {
			// the toolchain does not follow the specification's algorithm on
			// this program (see analyze.go): not judged
			ctx.Class("skipped:toolchain-order-differs-from-specification")
			ctx.Done()
			return
		}
		if ((sw.knownFuncBody || sw.knownMultiPass || sw.knownNN) && f.recordedDiffer) || (sw.knownMultiVal && f.multiRead) || (sw.knownMultiLater && f.multiFuncLater) {
			// the exclusion of a recorded finding leaked: harness bug
			ctx.Inconclusive("generator exclusion leaked (order=%v multiread=%v multilater=%v)", f.recordedDiffer, f.multiRead, f.multiFuncLater)
		}
		c := &Case{Files: p.tree, Entry: p.entry}
		id, nat := batch.Ensure(p.tree)
		out := pool.Run(job(batch, id, c), 3*time.Minute)
		v := compare(nat, &out, an)
		ctx.Eval()
		switch {
		case v.Inconclusive != "":
			ctx.Inconclusive("%s", v.Inconclusive)
		case v.Discard != "":
			discards++
			ctx.Class("discard:" + v.Discard)
		case v.Sig != "":
			ctx.CaseFail(t, signature(v.Verdict, f), v.Msg, c)
		default:
			if v.indep {
				ctx.Class("independent-packages-in-other-order")
			}
			for _, k := range p.classes {
				ctx.Class(k)
			}
			for _, k := range p.repaired {
				ctx.Excluded(k)
			}
			classify(ctx, f)
			if f.nontrivial() {
				ctx.Nontrivial(treeKey(p.tree))
			}
			ctx.Sample(map[string]any{"files": p.tree, "entry": p.entry, "native_stdout": nat.Stdout}, 1)
		}
		ctx.Done()
	})
	if discards*50 > ctx.Cases && ctx.Cases >= 50 {
		ctx.Inconclusive("%d of %d cases discarded (native side)", discards, ctx.Cases)
	}
}

func classify(ctx *vf.Ctx, f facts) {
	ctx.Class(fmt.Sprintf("npackages=%d", f.npackages))
	ctx.Class(fmt.Sprintf("max-files-per-package=%d", f.maxFiles))
	switch {
	case f.nvars <= 6:
		ctx.Class("nvars=4-6")
	case f.nvars <= 10:
		ctx.Class("nvars=7-10")
	default:
		ctx.Class("nvars=11-14")
	}
	switch {
	case f.ninit == 0:
		ctx.Class("ninit=0")
	case f.ninit <= 2:
		ctx.Class("ninit=1-2")
	default:
		ctx.Class("ninit>=3")
	}
	if f.reordered {
		ctx.Class("required-order-differs-from-declaration-order")
	}
	if f.reordered && f.indirect {
		ctx.Class("reordered-with-indirect-dependency")
	}
	if f.hiddenMatters {
		ctx.Class("indirect-dependency-decides-order")
	}
	if f.passMatters {
		ctx.Class("back-jump-to-earlier-declaration-needed")
	}
	if f.fileOrder {
		ctx.Class("file-order-matters")
	}
	if f.diamond {
		ctx.Class("package-imported-twice-or-diamond")
	}
	if f.multiCall {
		ctx.Class("multi-var-from-call")
	}
	if f.multiNN {
		ctx.Class("multi-var-n-to-n")
	}
	if f.nnMatters {
		ctx.Class("n-to-n-spec-members-ordered-apart")
	}
}

func treeKey(t oracle.Tree) string {
	var names []string
	for k := range t {
		names = append(names, k)
	}
	sort.Strings(names)
	var b strings.Builder
	for _, k := range names {
		b.WriteString(k)
		b.WriteByte(0)
		b.WriteString(t[k])
		b.WriteByte(0)
	}
	return b.String()
}

func shrinkTime(ctx *vf.Ctx) time.Duration {
	if ctx.Tier == "thorough" {
		return 3 * time.Minute
	}
	return 60 * time.Second
}

func replay(ctx *vf.Ctx, data json.RawMessage) (string, string) {
	var c Case
	if err := json.Unmarshal(data, &c); err != nil {
		return "bad replay file: " + err.Error(), "harness"
	}
	an, err := analyze(c.Files)
	if err != nil {
		return "", "" // not a valid program: nothing to judge
	}
	batch, err := oracle.NewBatch(filepath.Join(ctx.Scratch, "oracle"))
	if err != nil {
		return "oracle: " + err.Error(), "harness"
	}
	id, nat := batch.Ensure(c.Files)
	pool := yrun.NewPool(1, filepath.Join(ctx.Scratch, "workers"))
	defer pool.Close()
	out := pool.Run(job(batch, id, &c), 3*time.Minute)
	v := compare(nat, &out, an)
	f := an.facts(config(ctx))
	if v.Discard != "" || v.Inconclusive != "" || v.Sig == "" || f.specDiffers {
		return "", ""
	}
	return v.Msg, signature(v.Verdict, f)
}

func init() {
	vf.Register(&vf.Check{
		ID:    "C15",
		Level: "exploration",
		Rule: "case = one program drawn by the dependency-graph generator: 4-14 package-level variables over 1-4 packages (main plus 0-3 imported packages forming a DAG, shared imports and diamonds) and 1-3 files per package; " +
			"a hidden topological order fixes the dependencies, the declaration order is an independent permutation spread over the files; edges are direct identifiers, calls of functions whose bodies (1-3 levels) read the variable, methods (value and pointer receivers, method values, method expressions), function literals, func-typed variables, function values referenced but not called, var a, b = f(), var a, b = x, y, blank variables, grouped var blocks, references to variables and functions of imported packages; " +
			"every initialiser logs name and value, each file has 0-2 init functions that print and update a variable, main prints the final values; main is evaluated as a file or (always when it has several files) as a package directory; " +
			"oracle = stdout of the native build of the same tree (per package and importer-before-imported when only the order of unrelated packages differs); " +
			"non-trivial = (required order differs from declaration order in a package that has a dependency that is not a direct identifier reference) or (a variable depends on one declared in a later file, or init functions in two files of a package) or (>=2 packages and one imported by two); distinct by source tree",
		Assumptions: []string{
			"the installed Go toolchain (go1.23, language level go1.22) and go/types Info.InitOrder are the reference; the go command and the interpreter both present the files of a package sorted by name",
			"the relative initialisation order of packages that do not import each other is not part of the property statement and is not demanded (differences are counted in class independent-packages-in-other-order)",
			"initialisers only read variables; no dependency hidden behind interface method calls or function values stored in data",
			"graphs whose order exposes a recorded known finding are repaired by the generator (excluded_by_construction counts them)",
		},
		Cases:  map[string]int{"quick": 800, "thorough": 8000},
		Shards: map[string]int{"quick": 8, "thorough": 16},
		Run:    run,
		Replay: replay,
	})
}
