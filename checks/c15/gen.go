package c15

import (
	"fmt"
	"sort"
	"strings"

	"pgregory.net/rapid"

	"verif/internal/oracle"
)

// program is one generated case.
type program struct {
	tree     oracle.Tree
	entry    string
	classes  []string
	repaired []string // recorded findings whose trigger was removed from this graph
}

// gterm is one summand of an initialiser: a reference to an earlier variable
// (in the hidden topological order) of the same package, or to an imported
// package.
type gterm struct {
	kind   string // direct closure func chain method ptrmethod methodval methodexpr funcref xvar xsum
	dep    int    // hidden index of the variable referred to (-1 for x*)
	k      int
	xpkg   int
	xvar   int
	helper string
}

type gvar struct {
	name  string
	label string
	fn    bool // func-typed variable holding a function literal
	blank bool
	typed bool
	pair  int // 0 none, 1 first of `a, b = f()`, 2 second
	body  bool
	k     int
	terms []gterm
}

type gpkg struct {
	idx     int
	name    string // package name = directory ("" dir for main)
	imports []int
	files   []string
	vars    []*gvar      // hidden topological order
	units   [][]int      // variables initialised together, in hidden order
	decl    []int        // unit indices in declaration order
	ufile   []int        // file of each unit
	merged  map[int]bool // unit is written together with the next unit in declaration order: `var a, b = x, y`
	items   [][]item
}

type item struct {
	text   string
	unit   int // >= 0: variable unit (text is the spec without "var ")
	uses   map[string]bool
	before int  // > 0: must precede the variable unit before-1 in its file (recorded finding)
	open   bool // first half of `var a, b = x, y`, waiting for the second
}

var indirectKinds = []string{"func", "chain", "method", "ptrmethod", "methodval", "methodexpr", "funcref", "cycle", "cycle", "cycle", "cycle", "recvcall", "mapkeyfn"}

// receiverKinds: the variable is read by the receiver operand of a method call
// or method value written in the initialiser itself (a reference as visible as
// a direct one, but reached through the operand of a method selector).
//
// mapkey, mapval, structval: the variable is read by the key or by the value
// of a keyed element of a composite literal written in the initialiser
// (mapkeyfn: in the body of a function called by the initialiser).
var receiverKinds = []string{"recvconv", "recvval", "recvlit", "recvptr", "recvindex", "mapkey", "mapkey", "mapval", "structval"}

var sevenBits = rapid.SliceOfN(rapid.Bool(), 7, 7)

// pct draws a nearly uniform percentage: rapid's integer generators favour
// small values (a third of IntRange(0, 99) is below 5), fair bits do not.
// All bits false (the shrink target) is 0.
func pct(t *rapid.T, label string) int {
	k := 0
	for _, b := range sevenBits.Draw(t, label) {
		k <<= 1
		if b {
			k |= 1
		}
	}
	return k * 100 / 128
}

type gen struct {
	t       *rapid.T
	sw      switches
	pkgs    []*gpkg
	nhelper int
	classes map[string]bool
	shared  bool
	// recorded findings whose trigger was avoided in this program
	repaired map[string]bool
}

func generate(t *rapid.T, sw switches) *program {
	g := &gen{t: t, sw: sw, classes: map[string]bool{}, repaired: map[string]bool{}}
	// packages
	npk := 1
	switch r := pct(t, "npk"); {
	case r >= 85:
		npk = 4
	case r >= 58:
		npk = 3
	case r >= 30:
		npk = 2
	}
	nvars := 4 + pct(t, "nvars")*11/100
	counts := make([]int, npk)
	for i := range counts {
		counts[i] = 1
	}
	for i := npk; i < nvars; i++ {
		counts[rapid.IntRange(0, npk-1).Draw(t, "varpkg")]++
	}
	names := rapid.Permutation([]string{"ka", "kb", "kc"}).Draw(t, "pkgnames")
	g.shared = pct(t, "sharednames") < 25
	if g.shared && npk > 1 {
		g.classes["same-variable-names-in-several-packages"] = true
	}
	for i := 0; i < npk; i++ {
		p := &gpkg{idx: i, name: "main"}
		if i > 0 {
			p.name = names[i-1]
		}
		g.pkgs = append(g.pkgs, p)
	}
	// import DAG: package k is imported by at least one package before it
	for k := 1; k < npk; k++ {
		first := rapid.IntRange(0, k-1).Draw(t, "importer")
		for j := 0; j < k; j++ {
			if j == first || pct(t, "import") < 45 {
				g.pkgs[j].imports = append(g.pkgs[j].imports, k)
			}
		}
	}
	// files
	entry := "file"
	for _, p := range g.pkgs {
		nf := 1
		switch r := pct(t, "nfiles"); {
		case r >= 72:
			nf = 3
		case r >= 38:
			nf = 2
		}
		pool := []string{"aa.go", "bb.go", "mm.go", "zz.go"}
		if p.idx == 0 {
			pool = []string{"aa.go", "bb.go", "main.go", "zz.go"}
		}
		perm := rapid.Permutation(pool).Draw(t, "filenames")
		p.files = append([]string{}, perm[:nf]...)
		if p.idx == 0 {
			if nf > 1 || pct(t, "entry") < 40 {
				entry = "dir"
			} else {
				p.files = []string{"main.go"}
			}
		}
		sort.Strings(p.files)
		p.items = make([][]item, nf)
	}
	for i, p := range g.pkgs {
		g.drawVars(p, counts[i])
	}
	for _, p := range g.pkgs {
		g.drawTerms(p)
		g.drawDeclOrder(p)
		g.drawMerges(p)
	}
	for _, p := range g.pkgs {
		for _, k := range g.repair(p) {
			g.repaired[k] = true
		}
	}
	for _, p := range g.pkgs {
		g.render(p)
	}
	tree := oracle.Tree{}
	for _, p := range g.pkgs {
		g.emit(p, tree)
	}
	g.classes["entry="+entry] = true
	g.classes[fmt.Sprintf("main-files=%d", len(g.pkgs[0].files))] = true
	pr := &program{tree: tree, entry: entry}
	for k := range g.repaired {
		pr.repaired = append(pr.repaired, k)
	}
	sort.Strings(pr.repaired)
	for k := range g.classes {
		pr.classes = append(pr.classes, k)
	}
	sort.Strings(pr.classes)
	return pr
}

func (g *gen) prefix(p *gpkg) string {
	if g.shared {
		return "V"
	}
	if p.idx == 0 {
		return "M"
	}
	return strings.ToUpper(p.name[1:])
}

func (g *gen) drawVars(p *gpkg, n int) {
	t := g.t
	pre := g.prefix(p)
	for i := 0; i < n; i++ {
		v := &gvar{name: fmt.Sprintf("%s%c", pre, 'a'+i), k: rapid.IntRange(1, 9).Draw(t, "k")}
		v.label = v.name
		p.vars = append(p.vars, v)
	}
	for i := 0; i < n; i++ {
		v := p.vars[i]
		if v.pair == 2 {
			continue
		}
		r := pct(t, "varform")
		switch {
		case r < 10:
			v.blank = true
			v.name = "_"
			v.label = fmt.Sprintf("_%d", i)
			g.classes["form:blank-variable"] = true
		case r < 22:
			v.fn = true
			g.classes["form:func-typed-variable"] = true
		case r < 38 && i+1 < n && g.sw.knownMultiVal && p.idx > 0:
			// recorded finding: variables of `var a, b = f()` cannot be read from other packages
			g.repaired[keyMultiVal] = true
		case r < 38 && i+1 < n:
			if g.sw.knownMultiVal {
				g.repaired[keyMultiVal] = true // nothing may depend on them
			}
			v.pair = 1
			p.vars[i+1].pair = 2
			v.body = pct(t, "pairbody") < 50
			p.vars[i+1].body = v.body
			if v.body {
				g.classes["form:multi-var-from-call-of-own-function"] = true
			} else {
				g.classes["form:multi-var-from-call-inline-args"] = true
			}
		}
		if !v.blank && v.pair == 0 && pct(t, "typed") < 20 {
			v.typed = true
			g.classes["form:typed-declaration"] = true
		}
	}
	for i := 0; i < n; i++ {
		switch p.vars[i].pair {
		case 1:
			p.units = append(p.units, []int{i, i + 1})
		case 0:
			p.units = append(p.units, []int{i})
		}
	}
}

func (g *gen) drawTerms(p *gpkg) {
	t := g.t
	for i, v := range p.vars {
		var eligible []int
		for j := 0; j < i; j++ {
			if p.vars[j].blank || (v.pair == 2 && j == i-1) || (g.sw.knownMultiVal && p.vars[j].pair != 0) {
				continue
			}
			eligible = append(eligible, j)
		}
		nd := 0
		switch r := pct(t, "ndeps"); {
		case r >= 85:
			nd = 3
		case r >= 55:
			nd = 2
		case r >= 20:
			nd = 1
		}
		seen := map[int]bool{}
		for d := 0; d < nd && len(eligible) > 0; d++ {
			// prefer recent variables: long chains
			j := eligible[len(eligible)-1-rapid.IntRange(0, len(eligible)-1).Draw(t, "dep")]
			if seen[j] {
				continue
			}
			seen[j] = true
			tm := gterm{dep: j, k: rapid.IntRange(1, 5).Draw(t, "tk")}
			switch r := pct(t, "kind"); {
			case r < 30:
				tm.kind = "direct"
			case r < 40:
				tm.kind = "closure"
			case r < 52:
				tm.kind = receiverKinds[pct(t, "recvkind")*len(receiverKinds)/100]
			default:
				tm.kind = indirectKinds[pct(t, "indirect")*len(indirectKinds)/100]
			}
			v.terms = append(v.terms, tm)
		}
		if pct(t, "fieldname") < 12 {
			// a keyed struct literal whose field is named like another variable of
			// the package (declared anywhere): not a reference to that variable
			var cand []int
			for j, w := range p.vars {
				if j != i && !w.blank {
					cand = append(cand, j)
				}
			}
			if len(cand) > 0 {
				v.terms = append(v.terms, gterm{dep: -1, kind: "fieldname", xvar: cand[rapid.IntRange(0, len(cand)-1).Draw(t, "fieldvar")], k: rapid.IntRange(1, 5).Draw(t, "fk")})
			}
		}
		if len(p.imports) > 0 && pct(t, "xref") < 25 {
			q := p.imports[rapid.IntRange(0, len(p.imports)-1).Draw(t, "xpkg")]
			tm := gterm{dep: -1, xpkg: q, kind: "xsum"}
			var cand []int
			for j, w := range g.pkgs[q].vars {
				if !w.blank {
					cand = append(cand, j)
				}
			}
			if len(cand) > 0 && pct(t, "xkind") < 60 {
				tm.kind = "xvar"
				tm.xvar = cand[rapid.IntRange(0, len(cand)-1).Draw(t, "xvar")]
			}
			v.terms = append(v.terms, tm)
			g.classes["edge:imported-package-"+tm.kind[1:]] = true
		}
	}
}

// drawDeclOrder permutes the units (starting from the hidden order, a drawn
// number of units is moved to drawn positions) and spreads them over the files.
func (g *gen) drawDeclOrder(p *gpkg) {
	t := g.t
	n := len(p.units)
	order := make([]int, n)
	for i := range order {
		order[i] = i
	}
	moves := pct(t, "moves") * (n + 1) / 100
	for m := 0; m < moves && n > 1; m++ {
		from := rapid.IntRange(0, n-1).Draw(t, "from")
		to := rapid.IntRange(0, n-1).Draw(t, "to")
		u := order[from]
		order = append(order[:from], order[from+1:]...)
		order = append(order[:to], append([]int{u}, order[to:]...)...)
	}
	p.ufile = make([]int, n)
	for _, u := range order {
		p.ufile[u] = rapid.IntRange(0, len(p.files)-1).Draw(t, "file")
	}
	sort.SliceStable(order, func(a, b int) bool { return p.ufile[order[a]] < p.ufile[order[b]] })
	p.decl = order
}

func visibleKind(k string) bool {
	switch k {
	case "direct", "closure", "recvconv", "recvval", "recvlit", "recvptr", "recvindex", "mapkey", "mapval", "structval":
		return true
	}
	return false
}

func (g *gen) unitOf(p *gpkg) map[int]int {
	m := map[int]int{}
	for u, vs := range p.units {
		for _, v := range vs {
			m[v] = u
		}
	}
	return m
}

// drawMerges picks adjacent one-variable declarations of a file that are
// written as one spec `var a, b = x, y`.
func (g *gen) drawMerges(p *gpkg) {
	p.merged = map[int]bool{}
	unitOf := g.unitOf(p)
	refers := func(a, b int) bool {
		for _, tm := range p.vars[p.units[a][0]].terms {
			if tm.dep >= 0 && unitOf[tm.dep] == b {
				return true
			}
		}
		return false
	}
	for i := 0; i+1 < len(p.decl); i++ {
		a, b := p.decl[i], p.decl[i+1]
		if len(p.units[a]) != 1 || len(p.units[b]) != 1 || p.ufile[a] != p.ufile[b] {
			continue
		}
		va, vb := p.vars[p.units[a][0]], p.vars[p.units[b][0]]
		if va.typed != vb.typed || (va.typed && va.fn != vb.fn) {
			continue
		}
		if pct(g.t, "nn") >= 25 {
			continue
		}
		if g.sw.knownNN && (refers(a, b) || refers(b, a)) {
			// recorded finding: the two initialisers are evaluated before either variable is set
			g.repaired[keyNN] = true
			continue
		}
		p.merged[a] = true
		i++
	}
}

// model builds the ordering problem of the package from the generator's graph.
func (g *gen) model(p *gpkg) *omodel {
	n := len(p.units)
	unitOf := g.unitOf(p)
	rank := make([]int, n)
	for pos, u := range p.decl {
		rank[u] = pos
	}
	m := &omodel{}
	spec := 0
	for pos, u := range p.decl {
		full, direct := map[int]bool{}, map[int]bool{}
		for _, v := range p.units[u] {
			gv := p.vars[v]
			for _, tm := range gv.terms {
				if tm.dep < 0 || unitOf[tm.dep] == u {
					continue
				}
				r := rank[unitOf[tm.dep]]
				full[r] = true
				if visibleKind(tm.kind) && !gv.body {
					direct[r] = true
				}
			}
		}
		m.full = append(m.full, full)
		m.direct = append(m.direct, direct)
		if pos == 0 || !p.merged[p.decl[pos-1]] {
			spec++
		}
		m.spec = append(m.spec, spec)
	}
	return m
}

// repair removes the triggers of recorded findings from the graph of one
// package: it compares the required order with the order a model of the
// recorded defects predicts and, while they differ, splits a `var a, b = x, y`
// spec (multi-var-spec-single-unit), turns an indirect reference into a direct
// one (dep-through-func-body) or drops a forward reference (multi-pass-order).
// Without recorded findings it does nothing.
func (g *gen) repair(p *gpkg) []string {
	sw := g.sw
	if !sw.knownFuncBody && !sw.knownMultiPass && !sw.knownNN {
		return nil
	}
	unitOf := g.unitOf(p)
	var out []string
	for iter := 0; iter < 500; iter++ {
		m := g.model(p)
		want := m.required()
		got := m.recorded(sw.knownFuncBody, sw.knownMultiPass, sw.knownNN)
		if sameOrder(want, got) {
			return out
		}
		rank := make([]int, len(p.units))
		for pos, u := range p.decl {
			rank[u] = pos
		}
		i := 0
		for i < len(got) && i < len(want) && got[i] == want[i] {
			i++
		}
		if sw.knownNN {
			// a spec holding the variable the specification wants next, or the one the model picked, is split
			split := -1
			cands := []int{want[i]}
			if i < len(got) {
				cands = append(cands, got[i])
			}
			for _, pos := range cands {
				if split >= 0 {
					break
				}
				if p.merged[p.decl[pos]] {
					split = p.decl[pos]
				} else if pos > 0 && p.merged[p.decl[pos-1]] {
					split = p.decl[pos-1]
				}
			}
			if split < 0 && i >= len(got) {
				// the model is stuck in a false cycle through a spec
				for _, u := range p.decl {
					if p.merged[u] {
						split = u
						break
					}
				}
			}
			if split >= 0 {
				delete(p.merged, split)
				out = append(out, keyNN)
				continue
			}
		}
		if i >= len(got) {
			return out // cannot happen; the leak self-check in run() reports it
		}
		inited := map[int]bool{}
		for _, x := range want[:i] {
			inited[x] = true
		}
		fixed := false
		mpos := got[i]
		// is the model's choice really ready?
		for _, v := range p.units[p.decl[mpos]] {
			gv := p.vars[v]
			for ti := range gv.terms {
				tm := &gv.terms[ti]
				if tm.dep >= 0 && unitOf[tm.dep] != p.decl[mpos] && !inited[rank[unitOf[tm.dep]]] && (!visibleKind(tm.kind) || gv.body) {
					tm.kind = "direct"
					if gv.body {
						for _, w := range p.units[p.decl[mpos]] {
							p.vars[w].body = false
						}
					}
					fixed = true
				}
			}
		}
		if fixed {
			out = append(out, keyFuncBody)
			continue
		}
		// the model deferred want[i] to a later pass: drop its forward
		// reference that was satisfied last
		nn := want[i]
		bestV, bestT, bestAt := -1, -1, -1
		for _, v := range p.units[p.decl[nn]] {
			for ti, tm := range p.vars[v].terms {
				if tm.dep < 0 {
					continue
				}
				r := rank[unitOf[tm.dep]]
				if r <= nn {
					continue
				}
				if sw.knownFuncBody && (!visibleKind(tm.kind) || p.vars[v].body) {
					continue // not seen by the model: cannot be what deferred the variable
				}
				at := -1
				for x, y := range want[:i] {
					if y == r {
						at = x
					}
				}
				if at > bestAt {
					bestV, bestT, bestAt = v, ti, at
				}
			}
		}
		if bestV < 0 {
			return out // cannot happen; the leak self-check in run() reports it
		}
		ts := p.vars[bestV].terms
		p.vars[bestV].terms = append(ts[:bestT:bestT], ts[bestT+1:]...)
		out = append(out, keyMultiPass)
	}
	return out
}

func (g *gen) ref(p *gpkg, j int) string {
	if p.vars[j].fn {
		return p.vars[j].name + "()"
	}
	return p.vars[j].name
}

func (g *gen) helperName(pre string) string {
	g.nhelper++
	return fmt.Sprintf("%s%d", pre, g.nhelper)
}

// place inserts a non-variable item at a drawn position of a drawn file.
func (g *gen) place(p *gpkg, it item) int {
	it.unit = -1
	f := rapid.IntRange(0, len(p.files)-1).Draw(g.t, "itemfile")
	pos := rapid.IntRange(0, len(p.items[f])).Draw(g.t, "itempos")
	if it.before > 0 && g.sw.knownMultiLater {
		// recorded finding: the function called by `var a, b = f()` has to be declared before
		for ff := range p.items {
			for x, o := range p.items[ff] {
				if o.unit == it.before-1 {
					if f > ff || (f == ff && pos > x) {
						g.repaired[keyMultiLater] = true
						if f > ff {
							f, pos = ff, x
						}
						if pos > x {
							pos = x
						}
					}
				}
			}
		}
	}
	p.items[f] = append(p.items[f][:pos], append([]item{it}, p.items[f][pos:]...)...)
	return f
}

func (g *gen) render(p *gpkg) {
	t := g.t
	tagName := p.name
	// variable units in declaration order
	var helpers []item
	funcFor := map[int]string{} // dep -> reusable plain helper
	// dep -> mutually recursive helpers A, B: A(n) reads the variable when n
	// reaches 0 and calls B otherwise, B(n) calls A. Several initialisers enter
	// the same cycle at different functions.
	cycleFor := map[int][2]string{}
	cycleFirst := map[int]int{} // dep -> function the cycle was entered at first
	cycleCall := func(dep int, r string) string {
		c, ok := cycleFor[dep]
		if !ok {
			c = [2]string{g.helperName("f"), g.helperName("f")}
			cycleFor[dep] = c
			helpers = append(helpers, item{text: fmt.Sprintf("func %s(n int) int {\n\tif n <= 0 {\n\t\treturn %s\n\t}\n\treturn %s(n - 1)\n}\n", c[0], r, c[1])})
			helpers = append(helpers, item{text: fmt.Sprintf("func %s(n int) int {\n\tif n <= 0 {\n\t\treturn 0\n\t}\n\treturn %s(n - 1)\n}\n", c[1], c[0])})
			g.classes["edge:cycle-entered-first"] = true
			if pct(t, "cyclefirst") < 50 {
				cycleFirst[dep] = 0
				return c[0] + "(2)"
			}
			cycleFirst[dep] = 1
			return c[1] + "(1)"
		}
		g.classes["edge:cycle-entered-again"] = true
		// a later initialiser mostly enters the cycle at the other function
		other := pct(t, "cycleagain") < 70
		if (cycleFirst[dep] == 0) == other {
			g.classes["edge:cycle-entered-at-the-other-function"] = true
			return c[1] + fmt.Sprintf("(%d)", 1+2*rapid.IntRange(0, 1).Draw(t, "cyclen"))
		}
		return c[0] + fmt.Sprintf("(%d)", 2*rapid.IntRange(0, 2).Draw(t, "cyclen"))
	}
	need := map[string]bool{}
	firstInline := 0 // first (in declaration order) unit calling pairlog, +1
	expr := func(v *gvar) (string, map[string]bool) {
		uses := map[string]bool{}
		parts := []string{fmt.Sprint(v.k)}
		for _, tm := range v.terms {
			switch tm.kind {
			case "xvar":
				q := g.pkgs[tm.xpkg]
				parts = append(parts, q.name+"."+g.ref(q, tm.xvar))
				uses["PKGROOT/"+q.name] = true
				continue
			case "xsum":
				q := g.pkgs[tm.xpkg]
				parts = append(parts, q.name+".Sum()")
				uses["PKGROOT/"+q.name] = true
				continue
			case "fieldname":
				fn := p.vars[tm.xvar].name
				g.classes["edge:none-struct-field-named-like-a-variable"] = true
				parts = append(parts, fmt.Sprintf("struct{ %s int }{%s: %d}.%s", fn, fn, tm.k, fn))
				continue
			}
			r := g.ref(p, tm.dep)
			g.classes["edge:"+tm.kind] = true
			if p.vars[tm.dep].fn {
				g.classes["edge:call-of-func-typed-variable"] = true
			}
			switch tm.kind {
			case "direct":
				parts = append(parts, r)
			case "closure":
				parts = append(parts, fmt.Sprintf("func() int { return %s + %d }()", r, tm.k))
			case "mapkey":
				need["keysum"] = true
				parts = append(parts, fmt.Sprintf("keysum(map[int]int{%s: %d})", r, tm.k))
			case "mapval":
				parts = append(parts, fmt.Sprintf("map[int]int{%d: %s}[%d]", tm.k, r, tm.k))
			case "structval":
				parts = append(parts, fmt.Sprintf("struct{ n int }{n: %s}.n", r))
			case "mapkeyfn":
				need["keysum"] = true
				name := g.helperName("f")
				helpers = append(helpers, item{text: fmt.Sprintf("func %s() int { return keysum(map[int]int{%s: %d}) }\n", name, r, tm.k)})
				parts = append(parts, name+"()")
			case "cycle":
				parts = append(parts, cycleCall(tm.dep, r))
			case "func", "funcref":
				if _, ok := cycleFor[tm.dep]; ok && tm.kind == "func" && pct(t, "joincycle") < 60 {
					parts = append(parts, cycleCall(tm.dep, r))
					break
				}
				name, ok := funcFor[tm.dep]
				if ok && pct(t, "reuse") < 50 {
					g.classes["helper-function-shared-by-several-initialisers"] = true
				} else {
					name = g.helperName("f")
					helpers = append(helpers, item{text: fmt.Sprintf("func %s() int { return %s + %d }\n", name, r, tm.k)})
					funcFor[tm.dep] = name
				}
				if tm.kind == "func" {
					parts = append(parts, name+"()")
				} else {
					need["keep"] = true
					parts = append(parts, fmt.Sprintf("keep(%d, %s)", tm.k, name))
				}
			case "chain":
				depth := rapid.IntRange(2, 3).Draw(t, "depth")
				inner := r
				var name string
				for d := 0; d < depth; d++ {
					name = g.helperName("f")
					helpers = append(helpers, item{text: fmt.Sprintf("func %s() int { return %s + %d }\n", name, inner, d+1)})
					inner = name + "()"
				}
				parts = append(parts, inner)
			case "recvconv", "recvval":
				tn := g.helperName("t")
				helpers = append(helpers, item{text: fmt.Sprintf("type %s int\n", tn)})
				helpers = append(helpers, item{text: fmt.Sprintf("func (r %s) get() int { return int(r) + %d }\n", tn, tm.k)})
				if tm.kind == "recvconv" {
					parts = append(parts, fmt.Sprintf("%s(%s).get()", tn, r))
				} else {
					need["call"] = true
					parts = append(parts, fmt.Sprintf("call(%s(%s).get)", tn, r))
				}
			case "recvlit", "recvptr", "recvindex", "recvcall":
				tn := g.helperName("t")
				recv := "r " + tn
				if tm.kind == "recvptr" {
					recv = "r *" + tn
				}
				helpers = append(helpers, item{text: fmt.Sprintf("type %s struct{ n int }\n", tn)})
				helpers = append(helpers, item{text: fmt.Sprintf("func (%s) get() int { return r.n + %d }\n", recv, tm.k)})
				switch tm.kind {
				case "recvlit":
					parts = append(parts, fmt.Sprintf("%s{%s}.get()", tn, r))
				case "recvptr":
					parts = append(parts, fmt.Sprintf("(&%s{%s}).get()", tn, r))
				case "recvindex":
					parts = append(parts, fmt.Sprintf("[]%s{{%s}}[0].get()", tn, r))
				default:
					mk := g.helperName("f")
					helpers = append(helpers, item{text: fmt.Sprintf("func %s() %s { return %s{%s} }\n", mk, tn, tn, r)})
					parts = append(parts, mk+"().get()")
				}
			case "method", "ptrmethod", "methodval", "methodexpr":
				tn := g.helperName("t")
				recv := "r " + tn
				if tm.kind == "ptrmethod" {
					recv = "r *" + tn
				}
				helpers = append(helpers, item{text: fmt.Sprintf("type %s struct{ n int }\n", tn)})
				helpers = append(helpers, item{text: fmt.Sprintf("func (%s) get() int { return %s + r.n }\n", recv, r)})
				switch tm.kind {
				case "method":
					parts = append(parts, fmt.Sprintf("%s{%d}.get()", tn, tm.k))
				case "ptrmethod":
					parts = append(parts, fmt.Sprintf("(&%s{%d}).get()", tn, tm.k))
				case "methodval":
					need["call"] = true
					parts = append(parts, fmt.Sprintf("call(%s{%d}.get)", tn, tm.k))
				case "methodexpr":
					parts = append(parts, fmt.Sprintf("%s.get(%s{%d})", tn, tn, tm.k))
				}
			}
		}
		return strings.Join(parts, " + "), uses
	}
	for _, u := range p.decl {
		vs := p.units[u]
		v := p.vars[vs[0]]
		var text string
		var uses map[string]bool
		switch {
		case len(vs) == 2:
			w := p.vars[vs[1]]
			e1, u1 := expr(v)
			e2, u2 := expr(w)
			for k := range u2 {
				u1[k] = true
			}
			if v.body {
				name := g.helperName("g")
				need["logv"] = true
				helpers = append(helpers, item{text: fmt.Sprintf("func %s() (int, int) {\n\treturn logv(%q, %s), logv(%q, %s)\n}\n", name, v.label, e1, w.label, e2), uses: u1, before: u + 1})
				text = fmt.Sprintf("%s, %s = %s()", v.name, w.name, name)
				uses = nil
			} else {
				need["pairlog"] = true
				if firstInline == 0 {
					firstInline = u + 1
				}
				text = fmt.Sprintf("%s, %s = pairlog(%q, %q, %s, %s)", v.name, w.name, v.label, w.label, e1, e2)
				uses = u1
			}
		case v.fn:
			e, us := expr(v)
			need["logf"] = true
			ty := ""
			if v.typed {
				ty = " func() int"
			}
			text = fmt.Sprintf("%s%s = logf(%q, func() int { return %s })", v.name, ty, v.label, e)
			uses = us
		default:
			e, us := expr(v)
			need["logv"] = true
			ty := ""
			if v.typed {
				ty = " int"
			}
			text = fmt.Sprintf("%s%s = logv(%q, %s)", v.name, ty, v.label, e)
			uses = us
		}
		f := p.ufile[u]
		if n := len(p.items[f]); n > 0 && p.items[f][n-1].open {
			// second half of `var a, b = x, y`
			prev := &p.items[f][n-1]
			l1, r1, _ := strings.Cut(prev.text, " = ")
			l2, r2, _ := strings.Cut(text, " = ")
			if v.typed {
				ty := " int"
				if v.fn {
					ty = " func() int"
				}
				l1 = strings.TrimSuffix(l1, ty)
			}
			prev.text = l1 + ", " + l2 + " = " + r1 + ", " + r2
			if prev.uses == nil {
				prev.uses = map[string]bool{}
			}
			for k := range uses {
				prev.uses[k] = true
			}
			prev.open = false
			g.classes["form:multi-var-n-to-n"] = true
			continue
		}
		p.items[f] = append(p.items[f], item{text: text, unit: u, uses: uses, open: p.merged[u]})
	}
	for _, h := range helpers {
		g.place(p, h)
	}
	fmtUse := map[string]bool{"fmt": true}
	if need["logv"] {
		g.place(p, item{uses: fmtUse, text: fmt.Sprintf("func logv(name string, v int) int {\n\tfmt.Println(\"%s: var\", name, v)\n\treturn v\n}\n", tagName)})
	}
	if need["logf"] {
		g.place(p, item{uses: fmtUse, text: fmt.Sprintf("func logf(name string, f func() int) func() int {\n\tfmt.Println(\"%s: var\", name, \"func\")\n\treturn f\n}\n", tagName)})
	}
	if need["pairlog"] {
		g.place(p, item{uses: fmtUse, before: firstInline, text: fmt.Sprintf("func pairlog(n1, n2 string, v1, v2 int) (int, int) {\n\tfmt.Println(\"%s: var\", n1, v1)\n\tfmt.Println(\"%s: var\", n2, v2)\n\treturn v1, v2\n}\n", tagName, tagName)})
	}
	if need["keep"] {
		g.place(p, item{text: "func keep(v int, f func() int) int { return v }\n"})
	}
	if need["call"] {
		g.place(p, item{text: "func call(f func() int) int { return f() }\n"})
	}
	if need["keysum"] {
		g.place(p, item{text: "func keysum(m map[int]int) int {\n\ts := 0\n\tfor k, v := range m {\n\t\ts += k + v\n\t}\n\treturn s\n}\n"})
	}
	// init functions
	var mutable []int
	for j, v := range p.vars {
		if !v.blank && !v.fn {
			mutable = append(mutable, j)
		}
	}
	for f := range p.files {
		ni := 0
		switch r := pct(t, "ninit"); {
		case r >= 80:
			ni = 2
		case r >= 40:
			ni = 1
		}
		for k := 1; k <= ni; k++ {
			var b strings.Builder
			b.WriteString("func init() {\n")
			if len(mutable) > 0 {
				v := p.vars[mutable[rapid.IntRange(0, len(mutable)-1).Draw(t, "initvar")]]
				c := rapid.IntRange(1, 9).Draw(t, "initk")
				fmt.Fprintf(&b, "\tfmt.Println(\"%s: init %s#%d\", %s)\n\t%s = %s*2 + %d\n", tagName, p.files[f], k, v.name, v.name, v.name, c)
			} else {
				fmt.Fprintf(&b, "\tfmt.Println(\"%s: init %s#%d\")\n", tagName, p.files[f], k)
			}
			b.WriteString("}\n")
			pos := rapid.IntRange(0, len(p.items[f])).Draw(t, "initpos")
			// init functions of one file keep their drawn textual order: the k-th is placed after the (k-1)-th
			if k == 2 {
				for x, it := range p.items[f] {
					if strings.HasPrefix(it.text, "func init()") && pos <= x {
						pos = x + 1
					}
				}
			}
			it := item{text: b.String(), unit: -1, uses: fmtUse}
			p.items[f] = append(p.items[f][:pos], append([]item{it}, p.items[f][pos:]...)...)
		}
	}
	// Sum / main
	var b strings.Builder
	uses := map[string]bool{}
	if p.idx == 0 {
		uses["fmt"] = true
		b.WriteString("func main() {\n\tfmt.Println(\"main: main\")\n")
		for _, v := range p.vars {
			if v.blank {
				continue
			}
			r := v.name
			if v.fn {
				r += "()"
			}
			fmt.Fprintf(&b, "\tfmt.Println(\"main: final %s\", %s)\n", v.name, r)
		}
		for _, q := range p.imports {
			fmt.Fprintf(&b, "\tfmt.Println(\"main: import %s\", %s.Sum())\n", g.pkgs[q].name, g.pkgs[q].name)
			uses["PKGROOT/"+g.pkgs[q].name] = true
		}
		b.WriteString("}\n")
	} else {
		b.WriteString("func Sum() int {\n\treturn 0")
		for j, v := range p.vars {
			if v.blank {
				continue
			}
			r := v.name
			if v.fn {
				r += "()"
			}
			fmt.Fprintf(&b, " + %d*%s", j+1, r)
		}
		for _, q := range p.imports {
			fmt.Fprintf(&b, " + %s.Sum()", g.pkgs[q].name)
			uses["PKGROOT/"+g.pkgs[q].name] = true
		}
		b.WriteString("\n}\n")
	}
	it := item{text: b.String(), uses: uses}
	if p.idx == 0 && len(p.files) > 1 {
		// func main goes into main.go when there is one
		placed := false
		for f, name := range p.files {
			if name == "main.go" {
				it.unit = -1
				pos := rapid.IntRange(0, len(p.items[f])).Draw(t, "mainpos")
				p.items[f] = append(p.items[f][:pos], append([]item{it}, p.items[f][pos:]...)...)
				placed = true
			}
		}
		if !placed {
			g.place(p, it)
		}
	} else {
		g.place(p, it)
	}
}

// emit writes the files of a package: grouping of adjacent variable
// declarations into var blocks and `a, b = x, y` specs is drawn here.
func (g *gen) emit(p *gpkg, tree oracle.Tree) {
	t := g.t
	for f, fname := range p.files {
		uses := map[string]bool{}
		var body strings.Builder
		items := p.items[f]
		specs := items
		for i := 0; i < len(specs); {
			it := specs[i]
			for k := range it.uses {
				uses[k] = true
			}
			if it.unit < 0 {
				body.WriteString("\n" + it.text)
				i++
				continue
			}
			run := 1
			for i+run < len(specs) && specs[i+run].unit >= 0 {
				run++
			}
			take := 1
			grouped := false
			if r := pct(t, "group"); r < 45 {
				take = 1 + rapid.IntRange(0, run-1).Draw(t, "grouplen")
				grouped = true
			}
			if grouped {
				g.classes["form:grouped-var-block"] = true
				body.WriteString("\nvar (\n")
				for _, s := range specs[i : i+take] {
					for k := range s.uses {
						uses[k] = true
					}
					body.WriteString("\t" + s.text + "\n")
				}
				body.WriteString(")\n")
			} else {
				body.WriteString("\nvar " + it.text + "\n")
			}
			i += take
		}
		// extra blank imports of packages this file does not otherwise use
		for _, q := range p.imports {
			ip := "PKGROOT/" + g.pkgs[q].name
			if pct(t, "blankimport") < 12 && !uses[ip] {
				uses["_ "+ip] = true
				g.classes["blank-import-in-another-file"] = true
			}
		}
		var imps []string
		for k := range uses {
			imps = append(imps, k)
		}
		sort.Slice(imps, func(a, b int) bool {
			return strings.TrimPrefix(imps[a], "_ ") < strings.TrimPrefix(imps[b], "_ ")
		})
		var src strings.Builder
		fmt.Fprintf(&src, "package %s\n", p.name)
		if len(imps) > 0 {
			src.WriteString("\nimport (\n")
			for _, k := range imps {
				if strings.HasPrefix(k, "_ ") {
					fmt.Fprintf(&src, "\t_ %q\n", strings.TrimPrefix(k, "_ "))
				} else {
					fmt.Fprintf(&src, "\t%q\n", k)
				}
			}
			src.WriteString(")\n")
		}
		src.WriteString(body.String())
		name := fname
		if p.idx > 0 {
			name = p.name + "/" + fname
		}
		tree[name] = src.String()
	}
}
