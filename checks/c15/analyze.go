package c15

import (
	"fmt"
	"go/ast"
	"go/importer"
	"go/parser"
	"go/token"
	"go/types"
	"path"
	"sort"
	"strconv"
	"strings"
	"sync"

	"verif/internal/oracle"
)

// This file derives, from the source tree alone (so that it works for replay
// files as well as for generated cases), what the Go specification requires:
// the import graph, the declaration order of the package-level variables, the
// reference graph (direct identifiers in the initialiser / everything reached
// through function and method bodies) and the required initialisation order
// (go/types Info.InitOrder).

// unit is one initialiser: a variable, or the variables of `var a, b = f()`.
type unit struct {
	names  []string
	file   string
	spec   int          // units of one `var a, b = x, y` spec share this number
	direct map[int]bool // units referenced by an identifier inside the initialiser expression (function literals included)
	full   map[int]bool // units referenced directly or through the bodies of referenced functions and methods
}

type pkgAn struct {
	dir     string // "" = program root
	name    string
	files   []string
	units   []*unit
	goOrder []int    // unit indices in the order required by the specification
	imports []string // dirs of imported packages of the program
	ninit   int
	initIn  map[string]bool // files holding init functions
	// a variable of `var a, b = f()` is read by an initialiser, inside a
	// function other than main and init, or from another package
	multiRead bool
	// `var a, b = f()` with f declared later in the presentation order
	multiFuncLater bool
	specDiffers    bool
}

type analysis struct {
	pkgs  map[string]*pkgAn
	order []string                // dirs, dependencies first
	multi map[types.Object]*pkgAn // variables declared by `var a, b = f()`
}

var (
	stdImpMu sync.Mutex
	stdImp   types.Importer
)

type treeImporter struct{ local map[string]*types.Package }

func (ti *treeImporter) Import(p string) (*types.Package, error) {
	if pk, ok := ti.local[p]; ok {
		return pk, nil
	}
	if strings.HasPrefix(p, anRoot) {
		return nil, fmt.Errorf("package %s not in the tree (or import cycle)", p)
	}
	if stdImp == nil {
		stdImp = importer.ForCompiler(token.NewFileSet(), "source", nil)
	}
	return stdImp.Import(p)
}

const anRoot = "oracle/x"

// analyze type-checks the tree. A non-nil error means the tree is not a valid
// program (a generator bug, never a finding).
func analyze(tree oracle.Tree) (*analysis, error) {
	stdImpMu.Lock()
	defer stdImpMu.Unlock()
	fset := token.NewFileSet()
	byDir := map[string][]string{}
	for name := range tree {
		if !strings.HasSuffix(name, ".go") {
			continue
		}
		d := path.Dir(name)
		if d == "." {
			d = ""
		}
		byDir[d] = append(byDir[d], name)
	}
	if len(byDir[""]) == 0 {
		return nil, fmt.Errorf("no main package")
	}
	parsed := map[string][]*ast.File{}
	an := &analysis{pkgs: map[string]*pkgAn{}, multi: map[types.Object]*pkgAn{}}
	for d, names := range byDir {
		sort.Strings(names)
		pa := &pkgAn{dir: d, files: names, initIn: map[string]bool{}}
		imps := map[string]bool{}
		for _, n := range names {
			f, err := parser.ParseFile(fset, n, strings.ReplaceAll(tree[n], "PKGROOT", anRoot), 0)
			if err != nil {
				return nil, err
			}
			parsed[d] = append(parsed[d], f)
			pa.name = f.Name.Name
			for _, im := range f.Imports {
				p, _ := strconv.Unquote(im.Path.Value)
				if strings.HasPrefix(p, anRoot+"/") {
					imps[strings.TrimPrefix(p, anRoot+"/")] = true
				}
			}
		}
		for k := range imps {
			if _, ok := byDir[k]; !ok {
				return nil, fmt.Errorf("import of missing package %s", k)
			}
			pa.imports = append(pa.imports, k)
		}
		sort.Strings(pa.imports)
		an.pkgs[d] = pa
	}
	// topological order of the packages reachable from main
	state := map[string]int{}
	var visit func(d string) error
	visit = func(d string) error {
		switch state[d] {
		case 1:
			return fmt.Errorf("import cycle through %q", d)
		case 2:
			return nil
		}
		state[d] = 1
		for _, k := range an.pkgs[d].imports {
			if err := visit(k); err != nil {
				return err
			}
		}
		state[d] = 2
		an.order = append(an.order, d)
		return nil
	}
	if err := visit(""); err != nil {
		return nil, err
	}
	ti := &treeImporter{local: map[string]*types.Package{}}
	for _, d := range an.order {
		pa := an.pkgs[d]
		info := &types.Info{Uses: map[*ast.Ident]types.Object{}, Defs: map[*ast.Ident]types.Object{}}
		conf := types.Config{Importer: ti}
		ipath := anRoot
		if d != "" {
			ipath = anRoot + "/" + d
		}
		pk, err := conf.Check(ipath, fset, parsed[d], info)
		if err != nil {
			return nil, err
		}
		ti.local[ipath] = pk
		if err := pa.fill(an, fset, pk, parsed[d], info); err != nil {
			return nil, err
		}
	}
	// drop packages main does not reach
	for d := range an.pkgs {
		if state[d] != 2 {
			delete(an.pkgs, d)
		}
	}
	return an, nil
}

func (pa *pkgAn) fill(an *analysis, fset *token.FileSet, pk *types.Package, files []*ast.File, info *types.Info) error {
	unitOf := map[types.Object]int{}
	funcDecl := map[types.Object]*ast.FuncDecl{}
	var rhs []ast.Expr
	var multiCalls []*ast.ValueSpec
	nspec := 0
	for _, f := range files {
		fname := fset.Position(f.Pos()).Filename
		for _, d := range f.Decls {
			switch d := d.(type) {
			case *ast.FuncDecl:
				if d.Recv == nil && d.Name.Name == "init" {
					pa.ninit++
					pa.initIn[fname] = true
					continue
				}
				if o := info.Defs[d.Name]; o != nil {
					funcDecl[o] = d
				}
			case *ast.GenDecl:
				if d.Tok != token.VAR {
					continue
				}
				for _, s := range d.Specs {
					vs := s.(*ast.ValueSpec)
					switch {
					case len(vs.Values) == 0:
						// no initialiser: always ready, never ordered
					case len(vs.Values) == len(vs.Names):
						nspec++
						for i, n := range vs.Names {
							u := &unit{names: []string{n.Name}, file: fname, spec: nspec}
							if o := info.Defs[n]; o != nil {
								unitOf[o] = len(pa.units)
							}
							pa.units = append(pa.units, u)
							rhs = append(rhs, vs.Values[i])
						}
					default:
						nspec++
						u := &unit{file: fname, spec: nspec}
						for _, n := range vs.Names {
							u.names = append(u.names, n.Name)
							if o := info.Defs[n]; o != nil {
								unitOf[o] = len(pa.units)
								an.multi[o] = pa
							}
						}
						multiCalls = append(multiCalls, vs)
						pa.units = append(pa.units, u)
						rhs = append(rhs, vs.Values[0])
					}
				}
			}
		}
	}
	// references
	type refs struct {
		vars  map[int]bool
		funcs map[types.Object]bool
	}
	collect := func(n ast.Node) refs {
		r := refs{vars: map[int]bool{}, funcs: map[types.Object]bool{}}
		ast.Inspect(n, func(n ast.Node) bool {
			id, ok := n.(*ast.Ident)
			if !ok {
				return true
			}
			o := info.Uses[id]
			if o == nil {
				return true
			}
			if u, ok := unitOf[o]; ok {
				r.vars[u] = true
			}
			if _, ok := funcDecl[o]; ok {
				r.funcs[o] = true
			}
			return true
		})
		return r
	}
	fnRefs := map[types.Object]refs{}
	for o, d := range funcDecl {
		if d.Body != nil {
			fnRefs[o] = collect(d.Body)
		}
	}
	for i, u := range pa.units {
		r := collect(rhs[i])
		u.direct = map[int]bool{}
		u.full = map[int]bool{}
		for v := range r.vars {
			if v != i {
				u.direct[v] = true
				u.full[v] = true
			}
		}
		seen := map[types.Object]bool{}
		var work []types.Object
		for f := range r.funcs {
			work = append(work, f)
		}
		for len(work) > 0 {
			f := work[len(work)-1]
			work = work[:len(work)-1]
			if seen[f] {
				continue
			}
			seen[f] = true
			fr := fnRefs[f]
			for v := range fr.vars {
				if v != i {
					u.full[v] = true
				}
			}
			for g := range fr.funcs {
				work = append(work, g)
			}
		}
	}
	// recorded findings about `var a, b = f()`
	for _, vs := range multiCalls {
		if call, ok := vs.Values[0].(*ast.CallExpr); ok {
			if id, ok := call.Fun.(*ast.Ident); ok {
				if d := funcDecl[info.Uses[id]]; d != nil && d.Pos() > vs.Pos() {
					// token positions grow with the order in which the (sorted) files were parsed
					pa.multiFuncLater = true
				}
			}
		}
	}
	mark := func(n ast.Node, foreignOnly bool) {
		ast.Inspect(n, func(n ast.Node) bool {
			if id, ok := n.(*ast.Ident); ok {
				if q := an.multi[info.Uses[id]]; q != nil && (q != pa || !foreignOnly) {
					q.multiRead = true
				}
			}
			return true
		})
	}
	for _, e := range rhs {
		mark(e, false)
	}
	for _, f := range files {
		for _, d := range f.Decls {
			if fd, ok := d.(*ast.FuncDecl); ok && fd.Body != nil {
				mark(fd.Body, fd.Recv == nil && (fd.Name.Name == "init" || fd.Name.Name == "main"))
			}
		}
	}
	// required order from go/types
	firstVar := map[*types.Var]int{}
	for o, u := range unitOf {
		if v, ok := o.(*types.Var); ok {
			firstVar[v] = u
		}
	}
	done := map[int]bool{}
	for _, in := range info.InitOrder {
		if len(in.Lhs) == 0 {
			continue
		}
		u, ok := firstVar[in.Lhs[0]]
		if !ok {
			return fmt.Errorf("initialiser of %s not found among the declarations", in.Lhs[0].Name())
		}
		if !done[u] {
			done[u] = true
			pa.goOrder = append(pa.goOrder, u)
		}
	}
	if len(pa.goOrder) != len(pa.units) {
		return fmt.Errorf("package %s: %d initialisers declared, %d ordered by go/types", pa.name, len(pa.units), len(pa.goOrder))
	}
	// self-check: the specification's algorithm on our reference graph must
	// reproduce the order computed by go/types
	if got := selectEarliest(len(pa.units), func(i int) map[int]bool { return pa.units[i].full }); !sameOrder(got, pa.goOrder) {
		// The toolchain (go/types and cmd/compile alike) treats the variables
		// of `var a, b = f()` as separate nodes of its priority queue; when
		// other variables depend on a and b it can emit a later declaration
		// before an earlier ready one, which is not what the specification's
		// algorithm gives. Such programs cannot be judged.
		if len(multiCalls) == 0 {
			return fmt.Errorf("package %s: reference graph of the harness gives order %v, go/types %v", pa.name, got, pa.goOrder)
		}
		pa.specDiffers = true
	}
	return nil
}

// selectEarliest is the algorithm of the specification: repeatedly initialise
// the earliest variable in declaration order that is ready.
func selectEarliest(n int, deps func(int) map[int]bool) []int {
	inited := make([]bool, n)
	var order []int
	for len(order) < n {
		pick := -1
		for i := 0; i < n && pick < 0; i++ {
			if inited[i] {
				continue
			}
			ready := true
			for d := range deps(i) {
				if !inited[d] {
					ready = false
				}
			}
			if ready {
				pick = i
			}
		}
		if pick < 0 {
			return order // cycle
		}
		inited[pick] = true
		order = append(order, pick)
	}
	return order
}

// multiPass models the recorded finding "multi-pass-order": the declaration
// list is scanned in passes, and a variable that is not ready when it is
// visited waits for the next pass.
func multiPass(n int, deps func(int) map[int]bool) []int {
	inited := make([]bool, n)
	var order []int
	for len(order) < n {
		progress := false
		for i := 0; i < n; i++ {
			if inited[i] {
				continue
			}
			ready := true
			for d := range deps(i) {
				if !inited[d] {
					ready = false
				}
			}
			if ready {
				inited[i] = true
				order = append(order, i)
				progress = true
			}
		}
		if !progress {
			return order
		}
	}
	return order
}

func sameOrder(a, b []int) bool {
	if len(a) != len(b) {
		return false
	}
	for i := range a {
		if a[i] != b[i] {
			return false
		}
	}
	return true
}

// omodel is the ordering problem of one package: initialisers in declaration
// order with their reference sets. It is built from the source (analysis) and
// from the generator's graph (repair), and evaluated by the specification's
// algorithm and by a model of the recorded findings.
type omodel struct {
	full   []map[int]bool
	direct []map[int]bool
	spec   []int // initialisers with the same number come from one `var a, b = x, y`
}

func (m *omodel) required() []int {
	return selectEarliest(len(m.full), func(i int) map[int]bool { return m.full[i] })
}

// recorded returns the order predicted when the given recorded findings are
// present: funcBody = only direct identifier references count, multiPass =
// pass-wise scan, nn = the initialisers of one `var a, b = x, y` form one node
// (references between them do not count).
func (m *omodel) recorded(funcBody, multiPassScan, nn bool) []int {
	n := len(m.full)
	deps := m.full
	if funcBody {
		deps = m.direct
	}
	// nodes
	var nodes [][]int
	nodeOf := make([]int, n)
	for i := 0; i < n; i++ {
		if nn && i > 0 && m.spec[i] == m.spec[i-1] {
			nodes[len(nodes)-1] = append(nodes[len(nodes)-1], i)
		} else {
			nodes = append(nodes, []int{i})
		}
		nodeOf[i] = len(nodes) - 1
	}
	ndeps := make([]map[int]bool, len(nodes))
	for k, members := range nodes {
		ndeps[k] = map[int]bool{}
		for _, i := range members {
			for d := range deps[i] {
				if nodeOf[d] != k {
					ndeps[k][nodeOf[d]] = true
				}
			}
		}
	}
	f := func(k int) map[int]bool { return ndeps[k] }
	var seq []int
	if multiPassScan {
		seq = multiPass(len(nodes), f)
	} else {
		seq = selectEarliest(len(nodes), f)
	}
	var out []int
	for _, k := range seq {
		out = append(out, nodes[k]...)
	}
	return out
}

// selfRef reports a reference between two initialisers of one spec.
func (m *omodel) selfRef() bool {
	for i := range m.full {
		for d := range m.full[i] {
			if d != i && m.spec[d] == m.spec[i] {
				return true
			}
		}
	}
	return false
}

func (pa *pkgAn) model() *omodel {
	m := &omodel{}
	for _, u := range pa.units {
		m.full = append(m.full, u.full)
		m.direct = append(m.direct, u.direct)
		m.spec = append(m.spec, u.spec)
	}
	return m
}

// facts are the properties of a program used for the non-trivial rule, the
// class histogram and the failure signature.
type facts struct {
	npackages      int
	maxFiles       int
	nvars          int
	ninit          int
	reordered      bool // some package: required order != declaration order
	indirect       bool // some reordered package has a dependency that is not a direct identifier reference
	hiddenMatters  bool // ordering by direct identifiers only would give another order
	passMatters    bool // the multi-pass scan would give another order
	nnMatters      bool // treating `var a, b = x, y` as one node would give another order, or a refers to b
	recordedDiffer bool // the recorded findings together predict another order than required
	fileOrder      bool // a package with >= 2 files where a variable depends on one declared in a later file, or with init functions in >= 2 files
	diamond        bool // a package imported by >= 2 packages
	multiCall      bool
	multiNN        bool
	multiRead      bool
	multiFuncLater bool
	specDiffers    bool // the toolchain's order is not the order of the specification's algorithm
}

func (an *analysis) facts(sw switches) facts {
	var f facts
	importers := map[string]int{}
	for _, d := range an.order {
		pa := an.pkgs[d]
		f.npackages++
		f.ninit += pa.ninit
		if len(pa.files) > f.maxFiles {
			f.maxFiles = len(pa.files)
		}
		for _, k := range pa.imports {
			importers[k]++
		}
		f.multiRead = f.multiRead || pa.multiRead
		f.multiFuncLater = f.multiFuncLater || pa.multiFuncLater
		f.specDiffers = f.specDiffers || pa.specDiffers
		n := len(pa.units)
		f.nvars += n
		decl := make([]int, n)
		for i := range decl {
			decl[i] = i
		}
		reord := !sameOrder(decl, pa.goOrder)
		ind := false
		for i, u := range pa.units {
			if len(u.names) > 1 {
				f.multiCall = true
			}
			if i > 0 && pa.units[i-1].spec == u.spec {
				f.multiNN = true
			}
			for d := range u.full {
				if !u.direct[d] {
					ind = true
				}
				if pa.units[d].file > u.file {
					f.fileOrder = true
				}
			}
		}
		if reord {
			f.reordered = true
			if ind {
				f.indirect = true
			}
		}
		if len(pa.initIn) >= 2 {
			f.fileOrder = true
		}
		m := pa.model()
		if !sameOrder(m.recorded(true, false, false), pa.goOrder) {
			f.hiddenMatters = true
		}
		if !sameOrder(m.recorded(false, true, false), pa.goOrder) {
			f.passMatters = true
		}
		if m.selfRef() || !sameOrder(m.recorded(false, false, true), pa.goOrder) {
			f.nnMatters = true
		}
		if (sw.knownNN && m.selfRef()) || !sameOrder(m.recorded(sw.knownFuncBody, sw.knownMultiPass, sw.knownNN), pa.goOrder) {
			f.recordedDiffer = true
		}
	}
	for _, n := range importers {
		if n >= 2 {
			f.diamond = true
		}
	}
	return f
}

func (f facts) nontrivial() bool {
	return (f.reordered && f.indirect) || f.fileOrder || (f.npackages >= 2 && f.diamond)
}
