// Package c12 holds the check of property C12.
package c12
