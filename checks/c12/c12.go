// Package c12 checks that ill-typed programs are rejected before anything
// runs: well-typed generated programs are broken by one type-breaking mutation
// (judged by go/types) and must then yield an error and no output.
package c12

import (
	"bytes"
	"encoding/json"
	"fmt"
	"go/ast"
	"go/format"
	"go/importer"
	"go/parser"
	"go/token"
	"go/types"
	"os"
	"sort"
	"strings"
	"sync"
	"time"

	"golang.org/x/tools/go/ast/astutil"
	"pgregory.net/rapid"

	"verif/internal/diff"
	"verif/internal/progen"
	"verif/internal/vf"
	"verif/internal/yrun"
)

// Case is a mutant.
type Case struct {
	Src      string `json:"src"`      // the mutated program
	Operator string `json:"operator"` // mutation operator
	Context  string `json:"context"`  // syntactic context of the site
	// Imported: the program additionally imports a source package whose
	// initialisation prints (evaluated through EvalPath on an in-memory GOPATH).
	Imported bool `json:"imported,omitempty"`
}

const importedPkg = "package pk\n\nimport \"fmt\"\n\nvar V = mark()\n\nfunc mark() int {\n\tfmt.Println(\"PK-VARINIT\")\n\treturn 7\n}\n\nfunc init() {\n\tfmt.Println(\"PK-INIT\")\n}\n"

// run executes the mutant under the interpreter.
func (c *Case) run(src string, budget uint64) yrun.Outcome {
	return c.runStall(src, budget, 20*time.Second)
}

func (c *Case) runStall(src string, budget uint64, stall time.Duration) yrun.Outcome {
	if !c.Imported {
		out, _ := yrun.Execute(&yrun.Job{Src: src, OpBudget: budget}, stall)
		return out
	}
	withImport := strings.Replace(src, "import (\n", "import (\n\t_ \"pk\"\n", 1)
	out, _ := yrun.Execute(&yrun.Job{GoPath: "gp", Path: "gp/src/m/main.go", OpBudget: budget,
		Files: map[string]string{"gp/src/m/main.go": withImport, "gp/src/pk/pk.go": importedPkg}}, stall)
	return out
}

const markers = `
var pkgMark = markPkg()

func markPkg() int {
	fmt.Println("PKGINIT")
	return 1
}

func init() {
	fmt.Println("INIT", pkgMark)
}
`

// withMarkers makes every execution visible: package initialisation, init and
// the first statement of main print.
func withMarkers(src string) string {
	src = strings.Replace(src, "func main() {\n", "func main() {\n\tfmt.Println(\"MAIN\")\n", 1)
	i := strings.Index(src, ")\n") // end of import block
	return src[:i+2] + markers + src[i+2:]
}

var (
	impMu sync.Mutex
	imp   types.Importer
)

type checked struct {
	fset *token.FileSet
	file *ast.File
	info *types.Info
	err  error
}

func typeCheck(src string) *checked {
	c := &checked{fset: token.NewFileSet()}
	f, err := parser.ParseFile(c.fset, "main.go", src, 0)
	if err != nil {
		c.err = err
		return c
	}
	c.file = f
	impMu.Lock()
	defer impMu.Unlock()
	if imp == nil {
		imp = importer.ForCompiler(token.NewFileSet(), "source", nil)
	}
	c.info = &types.Info{Types: map[ast.Expr]types.TypeAndValue{}, Uses: map[*ast.Ident]types.Object{}, Defs: map[*ast.Ident]types.Object{}, Selections: map[*ast.SelectorExpr]*types.Selection{}}
	var first error
	conf := types.Config{Importer: imp, Error: func(e error) {
		if first == nil {
			first = e
		}
	}}
	_, _ = conf.Check("main", c.fset, []*ast.File{f}, c.info)
	c.err = first
	return c
}

// site is a place where an operator applies; apply mutates the AST in place
// through the cursor.
type site struct {
	op      string
	context string
	apply   func()
}

func basicKind(t types.Type) string {
	b, ok := t.Underlying().(*types.Basic)
	if !ok {
		return ""
	}
	switch {
	case b.Info()&types.IsInteger != 0:
		return "int"
	case b.Info()&types.IsFloat != 0:
		return "float"
	case b.Info()&types.IsString != 0:
		return "string"
	case b.Info()&types.IsBoolean != 0:
		return "bool"
	}
	return ""
}

func lit(kind token.Token, v string) *ast.BasicLit { return &ast.BasicLit{Kind: kind, Value: v} }

// wrongLit returns a literal whose type cannot be assigned to kind k.
func wrongLit(k string) ast.Expr {
	switch k {
	case "string":
		return lit(token.INT, "7")
	case "bool":
		return lit(token.INT, "7")
	default:
		return lit(token.STRING, `"wrong"`)
	}
}

// wrongNumeric returns a typed numeric expression of another numeric type
// (no implicit conversion exists between distinct numeric types).
func wrongNumeric(t types.Type) ast.Expr {
	b, ok := t.Underlying().(*types.Basic)
	if !ok || b.Info()&types.IsNumeric == 0 {
		return nil
	}
	other := "float64"
	if b.Kind() == types.Float64 {
		other = "int"
	}
	return &ast.CallExpr{Fun: ast.NewIdent(other), Args: []ast.Expr{lit(token.INT, "1")}}
}

func outOfRange(t types.Type) ast.Expr {
	b, ok := t.Underlying().(*types.Basic)
	if !ok {
		return nil
	}
	switch b.Kind() {
	case types.Int8:
		return lit(token.INT, "200")
	case types.Uint8:
		return lit(token.INT, "256")
	case types.Int16:
		return lit(token.INT, "40000")
	case types.Uint16:
		return lit(token.INT, "70000")
	case types.Int32:
		return lit(token.INT, "3000000000")
	case types.Uint32:
		return lit(token.INT, "5000000000")
	case types.Uint, types.Uint64:
		return &ast.UnaryExpr{Op: token.SUB, X: lit(token.INT, "1")}
	case types.Int, types.Int64:
		return lit(token.INT, "9223372036854775808")
	}
	return nil
}

type snippet struct{ op, src string }

// statement snippets that are ill-typed on their own, for the classes that
// generated programs do not contain (builtins, channels, conversions,
// interface satisfaction)
var snippets = []snippet{
	{"builtin-len-int", `_ = len(5)`},
	{"builtin-cap-map", `_ = cap(map[int]int{})`},
	{"builtin-append-nonslice", `_ = append(5, 1)`},
	{"builtin-make-nonmakeable", `_ = make(int)`},
	{"builtin-delete-nonmap", `delete([]int{1}, 0)`},
	{"builtin-copy-mismatch", `_ = copy([]int{1}, []string{"a"})`},
	{"builtin-close-nonchan", `close(5)`},
	{"builtin-len-noarg", `_ = len()`},
	{"builtin-new-nontype", `_ = new(5)`},
	{"chan-send-on-recvonly", `{
	c := make(<-chan int)
	c <- 1
}`},
	{"chan-recv-from-sendonly", `{
	c := make(chan<- int)
	<-c
}`},
	{"chan-range-sendonly", `{
	c := make(chan<- int)
	for range c {
	}
}`},
	{"conv-struct-to-string", `_ = string(struct{}{})`},
	{"conv-slice-to-int", `{
	s := []int{1}
	_ = int(s)
}`},
	{"conv-string-to-struct", `{
	type T struct{ a int }
	s := "x"
	_ = T(s)
}`},
	{"shift-of-float", `{
	var f float64 = 1
	_ = f << 2
}`},
	{"compare-uncomparable", `{
	a, b := []int{1}, []int{2}
	_ = a == b
}`},
	{"index-non-integer", `{
	a := []int{1}
	_ = a["x"]
}`},
	{"iface-missing-method", `{
	type I interface{ M() }
	type T struct{}
	var i I = T{}
	_ = i
}`},
	{"iface-error-from-int", `{
	var e error = 5
	_ = e
}`},
	{"iface-stringer-missing", `{
	type T struct{}
	var s fmt.Stringer = T{}
	_ = s
}`},
	{"mismatched-operands", `{
	a, b := 1, "x"
	_ = a + b
}`},
	{"assign-mismatch", `{
	var a int
	a = "x"
	_ = a
}`},
	{"undefined-name", `_ = notDeclaredAnywhere`},
	{"for-cond-nonbool", `for 1 {
}`},
	{"complit-unknown-field", `_ = struct{ a int }{b: 1}`},
	{"complit-duplicate-field", `_ = struct{ a int }{a: 1, a: 2}`},
	{"complit-mixed", `_ = struct{ a, b int }{a: 1, 2}`},
	{"complit-elem-type", `_ = []int{1, "x"}`},
	{"complit-map-key-type", `_ = map[string]int{1: 1}`},
	{"complit-array-bounds", `_ = [2]int{1, 2, 3}`},
	{"const-overflow", `{
	var x int8 = 200
	_ = x
}`},
	{"const-overflow-uint", `{
	var x uint = -1
	_ = x
}`},
	{"named-sibling-assign", `{
	type A int
	type B int
	var a A = 1
	var b B = a
	_ = b
}`},
	{"named-sibling-assign-stmt", `{
	type A string
	type B string
	a, b := A("x"), B("y")
	b = a
	_ = b
}`},
	{"named-sibling-arg", `{
	type A float64
	type B float64
	f := func(x B) B { return x }
	var a A = 1.5
	_ = f(a)
}`},
	{"named-sibling-return", `{
	type A int
	type B int
	f := func(x A) B { return x }
	_ = f(1)
}`},
	{"named-sibling-elem", `{
	type A int
	type B int
	var a A = 3
	_ = []B{a}
}`},
	{"named-sibling-mapkey", `{
	type A string
	type B string
	var a A = "k"
	_ = map[B]int{a: 1}
}`},
	{"named-sibling-field", `{
	type A int
	type B int
	type S struct{ f B }
	var a A = 3
	_ = S{f: a}
}`},
	{"named-vs-basic-var", `{
	type A int
	var a A = 3
	var i int = a
	_ = i
}`},
	{"call-arg-count", `{
	f := func(a int) int { return a }
	_ = f(1, 2)
}`},
	{"call-result-count", `{
	f := func() (int, int) { return 1, 2 }
	a := f()
	_ = a
}`},
}

func parseStmt(src string) ast.Stmt {
	f, err := parser.ParseFile(token.NewFileSet(), "s.go", "package p\nfunc _() {\n"+src+"\n}\n", 0)
	if err != nil {
		panic(fmt.Sprintf("snippet does not parse: %v\n%s", err, src))
	}
	return f.Decls[0].(*ast.FuncDecl).Body.List[0]
}

// contextOf describes the syntactic surroundings of a node from its ancestors.
func contextOf(stack []ast.Node) string {
	ctx := "func-body"
	for i := len(stack) - 1; i >= 0; i-- {
		switch n := stack[i].(type) {
		case *ast.FuncLit:
			return "closure"
		case *ast.ForStmt, *ast.RangeStmt:
			return "loop"
		case *ast.CaseClause:
			return "switch-clause"
		case *ast.IfStmt:
			return "if"
		case *ast.FuncDecl:
			if n.Name.Name == "main" {
				return "main"
			}
			if n.Recv != nil {
				return "method"
			}
			return "helper-func"
		case *ast.GenDecl:
			return "package-var"
		}
	}
	return ctx
}

// sites enumerates all mutation sites of the checked file.
func sites(c *checked) []site {
	var out []site
	var stack []ast.Node
	add := func(op string, apply func()) {
		out = append(out, site{op: op, context: contextOf(stack), apply: apply})
	}
	typeOf := func(e ast.Expr) types.Type {
		if tv, ok := c.info.Types[e]; ok {
			return tv.Type
		}
		return nil
	}
	ast.Inspect(c.file, func(n ast.Node) bool {
		if n == nil {
			stack = stack[:len(stack)-1]
			return true
		}
		switch x := n.(type) {
		case *ast.BinaryExpr:
			switch x.Op {
			case token.ADD, token.SUB, token.MUL, token.QUO, token.AND, token.OR, token.XOR:
				if k := basicKind(orInvalid(typeOf(x.X))); k == "int" || k == "float" {
					xx := x
					add("operand-type", func() { xx.Y = lit(token.STRING, `"wrong"`) })
					if e := wrongNumeric(typeOf(x.X)); e != nil {
						add("operand-type-numeric", func() { xx.Y = e })
					}
				}
			case token.LSS, token.GTR, token.LEQ, token.GEQ, token.EQL, token.NEQ:
				if k := basicKind(orInvalid(typeOf(x.X))); k == "int" {
					xx := x
					add("compare-type", func() { xx.Y = lit(token.STRING, `"wrong"`) })
				}
			}
		case *ast.AssignStmt:
			if len(x.Lhs) == 1 && len(x.Rhs) == 1 && x.Tok == token.ASSIGN {
				if t := typeOf(x.Lhs[0]); t != nil {
					if k := basicKind(t); k != "" {
						xx := x
						add("assign-type", func() { xx.Rhs[0] = wrongLit(k) })
						if e := wrongNumeric(t); e != nil {
							add("assign-type-numeric", func() { xx.Rhs[0] = e })
						}
						if e := outOfRange(t); e != nil && k == "int" {
							add("const-range-assign", func() { xx.Rhs[0] = e })
						}
					} else if _, ok := t.Underlying().(*types.Struct); ok {
						xx := x
						add("assign-type-composite", func() { xx.Rhs[0] = lit(token.INT, "7") })
					}
				}
			}
			if len(x.Lhs) == 1 && len(x.Rhs) == 1 && x.Tok != token.ASSIGN && x.Tok != token.DEFINE {
				if k := basicKind(orInvalid(typeOf(x.Lhs[0]))); k == "int" {
					xx := x
					add("opassign-type", func() { xx.Rhs[0] = lit(token.STRING, `"wrong"`) })
				}
			}
		case *ast.ValueSpec:
			if x.Type != nil && len(x.Values) == 1 {
				if t := typeOf(x.Type); t != nil {
					if k := basicKind(t); k != "" {
						xx := x
						add("var-init-type", func() { xx.Values[0] = wrongLit(k) })
						if e := outOfRange(t); e != nil && k == "int" {
							add("const-range-var", func() { xx.Values[0] = e })
						}
					}
				}
			}
		case *ast.CallExpr:
			if id, ok := x.Fun.(*ast.Ident); ok {
				if fn, ok := c.info.Uses[id].(*types.Func); ok {
					sig := fn.Type().(*types.Signature)
					if !sig.Variadic() {
						xx := x
						add("arg-count-more", func() { xx.Args = append(xx.Args, lit(token.INT, "1")) })
						if len(x.Args) > 0 {
							add("arg-count-less", func() { xx.Args = xx.Args[:len(xx.Args)-1] })
						}
						for i := 0; i < sig.Params().Len() && i < len(x.Args); i++ {
							if k := basicKind(sig.Params().At(i).Type()); k != "" {
								i, k := i, k
								add("arg-type", func() { xx.Args[i] = wrongLit(k) })
								if e := wrongNumeric(sig.Params().At(i).Type()); e != nil {
									add("arg-type-numeric", func() { xx.Args[i] = e })
								}
								if e := outOfRange(sig.Params().At(i).Type()); e != nil && k == "int" {
									add("const-range-arg", func() { xx.Args[i] = e })
								}
							}
						}
					}
				}
			}
			if sel, ok := x.Fun.(*ast.SelectorExpr); ok {
				if s := c.info.Selections[sel]; s != nil && s.Kind() == types.MethodVal {
					ss := sel
					add("undefined-method", func() { ss.Sel = ast.NewIdent("NoSuchMethod") })
				}
			}
		case *ast.ReturnStmt:
			if len(x.Results) > 0 {
				xx := x
				add("return-count-more", func() { xx.Results = append(xx.Results, lit(token.INT, "1")) })
				if len(x.Results) > 1 {
					add("return-count-less", func() { xx.Results = xx.Results[:len(xx.Results)-1] })
				}
				for i, r := range x.Results {
					if k := basicKind(orInvalid(typeOf(r))); k != "" {
						i, k := i, k
						add("return-type", func() { xx.Results[i] = wrongLit(k) })
						if e := wrongNumeric(typeOf(r)); e != nil {
							add("return-type-numeric", func() { xx.Results[i] = e })
						}
					}
				}
			}
		case *ast.SelectorExpr:
			if s := c.info.Selections[x]; s != nil && s.Kind() == types.FieldVal {
				xx := x
				add("undefined-field", func() { xx.Sel = ast.NewIdent("nosuchfield") })
			}
		case *ast.ForStmt:
			if x.Cond != nil {
				xx := x
				add("for-cond-nonbool", func() { xx.Cond = lit(token.INT, "1") })
			}
		case *ast.CompositeLit:
			t := typeOf(x)
			if t == nil {
				break
			}
			xx := x
			switch u := t.Underlying().(type) {
			case *types.Struct:
				if len(x.Elts) > 0 {
					if kv, ok := x.Elts[0].(*ast.KeyValueExpr); ok {
						add("complit-duplicate-field", func() { xx.Elts = append(xx.Elts, &ast.KeyValueExpr{Key: kv.Key, Value: kv.Value}) })
						add("complit-unknown-field", func() { xx.Elts[0] = &ast.KeyValueExpr{Key: ast.NewIdent("nosuchfield"), Value: kv.Value} })
						if len(x.Elts) > 1 {
							add("complit-mixed", func() { xx.Elts[0] = kv.Value })
						}
					} else if u.NumFields() > 1 {
						add("complit-too-few", func() { xx.Elts = xx.Elts[:len(xx.Elts)-1] })
						add("complit-too-many", func() { xx.Elts = append(xx.Elts, lit(token.INT, "1")) })
					}
				}
			case *types.Slice:
				if k := basicKind(u.Elem()); k != "" && len(x.Elts) > 0 {
					add("complit-elem-type", func() { xx.Elts[len(xx.Elts)-1] = wrongLit(k) })
				}
			case *types.Array:
				if k := basicKind(u.Elem()); k != "" && len(x.Elts) > 0 {
					add("complit-elem-type", func() { xx.Elts[0] = wrongLit(k) })
				}
				if int(u.Len()) == len(x.Elts) && len(x.Elts) > 0 {
					if _, ok := x.Elts[0].(*ast.KeyValueExpr); !ok {
						add("complit-array-bounds", func() { xx.Elts = append(xx.Elts, xx.Elts[0]) })
					}
				}
			case *types.Map:
				if k := basicKind(u.Key()); k != "" && len(x.Elts) > 0 {
					if kv, ok := x.Elts[0].(*ast.KeyValueExpr); ok {
						add("complit-map-key-type", func() { kv.Key = wrongLit(k) })
					}
				}
			}
		case *ast.FuncDecl:
			// a function with results loses its final return statement
			if x.Type.Results != nil && len(x.Type.Results.List) > 0 && x.Body != nil && len(x.Body.List) > 0 {
				if _, ok := x.Body.List[len(x.Body.List)-1].(*ast.ReturnStmt); ok {
					xx := x
					add("missing-return", func() { xx.Body.List = xx.Body.List[:len(xx.Body.List)-1] })
				}
			}
		case *ast.FuncLit:
			if x.Type.Results != nil && len(x.Type.Results.List) > 0 && x.Body != nil && len(x.Body.List) > 0 {
				if _, ok := x.Body.List[len(x.Body.List)-1].(*ast.ReturnStmt); ok {
					xx := x
					add("missing-return", func() { xx.Body.List = xx.Body.List[:len(xx.Body.List)-1] })
				}
			}
		case *ast.SwitchStmt:
			// a fallthrough statement followed by other statements, or in the last clause
			if x.Body != nil {
				for i, st := range x.Body.List {
					cc, ok := st.(*ast.CaseClause)
					if !ok {
						continue
					}
					if len(cc.Body) > 0 {
						add("fallthrough-out-of-place", func() {
							cc.Body = append([]ast.Stmt{&ast.BranchStmt{Tok: token.FALLTHROUGH}}, cc.Body...)
						})
					}
					if i == len(x.Body.List)-1 {
						add("fallthrough-final-clause", func() { cc.Body = append(cc.Body, &ast.BranchStmt{Tok: token.FALLTHROUGH}) })
					}
				}
			}
			// an ill-typed expression in a case list, before and after valid ones
			if x.Tag != nil && x.Body != nil {
				if tv, ok := c.info.Types[x.Tag]; ok && tv.Type != nil {
					if k := basicKind(tv.Type); k != "" {
						for _, st := range x.Body.List {
							cc, ok := st.(*ast.CaseClause)
							if !ok || len(cc.List) == 0 {
								continue
							}
							add("case-list-first-mismatch", func() { cc.List = append([]ast.Expr{wrongLit(k)}, cc.List...) })
							add("case-list-last-mismatch", func() { cc.List = append(cc.List, wrongLit(k)) })
							if k == "int" {
								add("case-list-float-constant", func() { cc.List = append([]ast.Expr{lit(token.FLOAT, "1.5")}, cc.List...) })
							}
						}
					}
				}
			}
		case *ast.BlockStmt:
			// statement snippets can be inserted anywhere in a block
			blocks = append(blocks, blockSite{x, contextOf(append(stack, n))})
		}
		stack = append(stack, n)
		return true
	})
	return out
}

type blockSite struct {
	b   *ast.BlockStmt
	ctx string
}

// blocks collects the block statements found by the last call of sites (the
// check is single-threaded per process).
var blocks []blockSite

func orInvalid(t types.Type) types.Type {
	if t == nil {
		return types.Typ[types.Invalid]
	}
	return t
}

// undefined-name sites need the cursor (identifier uses are replaced in their parent).
func mutateIdentUse(c *checked, k int) (string, bool) {
	n := 0
	done := false
	ctx := ""
	astutil.Apply(c.file, func(cur *astutil.Cursor) bool {
		if done {
			return false
		}
		id, ok := cur.Node().(*ast.Ident)
		if !ok {
			return true
		}
		if v, ok := c.info.Uses[id].(*types.Var); ok && !v.IsField() && v.Pkg() != nil {
			if _, isSel := cur.Parent().(*ast.SelectorExpr); isSel && cur.Name() == "Sel" {
				return true
			}
			if _, isKV := cur.Parent().(*ast.KeyValueExpr); isKV && cur.Name() == "Key" {
				return true
			}
			if n == k {
				cur.Replace(ast.NewIdent("notDeclaredAnywhere"))
				done = true
				ctx = "ident-use"
				return false
			}
			n++
		}
		return true
	}, nil)
	return ctx, done
}

func countIdentUses(c *checked) int {
	n := 0
	astutil.Apply(c.file, func(cur *astutil.Cursor) bool {
		id, ok := cur.Node().(*ast.Ident)
		if !ok {
			return true
		}
		if v, ok := c.info.Uses[id].(*types.Var); ok && !v.IsField() && v.Pkg() != nil {
			if _, isSel := cur.Parent().(*ast.SelectorExpr); isSel && cur.Name() == "Sel" {
				return true
			}
			if _, isKV := cur.Parent().(*ast.KeyValueExpr); isKV && cur.Name() == "Key" {
				return true
			}
			n++
		}
		return true
	}, nil)
	return n
}

func render(c *checked) string {
	var b bytes.Buffer
	if err := format.Node(&b, c.fset, c.file); err != nil {
		return ""
	}
	return b.String()
}

// known-finding switches: operators that are not drawn while the finding is listed
func knownOps() map[string]bool {
	m := map[string]bool{}
	for _, op := range allOps() {
		if vf.IsKnown("C12", op) {
			m[op] = true
		}
	}
	return m
}

func allOps() []string {
	ops := []string{"operand-type-numeric", "assign-type-numeric", "arg-type-numeric", "return-type-numeric", "operand-type", "compare-type", "assign-type", "assign-type-composite", "opassign-type", "var-init-type", "const-range-assign", "const-range-var", "const-range-arg",
		"arg-count-more", "arg-count-less", "arg-type", "undefined-method", "return-count-more", "return-count-less", "return-type", "undefined-field", "undefined-name", "for-cond-nonbool",
		"missing-return", "fallthrough-out-of-place", "fallthrough-final-clause", "case-list-first-mismatch", "case-list-last-mismatch", "case-list-float-constant", "complit-duplicate-field", "complit-unknown-field", "complit-mixed", "complit-too-few", "complit-too-many", "complit-elem-type", "complit-array-bounds", "complit-map-key-type"}
	for _, s := range snippets {
		ops = append(ops, "snippet:"+s.op)
	}
	for _, f := range opForms {
		ops = append(ops, "snippet:gen-op:"+f.name)
	}
	return ops
}

var c01Switches = []string{"fallthrough-default-not-last", "label-in-case-clause", "shadow-loopvar", "invalid-utf8", "keyed-lit-compare-in-logic", "shift-count-deep-const", "delete-big-uint-const"}

func config() *progen.Config {
	cfg := progen.DefaultConfig()
	cfg.Stmts = 10
	cfg.FaultPct = 0
	for _, s := range c01Switches {
		if vf.IsKnown("C01", s) {
			cfg.Off[s] = true
		}
	}
	return cfg
}

// generated snippets: one operation applied to operands of drawn types; go/types
// decides which combinations are ill-typed (the others are not judged).
var opndTypes = []string{"int", "uint8", "float64", "bool", "string", "[]int", "[3]int", "*[3]int", "*[]int", "**[3]int", "[]string", "[2][]int",
	"map[string]int", "*map[string]int", "chan int", "<-chan int", "chan<- int", "*chan int", "struct{ a int }", "*struct{ a int }", "func()", "func(int) int",
	"interface{}", "error", "*int", "*string", "complex128", "NS", "*NS", "NA", "*NA", "NM", "*NM", "NI", "NP", "NRC", "NSC", "NRC2", "NSC2"}

const opndDecls = `type NS []int
	type NA [3]int
	type NM map[string]int
	type NI int
	type NP *[3]int
	type NRC <-chan int
	type NSC chan<- int
	type NRC2 NRC
	type NSC2 NSC
`

// each form uses x (of the first type) and possibly y (of the second one)
var opForms = []struct{ name, src string }{
	{"len", "_ = len(x)"}, {"cap", "_ = cap(x)"}, {"append", "_ = append(x, y)"}, {"append-spread", "_ = append(x, y...)"}, {"copy", "_ = copy(x, y)"},
	{"delete", "delete(x, y)"}, {"close", "close(x)"}, {"clear", "clear(x)"}, {"min", "_ = min(x, y)"}, {"max", "_ = max(x, y)"},
	{"real", "_ = real(x)"}, {"imag", "_ = imag(x)"}, {"complex", "_ = complex(x, y)"}, {"new-value", "_ = new(x)"}, {"recv", "_ = <-x"}, {"send", "x <- y"},
	{"range", "for range x {\n\t}"}, {"range-kv", "for k, v := range x {\n\t\t_, _ = k, v\n\t}"}, {"index", "_ = x[y]"}, {"slice", "_ = x[:1]"}, {"slice3", "_ = x[0:1:1]"},
	{"deref", "_ = *x"}, {"call", "x()"}, {"call-arg", "_ = x(y)"}, {"field", "_ = x.a"}, {"neg", "_ = -x"}, {"not", "_ = !x"}, {"cpl", "_ = ^x"}, {"inc", "x++"},
	{"add", "_ = x + y"}, {"and", "_ = x & y"}, {"shift", "_ = x << y"}, {"less", "_ = x < y"}, {"equal", "_ = x == y"}, {"logic", "_ = x && y"},
	{"assign", "x = y"}, {"op-assign", "x += y"}, {"conv", "_ = NI(x)"}, {"conv-slice-array", "_ = NA(x)"}, {"assert", "_ = x.(int)"}, {"typeswitch", "switch x.(type) {\n\t}"},
	{"if-cond", "if x {\n\t}"}, {"switch-tag", "switch x {\n\tcase y:\n\t}"}, {"go", "go x()"}, {"defer", "defer x()"}, {"addr-of-call", "_ = &x()"}, {"make", "_ = make(NS, x)"}, {"make-cap", "_ = make(NS, 1, y)"},
	{"array-len", "var a [3]int\n\t_ = a[x]"}, {"map-key", "m := map[NS]int{}\n\t_ = m"}, {"nil-compare", "_ = x == nil"}, {"nil-assign", "x = nil"},
	{"select-send", "select {\n\tcase x <- y:\n\tdefault:\n\t}"}, {"select-recv", "select {\n\tcase <-x:\n\tdefault:\n\t}"}, {"select-recv-ok", "select {\n\tcase v, ok := <-x:\n\t\t_, _ = v, ok\n\tdefault:\n\t}"},
}

func genOpSnippet(t *rapid.T) snippet {
	f := opForms[rapid.IntRange(0, len(opForms)-1).Draw(t, "opform")]
	tx := opndTypes[rapid.IntRange(0, len(opndTypes)-1).Draw(t, "tx")]
	ty := tx
	if rapid.IntRange(0, 2).Draw(t, "samety") != 0 {
		ty = opndTypes[rapid.IntRange(0, len(opndTypes)-1).Draw(t, "ty")]
	}
	if cellKnown(f.name, tx, ty) || typeCheck(matrixCase(f.name, tx, ty).Src).err == nil {
		// a recorded finding covers this cell, or the operation is well-typed (the
		// place where it lands could still make the program ill-typed for another
		// reason: missing return, fallthrough not last): an always ill-typed
		// snippet instead
		return snippet{"gen-op:len", "{\n\tvar x int\n\t_ = len(x)\n}"}
	}
	src := "{\n\t" + opndDecls + "\tvar x " + tx + "\n\tvar y " + ty + "\n\t_, _ = x, y\n\t" + f.src + "\n}"
	return snippet{"gen-op:" + f.name, src}
}

// genMutant draws a program and one mutation. ok=false: nothing applicable.
func genMutant(t *rapid.T, cfg *progen.Config, skip map[string]bool) (*Case, string, bool) {
	p := progen.Generate(t, cfg)
	src := withMarkers(p.Src)
	c := typeCheck(src)
	if c.err != nil {
		return nil, src, false
	}
	blocks = nil
	ss := sites(c)
	// group by operator so that rare operators are drawn as often as common ones
	byOp := map[string][]site{}
	for _, s := range ss {
		byOp[s.op] = append(byOp[s.op], s)
	}
	nUses := countIdentUses(c)
	var ops []string
	for op := range byOp {
		if !skip[op] {
			ops = append(ops, op)
		}
	}
	if nUses > 0 && !skip["undefined-name"] {
		ops = append(ops, "undefined-name")
	}
	sort.Strings(ops)
	// half of the mutants are statement snippets inserted in a random block
	if len(blocks) > 0 && (len(ops) == 0 || rapid.IntRange(0, 9).Draw(t, "snippet?") < 4) {
		var cand []snippet
		for _, s := range snippets {
			if !skip["snippet:"+s.op] {
				cand = append(cand, s)
			}
		}
		s := cand[rapid.IntRange(0, len(cand)-1).Draw(t, "snippet")]
		if rapid.IntRange(0, 2).Draw(t, "genop?") != 0 {
			// an operation applied to operands of drawn types
			if g := genOpSnippet(t); !skip["snippet:"+g.op] {
				s = g
			}
		}
		b := blocks[rapid.IntRange(0, len(blocks)-1).Draw(t, "block")]
		pos := rapid.IntRange(0, len(b.b.List)).Draw(t, "pos")
		if pos == len(b.b.List) && pos > 0 && vf.IsKnown("C12", "missing-return-accepted") {
			// a statement after the final return of a function makes it end without
			// terminating statement ("missing return"), which the interpreter
			// accepts: a recorded finding
			pos--
		}
		st := parseStmt(s.src)
		b.b.List = append(b.b.List[:pos:pos], append([]ast.Stmt{st}, b.b.List[pos:]...)...)
		return &Case{Src: render(c), Operator: "snippet:" + s.op, Context: b.ctx}, src, true
	}
	if len(ops) == 0 {
		return nil, src, false
	}
	op := ops[rapid.IntRange(0, len(ops)-1).Draw(t, "op")]
	if op == "undefined-name" {
		k := rapid.IntRange(0, nUses-1).Draw(t, "use")
		ctx, ok := mutateIdentUse(c, k)
		return &Case{Src: render(c), Operator: op, Context: ctx}, src, ok
	}
	s := byOp[op][rapid.IntRange(0, len(byOp[op])-1).Draw(t, "site")]
	s.apply()
	return &Case{Src: render(c), Operator: op, Context: s.context}, src, true
}

// check judges a mutant. It returns sig/msg of a violation; skip is set when
// go/types accepts the mutant (not ill-typed: not judged).
func (c *Case) check() (sig, msg string, skip bool) {
	tc := typeCheck(c.Src)
	if tc.err == nil {
		return "", "", true
	}
	if c.Operator != "unused-variable" && strings.Contains(tc.err.Error(), "declared and not used") && vf.IsKnown("C12", "unused-variable-accepted") {
		// the mutation turned a redeclared variable into a new, unused one: the
		// interpreter has no "declared and not used" check (recorded finding)
		return "", "", true
	}
	out := c.run(c.Src, 3_000_000)
	if out.Class == yrun.Deadlock && out.Stdout == "" {
		// nothing ran and nothing moved for 20 s: a compilation starved by the
		// load of the machine, or a hang of the compiler. Decide with a long limit.
		out = c.runStall(c.Src, 3_000_000, 5*time.Minute)
	}
	op := c.Operator
	if c.Imported && strings.Contains(out.Stdout, "PK-") && !strings.Contains(out.Stdout, "PKGINIT") {
		// only the imported package ran: its own root cause
		op = "imported-package-initialised"
	}
	switch {
	case out.Class == yrun.OK || out.Class == yrun.Diverged || out.Class == yrun.Deadlock:
		return op + "/accepted", fmt.Sprintf("go/types rejects the program (%s) but the interpreter ran it (class %s, stdout %q)", diff.NormErr(tc.err.Error()), out.Class, clip(out.Stdout)), false
	case out.Class == yrun.Escaped:
		if out.Stdout != "" {
			return op + "/ran-before-error", fmt.Sprintf("go/types rejects the program (%s); a Go panic escaped the interpreter after output %q: %s", diff.NormErr(tc.err.Error()), clip(out.Stdout), out.Err), false
		}
		return "", "", false // an error before anything ran (reported as a panic of Compile): accepted as rejection
	case out.Stdout != "":
		return op + "/ran-before-error", fmt.Sprintf("go/types rejects the program (%s); the interpreter returned an error (%s: %s) but only after executing statements: stdout %q", diff.NormErr(tc.err.Error()), out.Class, clip(out.Err), clip(out.Stdout)), false
	}
	return "", "", false
}

func clip(s string) string {
	if len(s) > 200 {
		return s[:200] + "…"
	}
	return s
}

// cellKnown: the cell belongs to a recorded finding (see knownCells).
func cellKnown(form, tx, ty string) bool {
	for key, match := range knownCells {
		if vf.IsKnown("C12", key) && match(form, tx, ty) {
			return true
		}
	}
	return false
}

// knownCells maps a known-finding key to the cells of the matrix it covers.
var knownCells = map[string]func(form, tx, ty string) bool{
	"cell:switch-on-uncomparable-types": func(form, tx, ty string) bool {
		return form == "switch-tag" && (uncomparableT[tx] || uncomparableT[ty])
	},
	"cell:pointer-to-local-defined-type-mixed": func(form, tx, ty string) bool {
		if form != "assign" && form != "equal" && form != "switch-tag" {
			return false
		}
		return tx != ty && ptrGroup[tx] != 0 && ptrGroup[tx] == ptrGroup[ty]
	},
	"cell:arithmetic-with-interface-operand": func(form, tx, ty string) bool {
		return (form == "add" || form == "op-assign" || form == "and") && ty == "interface{}"
	},
	"cell:append-elem-of-defined-int-type": func(form, tx, ty string) bool {
		return form == "append" && ty == "NI" && (tx == "[]int" || tx == "NS")
	},
	"cell:impossible-assertion-accepted": func(form, tx, ty string) bool {
		return form == "assert" && tx == "error"
	},
}

var uncomparableT = map[string]bool{"[]int": true, "[]string": true, "[2][]int": true, "map[string]int": true, "func()": true, "func(int) int": true, "NS": true, "NM": true}

var ptrGroup = map[string]int{"*[]int": 1, "*NS": 1, "*[3]int": 2, "*NA": 2, "NP": 2, "*map[string]int": 3, "*NM": 3}

// matrixCase is one cell of the operation x operand types matrix in a fixed
// minimal program.
func matrixCase(form, tx, ty string) *Case {
	var src string
	for _, f := range opForms {
		if f.name == form {
			src = f.src
		}
	}
	body := "\t" + opndDecls + "\tvar x " + tx + "\n\tvar y " + ty + "\n\t_, _ = x, y\n\t" + src + "\n"
	return &Case{Src: "package main\n\nimport (\n\t\"fmt\"\n)\n\nfunc main() {\n\tfmt.Println(\"MAIN\")\n" + body + "}\n", Operator: "snippet:gen-op:" + form, Context: "matrix:" + tx + "|" + ty}
}

// runMatrix enumerates the whole matrix (development aid and thorough tier):
// every cell go/types rejects must be rejected by the interpreter.
func runMatrix(ctx *vf.Ctx, full bool, skip map[string]bool, report func(c *Case, sig, msg string)) {
	k := 0
	seed := int(((ctx.Seed % 8) + 8) % 8)
	for _, f := range opForms {
		if skip["snippet:gen-op:"+f.name] {
			continue
		}
		usesY := strings.Contains(strings.ReplaceAll(f.src, "type", ""), "y")
		for _, tx := range opndTypes {
			tys := opndTypes
			if !usesY {
				tys = []string{"int"}
			}
			for _, ty := range tys {
				k++
				if k%ctx.NShards != ctx.Shard {
					continue
				}
				if !full && usesY && (k/ctx.NShards)%8 != seed {
					// quick tier: all the one-operand cells, one eighth (chosen by the
					// seed) of the two-operand cells
					continue
				}
				if cellKnown(f.name, tx, ty) {
					ctx.Excluded("matrix-cell-known")
					continue
				}
				c := matrixCase(f.name, tx, ty)
				sig, msg, skipped := c.check()
				if skipped {
					ctx.Class("matrix-well-typed")
					continue
				}
				ctx.Eval()
				ctx.Class("matrix-ill-typed")
				ctx.Nontrivial(c.Src)
				if sig != "" {
					report(c, sig, msg)
				}
			}
		}
	}
}

func run(ctx *vf.Ctx) {
	if os.Getenv("VERIF_C12_MATRIX") != "" {
		out, _ := os.Create(fmt.Sprintf("%s/scratch/c12matrix-%d.jsonl", vf.Root, ctx.Shard))
		defer out.Close()
		runMatrix(ctx, true, nil, func(c *Case, sig, msg string) {
			b, _ := json.Marshal(map[string]string{"op": c.Operator, "ctx": c.Context, "sig": sig, "msg": msg})
			out.Write(append(b, '\n'))
		})
		ctx.DoneN(1)
		return
	}
	cfg := config()
	skip := knownOps()
	for op := range skip {
		ctx.Excluded(op)
	}
	// the operation x operand types matrix, enumerated (not drawn)
	runMatrix(ctx, ctx.Tier == "thorough", skip, func(c *Case, sig, msg string) {
		if ctx.Survey {
			ctx.Class("survey-fail:" + sig)
			return
		}
		ctx.ReportViolation(sig, msg, c)
	})
	ctx.Rapid("mutants", 0, ctx.Cases, 45*time.Second, func(t *rapid.T) {
		c, orig, ok := genMutant(t, cfg, skip)
		ctx.Done()
		if !ok || c.Src == "" {
			ctx.Class("no-applicable-site")
			return
		}
		if !vf.IsKnown("C12", "imported-package-initialised") {
			c.Imported = rapid.IntRange(0, 4).Draw(t, "imported") == 0
		}
		sig, msg, skipped := c.check()
		if skipped {
			ctx.Class("mutation-not-ill-typed:" + c.Operator)
			return
		}
		ctx.Eval()
		ctx.Class("op:" + c.Operator)
		ctx.Class("ctx:" + c.Context)
		if c.Imported {
			ctx.Class("with-imported-source-package")
		}
		ctx.Nontrivial(c.Src)
		ctx.Sample(map[string]any{"operator": c.Operator, "context": c.Context, "src_lines": strings.Count(c.Src, "\n")}, 4)
		if sig != "" {
			ctx.CaseFail(t, sig, msg, c)
			return
		}
		// the unmodified program must not be rejected (sampled: 1 in 8)
		if rapid.IntRange(0, 7).Draw(t, "checkorig") == 0 {
			out, _ := yrun.Execute(&yrun.Job{Src: orig, OpBudget: 30_000_000}, 20*time.Second)
			ctx.Class("original-checked")
			if out.Class == yrun.Compile || !strings.HasPrefix(out.Stdout, "PKGINIT\nINIT 1\nMAIN\n") {
				ctx.CaseFail(t, "original-rejected", fmt.Sprintf("the unmodified well-typed program was rejected or did not start normally: class %s err %q stdout %q", out.Class, out.Err, clip(out.Stdout)), &Case{Src: orig, Operator: "none"})
			}
		}
	})
}

func replay(ctx *vf.Ctx, data json.RawMessage) (string, string) {
	var c Case
	if err := json.Unmarshal(data, &c); err != nil {
		return "bad replay file: " + err.Error(), "harness"
	}
	if c.Operator == "none" {
		out, _ := yrun.Execute(&yrun.Job{Src: c.Src}, 20*time.Second)
		if out.Class == yrun.Compile {
			return "well-typed program rejected: " + out.Err, "original-rejected"
		}
		return "", ""
	}
	sig, msg, _ := c.check()
	return msg, sig
}

func init() {
	vf.Register(&vf.Check{
		ID:    "C12",
		Level: "exploration",
		Rule:  "case = a well-typed program from internal/progen instrumented so that package initialisation, init and the first statement of main print, broken by ONE mutation: either an AST operator at a drawn site (operand/assignment/argument/return/var-init type swap, argument and result count, undefined name/field/method, out-of-range constant in assignment/var/argument position, non-boolean for condition, composite-literal duplicate/unknown/mixed/too-few/too-many/element-type/array-bounds/map-key) or an ill-typed statement snippet (builtin misuse, channel direction, invalid conversion, shift of float, uncomparable comparison, non-integer index, interface not implemented, ...) inserted at a drawn position of a drawn block; a mutant is judged only if go/types rejects it; oracle: the interpreter returns an error and Options.Stdout stays empty; the unmodified program must start normally; every judged mutant is non-trivial, distinct by source",
		Assumptions: []string{
			"go/types of the installed toolchain is the reference for ill-typedness",
			"mutation classes stay within the classes the property lists (unused variables/imports, missing return, duplicate switch cases are not generated)",
			"an error returned without any output counts as rejection even when it is raised as a panic",
		},
		Cases:  map[string]int{"quick": 2400, "thorough": 120000},
		Shards: map[string]int{"quick": 8, "thorough": 16},
		Run:    run,
		Replay: replay,
	})
}
