// Package c09 holds the check of property C09.
package c09
