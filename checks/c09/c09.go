// Package c09 checks that cancelling the context of an evaluation stops all
// interpreted activity, at every cancellation point: the harness owns the
// cancellation instant through the verif step hook (fault-point enumeration,
// no timers).
package c09

import (
	"context"
	"encoding/json"
	"errors"
	"fmt"
	"reflect"
	"runtime"
	"strings"
	"sync/atomic"
	"testing/fstest"
	"time"

	"github.com/traefik/yaegi/interp"
	"github.com/traefik/yaegi/stdlib"
	"pgregory.net/rapid"

	"verif/internal/vf"
	"verif/internal/yrun"
)

// Case is one program with cancellation points.
type Case struct {
	Template string `json:"template"`
	Src      string `json:"src"`
	Entry    string `json:"entry"`  // eval | execute | evalpath | preload (declarations loaded by an earlier EvalWithContext(context.Background()), main called by the cancellable one)
	MaxG     int    `json:"max_g"`  // maximum number of interpreted goroutines alive at any time
	Points   []int  `json:"points"` // cancellation points (operation numbers, 1-based)
}

type tmpl struct {
	name string
	// gen returns the source and the maximum number of interpreted goroutines
	gen func(t *rapid.T) (string, int)
}

const header = "package main\n\nimport (\n\t\"host\"\n\t\"sync\"\n)\n\nvar _ sync.Mutex\n\n"

func n(t *rapid.T, lo, hi int, l string) int { return rapid.IntRange(lo, hi).Draw(t, l) }

var blockers = []string{
	"<-c",
	"c <- 1",
	"select {\n\t\tcase <-c:\n\t\tcase <-d:\n\t\t}",
	"select {\n\t\tcase c <- 1:\n\t\tcase v := <-d:\n\t\t\t_ = v\n\t\t}",
	"for range c {\n\t\t}",
	"v, ok := <-c\n\t\t_, _ = v, ok",
}

var templates = []tmpl{
	{"busy-loop", func(t *rapid.T) (string, int) {
		return header + fmt.Sprintf("func main() {\n\tfor i := 0; i < %d; i++ {\n\t\thost.Tick(1)\n\t}\n}\n", n(t, 5, 60, "n")), 1
	}},
	{"nested-calls", func(t *rapid.T) (string, int) {
		return header + fmt.Sprintf(`func leaf(x int) int {
	host.Tick(2)
	return x + 1
}

func mid(x int) int {
	s := 0
	for i := 0; i < %d; i++ {
		s += leaf(x + i)
	}
	return s
}

func main() {
	t := 0
	for i := 0; i < %d; i++ {
		t += mid(i)
	}
	_ = t
}
`, n(t, 1, 5, "a"), n(t, 2, 10, "b")), 1
	}},
	{"recursion", func(t *rapid.T) (string, int) {
		return header + fmt.Sprintf(`func rec(n int) int {
	host.Tick(3)
	if n <= 0 {
		return 0
	}
	return 1 + rec(n-1) + rec(n/2)
}

func main() {
	_ = rec(%d)
}
`, n(t, 2, 9, "depth")), 1
	}},
	{"closures", func(t *rapid.T) (string, int) {
		return header + fmt.Sprintf(`func main() {
	acc := 0
	ping := func(x int) int { host.Tick(4); acc += x; return acc }
	var pong func(x int) int
	pong = func(x int) int {
		if x <= 0 {
			return ping(1)
		}
		return pong(x-1) + ping(x)
	}
	for i := 0; i < %d; i++ {
		_ = pong(i %% 4)
	}
}
`, n(t, 2, 12, "n")), 1
	}},
	{"goroutine-workers", func(t *rapid.T) (string, int) {
		k := n(t, 1, 5, "k")
		return header + fmt.Sprintf(`func worker(id int, done chan int) {
	for i := 0; i < %d; i++ {
		host.Tick(id)
	}
	done <- id
}

func main() {
	done := make(chan int)
	for w := 0; w < %d; w++ {
		go worker(w, done)
	}
	for i := 0; i < %d; i++ {
		host.Tick(99)
	}
	for w := 0; w < %d; w++ {
		<-done
	}
}
`, n(t, 3, 25, "iters"), k, n(t, 0, 20, "mainiters"), k), k + 1
	}},
	{"pipeline", func(t *rapid.T) (string, int) {
		return header + fmt.Sprintf(`func main() {
	a := make(chan int)
	b := make(chan int, %d)
	done := make(chan bool)
	go func() {
		for v := range a {
			host.Tick(1)
			b <- v * 2
		}
		close(b)
	}()
	go func() {
		s := 0
		for v := range b {
			host.Tick(2)
			s += v
		}
		done <- true
	}()
	for i := 0; i < %d; i++ {
		a <- i
	}
	close(a)
	<-done
}
`, n(t, 0, 3, "buf"), n(t, 2, 20, "msgs")), 3
	}},
	{"blocked-goroutines", func(t *rapid.T) (string, int) {
		k := n(t, 1, 4, "k")
		var b strings.Builder
		b.WriteString(header)
		b.WriteString("func main() {\n\tjoin := make(chan int)\n")
		var release []string
		for g := 0; g < k; g++ {
			bl := n(t, 0, len(blockers)-1, "blocker")
			fmt.Fprintf(&b, "\tc%d, d%d := make(chan int), make(chan int)\n\tgo func(c, d chan int) {\n\t\thost.Tick(%d)\n\t\t%s\n\t\thost.Tick(%d)\n\t\tjoin <- 1\n\t}(c%d, d%d)\n", g, g, 10+g, blockers[bl], 20+g, g, g)
			switch bl {
			case 1: // blocked in send: receive from it
				release = append(release, fmt.Sprintf("\t<-c%d\n", g))
			case 3: // select with a send case: receive
				release = append(release, fmt.Sprintf("\t<-c%d\n", g))
			default:
				release = append(release, fmt.Sprintf("\tclose(c%d)\n", g))
			}
		}
		fmt.Fprintf(&b, "\tfor i := 0; i < %d; i++ {\n\t\thost.Tick(99)\n\t}\n", n(t, 3, 40, "mainiters"))
		for _, r := range release {
			b.WriteString(r)
		}
		fmt.Fprintf(&b, "\tfor g := 0; g < %d; g++ {\n\t\t<-join\n\t}\n}\n", k)
		return b.String(), k + 1
	}},
	{"package-init", func(t *rapid.T) (string, int) {
		return header + fmt.Sprintf(`func work(n int) int {
	s := 0
	for i := 0; i < n; i++ {
		host.Tick(5)
		s += i
	}
	return s
}

var a = work(%d)
var b = work(%d) + a

func init() {
	_ = work(%d)
}

func main() {
	_ = work(%d)
	_ = a + b
}
`, n(t, 2, 15, "a"), n(t, 2, 15, "b"), n(t, 2, 15, "c"), n(t, 2, 15, "d")), 1
	}},
}

type session struct {
	i     *interp.Interpreter
	ops   atomic.Int64
	ticks atomic.Int64
	// armed: the cancellable evaluation has started (operations of the
	// preload phase, which no cancellation can reach, are not counted)
	armed atomic.Bool
}

func newSession(c *Case) *session {
	s := &session{}
	opt := interp.Options{}
	if c.Entry == "evalpath" {
		opt.SourcecodeFilesystem = fstest.MapFS{"m/main.go": &fstest.MapFile{Data: []byte(c.Src)}}
	}
	s.i = interp.New(opt)
	s.armed.Store(c.Entry != "preload" && c.Entry != "execute-warm")
	if err := s.i.Use(stdlib.Symbols); err != nil {
		panic(err)
	}
	if err := s.i.Use(interp.Exports{"host/host": {"Tick": reflect.ValueOf(func(id int) { s.ticks.Add(1) })}}); err != nil {
		panic(err)
	}
	return s
}

// start launches the evaluation through the case's entry point.
func (s *session) start(ctx context.Context, c *Case) chan error {
	res := make(chan error, 1)
	go func() {
		defer func() {
			if p := recover(); p != nil {
				res <- fmt.Errorf("escaped Go panic: %v", p)
			}
		}()
		switch c.Entry {
		case "execute", "execute-warm":
			if c.Entry == "execute-warm" {
				// an earlier, unrelated evaluation with a context has switched the
				// interpreter to cancellable channel operations before Compile
				s.armed.Store(false)
				if _, err := s.i.EvalWithContext(context.Background(), "var warm = 1"); err != nil {
					res <- fmt.Errorf("warm: %w", err)
					return
				}
				s.armed.Store(true)
			}
			prog, err := s.i.Compile(c.Src)
			if err != nil {
				res <- fmt.Errorf("compile: %w", err)
				return
			}
			_, err = s.i.ExecuteWithContext(ctx, prog)
			res <- err
		case "evalpath":
			_, err := s.i.EvalPathWithContext(ctx, "m/main.go")
			res <- err
		case "preload":
			// the declarations are loaded by an earlier evaluation whose context can
			// not be cancelled; the cancellable evaluation only calls them
			decl := strings.Replace(c.Src, "func main() {", "func Run() {", 1)
			s.armed.Store(false)
			if _, err := s.i.EvalWithContext(context.Background(), decl); err != nil {
				res <- fmt.Errorf("preload: %w", err)
				return
			}
			s.armed.Store(true)
			_, err := s.i.EvalWithContext(ctx, "Run()")
			res <- err
		default:
			_, err := s.i.EvalWithContext(ctx, c.Src)
			res <- err
		}
	}()
	return res
}

// settle waits until f() stops changing (stable for quiet) or limit elapses;
// it returns the last value. The failing states are stable, so the limits only
// affect run time, not verdicts.
func settle(f func() int64, quiet, limit time.Duration) int64 {
	last, at, start := f(), time.Now(), time.Now()
	for {
		time.Sleep(2 * time.Millisecond)
		v := f()
		if v != last {
			last, at = v, time.Now()
		} else if time.Since(at) > quiet {
			return last
		}
		if time.Since(start) > limit {
			return v
		}
	}
}

// total runs the program uncancelled and returns the number of operations.
func total(c *Case) (int, string) {
	s := newSession(c)
	s.i.VerifSetStepHook(func() {
		if s.armed.Load() {
			s.ops.Add(1)
		}
	})
	res := s.start(context.Background(), c)
	last, clock := int64(-1), yrun.NewStallClock()
	for {
		select {
		case err := <-res:
			if err != nil {
				return 0, "uncancelled run failed: " + err.Error()
			}
			return int(s.ops.Load()), ""
		case <-time.After(50 * time.Millisecond):
			if v := s.ops.Load(); v != last {
				last = v
				clock.Reset()
			} else if clock.Idle() > 20*time.Second {
				return 0, "uncancelled run made no progress for 20 s"
			}
		}
	}
}

// cancelAt runs the program and cancels exactly when operation k is about to
// execute. It returns a violation signature/message or "".
func cancelAt(c *Case, k int) (string, string, map[string]int) {
	stats := map[string]int{}
	baseG := runtime.NumGoroutine()
	s := newSession(c)
	parked := make(chan struct{}, 1)
	release := make(chan struct{})
	s.i.VerifSetStepHook(func() {
		if !s.armed.Load() {
			return
		}
		if s.ops.Add(1) == int64(k) {
			parked <- struct{}{}
			<-release
		}
	})
	ctx, cancel := context.WithCancel(context.Background())
	defer cancel()
	res := s.start(ctx, c)
	// wait until operation k is reached (or the program ends before)
	select {
	case <-parked:
	case err := <-res:
		close(release)
		if err != nil {
			return "uncancelled-error", fmt.Sprintf("the program ended with %v before reaching operation %d", err, k), stats
		}
		stats["point-beyond-end"]++
		return "", "", stats
	case <-time.After(60 * time.Second):
		close(release)
		return "", "", stats // inconclusive: operation k was never reached (schedule-dependent count)
	}
	cancel()
	t0 := time.Now()
	var err error
	select {
	case err = <-res:
	case <-time.After(60 * time.Second):
		close(release)
		return "call-did-not-return", fmt.Sprintf("%s: cancelled at operation %d, the call had not returned after 60 s although only one goroutine is parked", c.Entry, k), stats
	}
	stats["return-latency-us"] = int(time.Since(t0).Microseconds())
	ticksAtReturn, opsAtReturn := s.ticks.Load(), s.ops.Load()
	if err == nil && c.MaxG > 1 {
		// another goroutine than main was parked and main completed before
		// the cancellation was observed: the evaluation simply finished
		close(release)
		stats["completed-before-cancel-observed"]++
		return "", "", stats
	}
	if !errors.Is(err, context.Canceled) {
		close(release)
		return "wrong-error", fmt.Sprintf("%s: cancelled at operation %d, the call returned %v instead of the context's error", c.Entry, k, err), stats
	}
	close(release)
	// quiescence: operations and side effects stop, goroutines exit
	opsEnd := settle(func() int64 { return s.ops.Load() }, 30*time.Millisecond, 3*time.Second)
	ticksEnd := s.ticks.Load()
	extraTicks, extraOps := int(ticksEnd-ticksAtReturn), int(opsEnd-opsAtReturn)
	stats["ticks-after-return"] = extraTicks
	if extraTicks > c.MaxG {
		return "side-effects-after-return", fmt.Sprintf("%s: cancelled at operation %d of template %s: %d host side effects and %d interpreted operations after the call returned (at most %d goroutines, one operation in flight each)", c.Entry, k, c.Template, extraTicks, extraOps, c.MaxG), stats
	}
	if extraOps > 4*c.MaxG+4 {
		return "operations-after-return", fmt.Sprintf("%s: cancelled at operation %d of template %s: %d interpreted operations after the call returned (at most %d goroutines)", c.Entry, k, c.Template, extraOps, c.MaxG), stats
	}
	g := settle(func() int64 { return int64(runtime.NumGoroutine()) }, 20*time.Millisecond, 2*time.Second)
	if int(g) > baseG {
		// stable failing state: give it a long grace before calling it a leak
		g = settle(func() int64 {
			if n := runtime.NumGoroutine(); n <= baseG {
				return -1
			}
			return int64(runtime.NumGoroutine())
		}, 3*time.Second, 30*time.Second)
		if g > int64(baseG) {
			return "goroutines-not-stopped", fmt.Sprintf("%s: cancelled at operation %d of template %s: %d goroutines remain (baseline %d)", c.Entry, k, c.Template, g, baseG), stats
		}
	}
	return "", "", stats
}

func (c *Case) check() (string, string, map[string]int) {
	all := map[string]int{}
	for _, k := range c.Points {
		sig, msg, st := cancelAt(c, k)
		for key, v := range st {
			if key == "return-latency-us" {
				if v > all["max-return-latency-us"] {
					all["max-return-latency-us"] = v
				}
				continue
			}
			all[key] += v
		}
		all["points"]++
		if sig != "" {
			return sig, msg, all
		}
	}
	return "", "", all
}

func genCase(t *rapid.T, perCase int, skip map[string]bool) *Case {
	var ts []tmpl
	for _, tm := range templates {
		if !skip[tm.name] {
			ts = append(ts, tm)
		}
	}
	tm := ts[rapid.IntRange(0, len(ts)-1).Draw(t, "template")]
	c := &Case{Template: tm.name}
	c.Src, c.MaxG = tm.gen(t)
	c.Entry = []string{"eval", "execute", "evalpath", "preload"}[rapid.IntRange(0, 3).Draw(t, "entry")]
	if c.Entry == "execute" && skip["execute-precompiled-chan"] && (tm.name == "pipeline" || tm.name == "blocked-goroutines" || tm.name == "goroutine-workers") {
		// known finding: channel operations compiled before the first *WithContext
		// call are not cancellable: the program is compiled after an unrelated
		// evaluation with a context
		c.Entry = "execute-warm"
	}
	// the cancellation points are fractions of the operation count, fixed
	// once the uncancelled run is known
	for j := 0; j < perCase; j++ {
		c.Points = append(c.Points, rapid.IntRange(1, 1000).Draw(t, "permille"))
	}
	return c
}

func run(ctx *vf.Ctx) {
	perCase := 6
	if ctx.Tier == "thorough" {
		perCase = 20
	}
	skip := map[string]bool{}
	for _, tm := range templates {
		if vf.IsKnown("C09", "template:"+tm.name) {
			skip[tm.name] = true
			ctx.Excluded("template:" + tm.name)
		}
	}
	if vf.IsKnown("C09", "execute-precompiled-chan") {
		skip["execute-precompiled-chan"] = true
		ctx.Excluded("execute-precompiled-chan")
	}
	ctx.Rapid("cancel", 0, ctx.Cases, 90*time.Second, func(t *rapid.T) {
		c := genCase(t, perCase, skip)
		ctx.Done()
		nOps, msg := total(c)
		if msg != "" {
			ctx.Class("discard:uncancelled-run-failed")
			return
		}
		// map per-mille to operation numbers; small programs: all points
		seen := map[int]bool{}
		var pts []int
		for _, pm := range c.Points {
			k := 1 + (pm-1)*nOps/1000
			if k > nOps {
				k = nOps
			}
			if !seen[k] {
				seen[k] = true
				pts = append(pts, k)
			}
		}
		c.Points = pts
		sig, vmsg, stats := c.check()
		ctx.EvalN(len(pts))
		ctx.Class("template:" + c.Template)
		ctx.Class("entry:" + c.Entry)
		for k, v := range stats {
			if k == "max-return-latency-us" {
				continue
			}
			ctx.ClassN(k, v)
		}
		if c.MaxG > 1 || strings.Contains(c.Src, "func leaf") || strings.Contains(c.Src, "func rec") || c.Template == "package-init" {
			for _, k := range pts {
				ctx.Nontrivial(fmt.Sprintf("%s|%s|%d", c.Src, c.Entry, k))
			}
		}
		ctx.Sample(map[string]any{"template": c.Template, "entry": c.Entry, "ops": nOps, "points": pts, "max_return_latency_us": stats["max-return-latency-us"]}, 4)
		if sig != "" {
			ctx.CaseFail(t, sig, vmsg, c)
		}
	})
}

func replay(ctx *vf.Ctx, data json.RawMessage) (string, string) {
	var c Case
	if err := json.Unmarshal(data, &c); err != nil {
		return "bad replay file: " + err.Error(), "harness"
	}
	sig, msg, _ := c.check()
	return msg, sig
}

func init() {
	vf.Register(&vf.Check{
		ID:    "C09",
		Level: "fault_enumeration",
		Rule:  "case = a program from a template family (busy loop, nested calls, recursion, closure ping-pong, goroutine workers with WaitGroup, channel pipeline with range/close, goroutines parked in each blocking construct {recv, send, select recv/send, range, recv-ok}, package initialisers + init + main) x entry point {EvalWithContext, ExecuteWithContext (for channel templates: compiled after an unrelated EvalWithContext, see the recorded finding execute-precompiled-chan), EvalPathWithContext, declarations preloaded by a non-cancellable evaluation} x cancellation points k chosen among the N operations of an uncancelled run; the step hook parks the goroutine about to execute operation k, the harness cancels, waits for the call to return, releases, and checks: the call returns context.Canceled, at most one host side effect per interpreted goroutine happens after the return, interpreted operations stop, goroutines exit; non-trivial = k falls in a program with callee frames, several goroutines or package initialisation; distinct by (program, entry, k)",
		Assumptions: []string{
			"YAEGI_FAST_CHAN is unset (cancellable channel mode)",
			"the operation count of goroutine programs is schedule-dependent: a point beyond the end of a run is counted, not judged",
			"goroutine exit is observed through runtime.NumGoroutine of the check process; the settle periods only bound run time because the failing states are stable",
		},
		Cases:  map[string]int{"quick": 160, "thorough": 3000},
		Shards: map[string]int{"quick": 8, "thorough": 16},
		Run:    run,
		Replay: replay,
	})
}
