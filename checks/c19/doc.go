// Package c19 holds the check of property C19.
package c19
