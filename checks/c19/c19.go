// Package c19 checks that running a program under the Debugger does not
// change its behaviour, and that line breakpoints are reported in execution
// order (metamorphic relation against plain Execute on a fresh interpreter).
package c19

import (
	"bytes"
	"context"
	"encoding/json"
	"errors"
	"fmt"
	"os"
	"reflect"
	"regexp"
	"sort"
	"strings"
	"sync"
	"time"

	"github.com/traefik/yaegi/interp"
	"github.com/traefik/yaegi/stdlib"
	"pgregory.net/rapid"

	"verif/internal/progen"
	"verif/internal/vf"
	"verif/internal/yrun"
)

// Case is one debug session.
type Case struct {
	Src     string   `json:"src"`
	Lines   []int    `json:"lines"`           // line breakpoints
	Funcs   []string `json:"funcs"`           // function breakpoints
	Actions []int    `json:"actions"`         // resume requests consumed at each stop: 0 continue, 1 into, 2 over, 3 out
	Entry   bool     `json:"entry"`           // start with Step(DebugEntry)
	Split   bool     `json:"split,omitempty"` // function breakpoints set by a first SetBreakpoints call, line breakpoints by a second one
}

type syncBuf struct {
	mu sync.Mutex
	b  bytes.Buffer
}

func (s *syncBuf) Write(p []byte) (int, error) {
	s.mu.Lock()
	defer s.mu.Unlock()
	if s.b.Len() < 4<<20 {
		s.b.Write(p)
	}
	return len(p), nil
}
func (s *syncBuf) String() string {
	s.mu.Lock()
	defer s.mu.Unlock()
	return s.b.String()
}

type result struct {
	stdout   string
	errClass string // "", "panic", "error", "compile"
	panicVal string
	value    string
	stuck    string
}

func newInterp(out *syncBuf) *interp.Interpreter {
	i := interp.New(interp.Options{Stdout: out, Stderr: &syncBuf{}, Args: []string{"prog"}})
	if err := i.Use(stdlib.Symbols); err != nil {
		panic(err)
	}
	return i
}

func classify(v reflect.Value, err error, r *result) {
	var p interp.Panic
	switch {
	case err == nil:
	case errors.As(err, &p):
		r.errClass = "panic"
		r.panicVal = fmt.Sprint(p.Value)
	default:
		r.errClass = "error"
		r.panicVal = err.Error()
	}
	if v.IsValid() && v.CanInterface() && v.Kind() != reflect.Func && v.Kind() != reflect.Ptr {
		r.value = fmt.Sprint(v.Interface())
	}
}

// plain executes the program without debugger.
func plain(src string) result {
	out := &syncBuf{}
	i := newInterp(out)
	var r result
	prog, err := i.Compile(src)
	if err != nil {
		r.errClass = "compile"
		r.panicVal = err.Error()
		return r
	}
	done := make(chan struct{})
	go func() {
		defer close(done)
		defer func() {
			if p := recover(); p != nil {
				r.errClass, r.panicVal = "escaped", fmt.Sprint(p)
			}
		}()
		v, err := i.Execute(prog)
		classify(v, err, &r)
	}()
	if !waitProgress(done, i) {
		r.stuck = "plain execution made no progress"
	}
	r.stdout = out.String()
	return r
}

// waitProgress waits for done; it gives up when the interpreter executes no
// operation for 20 s (never a bare wall-clock limit).
func waitProgress(done chan struct{}, i *interp.Interpreter) bool {
	last, clock := i.VerifOps(), yrun.NewStallClock()
	t := time.NewTicker(100 * time.Millisecond)
	defer t.Stop()
	for {
		select {
		case <-done:
			return true
		case <-t.C:
			if n := i.VerifOps(); n != last {
				last = n
				clock.Reset()
			} else if clock.Idle() > 20*time.Second {
				return false
			}
		}
	}
}

type event struct {
	reason interp.DebugEventReason
	line   int
	out    int // bytes of stdout when the event arrived
}

// debug runs the session described by c.
func debug(c *Case) (result, []event, []interp.Breakpoint) {
	out := &syncBuf{}
	i := newInterp(out)
	var r result
	prog, err := i.Compile(c.Src)
	if err != nil {
		r.errClass, r.panicVal = "compile", err.Error()
		return r, nil, nil
	}
	evc := make(chan event, 1024)
	var events []event
	ctx, cancel := context.WithCancel(context.Background())
	defer cancel()
	dbg := i.Debug(ctx, prog, func(e *interp.DebugEvent) {
		ev := event{reason: e.Reason(), out: len(out.String())}
		switch e.Reason() {
		case interp.DebugBreak, interp.DebugEntry, interp.DebugStepInto, interp.DebugStepOver, interp.DebugStepOut, interp.DebugPause:
			if fr := e.Frames(0, 1); len(fr) > 0 {
				ev.line = fr[0].Position().Line
			}
		}
		evc <- ev
	}, nil)
	var reqs []interp.BreakpointRequest
	for _, l := range c.Lines {
		reqs = append(reqs, interp.LineBreakpoint(l))
	}
	for _, f := range c.Funcs {
		reqs = append(reqs, interp.FunctionBreakpoint(f))
	}
	var bps []interp.Breakpoint
	switch {
	case c.Split && len(c.Lines) > 0 && len(c.Funcs) > 0:
		// as a debug adapter does: one request per kind; a request for lines
		// leaves the function breakpoints in place
		fb := dbg.SetBreakpoints(interp.ProgramBreakpointTarget(prog), reqs[len(c.Lines):]...)
		lb := dbg.SetBreakpoints(interp.ProgramBreakpointTarget(prog), reqs[:len(c.Lines)]...)
		bps = append(lb, fb...)
	case len(reqs) > 0:
		bps = dbg.SetBreakpoints(interp.ProgramBreakpointTarget(prog), reqs...)
	}
	done := make(chan struct{})
	go func() {
		defer close(done)
		defer func() {
			if p := recover(); p != nil {
				r.errClass, r.panicVal = "escaped", fmt.Sprint(p)
			}
		}()
		v, err := dbg.Wait()
		classify(v, err, &r)
	}()
	// start
	if c.Entry {
		_ = dbg.Step(0, interp.DebugEntry)
	} else {
		_ = dbg.Continue(0)
	}
	next := 0
	resume := func() {
		a := 0
		if next < len(c.Actions) {
			a = c.Actions[next]
			next++
		}
		if a == 0 {
			_ = dbg.Continue(0)
			return
		}
		reason := []interp.DebugEventReason{0, interp.DebugStepInto, interp.DebugStepOver, interp.DebugStepOut}[a]
		for try := 0; try < 2000; try++ {
			err := dbg.Step(0, reason)
			if err == nil || !errors.Is(err, interp.ErrRunning) {
				return
			}
			time.Sleep(50 * time.Microsecond) // the stopped goroutine has not marked itself stopped yet
		}
		_ = dbg.Continue(0)
	}
	last, clock := i.VerifOps(), yrun.NewStallClock()
	tick := time.NewTicker(100 * time.Millisecond)
	defer tick.Stop()
	terminated := false
loop:
	for {
		select {
		case ev := <-evc:
			events = append(events, ev)
			clock.Reset()
			switch ev.reason {
			case interp.DebugBreak, interp.DebugEntry, interp.DebugStepInto, interp.DebugStepOver, interp.DebugStepOut, interp.DebugPause:
				resume()
			case interp.DebugTerminate:
				terminated = true
			}
		case <-done:
			break loop
		case <-tick.C:
			if n := i.VerifOps(); n != last {
				last = n
				clock.Reset()
			} else if clock.Idle() > 20*time.Second {
				r.stuck = "debug session made no progress for 20s (no interpreted operation, no event)"
				dbg.Terminate()
				break loop
			}
		}
	}
	// drain remaining events
	for {
		select {
		case ev := <-evc:
			events = append(events, ev)
			if ev.reason == interp.DebugTerminate {
				terminated = true
			}
			continue
		default:
		}
		break
	}
	if r.stuck == "" && !terminated {
		// the terminate event is emitted by a deferred call that runs after
		// the context is cancelled: give it a moment to arrive
		select {
		case ev := <-evc:
			events = append(events, ev)
		case <-time.After(2 * time.Second):
		}
	}
	r.stdout = out.String()
	return r, events, bps
}

var markRe = regexp.MustCompile(`^\s*fmt\.Print(?:ln|f)\("([pbe]\d+)[ "%\\]|^var gMk\d+ = initMark\("(p\d+)"`)

// markerLines maps source line → marker label for single-line print
// statements: pN (print statements), bN (end-of-block prints) and eN (function
// entry markers added by injectEntry). A label carried by several lines is not
// a marker.
func markerLines(src string) map[int]string {
	m := map[int]string{}
	count := map[string]int{}
	for i, l := range strings.Split(src, "\n") {
		if mm := markRe.FindStringSubmatch(l); mm != nil {
			lab := mm[1] + mm[2]
			m[i+1] = lab
			count[lab]++
		}
	}
	for l, lab := range m {
		if count[lab] > 1 {
			delete(m, l)
		}
	}
	return m
}

// nestedCallRe matches a call of a generated function.
var nestedCallRe = regexp.MustCompile(`\bfn\d+\(`)

var funcRe = regexp.MustCompile(`^func (main|fn\d+)\(.*\{$`)

// injectEntry adds a marker print as first statement of main and of every
// generated top-level function, so that the calls of a function are visible in
// the output: a function breakpoint must be reported once per entry marker.
func injectEntry(src string) string {
	if !strings.Contains(src, "\t\"fmt\"\n") {
		return src
	}
	var out []string
	k := 0
	for _, l := range strings.Split(src, "\n") {
		out = append(out, l)
		if funcRe.MatchString(l) {
			k++
			out = append(out, fmt.Sprintf("\tfmt.Println(\"e%d\")", k))
		}
	}
	return strings.Join(out, "\n")
}

// injectGlobals adds n package-level variables whose initialiser, on one line,
// prints a marker through a helper: a line breakpoint on such a line is
// reported when the package is initialised, before the marker. The first one,
// when there are several, refers to the second one, so that the lines do not
// execute in source order.
func injectGlobals(src string, n int) string {
	if n == 0 || !strings.Contains(src, "\t\"fmt\"\n") {
		return src
	}
	var out []string
	done := false
	for _, l := range strings.Split(src, "\n") {
		if !done && strings.HasPrefix(l, "func ") {
			done = true
			out = append(out, "func initMark(s string, v int) int {", "\tfmt.Println(s, \"init\", v)", "\treturn v + 1", "}", "")
			for k := 0; k < n; k++ {
				arg := fmt.Sprint(k)
				if k == 0 && n > 1 {
					arg = "gMk1"
				}
				out = append(out, fmt.Sprintf("var gMk%d = initMark(\"p%d\", %s)", k, 9000+k, arg))
			}
			out = append(out, "")
		}
		out = append(out, l)
	}
	return strings.Join(out, "\n")
}

// globalMarksEnd is the line of func main: the injected package-level
// initialisers are above it.
func globalMarksEnd(src string) int {
	for i, l := range strings.Split(src, "\n") {
		if strings.HasPrefix(l, "func main(") {
			return i + 1
		}
	}
	return 0
}

// entryLines maps the name of a function whose first statement is an entry
// marker to the line of that marker.
func entryLines(src string, marks map[int]string) map[string]int {
	m := map[string]int{}
	for i, l := range strings.Split(src, "\n") {
		if mm := funcRe.FindStringSubmatch(l); mm != nil {
			if lab, ok := marks[i+2]; ok && lab[0] == 'e' {
				m[mm[1]] = i + 2
			}
		}
	}
	return m
}

// markerSeq lists the markers printed, in order.
func markerSeq(stdout string, labels map[string]bool) []string {
	var seq []string
	for _, l := range strings.Split(stdout, "\n") {
		w := l
		if i := strings.IndexByte(l, ' '); i >= 0 {
			w = l[:i]
		}
		if labels[w] {
			seq = append(seq, w)
		}
	}
	return seq
}

// check returns (sig, msg) of a violation.
func (c *Case) check() (string, string, map[string]int) {
	stats := map[string]int{}
	p := plain(c.Src)
	if p.errClass == "compile" || p.errClass == "escaped" || p.stuck != "" {
		return "", "", stats // not a C19 matter (C01/C06): discard
	}
	d, events, bps := debug(c)
	if d.stuck != "" {
		return "session-stuck", d.stuck, stats
	}
	if d.errClass == "escaped" {
		return "escaped-panic", "a Go panic escaped the debug session: " + d.panicVal, stats
	}
	if d.stdout != p.stdout {
		return "stdout", fmt.Sprintf("output under the debugger differs from plain execution: plain %q, debug %q", clip(p.stdout), clip(d.stdout)), stats
	}
	if d.errClass != p.errClass || (p.errClass == "panic" && d.panicVal != p.panicVal) {
		return "ending", fmt.Sprintf("plain execution ends %q %q, debug session ends %q %q", p.errClass, p.panicVal, d.errClass, d.panicVal), stats
	}
	if d.value != p.value {
		return "result", fmt.Sprintf("plain result %q, debug result %q", p.value, d.value), stats
	}
	if len(events) == 0 || events[len(events)-1].reason != interp.DebugTerminate {
		return "no-terminate-event", fmt.Sprintf("the session did not end with a terminate event (%d events)", len(events)), stats
	}
	// breakpoint model on marker lines
	marks := markerLines(c.Src)
	bpLine := map[int]bool{}
	for k, l := range c.Lines {
		if k < len(bps) {
			if bps[k].Valid {
				bpLine[l] = true
				stats["bp-valid"]++
			} else if _, isMark := marks[l]; isMark {
				return "breakpoint-invalid", fmt.Sprintf("line breakpoint on print statement line %d was reported invalid", l), stats
			}
		}
	}
	// a function breakpoint stops on the first statement of the function: its
	// entry marker when there is one
	entries := entryLines(c.Src, marks)
	funcsModelled := true
	for k, f := range c.Funcs {
		l, ok := entries[f]
		if !ok {
			funcsModelled = false
			continue
		}
		if j := len(c.Lines) + k; j < len(bps) {
			if !bps[j].Valid {
				return "breakpoint-invalid", fmt.Sprintf("function breakpoint on declared function %s was reported invalid", f), stats
			}
			if bps[j].Position.Line != l {
				return "breakpoint-position", fmt.Sprintf("function breakpoint on %s: position line %d, first statement on line %d", f, bps[j].Position.Line, l), stats
			}
			bpLine[l] = true
			stats["fbp-valid"]++
		}
	}
	// A marker line whose operands call a generated function starts executing,
	// and is reported, before the markers of that function, and prints its own
	// marker after them: such lines are left out of the sequence comparison and
	// keep the per-line rules (one report per execution, before its marker).
	labels, nested, simple := map[string]bool{}, map[string]bool{}, map[string]bool{}
	srcLines := strings.Split(c.Src, "\n")
	for l, lab := range marks {
		if bpLine[l] {
			labels[lab] = true
			if l-1 < len(srcLines) && nestedCallRe.MatchString(srcLines[l-1]) {
				nested[lab] = true
			} else {
				simple[lab] = true
			}
		}
	}
	want := markerSeq(p.stdout, simple)
	var got []string
	hits := map[int]int{}
	lastPrinted := map[string]int{}
	gotPer := map[string][]int{}
	for _, ev := range events {
		switch ev.reason {
		case interp.DebugBreak:
			stats["break-events"]++
			hits[ev.line]++
			if lab, ok := marks[ev.line]; ok && labels[lab] {
				// the break for the k-th execution of the line arrives before its
				// k-th marker is printed; a second report for the same execution
				// (no marker printed in between) is tolerated: the property asks
				// that every executed breakpoint line is reported, in order
				printed := len(markerSeq(d.stdout[:ev.out], map[string]bool{lab: true}))
				if last, seen := lastPrinted[lab]; seen && last == printed {
					stats["duplicate-break-report"]++
					continue
				}
				if _, seen := lastPrinted[lab]; seen && ev.line < globalMarksEnd(c.Src) && strings.HasPrefix(lab, "p9") && len(lab) == 5 {
					// a package-level initialiser runs once and prints its marker
					// inside the helper it calls: the line may be reported again
					// when the helper returns
					stats["duplicate-break-report"]++
					continue
				}
				lastPrinted[lab] = printed
				if !nested[lab] {
					got = append(got, lab)
				}
				if printed != len(gotPer[lab]) {
					return "break-tracking", fmt.Sprintf("break-timing: break #%d on line %d (%s) arrived when %d of its markers were already printed", len(gotPer[lab])+1, ev.line, lab, printed), stats
				}
				gotPer[lab] = append(gotPer[lab], printed)
			} else if !bpLine[ev.line] && funcsModelled {
				return "break-tracking", fmt.Sprintf("break-without-breakpoint: break event on line %d where no breakpoint was set", ev.line), stats
			}
		case interp.DebugStepInto:
			stats["step-into-events"]++
		case interp.DebugStepOver:
			stats["step-over-events"]++
		case interp.DebugStepOut:
			stats["step-out-events"]++
		case interp.DebugEntry:
			stats["entry-events"]++
		}
	}
	if p.errClass == "panic" && len(got) == len(want)+1 && strings.Join(want, ",") == strings.Join(got[:len(want)], ",") {
		// the last reported line started executing but the program panicked
		// before its marker was printed
		got = got[:len(want)]
	}
	if len(got) < len(want) && isSubsequence(got, want) {
		return "break-tracking", fmt.Sprintf("break-missed: markers executed on breakpoint lines: %v; break events reported: %v", clipSeq(want), clipSeq(got)), stats
	}
	if strings.Join(want, ",") != strings.Join(got, ",") {
		return "break-tracking", fmt.Sprintf("break-sequence: markers executed on breakpoint lines: %v; break events reported: %v", clipSeq(want), clipSeq(got)), stats
	}
	// the return statement of the injected helper executes once per call: a
	// breakpoint on its line is reported as many times as the helper prints
	for i, l := range srcLines {
		if l == "\treturn v + 1" && i > 1 && strings.HasPrefix(srcLines[i-2], "func initMark(") && bpLine[i+1] {
			calls := 0
			for _, ol := range strings.Split(p.stdout, "\n") {
				if len(ol) > 10 && strings.HasPrefix(ol, "p9") && strings.HasPrefix(ol[5:], " init ") {
					calls++
				}
			}
			if hits[i+1] != calls {
				return "break-tracking", fmt.Sprintf("break-count: the return statement on breakpoint line %d executed %d times and was reported %d times", i+1, calls, hits[i+1]), stats
			}
			stats["return-line-breaks"] += calls
		}
	}
	for lab := range nested {
		n, w := len(gotPer[lab]), len(markerSeq(p.stdout, map[string]bool{lab: true}))
		if n != w && !(p.errClass == "panic" && n == w+1) {
			return "break-tracking", fmt.Sprintf("break-count: marker %s, on a breakpoint line calling a function, was printed %d times and its line reported %d times", lab, w, n), stats
		}
		stats["nested-marker-breaks"] += n
	}
	stats["marker-breaks"] = len(got)
	for _, n := range hits {
		if n >= 2 {
			stats["line-hit-twice"] = 1
		}
	}
	return "", "", stats
}

func isSubsequence(sub, seq []string) bool {
	i := 0
	for _, x := range seq {
		if i < len(sub) && sub[i] == x {
			i++
		}
	}
	return i == len(sub)
}

func clip(s string) string {
	if len(s) > 300 {
		return s[:300] + "…"
	}
	return s
}

func clipSeq(s []string) []string {
	if len(s) > 30 {
		return append(append([]string{}, s[:30]...), "…")
	}
	return s
}

var knownSwitches = []string{"fallthrough-default-not-last", "label-in-case-clause", "shadow-loopvar", "invalid-utf8", "keyed-lit-compare-in-logic", "shift-count-deep-const", "delete-big-uint-const"}

func config(ctx *vf.Ctx) *progen.Config {
	cfg := progen.DefaultConfig()
	cfg.Stmts = 10

	for _, s := range knownSwitches {
		// constructs behind C01's known findings are not C19's subject
		if vf.IsKnown("C01", s) {
			cfg.Off[s] = true
		}
	}
	return cfg
}

func genCase(t *rapid.T, cfg *progen.Config) *Case {
	p := progen.Generate(t, cfg)
	p.Src = injectGlobals(injectEntry(p.Src), rapid.IntRange(0, 3).Draw(t, "globalmarks"))
	c := &Case{Src: p.Src}
	nlines := strings.Count(p.Src, "\n")
	mainLine := 1
	for i, l := range strings.Split(p.Src, "\n") {
		if strings.HasPrefix(l, "func ") || strings.HasPrefix(l, "var ") {
			if mainLine == 1 {
				mainLine = i + 1
			}
		}
	}
	funcBps := func() {
		for _, name := range []string{"main", "fn0", "fn1", "fn2"} {
			if strings.Contains(p.Src, "func "+name+"(") && rapid.Bool().Draw(t, "fbp") {
				c.Funcs = append(c.Funcs, name)
			}
		}
	}
	switch rapid.IntRange(0, 7).Draw(t, "bpmode") {
	case 0: // none
	case 1: // every line
		for l := mainLine; l <= nlines; l++ {
			c.Lines = append(c.Lines, l)
		}
	case 2, 3: // every marker line plus a random subset
		for l := range markerLines(p.Src) {
			c.Lines = append(c.Lines, l)
		}
		sort.Ints(c.Lines)
		extra := rapid.SliceOfNDistinct(rapid.IntRange(mainLine, nlines), 0, 8, rapid.ID[int]).Draw(t, "extra")
		for _, l := range extra {
			dup := false
			for _, x := range c.Lines {
				dup = dup || x == l
			}
			if !dup {
				c.Lines = append(c.Lines, l)
			}
		}
	case 4: // random subset
		c.Lines = rapid.SliceOfNDistinct(rapid.IntRange(mainLine, nlines), 1, 12, rapid.ID[int]).Draw(t, "lines")
	case 5: // function breakpoints
		funcBps()
	default: // function and line breakpoints together
		funcBps()
		if rapid.Bool().Draw(t, "marklines") {
			for l := range markerLines(p.Src) {
				c.Lines = append(c.Lines, l)
			}
			sort.Ints(c.Lines)
		}
		for _, l := range rapid.SliceOfNDistinct(rapid.IntRange(mainLine, nlines), 1, 8, rapid.ID[int]).Draw(t, "mixlines") {
			dup := false
			for _, x := range c.Lines {
				dup = dup || x == l
			}
			if !dup {
				c.Lines = append(c.Lines, l)
			}
		}
		c.Split = rapid.Bool().Draw(t, "split")
	}
	c.Actions = rapid.SliceOfN(rapid.IntRange(0, 3), 0, 40).Draw(t, "actions")
	c.Entry = rapid.Bool().Draw(t, "entry")
	return c
}

func run(ctx *vf.Ctx) {
	cfg := config(ctx)
	ctx.Rapid("debug", 0, ctx.Cases, 60*time.Second, func(t *rapid.T) {
		c := genCase(t, cfg)
		if progen.TypeCheck(c.Src) != "" {
			ctx.Done()
			return
		}
		sig, msg, stats := c.check()
		ctx.Eval()
		if sig != "" {
			ctx.CaseFail(t, sig, msg, c)
		}
		for k, v := range stats {
			ctx.ClassN(k, v)
		}
		switch {
		case len(c.Funcs) > 0 && len(c.Lines) > 0 && c.Split:
			ctx.Class("bp:functions+lines (two requests)")
		case len(c.Funcs) > 0 && len(c.Lines) > 0:
			ctx.Class("bp:functions+lines")
		case len(c.Funcs) > 0:
			ctx.Class("bp:functions")
		case len(c.Lines) == 0:
			ctx.Class("bp:none")
		default:
			ctx.Class("bp:lines")
		}
		if c.Entry {
			ctx.Class("start:step-entry")
		}
		steps := stats["step-into-events"] + stats["step-over-events"] + stats["step-out-events"]
		if stats["line-hit-twice"] > 0 && steps > 0 {
			b, _ := json.Marshal(c)
			ctx.Nontrivial(string(b))
		}
		ctx.Sample(map[string]any{"lines": c.Lines, "funcs": c.Funcs, "actions": c.Actions, "entry": c.Entry, "src_lines": strings.Count(c.Src, "\n"), "stats": stats}, 3)
		ctx.Done()
	})
}

func replay(ctx *vf.Ctx, data json.RawMessage) (string, string) {
	var c Case
	if err := json.Unmarshal(data, &c); err != nil {
		return "bad replay file: " + err.Error(), "harness"
	}
	sig, msg, _ := c.check()
	return msg, sig
}

func init() {
	vf.Register(&vf.Check{
		ID:    "C19",
		Level: "exploration",
		Rule:  "case = a sequential program from internal/progen (one statement per line) x breakpoint set (none, every line, all marker lines plus random lines, random subset, function breakpoints, function and line breakpoints together in one or two SetBreakpoints requests) x a drawn sequence of resume requests (continue, step-into, step-over, step-out) consumed at each stop x optional initial Step(DebugEntry); oracle = plain Execute of the same source on a fresh interpreter (stdout, result, panic) plus the breakpoint model: every generated function starts with an entry marker print and marker lines are the single-line print statements with a unique label (pN, bN, eN); break events on marker lines carrying a breakpoint (a line breakpoint, or a function breakpoint for the entry marker of that function) must equal, in order, the markers those lines print, each arriving before its marker; a break on a line without breakpoint is a violation; a function breakpoint on a declared function must be valid and positioned on its first statement; the session must end with a terminate event; non-trivial = some breakpoint line hit >= 2 times and >= 1 step request completed; distinct by full case content",
		Assumptions: []string{
			"the plain run is tied to compiled Go by C01; C19 compares two interpreter runs whose equality the property asserts",
			"programs are single-goroutine; the controller resumes the interpreter from outside the event callback",
			"a session is declared stuck only when no interpreted operation and no event occurred for 20 s",
		},
		Cases:  map[string]int{"quick": 2400, "thorough": 40000},
		Shards: map[string]int{"quick": 8, "thorough": 16},
		Run:    run,
		Replay: replay,
	})
}

// ProbeBoth runs src plainly and under the debugger (no breakpoints,
// continue) and returns both outputs (development aid).
func ProbeBoth(src string) (string, string) {
	if os.Getenv("REDUCE_MODE") == "dbgmark" {
		c := &Case{Src: src}
		for l := range markerLines(src) {
			c.Lines = append(c.Lines, l)
		}
		sort.Ints(c.Lines)
		for _, a := range os.Getenv("REDUCE_ACTIONS") {
			c.Actions = append(c.Actions, int(a-'0'))
		}
		sig, _, _ := c.check()
		return "", sig
	}
	p := plain(src)
	c := &Case{Src: src}
	if os.Getenv("REDUCE_MODE") == "dbgall" {
		for l := 1; l <= strings.Count(src, "\n"); l++ {
			c.Lines = append(c.Lines, l)
		}
	}
	d, _, _ := debug(c)
	return p.stdout + "[" + p.errClass + " " + p.panicVal + "]", d.stdout + "[" + d.errClass + " " + d.panicVal + "]"
}

// ReplayRaw re-runs a stored case (development aid).
func ReplayRaw(data json.RawMessage) (string, string) { return replay(nil, data) }

// CheckCase runs the oracle on a case (development aid).
func CheckCase(c *Case) (string, string) { s, m, _ := c.check(); return s, m }
