// Package c10 holds the check of property C10.
package c10
