package c10

import (
	"context"
	"errors"
	"fmt"
	"io"
	"reflect"
	"runtime"
	"strconv"
	"sync"
	"sync/atomic"
	"time"
	"verif/internal/yrun"

	"github.com/traefik/yaegi/interp"
)

// callable is one function-valued expression of the interpreted session
// together with its model.
type callable struct {
	kind     string // definition kind
	expr     string // source expression denoting it ("" for closures that only the host holds)
	ident    bool   // expr is a package-level identifier (reachable through Symbols)
	isVar    bool   // ... of a variable (reachable through Globals)
	factory  bool   // func(int) func(int) int instead of func(int) int
	closure  bool   // a function literal value created at run time
	sel      bool   // the body contains a select statement
	born     int    // cancellations seen when the function value was created
	defEpoch int    // cancellations seen when it was defined
	fn       func(x int) int
	mk       func(step int) func(int) int
	neutral  func() int // argument that leaves the state unchanged
	dep      *callable  // earlier definition called by the body (compose)
}

// handle is a function value held by the host.
type handle struct {
	c     *callable
	how   string
	v     reflect.Value
	epoch int // cancellations seen when it was obtained
	// inFunc: the function value was passed to a host function by a call made
	// inside an interpreted function (the wrapper belongs to that call frame)
	inFunc bool
}

type failure struct{ sig, msg string }

type blocker struct {
	entered chan struct{}
	release chan struct{}
}

type engine struct {
	i         *interp.Interpreter
	x         excl
	checkAll  bool
	defs      int
	calls     []*callable
	handles   []*handle
	epoch     int    // completed cancellations
	needEval  bool   // no evaluation has run since the last cancellation
	doneStale bool   // no EvalWithContext has run since the last cancellation
	lastKind  string // kind of the last cancelled evaluation
	tick      int
	g0        int
	limit     atomic.Uint64
	over      atomic.Bool
	blk       atomic.Pointer[blocker]
	marks     atomic.Int64
	kept      atomic.Pointer[func(int) int]
	stats     map[string]int
	excluded  map[string]int
	ntEval    bool
	ntHost    bool
	broken    bool
	// programs compiled by Compile and executed later (compile once, execute
	// many): each execution adds 1000 + f(x) to the script variable Acc
	progs  []*prog
	accSum int
	guards sync.Map
}

// prog is a compiled program calling one callable with fixed arguments.
type prog struct {
	c     *callable
	x     int
	step  int
	p     *interp.Program
	epoch int // cancellations completed when it was compiled
}

type budgetExceeded struct{}

const (
	opBudget = 2_000_000
	graceOps = 5_000_000
)

// ---------------------------------------------------------------------------
// worker: one persistent goroutine runs every call into the interpreter, so
// that runtime.NumGoroutine has a stable baseline.

type worker struct{ jobs chan func() }

var wk *worker

func getWorker() *worker {
	if wk == nil {
		wk = &worker{jobs: make(chan func())}
		go func(w *worker) {
			for j := range w.jobs {
				j()
			}
		}(wk)
	}
	return wk
}

// submit runs fn on the worker; the returned channel yields the recovered
// panic value (nil if none).
func submit(fn func()) chan any {
	done := make(chan any, 1)
	getWorker().jobs <- func() {
		defer func() { done <- recover() }()
		fn()
	}
	return done
}

func newEngine(x excl, checkAll bool) *engine {
	e := &engine{x: x, checkAll: checkAll, stats: map[string]int{}, excluded: map[string]int{}}
	getWorker()
	e.g0 = runtime.NumGoroutine()
	e.i = interp.New(interp.Options{Stdout: io.Discard, Stderr: io.Discard})
	err := e.i.Use(interp.Exports{"hostc10/hostc10": {
		"Block": reflect.ValueOf(e.hostBlock),
		"Mark":  reflect.ValueOf(e.hostMark),
		"Keep":  reflect.ValueOf(e.hostKeep),
		// guards of the funcguard definitions: Acquire fails when the guard is
		// held, Release of a free guard does nothing
		"Acquire": reflect.ValueOf(func(n int) bool { _, held := e.guards.LoadOrStore(n, true); return !held }),
		"Release": reflect.ValueOf(func(n int) { e.guards.Delete(n) }),
	}})
	if err != nil {
		panic(err)
	}
	e.i.VerifSetStepHook(e.budgetHook)
	for _, src := range []string{`import "hostc10"`, `func Spin() { for {} }`, `func Give(f func(int) int) { hostc10.Keep(f) }`, `var Acc int`} {
		var err error
		r := e.guard(func() { _, err = e.i.Eval(src) })
		if r != "" || err != nil {
			panic(fmt.Sprintf("c10 prelude %q: %s %v", src, r, err))
		}
	}
	return e
}

func (e *engine) close() {
	if b := e.blk.Load(); b != nil {
		select {
		case <-b.release:
		default:
			close(b.release)
		}
	}
	e.i.VerifSetStepHook(nil)
}

func (e *engine) hostBlock() {
	b := e.blk.Load()
	if b == nil {
		return
	}
	select {
	case b.entered <- struct{}{}:
	default:
	}
	<-b.release
}

func (e *engine) hostMark(int) { e.marks.Add(1) }

func (e *engine) hostKeep(f func(int) int) { e.kept.Store(&f) }

func (e *engine) budgetHook() {
	if e.i.VerifOps() > e.limit.Load() {
		e.over.Store(true)
		panic(budgetExceeded{})
	}
}

// guard runs fn (a call into the interpreter) on the worker under the
// progress watchdog and the operation budget. It returns "" or "hang" /
// "diverge" / "panic: ...".
func (e *engine) guard(fn func()) string {
	e.over.Store(false)
	e.limit.Store(e.i.VerifOps() + opBudget)
	done := submit(fn)
	last, clock := e.i.VerifOps(), yrun.NewStallClock()
	t := time.NewTicker(100 * time.Millisecond)
	defer t.Stop()
	for {
		select {
		case p := <-done:
			if e.over.Load() {
				return "diverge"
			}
			if p != nil {
				return fmt.Sprintf("panic: %v", p)
			}
			return ""
		case <-t.C:
			if n := e.i.VerifOps(); n != last {
				last = n
				clock.Reset()
			} else if clock.Idle() > 20*time.Second {
				wk = nil // the worker is lost with the hanging call
				e.broken = true
				return "hang"
			}
		}
	}
}

// settle waits until every goroutine started by an evaluation is gone.
func (e *engine) settle() bool {
	last, clock := e.i.VerifOps(), yrun.NewStallClock()
	for n := 0; runtime.NumGoroutine() > e.g0; n++ {
		if n < 200 {
			runtime.Gosched()
		} else {
			time.Sleep(100 * time.Microsecond)
		}
		if ops := e.i.VerifOps(); ops != last {
			last = ops
			clock.Reset()
		} else if n%256 == 0 && clock.Idle() > 20*time.Second {
			return false
		}
	}
	return true
}

// ---------------------------------------------------------------------------
// evaluation primitives

// eval evaluates src through the given route ("eval" or "evalctx") and
// describes the outcome.
func (e *engine) eval(route, src string) (v reflect.Value, obs string, f *failure) {
	var err error
	r := e.guard(func() {
		if route == "evalctx" {
			v, err = e.i.EvalWithContext(context.Background(), src)
		} else {
			v, err = e.i.Eval(src)
		}
	})
	if route == "evalctx" && r != "hang" {
		if !e.settle() {
			return v, "", &failure{sigLeak, "goroutines of a completed EvalWithContext never ended"}
		}
	}
	switch {
	case r == "hang":
		return v, "", &failure{"use-hangs", fmt.Sprintf("evaluation of %q never returned (no interpreted operation for 20 s)", src)}
	case r == "diverge":
		return v, "", &failure{"use-diverges", fmt.Sprintf("evaluation of %q executed more than %d operations", src, opBudget)}
	case r != "":
		return v, "escaped " + r, nil
	case err != nil:
		return v, "error: " + err.Error(), nil
	}
	// the evaluation ran
	e.needEval = false
	if route == "evalctx" {
		e.doneStale = false
	}
	return v, "", nil
}

func describe(v reflect.Value) string {
	switch {
	case !v.IsValid():
		return "<no value>"
	case v.Kind() == reflect.Int:
		return strconv.FormatInt(v.Int(), 10)
	case v.Kind() == reflect.Func && v.IsNil():
		return "<nil func>"
	}
	return fmt.Sprintf("<%s>", v.Type())
}

// callNative calls a held function value the way a host does.
func callNative(fv reflect.Value, x int) reflect.Value {
	switch f := fv.Interface().(type) {
	case func(int) int:
		return reflect.ValueOf(f(x))
	case func(int) func(int) int:
		return reflect.ValueOf(f(x))
	}
	return fv.Call([]reflect.Value{reflect.ValueOf(x)})[0]
}

// host performs a native call under the watchdog.
func (e *engine) host(what string, fn func() reflect.Value) (v reflect.Value, obs string, f *failure) {
	r := e.guard(func() { v = fn() })
	switch {
	case r == "hang":
		return v, "", &failure{"use-hangs", fmt.Sprintf("native call of %s never returned (no interpreted operation for 20 s)", what)}
	case r == "diverge":
		return v, "", &failure{"use-diverges", fmt.Sprintf("native call of %s executed more than %d operations", what, opBudget)}
	case r != "":
		return v, r, nil
	}
	return v, "", nil
}

// ---------------------------------------------------------------------------
// exclusions and classification

// usable returns "" or the known-finding key that forbids using c by route now.
func (e *engine) usable(c *callable, route string) string {
	if c.dep != nil {
		if why := e.usable(c.dep, route); why != "" {
			return why
		}
	}
	switch {
	case e.x.closure && c.closure && c.born < e.epoch:
		return keyClosure
	case e.x.host && route == "host" && e.needEval:
		return keyHost
	case e.x.sel && c.sel && e.doneStale && route != "evalctx":
		return keySelect
	}
	return ""
}

// usableH is usable for a held handle.
func (e *engine) usableH(h *handle) string {
	if e.x.keep && h.inFunc && h.epoch < e.epoch {
		return keyKeep
	}
	return e.usable(h.c, "host")
}

// classifyH is classify for a held handle.
func (e *engine) classifyH(h *handle) string {
	s := e.classify(h.c, "host")
	if h.inFunc && h.epoch < e.epoch && e.epoch > 0 && s != keyHost && s != keyClosure && s != keySelect {
		return keyKeep
	}
	return s
}

// classify names the root-cause class of a mismatch on c through route.
func (e *engine) classify(c *callable, route string) string {
	if c.dep != nil && e.epoch > 0 {
		switch s := e.classify(c.dep, route); s {
		case keyHost, keyClosure, keySelect:
			return s
		}
	}
	switch {
	case e.epoch == 0:
		return sigBase
	case route == "host" && e.needEval:
		// in this window every kind of definition fails for the same reason
		return keyHost
	case c.closure && c.born < e.epoch:
		return keyClosure
	case c.sel && e.doneStale && route != "evalctx":
		return keySelect
	case route == "host":
		return "host-handle-damaged"
	}
	return "eval-use-damaged"
}

func (e *engine) situation() string {
	if e.epoch == 0 {
		return "no cancellation so far"
	}
	s := fmt.Sprintf("after %d cancelled evaluation(s), last: %s", e.epoch, e.lastKind)
	if e.needEval {
		s += ", no evaluation since"
	}
	return s
}

func (e *engine) account(c *callable, route string, h *handle) {
	e.stats["cmp-total"]++
	if e.epoch == 0 || c.defEpoch >= e.epoch {
		return
	}
	if route == "host" {
		if h.epoch >= e.epoch {
			e.stats["cmp:"+c.kind+"|"+e.lastKind+"|host-handle-obtained-after-cancel"]++
			return
		}
		e.ntHost = true
	} else {
		e.ntEval = true
	}
	e.stats["cmp:"+c.kind+"|"+e.lastKind+"|"+route]++
}

// useCallable uses c through an evaluation route and compares with the model.
func (e *engine) useCallable(c *callable, route string, x, step int) *failure {
	sig := e.classify(c, route) // before the evaluation changes needEval
	e.account(c, route, nil)
	var src string
	var want int
	if c.factory {
		src = fmt.Sprintf("%s(%d)(%d)", c.expr, step, x)
		want = c.mk(step)(x)
	} else {
		src = fmt.Sprintf("%s(%d)", c.expr, x)
		want = c.fn(x)
	}
	v, obs, f := e.eval(route, src)
	if f != nil {
		return f
	}
	if obs == "" {
		obs = describe(v)
	}
	if obs != strconv.Itoa(want) {
		return &failure{sig, fmt.Sprintf("%s of %q gives %s, the model (and the same session before the cancellation) gives %d [%s definition; %s]", route, src, obs, want, c.kind, e.situation())}
	}
	return nil
}

// useHandle calls a held handle natively and compares with the model.
func (e *engine) useHandle(h *handle, x, step int) *failure {
	c := h.c
	sig := e.classifyH(h)
	e.account(c, "host", h)
	var want int
	var what string
	var fn func() reflect.Value
	if c.factory {
		want = c.mk(step)(x)
		what = fmt.Sprintf("handle(%s via %s)(%d)(%d)", c.expr, h.how, step, x)
		fn = func() reflect.Value { return callNative(callNative(h.v, step), x) }
	} else {
		want = c.fn(x)
		what = fmt.Sprintf("handle(%s via %s)(%d)", c.expr, h.how, x)
		fn = func() reflect.Value { return callNative(h.v, x) }
	}
	v, obs, f := e.host(what, fn)
	if f != nil {
		return f
	}
	if obs == "" {
		obs = describe(v)
	}
	if obs != strconv.Itoa(want) {
		return &failure{sig, fmt.Sprintf("native call %s gives %s, the model gives %d [%s definition, handle obtained after %d cancellation(s); %s]", what, obs, want, c.kind, h.epoch, e.situation())}
	}
	return nil
}

// ---------------------------------------------------------------------------
// actions

func (e *engine) apply(a *Action) *failure {
	if e.broken {
		return nil
	}
	switch a.Op {
	case "define":
		return e.define(a)
	case "handle":
		return e.getHandle(a)
	case "use":
		if a.Route == "host" {
			if a.H < 0 || a.H >= len(e.handles) {
				return &failure{"harness", "bad handle index"}
			}
			e.stats["use:host"]++
			return e.useHandle(e.handles[a.H], a.X, a.Step)
		}
		if a.C < 0 || a.C >= len(e.calls) {
			return &failure{"harness", "bad callable index"}
		}
		e.stats["use:"+a.Route]++
		return e.useCallable(e.calls[a.C], a.Route, a.X, a.Step)
	case "cancel":
		return e.cancelled(a)
	case "compile":
		if a.C < 0 || a.C >= len(e.calls) {
			return &failure{"harness", "bad callable index"}
		}
		return e.compile(e.calls[a.C], a.X, a.Step)
	case "exec":
		if a.H < 0 || a.H >= len(e.progs) {
			return &failure{"harness", "bad program index"}
		}
		e.stats["use:"+a.Route]++
		return e.execute(e.progs[a.H], a.Route)
	}
	return &failure{"harness", "unknown op " + a.Op}
}

// compile builds, now, a program which calls c with fixed arguments and adds
// the result to Acc; it is executed by later exec actions.
func (e *engine) compile(c *callable, x, step int) *failure {
	call := fmt.Sprintf("%s(%d)", c.expr, x)
	if c.factory {
		call = fmt.Sprintf("%s(%d)(%d)", c.expr, step, x)
	}
	var p *interp.Program
	var err error
	r := e.guard(func() { p, err = e.i.Compile("Acc += 1000 + " + call) })
	if r != "" || err != nil {
		return &failure{sigBase, fmt.Sprintf("Compile of a call of %s: %s %v", c.expr, r, err)}
	}
	e.needEval = false // Compile starts a run
	e.progs = append(e.progs, &prog{c: c, x: x, step: step, p: p, epoch: e.epoch})
	e.stats["compile"]++
	return nil
}

// execute runs a compiled program through Execute or ExecuteWithContext and
// compares Acc with the model.
func (e *engine) execute(pr *prog, route string) *failure {
	c := pr.c
	sig := e.classify(c, "eval")
	if pr.epoch < e.epoch && e.epoch > 0 && sig != keyClosure && sig != keySelect {
		sig = "compiled-program-after-cancel"
	}
	want := c.fn
	add := 0
	if c.factory {
		add = c.mk(pr.step)(pr.x)
	} else {
		add = want(pr.x)
	}
	var err error
	r := e.guard(func() {
		if route == "execctx" {
			_, err = e.i.ExecuteWithContext(context.Background(), pr.p)
		} else {
			_, err = e.i.Execute(pr.p)
		}
	})
	if route == "execctx" && r != "hang" {
		if !e.settle() {
			return &failure{sigLeak, "goroutines of a completed ExecuteWithContext never ended"}
		}
	}
	switch {
	case r == "hang":
		return &failure{"use-hangs", fmt.Sprintf("execution of the program compiled for %s never returned", c.expr)}
	case r == "diverge":
		return &failure{"use-diverges", fmt.Sprintf("execution of the program compiled for %s executed more than %d operations", c.expr, opBudget)}
	case r != "":
		return &failure{sig, fmt.Sprintf("execution of the program compiled for %s: escaped %s [%s]", c.expr, r, e.situation())}
	case err != nil:
		return &failure{sig, fmt.Sprintf("execution of the program compiled for %s: error %v [%s]", c.expr, err, e.situation())}
	}
	e.needEval = false
	if route == "execctx" {
		e.doneStale = false
	}
	e.accSum += 1000 + add
	v, obs, f := e.eval("eval", "Acc")
	if f != nil {
		return f
	}
	if obs == "" {
		obs = describe(v)
	}
	if obs != strconv.Itoa(e.accSum) {
		want := e.accSum
		e.accSum, _ = strconv.Atoi(obs) // resynchronise the model
		return &failure{sig, fmt.Sprintf("%s of the program compiled (after %d cancellation(s)) for a call of %s: Acc is %s, the model gives %d [%s definition; %s]", route, pr.epoch, c.expr, obs, want, c.kind, e.situation())}
	}
	return nil
}

func (e *engine) define(a *Action) *failure {
	n := e.defs
	e.defs++
	A, B := a.A, a.B
	mkc := func(expr string) *callable {
		return &callable{kind: a.Kind, expr: expr, born: e.epoch, defEpoch: e.epoch, neutral: func() int { return 0 }}
	}
	var srcs []string
	var cs []*callable
	switch a.Kind {
	case "func":
		srcs = []string{fmt.Sprintf("func F%d(x int) int { return x*%d + %d }", n, A, B)}
		c := mkc(fmt.Sprintf("F%d", n))
		c.ident = true
		c.fn = func(x int) int { return x*A + B }
		cs = append(cs, c)
	case "funcguard":
		// a function guarded by a host lock which a deferred host call releases:
		// the release is registered first, so that a cancellation at any
		// operation of the function leaves the guard free once the frame ends
		srcs = []string{fmt.Sprintf("func F%d(x int) int {\n\tdefer hostc10.Release(%d)\n\tif !hostc10.Acquire(%d) {\n\t\treturn -777777\n\t}\n\ts := 0\n\tfor i := 0; i < 3; i++ {\n\t\ts += x\n\t}\n\treturn s/3*%d + %d\n}", n, n, n, A, B)}
		c := mkc(fmt.Sprintf("F%d", n))
		c.ident = true
		c.fn = func(x int) int { return x*A + B }
		cs = append(cs, c)
	case "funcstate":
		srcs = []string{fmt.Sprintf("var G%d int\nfunc F%d(x int) int { G%d += x; return G%d*%d + %d }", n, n, n, n, A, B)}
		c := mkc(fmt.Sprintf("F%d", n))
		c.ident = true
		g := 0
		c.fn = func(x int) int { g += x; return g*A + B }
		cs = append(cs, c)
	case "funcchan":
		srcs = []string{fmt.Sprintf("func F%d(x int) int { ch := make(chan int, 1); ch <- x*%d; return <-ch + %d }", n, A, B)}
		c := mkc(fmt.Sprintf("F%d", n))
		c.ident = true
		c.fn = func(x int) int { return x*A + B }
		cs = append(cs, c)
	case "funcsel":
		srcs = []string{fmt.Sprintf(`func F%d(x int) int {
	ch := make(chan int, 1)
	select {
	case v := <-ch:
		return v - 100000
	default:
	}
	ch <- x*%d
	select {
	case v := <-ch:
		return v + %d
	default:
		return -77777
	}
}`, n, A, B)}
		c := mkc(fmt.Sprintf("F%d", n))
		c.ident, c.sel = true, true
		c.fn = func(x int) int { return x*A + B }
		cs = append(cs, c)
	case "funcrec":
		srcs = []string{fmt.Sprintf("func F%d(x int) int { if x <= 0 { return %d }; return F%d(x-1) + %d }", n, B, n, A)}
		c := mkc(fmt.Sprintf("F%d", n))
		c.ident = true
		c.fn = func(x int) int {
			if x <= 0 {
				return B
			}
			return B + A*x
		}
		cs = append(cs, c)
	case "compose":
		if a.C < 0 || a.C >= len(e.calls) || e.calls[a.C].factory {
			return &failure{"harness", "compose needs a func(int) int callable"}
		}
		g := e.calls[a.C]
		srcs = []string{fmt.Sprintf("func F%d(x int) int { return %s(x)*%d + %d }", n, g.expr, A, B)}
		c := mkc(fmt.Sprintf("F%d", n))
		c.ident = true
		c.dep = g
		c.fn = func(x int) int { return g.fn(x)*A + B }
		c.neutral = g.neutral
		cs = append(cs, c)
	case "method", "methodvalue":
		srcs = []string{fmt.Sprintf(`type T%d struct{ a, b int }
func (t T%d) M(x int) int { return t.b*x + %d }
func (t *T%d) Add(x int) int { t.a += x; return t.a }
var V%d = &T%d{a: 0, b: %d}`, n, n, B, n, n, n, A)}
		acc := 0
		m := mkc(fmt.Sprintf("V%d.M", n))
		m.fn = func(x int) int { return A*x + B }
		m.neutral = func() int { return 1 }
		ad := mkc(fmt.Sprintf("V%d.Add", n))
		ad.fn = func(x int) int { acc += x; return acc }
		cs = append(cs, m, ad)
		if a.Kind == "methodvalue" {
			srcs = append(srcs, fmt.Sprintf("MV%d := V%d.Add\nMW%d := V%d.M", n, n, n, n))
			mv := mkc(fmt.Sprintf("MV%d", n))
			mv.ident, mv.isVar = true, true
			mv.fn = ad.fn
			mw := mkc(fmt.Sprintf("MW%d", n))
			mw.ident, mw.isVar = true, true
			mw.fn = m.fn
			mw.neutral = m.neutral
			cs = append(cs, mv, mw)
		}
	case "closure":
		srcs = []string{fmt.Sprintf("var C%d = func() func(int) int { n := %d; return func(s int) int { n += s; return n } }()", n, B)}
		c := mkc(fmt.Sprintf("C%d", n))
		c.ident, c.isVar, c.closure = true, true, true
		cnt := B
		c.fn = func(s int) int { cnt += s; return cnt }
		cs = append(cs, c)
	case "closurelit":
		srcs = []string{fmt.Sprintf("var C%d = func(x int) int { return x*%d + %d }", n, A, B)}
		c := mkc(fmt.Sprintf("C%d", n))
		c.ident, c.isVar, c.closure = true, true, true
		c.fn = func(x int) int { return x*A + B }
		cs = append(cs, c)
	case "factory":
		srcs = []string{fmt.Sprintf("func Mk%d(step int) func(int) int { n := %d; return func(s int) int { n += step + s; return n } }", n, B)}
		c := mkc(fmt.Sprintf("Mk%d", n))
		c.ident, c.factory = true, true
		c.mk = func(step int) func(int) int {
			cnt := B
			return func(s int) int { cnt += step + s; return cnt }
		}
		cs = append(cs, c)
	case "instance":
		if a.C < 0 || a.C >= len(e.calls) || !e.calls[a.C].factory {
			return &failure{"harness", "instance of a non-factory"}
		}
		fc := e.calls[a.C]
		step := a.Step
		srcs = []string{fmt.Sprintf("var I%d = %s(%d)", n, fc.expr, step)}
		c := mkc(fmt.Sprintf("I%d", n))
		c.ident, c.isVar, c.closure = true, true, true
		c.fn = fc.mk(step)
		c.neutral = func() int { return -step }
		cs = append(cs, c)
	default:
		return &failure{"harness", "unknown definition kind " + a.Kind}
	}
	via := a.Via
	if via == "" {
		via = "eval"
	}
	for _, src := range srcs {
		_, obs, f := e.eval(via, src)
		if f != nil {
			return f
		}
		if obs != "" {
			if (a.Kind == "instance" || a.Kind == "compose") && e.epoch > 0 {
				return &failure{e.classify(e.calls[a.C], via), fmt.Sprintf("%s of %q: %s [%s]", via, src, obs, e.situation())}
			}
			return &failure{sigBase, fmt.Sprintf("definition %q: %s [%s]", src, obs, e.situation())}
		}
	}
	e.calls = append(e.calls, cs...)
	e.stats["def:"+a.Kind+"|"+via]++
	return nil
}

func (e *engine) getHandle(a *Action) *failure {
	if a.How == "hostmk" {
		if a.H < 0 || a.H >= len(e.handles) || !e.handles[a.H].c.factory {
			return &failure{"harness", "hostmk needs a factory handle"}
		}
		fh := e.handles[a.H]
		sig := e.classifyH(fh)
		e.account(fh.c, "host", fh)
		step := a.Step
		what := fmt.Sprintf("handle(%s via %s)(%d)", fh.c.expr, fh.how, step)
		v, obs, f := e.host(what, func() reflect.Value { return callNative(fh.v, step) })
		if f != nil {
			return f
		}
		if obs == "" && (!v.IsValid() || v.Kind() != reflect.Func || v.IsNil()) {
			obs = describe(v)
		}
		if obs != "" {
			return &failure{sig, fmt.Sprintf("native call %s gives %s instead of a closure [%s]", what, obs, e.situation())}
		}
		c := &callable{kind: "hostmade", closure: true, born: e.epoch, defEpoch: e.epoch, fn: fh.c.mk(step), neutral: func() int { return -step }}
		c.expr = fmt.Sprintf("<closure made natively by %s(%d)>", fh.c.expr, step)
		e.handles = append(e.handles, &handle{c: c, how: "hostmk", v: v, epoch: e.epoch})
		e.stats["handle:hostmk"]++
		return nil
	}
	if a.C < 0 || a.C >= len(e.calls) {
		return &failure{"harness", "bad callable index"}
	}
	c := e.calls[a.C]
	var v reflect.Value
	switch a.How {
	case "eval":
		sig := e.classify(c, "eval")
		var obs string
		var f *failure
		v, obs, f = e.eval("eval", c.expr)
		if f != nil {
			return f
		}
		if obs != "" {
			return &failure{sig, fmt.Sprintf("Eval(%q): %s [%s]", c.expr, obs, e.situation())}
		}
	case "symbols":
		if r := e.guard(func() { v = e.i.Symbols("main")["main"][c.expr] }); r != "" {
			return &failure{e.classify(c, "host"), fmt.Sprintf("Symbols(\"main\"): %s [%s]", r, e.situation())}
		}
	case "globals":
		if r := e.guard(func() { v = e.i.Globals()[c.expr] }); r != "" {
			return &failure{e.classify(c, "host"), fmt.Sprintf("Globals(): %s [%s]", r, e.situation())}
		}
	case "keep", "keep-infunc", "keep-named":
		if c.factory {
			return &failure{"harness", "keep needs a func(int) int callable"}
		}
		src := fmt.Sprintf("hostc10.Keep(%s)", c.expr)
		switch a.How {
		case "keep-infunc":
			src = fmt.Sprintf("(func() { hostc10.Keep(%s) })()", c.expr)
		case "keep-named":
			src = fmt.Sprintf("Give(%s)", c.expr)
		}
		sig := e.classify(c, "eval")
		e.kept.Store(nil)
		_, obs, f := e.eval("eval", src)
		if f != nil {
			return f
		}
		if obs != "" {
			return &failure{sig, fmt.Sprintf("Eval(%q): %s [%s]", src, obs, e.situation())}
		}
		k := e.kept.Load()
		if k == nil || *k == nil {
			return &failure{sig, fmt.Sprintf("Eval(%q) did not hand a function to the host function [%s]", src, e.situation())}
		}
		v = reflect.ValueOf(*k)
	default:
		return &failure{"harness", "unknown handle route " + a.How}
	}
	if !v.IsValid() || v.Kind() != reflect.Func || v.IsNil() {
		return &failure{e.classify(c, "host"), fmt.Sprintf("handle for %s via %s is %s, not a function [%s]", c.expr, a.How, describe(v), e.situation())}
	}
	// copy the function value out of the interpreter's variable slot
	v = reflect.ValueOf(v.Interface())
	e.handles = append(e.handles, &handle{c: c, how: a.How, v: v, epoch: e.epoch, inFunc: a.How == "keep-infunc" || a.How == "keep-named"})
	e.stats["handle:"+a.How]++
	return nil
}

// snippet is the source of a cancelled evaluation. A source that starts with
// the func keyword but is not a declaration is compiled by Eval as a file
// declaring func main, which every later Eval of the session runs again
// (cancellation or not), so function literals are parenthesised.
func (e *engine) snippet(a *Action) (string, *failure) {
	switch a.CKind {
	case "busy":
		return "for {}", nil
	case "busy-lit":
		return "(func() { for {} })()", nil
	case "busy-named":
		return "Spin()", nil
	case "count":
		return "(func() int { s := 0; for i := 0; i < 1000000000; i++ { s += i }; return s })()", nil
	case "calldef":
		if a.C < 0 || a.C >= len(e.calls) || e.calls[a.C].factory {
			return "", &failure{"harness", "calldef needs a func(int) int callable"}
		}
		c := e.calls[a.C]
		return fmt.Sprintf("for { %s(%d) }", c.expr, c.neutral()), nil
	case "recv":
		return "(func() int { ch := make(chan int); return <-ch })()", nil
	case "send":
		return "(func() { ch := make(chan int); ch <- 1 })()", nil
	case "select":
		return "(func() int { a, b := make(chan int), make(chan int); select { case v := <-a: return v; case b <- 1: return 1 } })()", nil
	case "hostblock":
		return "hostc10.Block()", nil
	case "expired":
		return "(func() int { s := 0; for i := 0; i < 20; i++ { s += i }; hostc10.Mark(s); return s })()", nil
	}
	return "", &failure{"harness", "unknown cancelled-evaluation kind " + a.CKind}
}

// cancelled performs one cancelled evaluation and waits until it is over.
func (e *engine) cancelled(a *Action) *failure {
	src, f := e.snippet(a)
	if f != nil {
		return f
	}
	ctx, cancel := context.WithCancel(context.Background())
	defer cancel()
	trigger := "hook"
	if a.CKind == "expired" {
		cancel()
		trigger = "before-call"
	}
	blk := &blocker{entered: make(chan struct{}, 1), release: make(chan struct{})}
	e.blk.Store(blk)
	base := e.i.VerifOps()
	release := make(chan struct{})
	var fired atomic.Bool
	if a.K > 0 && a.CKind != "expired" {
		k := base + uint64(a.K)
		park := a.Park
		e.i.VerifSetStepHook(func() {
			if e.i.VerifOps() == k && fired.CompareAndSwap(false, true) {
				cancel()
				if park {
					<-release
				}
			}
		})
	} else {
		e.i.VerifSetStepHook(nil)
	}
	var err error
	done := submit(func() { _, err = e.i.EvalWithContext(ctx, src) })
	last, at, clock := base, time.Now(), yrun.NewStallClock()
	tick := time.NewTicker(2 * time.Millisecond)
	var escaped any
	stuck := false
wait:
	for {
		select {
		case escaped = <-done:
			break wait
		case <-blk.entered:
			if !fired.Load() && ctx.Err() == nil {
				trigger = "host-function-entered"
				cancel()
			}
		case <-tick.C:
			n := e.i.VerifOps()
			switch {
			case n != last:
				last, at = n, time.Now()
				clock.Reset()
			case n > base && ctx.Err() == nil && time.Since(at) > 10*time.Millisecond:
				// the evaluation is blocked
				trigger = "when-blocked"
				cancel()
			case time.Since(at) > 20*time.Second && clock.Idle() > 20*time.Second:
				stuck = true
				break wait
			}
		}
	}
	tick.Stop()
	close(release)
	close(blk.release)
	e.i.VerifSetStepHook(e.budgetHook)
	// what still runs of the cancelled evaluation gets a grace of operations,
	// then the hook ends it with a panic (recovered by EvalWithContext's own
	// goroutine) so that the harness is never left with a spinning goroutine
	e.over.Store(false)
	e.limit.Store(e.i.VerifOps() + graceOps)
	if stuck {
		wk = nil
		e.broken = true
		return &failure{sigLeak, fmt.Sprintf("EvalWithContext(%q) did not return although its context is cancelled (C09 matter)", src)}
	}
	if !e.settle() {
		e.broken = true
		return &failure{sigLeak, fmt.Sprintf("goroutines of the cancelled evaluation %q are still alive and idle (C09 matter)", src)}
	}
	if e.over.Load() {
		e.broken = true
		return &failure{sigLeak, fmt.Sprintf("the cancelled evaluation %q executed more than %d operations after EvalWithContext had returned (C09 matter)", src, graceOps)}
	}
	if escaped != nil {
		return &failure{"harness", fmt.Sprintf("panic escaped EvalWithContext(%q): %v", src, escaped)}
	}
	if err == nil && a.CKind == "expired" {
		// the (terminating) evaluation finished before EvalWithContext looked
		// at its context: nothing was cancelled, this was an ordinary evaluation
		e.needEval, e.doneStale = false, false
		e.stats["cancel:expired|completed-before-noticed (not a cancellation)"]++
		return nil
	}
	if !errors.Is(err, context.Canceled) {
		return &failure{"harness", fmt.Sprintf("EvalWithContext(%q) returned %v, expected the context error", src, err)}
	}
	if fired.Load() && trigger == "hook" {
		if a.Park {
			trigger = "hook-parked"
		} else {
			trigger = "hook-running-on"
		}
	}
	e.epoch++
	e.needEval, e.doneStale = true, true
	e.lastKind = a.CKind
	e.stats["cancel:"+a.CKind+"|"+trigger]++
	if a.Then > 0 && a.Then <= len(e.progs) {
		// a program compiled earlier is executed at once, before any other
		// evaluation or compilation
		if pr := e.progs[a.Then-1]; e.usable(pr.c, "eval") == "" {
			e.stats["exec-right-after-cancel"]++
			return e.execute(pr, a.Route)
		}
	}
	return nil
}

// invariant compares every live definition and every held handle with the
// model, through both routes.
func (e *engine) invariant() *failure {
	if e.broken || !e.checkAll {
		return nil
	}
	e.tick++
	arg := func(i int) int { return (e.tick*7+i*3)%19 - 9 }
	evalRoute := func() *failure {
		for i, c := range e.calls {
			if why := e.usable(c, "eval"); why != "" {
				e.excluded[why]++
				continue
			}
			if f := e.useCallable(c, "eval", arg(i), arg(i+1)%4); f != nil {
				return f
			}
		}
		return nil
	}
	hostRoute := func() *failure {
		for i, h := range e.handles {
			if why := e.usableH(h); why != "" {
				e.excluded[why]++
				continue
			}
			if f := e.useHandle(h, arg(i+5), arg(i+2)%4); f != nil {
				return f
			}
		}
		return nil
	}
	hostFirst := e.tick%2 == 0
	if e.x.host && e.needEval {
		hostFirst = false
	}
	if hostFirst {
		if f := hostRoute(); f != nil {
			return f
		}
		return evalRoute()
	}
	if f := evalRoute(); f != nil {
		return f
	}
	return hostRoute()
}
