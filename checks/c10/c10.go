// Package c10 checks that a cancelled evaluation does not damage earlier
// definitions: a rapid state machine drives ONE long-lived interpreter per
// history (define / obtain host handle / use by Eval / use by host handle /
// cancelled evaluation) against a reference model with closed-form semantics.
package c10

import (
	"encoding/json"
	"flag"
	"fmt"
	"sort"
	"time"

	"pgregory.net/rapid"

	"verif/internal/vf"
)

// Action is one step of a history. Which members are meaningful depends on Op.
type Action struct {
	Op string `json:"op"` // define | handle | use | cancel | compile (program calling callable C with X, Step) | exec (program H through Route exec | execctx)

	// define
	Kind string `json:"kind,omitempty"` // definition kind (see defKinds)
	A    int    `json:"a,omitempty"`
	B    int    `json:"b,omitempty"`
	Via  string `json:"via,omitempty"` // define through "eval" or "evalctx" (EvalWithContext with a live context)

	// handle: C = callable index, How = eval | symbols | globals | hostmk (H = factory handle)
	// use:    Route = eval | evalctx (C = callable) or host (H = handle); X = argument, Step = factory argument
	// cancel: C = callable invoked by the cancelled loop (calldef)
	C     int    `json:"c,omitempty"`
	H     int    `json:"h,omitempty"`
	How   string `json:"how,omitempty"`
	Route string `json:"route,omitempty"`
	X     int    `json:"x,omitempty"`
	Step  int    `json:"step,omitempty"`

	// cancel
	CKind string `json:"ckind,omitempty"` // what the cancelled evaluation does (see cancelKinds)
	K     int    `json:"k,omitempty"`     // cancel issued from the step hook before the K-th operation of the evaluation (0 = when it is blocked / before the call)
	Park  bool   `json:"park,omitempty"`  // the hook parks the interpreter until EvalWithContext has returned
	Then  int    `json:"then,omitempty"`  // cancel: program (index+1) executed at once after the cancellation, through Route exec | execctx
}

// Case is a complete history (the replay format).
type Case struct {
	Actions []Action `json:"actions"`
	// Invariant: after every action all live definitions are compared with
	// the model through both routes.
	Invariant bool `json:"invariant"`
	// Excl lists the exclusion switches (known-finding keys) that were active
	// when the history was generated; the invariant honours them.
	Excl []string `json:"excl,omitempty"`
}

// Known-finding keys (root causes) and the exclusion they switch on.
const (
	keyClosure = "closure-dead-after-cancel"                 // a closure created before a cancel is not used after it
	keyHost    = "host-call-before-next-eval"                // no host-handle call between a cancel and the next evaluation
	keySelect  = "select-in-definition-after-cancel"         // no use of a definition containing select between a cancel and the next EvalWithContext
	keyKeep    = "handle-made-in-function-dead-after-cancel" // a function value passed to the host from inside an interpreted function before a cancel is not used after it
	sigBase    = "model-mismatch-before-any-cancel"          // harness trouble, not a C10 matter
	sigLeak    = "cancelled-evaluation-never-stopped"        // C09 matter; the history is abandoned
)

type excl struct{ closure, host, sel, keep bool }

func currentExcl() excl {
	return excl{closure: vf.IsKnown("C10", keyClosure), host: vf.IsKnown("C10", keyHost), sel: vf.IsKnown("C10", keySelect), keep: vf.IsKnown("C10", keyKeep)}
}

func (x excl) list() []string {
	var l []string
	if x.closure {
		l = append(l, keyClosure)
	}
	if x.host {
		l = append(l, keyHost)
	}
	if x.sel {
		l = append(l, keySelect)
	}
	if x.keep {
		l = append(l, keyKeep)
	}
	return l
}

func exclFrom(l []string) excl {
	var x excl
	for _, k := range l {
		switch k {
		case keyClosure:
			x.closure = true
		case keyHost:
			x.host = true
		case keySelect:
			x.sel = true
		case keyKeep:
			x.keep = true
		}
	}
	return x
}

var defKinds = []string{"func", "funcguard", "funcstate", "funcchan", "funcsel", "funcrec", "compose", "method", "closure", "closurelit", "methodvalue", "factory", "instance"}
var cancelKinds = []string{"busy", "busy-lit", "busy-named", "count", "calldef", "recv", "send", "select", "hostblock", "expired"}

const (
	maxSteps   = 30
	maxDefs    = 8
	maxHandles = 10
)

// machine is the rapid side: it draws actions and feeds them to the engine.
type machine struct {
	ctx  *vf.Ctx
	e    *engine
	hist []Action
	dead bool
}

func (m *machine) cas() *Case {
	return &Case{Actions: append([]Action{}, m.hist...), Invariant: true, Excl: m.e.x.list()}
}

// do applies one drawn action and reports a failure.
func (m *machine) do(t *rapid.T, a Action) {
	m.hist = append(m.hist, a)
	if f := m.e.apply(&a); f != nil {
		m.fail(t, f)
	}
}

func (m *machine) fail(t *rapid.T, f *failure) {
	m.dead = true
	switch f.sig {
	case sigBase, sigLeak, "harness":
		// not what the property is about: the model disagrees with the
		// interpreter although nothing was cancelled, or a cancelled
		// evaluation never stopped (C09)
		m.ctx.Inconclusive("%s: %s; history %s", f.sig, f.msg, mustJSON(m.cas()))
		return
	}
	m.ctx.CaseFail(t, f.sig, f.msg, m.cas())
}

func mustJSON(v any) string { b, _ := json.Marshal(v); return string(b) }

func (m *machine) full() bool { return m.dead || len(m.hist) >= maxSteps }

func (m *machine) define(t *rapid.T) {
	if m.full() {
		return
	}
	e := m.e
	if e.defs >= maxDefs {
		t.Skip("enough definitions")
	}
	a := Action{Op: "define"}
	a.Kind = rapid.SampledFrom(defKinds).Draw(t, "kind")
	a.A = rapid.IntRange(-4, 9).Draw(t, "a")
	a.B = rapid.IntRange(-50, 50).Draw(t, "b")
	if rapid.IntRange(0, 3).Draw(t, "via") == 0 {
		a.Via = "evalctx"
	} else {
		a.Via = "eval"
	}
	if a.Kind == "compose" {
		var ok []int
		for i, c := range e.calls {
			if !c.factory && e.usable(c, "eval") == "" {
				ok = append(ok, i)
			}
		}
		if len(ok) == 0 {
			a.Kind = "func"
		} else {
			a.C = rapid.SampledFrom(ok).Draw(t, "callee")
		}
	}
	if a.Kind == "instance" {
		var fs []int
		for i, c := range e.calls {
			if c.factory {
				fs = append(fs, i)
			}
		}
		if len(fs) == 0 {
			a.Kind = "factory"
		} else {
			a.C = rapid.SampledFrom(fs).Draw(t, "factory")
			a.Step = rapid.IntRange(-3, 5).Draw(t, "step")
		}
	}
	m.do(t, a)
}

func (m *machine) handle(t *rapid.T) {
	if m.full() {
		return
	}
	e := m.e
	if len(e.calls) == 0 {
		t.Skip("nothing defined")
	}
	if len(e.handles) >= maxHandles {
		t.Skip("enough handles")
	}
	a := Action{Op: "handle"}
	// creating a closure natively through a held factory handle
	var fh []int
	for i, h := range e.handles {
		if h.c.factory && e.usableH(h) == "" {
			fh = append(fh, i)
		}
	}
	if len(fh) > 0 && rapid.IntRange(0, 3).Draw(t, "hostmk") == 0 {
		a.How = "hostmk"
		a.H = rapid.SampledFrom(fh).Draw(t, "fh")
		a.Step = rapid.IntRange(-3, 5).Draw(t, "step")
		m.do(t, a)
		return
	}
	a.C = rapid.IntRange(0, len(e.calls)-1).Draw(t, "callable")
	c := e.calls[a.C]
	hows := []string{"eval"}
	if !c.factory && e.usable(c, "eval") == "" {
		hows = append(hows, "keep", "keep-infunc", "keep-named")
	}
	if c.ident {
		hows = append(hows, "symbols")
		if c.isVar {
			hows = append(hows, "globals")
		}
	}
	a.How = rapid.SampledFrom(hows).Draw(t, "how")
	m.do(t, a)
}

func (m *machine) useEval(t *rapid.T) {
	if m.full() {
		return
	}
	e := m.e
	var ok []int
	for i, c := range e.calls {
		if why := e.usable(c, "eval"); why == "" {
			ok = append(ok, i)
		} else {
			m.ctx.Excluded(why)
		}
	}
	if len(ok) == 0 {
		t.Skip("nothing usable")
	}
	a := Action{Op: "use", Route: "eval"}
	if rapid.IntRange(0, 3).Draw(t, "ctx") == 0 {
		a.Route = "evalctx"
	}
	a.C = rapid.SampledFrom(ok).Draw(t, "callable")
	a.X = rapid.IntRange(-9, 9).Draw(t, "x")
	if e.calls[a.C].factory {
		a.Step = rapid.IntRange(-3, 5).Draw(t, "step")
	}
	m.do(t, a)
}

// compileProg compiles a program around a usable callable; execProg executes
// one of the compiled programs (compile once, execute many).
func (m *machine) compileProg(t *rapid.T) {
	if m.full() || len(m.e.progs) >= 4 {
		return // a step without action (a skip here adds to rapid's chance of finding no valid action)
	}
	e := m.e
	var ok []int
	for i, c := range e.calls {
		if why := e.usable(c, "eval"); why == "" {
			ok = append(ok, i)
		}
	}
	if len(ok) == 0 {
		return
	}
	a := Action{Op: "compile"}
	a.C = rapid.SampledFrom(ok).Draw(t, "callable")
	a.X = rapid.IntRange(-9, 9).Draw(t, "x")
	if e.calls[a.C].factory {
		a.Step = rapid.IntRange(-3, 5).Draw(t, "step")
	}
	m.do(t, a)
}

func (m *machine) execProg(t *rapid.T) {
	if m.full() {
		return
	}
	e := m.e
	var ok []int
	for i, p := range e.progs {
		if why := e.usable(p.c, "eval"); why == "" {
			ok = append(ok, i)
		} else {
			m.ctx.Excluded(why)
		}
	}
	if len(ok) == 0 {
		return
	}
	a := Action{Op: "exec", Route: "exec"}
	if rapid.IntRange(0, 2).Draw(t, "ctx") == 0 {
		a.Route = "execctx"
	}
	a.H = rapid.SampledFrom(ok).Draw(t, "program")
	m.do(t, a)
}

func (m *machine) useHost(t *rapid.T) {
	if m.full() {
		return
	}
	e := m.e
	var ok []int
	for i, h := range e.handles {
		if why := e.usableH(h); why == "" {
			ok = append(ok, i)
		} else {
			m.ctx.Excluded(why)
		}
	}
	if len(ok) == 0 {
		t.Skip("no usable handle")
	}
	a := Action{Op: "use", Route: "host"}
	a.H = rapid.SampledFrom(ok).Draw(t, "handle")
	a.X = rapid.IntRange(-9, 9).Draw(t, "x")
	if e.handles[a.H].c.factory {
		a.Step = rapid.IntRange(-3, 5).Draw(t, "step")
	}
	m.do(t, a)
}

func (m *machine) cancel(t *rapid.T) {
	if m.full() {
		return
	}
	e := m.e
	if len(e.calls) == 0 {
		t.Skip("nothing defined")
	}
	a := Action{Op: "cancel"}
	a.CKind = rapid.SampledFrom(cancelKinds).Draw(t, "ckind")
	switch a.CKind {
	case "calldef":
		var ok []int
		for i, c := range e.calls {
			// the loop must run, so a definition that is dead by a known
			// finding cannot be its body
			if !c.factory && e.usable(c, "eval") == "" {
				ok = append(ok, i)
			}
		}
		if len(ok) == 0 {
			a.CKind = "busy"
		} else {
			a.C = rapid.SampledFrom(ok).Draw(t, "callable")
		}
		fallthrough
	case "busy", "busy-lit", "busy-named", "count":
		a.K = rapid.IntRange(1, 60).Draw(t, "k")
		a.Park = rapid.Bool().Draw(t, "park")
		if a.CKind == "count" {
			a.Park = true
		}
	case "recv", "send", "select", "hostblock":
		// 0 = cancel once the evaluation is blocked
		if rapid.Bool().Draw(t, "atop") {
			a.K = rapid.IntRange(1, 8).Draw(t, "k")
			a.Park = rapid.Bool().Draw(t, "park")
		}
	case "expired":
	}
	if len(e.progs) > 0 && rapid.IntRange(0, 9).Draw(t, "thenexec") < 6 {
		a.Then = 1 + rapid.IntRange(0, len(e.progs)-1).Draw(t, "thenprog")
		a.Route = "exec"
		if rapid.IntRange(0, 2).Draw(t, "thenctx") == 0 {
			a.Route = "execctx"
		}
	}
	m.do(t, a)
}

func (m *machine) invariant(t *rapid.T) {
	if m.dead {
		return
	}
	if f := m.e.invariant(); f != nil {
		m.fail(t, f)
	}
}

func run(ctx *vf.Ctx) {
	x := currentExcl()
	for _, k := range x.list() {
		ctx.Excluded("switch:" + k)
	}
	vf.InitFlags()
	_ = flag.Set("rapid.steps", "22")
	ctx.Rapid("histories", 0, ctx.Cases, 30*time.Second, func(t *rapid.T) {
		m := &machine{ctx: ctx, e: newEngine(x, true)}
		defer m.e.close()
		t.Repeat(map[string]func(*rapid.T){
			"":         m.invariant,
			"define":   m.define,
			"handle":   m.handle,
			"use-eval": m.useEval,
			"use-host": m.useHost,
			"cancel":   m.cancel,
			"compile":  m.compileProg,
			"exec":     m.execProg,
		})
		ctx.Eval()
		e := m.e
		for k, n := range e.stats {
			ctx.ClassN(k, n)
		}
		for k, n := range e.excluded {
			for i := 0; i < n; i++ {
				ctx.Excluded(k)
			}
		}
		ctx.Class(fmt.Sprintf("cancels-in-history:%d", min(e.epoch, 4)))
		if e.ntEval && e.ntHost {
			ctx.Nontrivial(mustJSON(m.hist))
			ctx.Class("nontrivial-history")
		}
		if len(m.hist) >= 6 && e.epoch > 0 {
			ctx.Sample(m.cas(), 2)
		}
		ctx.Done()
	})
}

func replay(ctx *vf.Ctx, data json.RawMessage) (string, string) {
	var c Case
	if err := json.Unmarshal(data, &c); err != nil {
		return "bad replay file: " + err.Error(), "harness"
	}
	e := newEngine(exclFrom(c.Excl), c.Invariant)
	defer e.close()
	if c.Invariant {
		_ = e.invariant() // rapid's Repeat checks once before the first action
	}
	for i := range c.Actions {
		if f := e.apply(&c.Actions[i]); f != nil {
			return fmt.Sprintf("step %d (%s): %s", i+1, c.Actions[i].Op, f.msg), f.sig
		}
		if c.Invariant {
			if f := e.invariant(); f != nil {
				return fmt.Sprintf("invariant after step %d (%s): %s", i+1, c.Actions[i].Op, f.msg), f.sig
			}
		}
	}
	return "", ""
}

// ReplayRaw re-runs a stored case (development aid).
func ReplayRaw(data json.RawMessage) (string, string) { return replay(nil, data) }

func sortedKeys(m map[string]int) []string {
	var l []string
	for k := range m {
		l = append(l, k)
	}
	sort.Strings(l)
	return l
}

func init() {
	vf.Register(&vf.Check{
		ID:    "C10",
		Level: "exploration",
		Rule:  "case = history of <= 30 actions over one long-lived interpreter (rapid state machine): define {named function (pure / package-variable state / buffered channel / select-with-default / recursive / calling an earlier definition), type with value and pointer methods, counter closure in a package variable, function literal in a variable, method values in variables, function returning closures, stored instance of such a closure} through Eval or EvalWithContext; obtain a host handle (Eval(name).Interface(), Symbols, Globals, passing the function to a host function from a top-level statement / from inside a function literal / from inside a named function, or a closure created natively through a held factory handle); use through Eval / EvalWithContext(live) / held host handle; cancelled EvalWithContext of {for{} at top level, in a function literal, in a named function; counting loop; loop calling a live definition with a state-neutral argument; blocked receive, send, select; host function blocking until released; already-expired context} with the cancel issued from the step hook before operation k (interpreter parked until the call returned, or running on), when the evaluation is blocked, or before the call. Oracle: reference model with closed-form semantics and explicit state per definition; after every action every live definition and every held handle is called once and compared (both routes). Non-trivial = the history contains define -> cancel -> comparison of something defined before that cancel through BOTH the Eval route and a host handle obtained before the cancel; distinct by full action list. Histogram cmp:<definition kind>|<kind of the last cancelled evaluation>|<route>",
		Assumptions: []string{
			"the model is the Go semantics of each tiny definition; a mismatch before any cancellation is reported as inconclusive (not a C10 matter)",
			"cancelled evaluations never change the state of a definition: loops over live definitions use a state-neutral argument",
			"a use is declared hanging only when no interpreted operation happens for 20 s; diverging only after 2,000,000 operations (definitions need < 100)",
			"before the next action the harness waits until the goroutines of the cancelled evaluation are gone (runtime.NumGoroutine back to its baseline); if that never happens the history is abandoned as inconclusive (C09 matter)",
			"with an already-expired context the evaluation goroutine may run to completion in the background (C09 matter); the snippet used there terminates and has no effect on the model; if EvalWithContext returns its result instead of the context error nothing was cancelled and the step counts as an ordinary evaluation",
			"cancelled snippets that are function-literal calls are parenthesised: Eval compiles a source that starts with the func keyword but is no declaration as a file declaring func main, which every later Eval of the session runs again, cancellation or not",
			"evaluations are strictly sequential (one Eval at a time); the harness never calls into the interpreter while a cancelled evaluation is still alive",
		},
		Cases:  map[string]int{"quick": 300, "thorough": 20000},
		Shards: map[string]int{"quick": 8, "thorough": 16},
		Run:    run,
		Replay: replay,
	})
}
