// Package c18 holds the check of property C18.
package c18
