package c18

import (
	"fmt"
	"go/ast"
	"go/constant"
	"go/importer"
	"go/parser"
	"go/token"
	"go/types"
	"math/big"
	"regexp"
	"sort"
	"strconv"
	"strings"
)

// env is the per-process oracle state: one file set and one source importer
// (shared, so that a package imported once is type-checked once and all
// go/types objects of the standard library have a single identity).
type env struct {
	fset *token.FileSet
	imp  types.Importer
}

func newEnv() *env {
	fset := token.NewFileSet()
	return &env{fset: fset, imp: importer.ForCompiler(fset, "source", nil)}
}

// verdict is a property violation ("" sig = none).
type verdict struct{ Sig, Msg string }

func bad(sig, format string, a ...any) *verdict {
	return &verdict{Sig: sig, Msg: fmt.Sprintf(format, a...)}
}

// caseImporter resolves the package under test to the oracle's own view of it
// and everything else through the shared source importer.
type caseImporter struct {
	e    *env
	pkg  *types.Package
	path string
}

func (ci *caseImporter) Import(path string) (*types.Package, error) {
	if path == ci.path {
		return ci.pkg, nil
	}
	if path == "" || path[0] == '.' || path[0] == '/' {
		return nil, fmt.Errorf("relative import %q", path)
	}
	if first := strings.SplitN(path, "/", 2)[0]; strings.Contains(first, ".") {
		return nil, fmt.Errorf("package %q does not exist", path)
	}
	return ci.e.imp.Import(path)
}

// restrictedSyms are the symbols extract binds to local replacements of the
// stdlib package (extract.go "restricted" map, stdlib/restricted.go).
var restrictedSyms = map[string]map[string]bool{
	"os":  {"Exit": true, "FindProcess": true},
	"log": {"Fatal": true, "Fatalf": true, "Fatalln": true, "Logger": true, "New": true, "Default": true},
}

func stubSource(dest, std string) string {
	var b strings.Builder
	b.WriteString("package " + dest + "\n\nimport \"reflect\"\n")
	switch std {
	case "os":
		b.WriteString("import \"os\"\n")
	case "log":
		b.WriteString("import \"log\"\n")
	}
	b.WriteString("\nvar Symbols = map[string]map[string]reflect.Value{}\n")
	switch std {
	case "os":
		b.WriteString("\nvar osExit = os.Exit\nvar osFindProcess = os.FindProcess\n")
	case "log":
		b.WriteString("\nvar logFatal = log.Fatal\nvar logFatalf = log.Fatalf\nvar logFatalln = log.Fatalln\nvar logNew = log.New\nvar logDefault = log.Default\n\ntype logLogger = log.Logger\n")
	}
	return b.String()
}

const (
	kConst = iota
	kVar
	kFunc
	kType
	kWrap
)

type expectation struct {
	kind int
	obj  types.Object
}

func isGenericType(o *types.TypeName) bool {
	if n, ok := o.Type().(*types.Named); ok {
		return n.TypeParams().Len() > 0
	}
	return false
}

func isGenericFunc(o *types.Func) bool {
	s := o.Type().(*types.Signature)
	return s.TypeParams().Len() > 0 || s.RecvTypeParams().Len() > 0
}

// ifaceOf returns the interface underlying an exported type name.
func ifaceOf(o *types.TypeName) *types.Interface {
	t, _ := o.Type().Underlying().(*types.Interface)
	return t
}

// expectedKeys is the go/types model of what the wrapper must bind.
// absent lists exported names that must not be bound, with the reason.
func expectedKeys(pkg *types.Package) (want map[string]expectation, absent map[string]string) {
	want = map[string]expectation{}
	absent = map[string]string{}
	sc := pkg.Scope()
	for _, name := range sc.Names() {
		o := sc.Lookup(name)
		if !o.Exported() {
			continue
		}
		switch o := o.(type) {
		case *types.Const:
			want[name] = expectation{kConst, o}
		case *types.Var:
			want[name] = expectation{kVar, o}
		case *types.Func:
			if isGenericFunc(o) {
				absent[name] = "generic function"
				continue
			}
			want[name] = expectation{kFunc, o}
		case *types.TypeName:
			if isGenericType(o) {
				absent[name] = "generic type"
				continue
			}
			if it := ifaceOf(o); it != nil {
				if !it.IsMethodSet() {
					// a constraint interface (type set not described by
					// methods alone) is not a type of values: it cannot be
					// named outside a type-parameter list.
					absent[name] = "constraint interface"
					continue
				}
				want["_"+name] = expectation{kWrap, o}
			}
			want[name] = expectation{kType, o}
		}
		// *types.Builtin (package unsafe) is not a value and cannot be bound.
	}
	return want, absent
}

func unparen(e ast.Expr) ast.Expr {
	for {
		p, ok := e.(*ast.ParenExpr)
		if !ok {
			return e
		}
		e = p.X
	}
}

type checker struct {
	e       *env
	c       *Case
	pkg     *types.Package
	wpkg    *types.Package
	info    *types.Info
	file    *ast.File
	entries map[string]ast.Expr
}

func (k *checker) src(n ast.Node) string {
	return nodeString(k.e.fset, n)
}

func (k *checker) refObj(e ast.Expr) types.Object {
	switch x := unparen(e).(type) {
	case *ast.Ident:
		return k.info.Uses[x]
	case *ast.SelectorExpr:
		if id, ok := x.X.(*ast.Ident); ok {
			if _, isPkg := k.info.Uses[id].(*types.PkgName); isPkg {
				return k.info.Uses[x.Sel]
			}
		}
	}
	return nil
}

func (k *checker) isFuncOf(fun ast.Expr, pkgPath, name string) bool {
	o, ok := k.refObj(fun).(*types.Func)
	return ok && o.Pkg() != nil && o.Pkg().Path() == pkgPath && o.Name() == name
}

// valueOfArg splits reflect.ValueOf(arg) and reflect.ValueOf(arg).Elem().
func (k *checker) valueOfArg(e ast.Expr) (arg ast.Expr, elem, ok bool) {
	call, isCall := unparen(e).(*ast.CallExpr)
	if !isCall {
		return nil, false, false
	}
	if sel, isSel := call.Fun.(*ast.SelectorExpr); isSel && sel.Sel.Name == "Elem" && len(call.Args) == 0 {
		if inner, isInner := unparen(sel.X).(*ast.CallExpr); isInner && len(inner.Args) == 1 && k.isFuncOf(inner.Fun, "reflect", "ValueOf") {
			return inner.Args[0], true, true
		}
		return nil, false, false
	}
	if len(call.Args) == 1 && k.isFuncOf(call.Fun, "reflect", "ValueOf") {
		return call.Args[0], false, true
	}
	return nil, false, false
}

// isRestricted reports whether key is bound to the documented local
// replacement identifier (<pkg><Name> declared in the destination package).
func (k *checker) isRestricted(key string, ref ast.Expr) bool {
	if k.c.Std == "" || !restrictedSyms[k.c.Std][key] {
		return false
	}
	id, ok := unparen(ref).(*ast.Ident)
	return ok && id.Name == k.pkg.Name()+key
}

// nilPtrConv matches (*X)(nil) and returns X.
func nilPtrConv(e ast.Expr) ast.Expr {
	call, ok := unparen(e).(*ast.CallExpr)
	if !ok || len(call.Args) != 1 {
		return nil
	}
	if id, ok := unparen(call.Args[0]).(*ast.Ident); !ok || id.Name != "nil" {
		return nil
	}
	star, ok := unparen(call.Fun).(*ast.StarExpr)
	if !ok {
		return nil
	}
	return star.X
}

// checkWrapper decides the property on one wrapper text. pkg is the oracle's
// go/types view of the input package.
func checkWrapper(e *env, c *Case, pkg *types.Package, importPath, wrapper string) *verdict {
	file, err := parser.ParseFile(e.fset, "wrapper.go", wrapper, parser.ParseComments)
	if err != nil {
		return bad("wrapper-parse", "generated wrapper does not parse: %v", err)
	}
	dest := file.Name.Name
	stub, err := parser.ParseFile(e.fset, "symbols_stub.go", stubSource(dest, c.Std), 0)
	if err != nil {
		return bad("harness", "stub does not parse: %v", err)
	}
	// imports the Go command would refuse from a package outside GOROOT
	for _, is := range file.Imports {
		p, _ := strconv.Unquote(is.Path.Value)
		if p == "" || p[0] == '.' {
			return bad("self-import", "wrapper imports the relative path %q (package under test is %q)", p, importPath)
		}
		if p != importPath && strings.Contains(strings.SplitN(p, "/", 2)[0], ".") {
			return bad("self-import", "wrapper imports %q, which is neither the package under test %q nor a standard package", p, importPath)
		}
		for _, el := range strings.Split(p, "/") {
			if el == "internal" || el == "vendor" {
				return bad("unimportable-import", "wrapper imports %q, which cannot be imported from outside the standard library", p)
			}
		}
	}
	var terrs []string
	conf := types.Config{
		Importer: &caseImporter{e: e, pkg: pkg, path: importPath},
		Error: func(err error) {
			if len(terrs) < 8 {
				terrs = append(terrs, err.Error())
			}
		},
	}
	info := &types.Info{
		Types:      map[ast.Expr]types.TypeAndValue{},
		Uses:       map[*ast.Ident]types.Object{},
		Defs:       map[*ast.Ident]types.Object{},
		Selections: map[*ast.SelectorExpr]*types.Selection{},
	}
	wpkg, _ := conf.Check("c18/"+dest, e.fset, []*ast.File{file, stub}, info)
	if len(terrs) > 0 {
		importNames := map[string]bool{}
		for _, is := range file.Imports {
			p, _ := strconv.Unquote(is.Path.Value)
			if ip, err := conf.Importer.Import(p); err == nil {
				importNames[ip.Name()] = true
			}
		}
		return bad(classifyTypeErr(terrs, importNames), "generated wrapper does not type-check: %s", strings.Join(terrs, " | "))
	}
	k := &checker{e: e, c: c, pkg: pkg, wpkg: wpkg, info: info, file: file}

	// locate Symbols["..."] = map[string]reflect.Value{...} in init
	k.entries = map[string]ast.Expr{}
	found := false
	for _, d := range file.Decls {
		fd, ok := d.(*ast.FuncDecl)
		if !ok || fd.Recv != nil || fd.Name.Name != "init" || fd.Body == nil {
			continue
		}
		for _, st := range fd.Body.List {
			as, ok := st.(*ast.AssignStmt)
			if !ok || len(as.Lhs) != 1 || len(as.Rhs) != 1 {
				continue
			}
			ix, ok := as.Lhs[0].(*ast.IndexExpr)
			if !ok {
				continue
			}
			if id, ok := ix.X.(*ast.Ident); !ok || id.Name != "Symbols" {
				continue
			}
			cl, ok := as.Rhs[0].(*ast.CompositeLit)
			if !ok {
				continue
			}
			found = true
			for _, el := range cl.Elts {
				kv, ok := el.(*ast.KeyValueExpr)
				if !ok {
					return bad("binding-shape", "map element without key: %s", k.src(el))
				}
				tv, ok := info.Types[kv.Key]
				if !ok || tv.Value == nil || tv.Value.Kind() != constant.String {
					return bad("binding-shape", "map key is not a string constant: %s", k.src(kv.Key))
				}
				k.entries[constant.StringVal(tv.Value)] = kv.Value
			}
		}
	}
	if !found {
		return bad("binding-shape", "no Symbols[...] = map[string]reflect.Value{...} assignment in init")
	}

	// (2) key set
	want, absent := expectedKeys(pkg)
	var missing, extra []string
	for name := range want {
		if _, ok := k.entries[name]; !ok {
			missing = append(missing, name)
		}
	}
	for name := range k.entries {
		if _, ok := want[name]; !ok {
			extra = append(extra, name)
		}
	}
	sort.Strings(missing)
	sort.Strings(extra)
	if len(missing) > 0 || len(extra) > 0 {
		sig := "key-set"
		var notes []string
		for _, m := range missing {
			o, _ := want[m].obj.(*types.TypeName)
			if o != nil && ifaceOf(o) != nil && ifaceOf(o).NumMethods() == 0 && ifaceOf(o).NumEmbeddeds() > 0 {
				sig = "constraint-iface-detection"
				if !strings.HasPrefix(m, "_") {
					notes = append(notes, fmt.Sprintf("%s is an ordinary interface type with an empty method set declared by embedding, not a constraint", m))
				}
			}
		}
		for _, x := range extra {
			if why, ok := absent[strings.TrimPrefix(x, "_")]; ok {
				notes = append(notes, fmt.Sprintf("%s is a %s", x, why))
				if why == "constraint interface" {
					sig = "constraint-iface-detection"
				}
			}
		}
		return bad(sig, "bound keys differ from the exported non-generic package-level objects: missing %v, unexpected %v %s", missing, extra, strings.Join(notes, "; "))
	}

	// (2)(3) each binding
	names := make([]string, 0, len(want))
	for name := range want {
		names = append(names, name)
	}
	sort.Strings(names)
	for _, name := range names {
		if v := k.checkBinding(name, want[name]); v != nil {
			return v
		}
	}
	// (4) interface wrappers
	for _, name := range names {
		if want[name].kind != kWrap {
			continue
		}
		if v := k.checkIfaceWrapper(name, want[name].obj.(*types.TypeName)); v != nil {
			return v
		}
	}
	return nil
}

var redeclRE = regexp.MustCompile(`: (\S+) redeclared in this block`)
var argNameRE = regexp.MustCompile(`^a[0-9]+$`)

// classifyTypeErr maps the type-checker's complaints about a wrapper to a
// root-cause class. importNames are the package names the wrapper imports.
func classifyTypeErr(errs []string, importNames map[string]bool) string {
	all := strings.Join(errs, "\n")
	has := func(s string) bool { return strings.Contains(all, s) }
	switch {
	case has("relative import") || has("does not exist"):
		return "self-import"
	case has("outside a type constraint"):
		return "constraint-iface-detection"
	case has("not exported by package"):
		return "unexported-type-in-method"
	case has("overflows") && has("untyped complex constant"):
		return "complex-const"
	case has("and not used") && len(errs) == 1:
		return "unused-package-import"
	}
	for _, e := range errs {
		if m := redeclRE.FindStringSubmatch(e); m != nil {
			switch {
			case importNames[m[1]]:
				return "import-name-collision"
			case m[1] == "W" || argNameRE.MatchString(m[1]):
				return "param-name-collision"
			}
		}
	}
	switch {
	case has("field and method with the same name"):
		return "method-field-collision"
	case has("cannot use _ as value"):
		return "blank-param"
	case has("return values") || has("in return statement"):
		return "string-method-guard"
	}
	return "wrapper-typecheck"
}

func (k *checker) checkBinding(name string, ex expectation) *verdict {
	expr := k.entries[name]
	arg, elem, ok := k.valueOfArg(expr)
	if !ok {
		return bad("binding-shape", "%q is not bound to reflect.ValueOf(...)[.Elem()]: %s", name, k.src(expr))
	}
	o := ex.obj
	qual := k.pkg.Name() + "." + o.Name()
	switch ex.kind {
	case kVar:
		u, isU := unparen(arg).(*ast.UnaryExpr)
		if !elem || !isU || u.Op != token.AND {
			return bad("var-binding", "variable %s must be bound by address as reflect.ValueOf(&%s).Elem(), got %s", name, qual, k.src(expr))
		}
		if k.refObj(u.X) != o {
			return bad("wrong-object", "key %q is bound to %s, not to variable %s", name, k.src(u.X), qual)
		}
	case kFunc:
		if elem {
			return bad("binding-shape", "function %s bound through Elem(): %s", name, k.src(expr))
		}
		if k.refObj(arg) != o && !k.isRestricted(name, arg) {
			return bad("wrong-object", "key %q is bound to %s, not to function %s", name, k.src(arg), qual)
		}
	case kType:
		x := nilPtrConv(arg)
		if elem || x == nil {
			return bad("binding-shape", "type %s must be bound as (*%s)(nil), got %s", name, qual, k.src(expr))
		}
		if k.isRestricted(name, x) {
			return nil
		}
		if k.refObj(x) != o {
			return bad("wrong-object", "key %q is bound to type %s, not to %s", name, k.src(x), qual)
		}
		tv := k.info.Types[arg]
		p, isP := tv.Type.(*types.Pointer)
		if !isP || !types.Identical(p.Elem(), o.Type()) {
			return bad("wrong-object", "key %q: %s has type %v, want *%s", name, k.src(arg), tv.Type, qual)
		}
	case kWrap:
		x := nilPtrConv(arg)
		if elem || x == nil {
			return bad("binding-shape", "interface wrapper %s must be bound as (*T)(nil), got %s", name, k.src(expr))
		}
		tn, isTN := k.refObj(x).(*types.TypeName)
		if !isTN || tn.Pkg() != k.wpkg {
			return bad("iface-wrapper", "key %q is not bound to a wrapper type declared in the generated file: %s", name, k.src(arg))
		}
	case kConst:
		return k.checkConst(name, o.(*types.Const), arg, elem, expr)
	}
	return nil
}

// isDyadic reports whether the rational r is m/2^k, i.e. exactly
// representable as a binary floating-point number of sufficient precision.
func isDyadic(r *big.Rat) bool {
	d := r.Denom()
	return d.Sign() > 0 && new(big.Int).And(d, new(big.Int).Sub(d, big.NewInt(1))).Sign() == 0
}

// ratOf returns the exact value of a Float or Int constant as a rational
// (nil if it is a big.Float with an exponent too large to expand).
func ratOf(v constant.Value) *big.Rat {
	switch x := constant.Val(v).(type) {
	case int64:
		return new(big.Rat).SetInt64(x)
	case *big.Int:
		return new(big.Rat).SetInt(x)
	case *big.Rat:
		return x
	case *big.Float:
		if e := x.MantExp(nil); e > 1<<16 || e < -(1<<16) {
			return nil
		}
		r, _ := x.Rat(nil)
		return r
	}
	return nil
}

func untypedKind(c *types.Const) (types.BasicKind, bool) {
	b, ok := c.Type().(*types.Basic)
	if !ok || b.Info()&types.IsUntyped == 0 {
		return 0, false
	}
	return b.Kind(), true
}

// checkConst: typed constants by name; untyped constants either through
// constant.MakeFromLiteral with a literal denoting exactly the value, or by
// name when the conversion to the default type is exact.
//
// Float rule (what fixConst implements, stated independently of its code):
// let v be the exact value. If v is a binary fraction m/2^k (this includes
// every value go/constant holds as a big.Float) the literal must denote v
// exactly. Otherwise (v = a/b in lowest terms, b not a power of two) no finite
// decimal need equal v; the literal must then agree with v to the precision
// p = max(64, bitlen(a), bitlen(b)) bits: |lit - v| <= 2^-(p-2) * |v|.
func (k *checker) checkConst(name string, o *types.Const, arg ast.Expr, elem bool, expr ast.Expr) *verdict {
	qual := k.pkg.Name() + "." + name
	if elem {
		return bad("binding-shape", "constant %s bound through Elem(): %s", name, k.src(expr))
	}
	uk, untyped := untypedKind(o)
	if k.refObj(arg) == o {
		if !untyped {
			return nil
		}
		// by name: implicit conversion to the default type
		v := o.Val()
		switch uk {
		case types.UntypedBool, types.UntypedString:
			return nil
		case types.UntypedComplex:
			re, im := constant.Real(v), constant.Imag(v)
			_, ok1 := constant.Float64Val(re)
			_, ok2 := constant.Float64Val(im)
			if ok1 && ok2 {
				return nil
			}
			return bad("complex-const", "untyped complex constant %s = %s is bound by name, i.e. converted to complex128, which does not hold its value exactly", qual, v.ExactString())
		case types.UntypedFloat:
			if _, ok := constant.Float64Val(v); ok {
				return nil
			}
		case types.UntypedInt, types.UntypedRune:
			if i, ok := constant.Int64Val(v); ok && i >= -1<<31 && i < 1<<31 {
				return nil
			}
		}
		return bad("const-value", "untyped constant %s = %s is bound by name: the conversion to its default type is not exact", qual, v.ExactString())
	}
	if !untyped {
		return bad("wrong-object", "typed constant %s must be bound as %s, got %s", name, qual, k.src(arg))
	}
	call, ok := unparen(arg).(*ast.CallExpr)
	if !ok || len(call.Args) != 3 || !k.isFuncOf(call.Fun, "go/constant", "MakeFromLiteral") {
		return bad("binding-shape", "untyped constant %s is bound neither by name nor through constant.MakeFromLiteral: %s", name, k.src(arg))
	}
	tvLit, tvTok, tvZero := k.info.Types[call.Args[0]], k.info.Types[call.Args[1]], k.info.Types[call.Args[2]]
	if tvLit.Value == nil || tvLit.Value.Kind() != constant.String || tvTok.Value == nil || tvZero.Value == nil {
		return bad("binding-shape", "constant.MakeFromLiteral arguments of %s are not constants: %s", name, k.src(arg))
	}
	lit := constant.StringVal(tvLit.Value)
	tokv, _ := constant.Int64Val(tvTok.Value)
	tok := token.Token(tokv)
	if z, _ := constant.Int64Val(tvZero.Value); z != 0 {
		return bad("binding-shape", "constant.MakeFromLiteral third argument must be 0: %s", k.src(arg))
	}
	L := constant.MakeFromLiteral(lit, tok, 0)
	if L.Kind() == constant.Unknown {
		return bad("const-value", "constant %s: constant.MakeFromLiteral(%q, token.%s, 0) is not a valid literal", qual, clip(lit), tok)
	}
	v := o.Val()
	mismatch := func(why string) *verdict {
		return bad("const-value", "untyped constant %s = %s is bound to constant.MakeFromLiteral(%q, token.%s, 0) = %s: %s", qual, clip(v.ExactString()), clip(lit), tok, clip(L.ExactString()), why)
	}
	switch uk {
	case types.UntypedInt, types.UntypedRune:
		if tok != token.INT && !(uk == types.UntypedRune && tok == token.CHAR) {
			return mismatch("integer constant needs token.INT")
		}
		if L.Kind() != constant.Int || !constant.Compare(L, token.EQL, constant.ToInt(v)) {
			return mismatch("value differs")
		}
	case types.UntypedString:
		if tok != token.STRING || L.Kind() != constant.String || constant.StringVal(L) != constant.StringVal(v) {
			return mismatch("value differs")
		}
	case types.UntypedBool:
		return mismatch("boolean constants have no literal")
	case types.UntypedFloat:
		if tok != token.FLOAT || L.Kind() != constant.Float {
			return mismatch("floating-point constant needs token.FLOAT (an INT literal changes the constant's kind and default type)")
		}
		fv := constant.ToFloat(v)
		if constant.Compare(L, token.EQL, fv) {
			return nil
		}
		rv, rl := ratOf(fv), ratOf(L)
		if rv == nil || rl == nil {
			return mismatch("value held as a 512-bit binary float must be denoted exactly")
		}
		if isDyadic(rv) {
			return mismatch("value is a binary fraction and must be denoted exactly")
		}
		p := 64
		if n := rv.Num().BitLen(); n > p {
			p = n
		}
		if n := rv.Denom().BitLen(); n > p {
			p = n
		}
		diff := new(big.Rat).Sub(rl, rv)
		diff.Abs(diff)
		bound := new(big.Rat).Abs(rv)
		bound.Quo(bound, new(big.Rat).SetInt(new(big.Int).Lsh(big.NewInt(1), uint(p-2))))
		if diff.Cmp(bound) > 0 {
			return mismatch(fmt.Sprintf("relative error exceeds 2^-%d (precision p=%d bits)", p-2, p))
		}
	case types.UntypedComplex:
		return mismatch("complex constants have no literal")
	default:
		return mismatch("unexpected constant type")
	}
	return nil
}

func clip(s string) string {
	if len(s) > 120 {
		return s[:60] + "…" + s[len(s)-40:] + fmt.Sprintf(" (%d chars)", len(s))
	}
	return s
}

// checkIfaceWrapper: oracle (4).
func (k *checker) checkIfaceWrapper(key string, o *types.TypeName) *verdict {
	it := ifaceOf(o)
	qual := k.pkg.Name() + "." + o.Name()
	x := nilPtrConv(func() ast.Expr { a, _, _ := k.valueOfArg(k.entries[key]); return a }())
	wtn := k.refObj(x).(*types.TypeName)
	named, ok := wtn.Type().(*types.Named)
	if !ok {
		return bad("iface-wrapper", "wrapper %s of %s is not a defined type", wtn.Name(), qual)
	}
	st, ok := named.Underlying().(*types.Struct)
	if !ok {
		return bad("iface-wrapper", "wrapper %s of %s is not a struct", wtn.Name(), qual)
	}
	// exported methods of the interface (embedded ones included)
	meths := map[string]*types.Func{}
	hasUnexported := false
	for i := 0; i < it.NumMethods(); i++ {
		m := it.Method(i)
		if m.Exported() {
			meths[m.Name()] = m
		} else {
			hasUnexported = true
		}
	}
	// fields: IValue interface{} + W<M> func...
	fields := map[string]*types.Var{}
	for i := 0; i < st.NumFields(); i++ {
		fields[st.Field(i).Name()] = st.Field(i)
	}
	if f, ok := fields["IValue"]; !ok || !types.Identical(f.Type(), types.NewInterfaceType(nil, nil)) {
		return bad("iface-wrapper", "wrapper %s of %s has no field IValue interface{}", wtn.Name(), qual)
	}
	if len(fields) != len(meths)+1 {
		var fn []string
		for n := range fields {
			fn = append(fn, n)
		}
		sort.Strings(fn)
		return bad("iface-wrapper-methods", "wrapper %s of %s has fields %v, want IValue plus one W<M> per exported method (%d)", wtn.Name(), qual, fn, len(meths))
	}
	mnames := make([]string, 0, len(meths))
	for n := range meths {
		mnames = append(mnames, n)
	}
	sort.Strings(mnames)
	for _, n := range mnames {
		f, ok := fields["W"+n]
		if !ok {
			return bad("iface-wrapper-methods", "wrapper %s of %s has no field W%s", wtn.Name(), qual, n)
		}
		if !types.Identical(f.Type(), meths[n].Type()) {
			return bad("iface-wrapper-signature", "wrapper %s of %s: field W%s has type %v, method is %v", wtn.Name(), qual, n, f.Type(), meths[n].Type())
		}
	}
	// methods of the wrapper type
	if named.NumMethods() != len(meths) {
		var mn []string
		for i := 0; i < named.NumMethods(); i++ {
			mn = append(mn, named.Method(i).Name())
		}
		return bad("iface-wrapper-methods", "wrapper %s of %s declares methods %v, want exactly the exported methods %v", wtn.Name(), qual, mn, mnames)
	}
	decls := map[string]*ast.FuncDecl{}
	for _, d := range k.file.Decls {
		if fd, ok := d.(*ast.FuncDecl); ok && fd.Recv != nil {
			if fn, ok := k.info.Defs[fd.Name].(*types.Func); ok {
				if r := fn.Type().(*types.Signature).Recv(); r != nil && types.Identical(r.Type(), named) {
					decls[fd.Name.Name] = fd
				}
			}
		}
	}
	for _, n := range mnames {
		fd := decls[n]
		if fd == nil {
			return bad("iface-wrapper-methods", "wrapper %s of %s has no value-receiver method %s", wtn.Name(), qual, n)
		}
		fn := k.info.Defs[fd.Name].(*types.Func)
		sig := fn.Type().(*types.Signature)
		msig := meths[n].Type().(*types.Signature)
		if !types.Identical(sig, msig) {
			return bad("iface-wrapper-signature", "wrapper method %s.%s has signature %v, interface method is %v", wtn.Name(), n, sig, msig)
		}
		if v := k.checkForward(wtn.Name(), fd, msig); v != nil {
			return v
		}
	}
	if !hasUnexported && !types.Implements(named, it) {
		return bad("iface-wrapper", "wrapper %s does not implement %s", wtn.Name(), qual)
	}
	return nil
}

// checkForward: the body is [String nil guard;] [return] W.W<M>(params...[...]).
func (k *checker) checkForward(wname string, fd *ast.FuncDecl, msig *types.Signature) *verdict {
	fail := func(why string) *verdict {
		return bad("iface-wrapper-forward", "wrapper method %s.%s does not forward to its W%s field (%s): %s", wname, fd.Name.Name, fd.Name.Name, why, k.src(fd))
	}
	if fd.Body == nil || len(fd.Body.List) == 0 || len(fd.Recv.List) != 1 || len(fd.Recv.List[0].Names) != 1 {
		return fail("no body or receiver name")
	}
	recv := k.info.Defs[fd.Recv.List[0].Names[0]]
	stmts := fd.Body.List
	if len(stmts) == 2 && fd.Name.Name == "String" {
		if _, ok := stmts[0].(*ast.IfStmt); !ok {
			return fail("unexpected statement")
		}
		stmts = stmts[1:]
	}
	if len(stmts) != 1 {
		return fail("unexpected statements")
	}
	var call *ast.CallExpr
	switch s := stmts[0].(type) {
	case *ast.ReturnStmt:
		if msig.Results().Len() == 0 || len(s.Results) != 1 {
			return fail("return shape")
		}
		call, _ = unparen(s.Results[0]).(*ast.CallExpr)
	case *ast.ExprStmt:
		if msig.Results().Len() != 0 {
			return fail("results dropped")
		}
		call, _ = unparen(s.X).(*ast.CallExpr)
	}
	if call == nil {
		return fail("no call")
	}
	sel, ok := call.Fun.(*ast.SelectorExpr)
	if !ok || sel.Sel.Name != "W"+fd.Name.Name {
		return fail("callee is not the W field")
	}
	if id, ok := sel.X.(*ast.Ident); !ok || recv == nil || k.info.Uses[id] != recv {
		return fail("callee is not a field of the receiver")
	}
	var params []types.Object
	for _, f := range fd.Type.Params.List {
		for _, n := range f.Names {
			params = append(params, k.info.Defs[n])
		}
	}
	if len(params) != msig.Params().Len() || len(call.Args) != len(params) {
		return fail("argument count")
	}
	for i, a := range call.Args {
		id, ok := a.(*ast.Ident)
		if !ok || params[i] == nil || k.info.Uses[id] != params[i] {
			return fail(fmt.Sprintf("argument %d is not parameter %d", i, i))
		}
	}
	if call.Ellipsis.IsValid() != msig.Variadic() {
		if msig.Variadic() {
			return bad("variadic-forward", "wrapper method %s.%s forwards its variadic parameter without '...': %s", wname, fd.Name.Name, k.src(fd))
		}
		return fail("'...' on a non-variadic call")
	}
	return nil
}

// onlyLiteralConsts reports whether every object the wrapper must bind is an
// untyped integer, rune, float or string constant (which extract binds through
// constant.MakeFromLiteral, without naming the package).
func onlyLiteralConsts(pkg *types.Package) bool {
	want, _ := expectedKeys(pkg)
	if len(want) == 0 {
		return false
	}
	for _, ex := range want {
		c, ok := ex.obj.(*types.Const)
		if !ok || ex.kind != kConst {
			return false
		}
		uk, untyped := untypedKind(c)
		if !untyped {
			return false
		}
		switch uk {
		case types.UntypedInt, types.UntypedRune, types.UntypedFloat, types.UntypedString:
		default:
			return false
		}
	}
	return true
}
