package c18

import (
	"fmt"
	"sort"
	"strconv"
	"strings"

	"pgregory.net/rapid"

	"verif/internal/vf"
)

// feats are the generator switches: a construct whose root cause is listed in
// known_findings.jsonl is no longer produced.
type feats struct {
	blankParam      bool // interface method parameter named _
	paramCollision  bool // parameter/result named W, result named aN with unnamed parameters
	methodCollision bool // method named IValue, or methods M and WM
	stringGuard     bool // method String whose signature is not func() string
	importCollision bool // package named reflect/constant/token, two imports with one name
	constraintIface bool // constraint interface with methods, embedding-only empty interface
	complexConst    bool // untyped complex constant not exactly a complex128
	selfImport      bool // relative extraction of a package whose interfaces mention its own types
	unexportedType  bool // exported interface method mentioning an unexported type
	unusedImport    bool // package whose exported objects are all literal-bound untyped constants
}

var featKeys = []struct {
	key string
	get func(*feats) *bool
}{
	{"blank-param", func(f *feats) *bool { return &f.blankParam }},
	{"param-name-collision", func(f *feats) *bool { return &f.paramCollision }},
	{"method-field-collision", func(f *feats) *bool { return &f.methodCollision }},
	{"string-method-guard", func(f *feats) *bool { return &f.stringGuard }},
	{"import-name-collision", func(f *feats) *bool { return &f.importCollision }},
	{"constraint-iface-detection", func(f *feats) *bool { return &f.constraintIface }},
	{"complex-const", func(f *feats) *bool { return &f.complexConst }},
	{"self-import", func(f *feats) *bool { return &f.selfImport }},
	{"unexported-type-in-method", func(f *feats) *bool { return &f.unexportedType }},
	{"unused-package-import", func(f *feats) *bool { return &f.unusedImport }},
}

func loadFeats() feats {
	var f feats
	for _, fk := range featKeys {
		*fk.get(&f) = !vf.IsKnown("C18", fk.key)
	}
	return f
}

type ownType struct {
	name     string
	exported bool
	kind     string // "int", "string", "float", "struct", "iface", "other"
	special  bool   // interface declaring a specially named method
	empty    bool   // interface with an empty method set
}

type gen struct {
	t       *rapid.T
	f       feats
	pkg     string
	imports map[string]string // path -> local name in the source ("" = default)
	decls   []string
	used    map[string]bool
	types   []ownType
	generic []string // generic type names
	uints   []string // untyped integer constant names
	n       int
	labels  map[string]bool
	selfRef bool // some exported interface method mentions a type of the package
	inIface bool
}

func (g *gen) label(l string) { g.labels[l] = true }

func (g *gen) pick(label string, n int) int { return rapid.IntRange(0, n-1).Draw(g.t, label) }

// chance is true for the largest draw, so that shrinking (towards 0) removes
// optional constructs.
func (g *gen) chance(label string, oneIn int) bool { return g.pick(label, oneIn) == oneIn-1 }

func (g *gen) imp(path string) string {
	name := path[strings.LastIndex(path, "/")+1:]
	alias := ""
	if path == "math/rand/v2" {
		name, alias = "rand2", "rand2"
	}
	g.imports[path] = alias
	return name
}

var specialExported = []string{"W", "Symbols", "IValue", "A0", "R0", "Reflect", "Constant", "Token", "WString", "Wrap", "Val", "Method"}
var specialUnexported = []string{"w", "a0", "r0", "symbols", "wrap", "init0", "model"}

// name returns a fresh package-level identifier.
func (g *gen) name(exported bool, prefix string) string {
	if g.chance("special-name", 8) {
		pool := specialUnexported
		if exported {
			pool = specialExported
		}
		s := pool[g.pick("special", len(pool))]
		if !g.used[s] {
			g.used[s] = true
			g.label("decl-name-collides-template")
			return s
		}
	}
	for {
		g.n++
		s := fmt.Sprintf("%s%d", prefix, g.n)
		if !exported {
			s = strings.ToLower(prefix[:1]) + prefix[1:] + fmt.Sprint(g.n)
		}
		if !g.used[s] {
			g.used[s] = true
			return s
		}
	}
}

func (g *gen) exported(label string) bool { return g.pick(label, 4) != 0 }

var basicTypes = []string{"int", "string", "bool", "float64", "byte", "rune", "uint8", "int64", "uint32", "complex128", "uintptr", "float32"}

// typ draws a type expression. exportedOnly restricts own types to exported
// ones (used inside exported interface methods unless the unexported-type
// construct is requested).
func (g *gen) typ(d int, exportedOnly bool) string {
	k := g.pick("typ", 20)
	if d <= 0 && k >= 12 {
		k %= 12
	}
	switch k {
	case 0, 1, 2, 3:
		return basicTypes[g.pick("basic", len(basicTypes))]
	case 4:
		return "error"
	case 5, 6:
		switch g.pick("foreign", 9) {
		case 0:
			return g.imp("io") + ".Reader"
		case 1:
			return g.imp("io") + ".Writer"
		case 2:
			return g.imp("time") + ".Duration"
		case 3:
			return g.imp("time") + ".Time"
		case 4:
			return "*" + g.imp("time") + ".Location"
		case 5:
			return g.imp("sort") + ".Interface"
		case 6:
			return g.imp("io") + ".ReadWriteCloser"
		case 7:
			return g.imp("math/rand") + ".Source"
		default:
			if g.f.importCollision && g.chance("rand2", 3) {
				g.label("two-imports-same-name")
				return "*" + g.imp("math/rand/v2") + ".Rand"
			}
			return "*" + g.imp("math/rand") + ".Rand"
		}
	case 7, 8:
		var c []ownType
		for _, t := range g.types {
			if t.exported || !exportedOnly {
				c = append(c, t)
			}
		}
		if len(c) == 0 {
			return "int"
		}
		t := c[g.pick("own", len(c))]
		if g.inIface {
			g.selfRef = true
		}
		return t.name
	case 9:
		if g.chance("any", 2) {
			return "any"
		}
		return "interface{}"
	case 10:
		var gs []string
		for _, n := range g.generic {
			if !exportedOnly || n[0] >= 'A' && n[0] <= 'Z' {
				gs = append(gs, n)
			}
		}
		if len(gs) == 0 {
			return "string"
		}
		if g.inIface {
			g.selfRef = true
		}
		return gs[g.pick("geninst", len(gs))] + "[" + basicTypes[g.pick("genarg", 4)] + "]"
	case 11:
		return "[]byte"
	case 12:
		return "[]" + g.typ(d-1, exportedOnly)
	case 13:
		return "*" + g.typ(d-1, exportedOnly)
	case 14:
		return "map[" + []string{"string", "int", "rune"}[g.pick("mapkey", 3)] + "]" + g.typ(d-1, exportedOnly)
	case 15:
		return fmt.Sprintf("[%d]", g.pick("arrlen", 5)) + g.typ(d-1, exportedOnly)
	case 16:
		return []string{"chan ", "<-chan ", "chan<- "}[g.pick("chandir", 3)] + g.typ(d-1, exportedOnly)
	case 17:
		s := "func(" + g.typ(d-1, exportedOnly)
		if g.chance("functype-variadic", 3) {
			s += ", ..." + g.typ(d-1, exportedOnly)
		}
		s += ")"
		switch g.pick("functype-res", 3) {
		case 1:
			s += " " + g.typ(d-1, exportedOnly)
		case 2:
			s += " (" + g.typ(d-1, exportedOnly) + ", error)"
		}
		return s
	case 18:
		return "struct{ X " + g.typ(d-1, exportedOnly) + "; Y int }"
	default:
		return "interface{ Get() " + g.typ(d-1, exportedOnly) + " }"
	}
}

var paramNames = []string{"x", "y", "z", "n", "s", "buf", "err", "ctx", "format", "args", "v", "reflect", "constant", "token", "Symbols", "a0", "a1", "r0", "io", "time", "w", "IValue"}

type sigOpts struct {
	iface    bool // method of an interface (risky names apply)
	exported bool
}

// signature draws "(params) results".
func (g *gen) signature(o sigOpts) string {
	risky := o.iface && o.exported
	expOnly := risky
	g.inIface = risky
	defer func() { g.inIface = false }()
	if risky && g.f.unexportedType && g.chance("unexported-type", 25) {
		for _, t := range g.types {
			if !t.exported {
				expOnly = false
				g.label("iface-method-unexported-type")
				break
			}
		}
	}
	usedN := map[string]bool{}
	pname := func(lbl string) string {
		if !risky || g.f.blankParam {
			if g.chance(lbl+"blank", 8) {
				if risky {
					g.label("iface-param-blank")
				}
				return "_"
			}
		}
		if risky && g.f.paramCollision && g.chance(lbl+"W", 12) && !usedN["W"] {
			usedN["W"] = true
			g.label("iface-param-named-W")
			return "W"
		}
		for {
			n := paramNames[g.pick(lbl, len(paramNames))]
			if !usedN[n] {
				usedN[n] = true
				return n
			}
		}
	}
	np := g.pick("nparams", 4)
	named := g.chance("named", 2)
	variadic := np > 0 && g.chance("variadic", 3)
	var ps []string
	for i := 0; i < np; i++ {
		ty := g.typ(2, expOnly)
		if variadic && i == np-1 {
			ty = "..." + ty
		}
		if named {
			ty = pname(fmt.Sprintf("p%d", i)) + " " + ty
		}
		ps = append(ps, ty)
	}
	s := "(" + strings.Join(ps, ", ") + ")"
	if variadic {
		g.label(map[bool]string{true: "iface-method-variadic", false: "func-variadic"}[o.iface])
	}
	switch g.pick("results", 5) {
	case 0:
	case 1, 2:
		s += " " + g.typ(2, expOnly)
	case 3:
		nr := 2 + g.pick("nres", 2)
		var rs []string
		for i := 0; i < nr; i++ {
			rs = append(rs, g.typ(1, expOnly))
		}
		s += " (" + strings.Join(rs, ", ") + ")"
		if o.iface {
			g.label("iface-method-multi-result")
		}
	default:
		nr := 1 + g.pick("nres", 3)
		var rs []string
		for i := 0; i < nr; i++ {
			var n string
			switch {
			case risky && g.f.paramCollision && !named && np > 0 && g.chance("res-aN", 10) && !usedN["a0"]:
				n = "a0"
				usedN[n] = true
				g.label("iface-result-named-a0")
			case g.chance("res-blank", 8):
				n = "_"
			default:
				n = pname(fmt.Sprintf("r%d", i))
				if !named && np > 0 && len(n) == 2 && n[0] == 'a' && n[1] >= '0' && n[1] <= '9' {
					// would collide with the synthesised parameter names
					if !(risky && g.f.paramCollision) {
						n = fmt.Sprintf("res%d", i)
					} else {
						g.label("iface-result-named-a0")
					}
				}
			}
			rs = append(rs, n+" "+g.typ(1, expOnly))
		}
		s += " (" + strings.Join(rs, ", ") + ")"
		if o.iface {
			g.label("iface-method-named-results")
			if nr >= 2 {
				g.label("iface-method-multi-result")
			}
		}
	}
	return s
}

var untypedInts = []string{"0", "1", "-1", "42", "1 << 62", "1 << 63", "1<<64 - 1", "1 << 200", "-(1 << 200)", "0x7fffffff", "0b1010", "0o777", "1_000_000", "1<<511 + 12345", "-9223372036854775808", "1<<200 / 3", "'a' * 2 / 'b' + 5 - 'c' + 100 - 'A'*0"}
var untypedFloats = []string{"0.0", "1.0", "0.5", "1e3", "1.0 / 3", "2.0 / 3", "1e-400", "1e400", "1e-1500", "1e1500", "3.14159265358979323846264338327950288419716939937510582097494459", "2.71828182845904523536028747135266249775724709369995957496696763", "0x1p-1074", "0x1.fffffffffffffp1023", "1e-7", "123.456e10", "6.02214076e23", "1.0 / 7", "(1 << 100) / 3.0", "0.1 + 0.2", "340282346638528859811704183484516925440.0", "1 << 300 * 1.0", "1.0 / (1 << 500)", "-1.5", "1.0 / 1e300 / 7", "4.0 / 2", "5e-324 / 3"}
var runeBoundaries = []string{"'a' - 'b'", "-'a'", "'\\x00' - 1", "'\\uD7FF' + 1", "'\\uE000' - 1", "'\\uD7FF' + 0x400", "'\\U0010FFFF' + 1", "'a' << 33", "-('a' << 33)", "'a' - 1<<31", "'a' + 1<<31", "'\\U0010FFFF' * 2", "-'\\U0010FFFF'"}

var untypedRunes = []string{"'a'", "'\\n'", "'\\u00e9'", "'\\U0001F600'", "'a' + 1", "'\\xff'", "'\\''", "'世'"}
var untypedStrings = []string{`"hello"`, `""`, `"a\xffb"`, `"tab\t\"q\"\\"`, "`raw\\n`", `"世界"`, `"a" + "b"`, "\"tick`tick\"", `"nul\x00nul"`, `"  line sep"`, "`multi\nline`"}
var untypedBools = []string{"true", "false", "1 < 2", "!true", `"a" == "b"`}
var complexExact = []string{"1i", "1 + 2i", "0.5i", "-3 - 4i", "1 << 40 * 1i"}
var complexInexact = []string{"0.1i", "1e400i", "1 + 1.0i/3", "1e-400 + 1i"}

func (g *gen) constDecl() {
	exp := g.exported("const-exported")
	switch g.pick("constkind", 12) {
	case 0:
		n := g.name(exp, "CI")
		g.uints = append(g.uints, n)
		g.decls = append(g.decls, fmt.Sprintf("const %s = %s", n, untypedInts[g.pick("int", len(untypedInts))]))
		g.label("const-untyped-int")
	case 1:
		// random big integer
		n := g.name(exp, "CB")
		sh := rapid.IntRange(0, 500).Draw(g.t, "shift")
		add := rapid.Int64().Draw(g.t, "add")
		g.uints = append(g.uints, n)
		g.decls = append(g.decls, fmt.Sprintf("const %s = 1<<%d + (%d)", n, sh, add))
		g.label("const-untyped-int")
	case 2, 3:
		n := g.name(exp, "CF")
		g.decls = append(g.decls, fmt.Sprintf("const %s = %s", n, untypedFloats[g.pick("float", len(untypedFloats))]))
		g.label("const-untyped-float")
	case 4:
		// random rational / decimal
		n := g.name(exp, "CQ")
		a := rapid.Int64Range(-1_000_000_000_000, 1_000_000_000_000).Draw(g.t, "num")
		b := rapid.Int64Range(1, 1_000_000_007).Draw(g.t, "den")
		e := rapid.IntRange(-420, 420).Draw(g.t, "exp")
		if g.chance("decimal", 2) {
			g.decls = append(g.decls, fmt.Sprintf("const %s = %d.%de%d", n, a, b, e))
		} else {
			g.decls = append(g.decls, fmt.Sprintf("const %s = %d.0 / %d", n, a, b))
		}
		g.label("const-untyped-float")
	case 5:
		n := g.name(exp, "CR")
		switch g.pick("runeform", 3) {
		case 0:
			g.decls = append(g.decls, fmt.Sprintf("const %s = %s", n, untypedRunes[g.pick("rune", len(untypedRunes))]))
		case 1:
			// rune-kind constants outside the valid code points: negative,
			// surrogate halves, above unicode.MaxRune, wider than 32 bits
			g.decls = append(g.decls, fmt.Sprintf("const %s = %s", n, runeBoundaries[g.pick("runebound", len(runeBoundaries))]))
			g.label("const-untyped-rune-not-a-code-point")
		default:
			base := []string{"'a'", "'\\x00'", "'\\uD7FF'", "'\\uE000'", "'\\U0010FFFF'"}[g.pick("runebase", 5)]
			off := g.pick("runeoff", 0x4001) - 0x2000
			g.decls = append(g.decls, fmt.Sprintf("const %s = %s + %d", n, base, off))
			g.label("const-untyped-rune-arith")
		}
		g.label("const-untyped-rune")
	case 6:
		n := g.name(exp, "CS")
		lit := untypedStrings[g.pick("string", len(untypedStrings))]
		if g.chance("genstring", 2) {
			// a drawn string of any length up to a few hundred bytes (long
			// usage texts and tables are ordinary exported constants)
			alphabet := []rune("abcxyz 0123456789-_.,:;/\"\\\n\t'`%世é\x00")
			minLen := []int{0, 0, 30, 60, 66, 70, 74, 100, 250}[g.pick("strlen", 9)]
			r := rapid.StringOfN(rapid.RuneFrom(alphabet), minLen, minLen+12, -1).Draw(g.t, "strval")
			if g.chance("rawbytes", 4) {
				r += string(rapid.SliceOfN(rapid.Byte(), 1, 8).Draw(g.t, "strbytes"))
			}
			lit = strconv.Quote(r)
			if len(r) > 70 {
				g.label("const-untyped-string-long")
			}
		}
		g.decls = append(g.decls, fmt.Sprintf("const %s = %s", n, lit))
		g.label("const-untyped-string")
	case 7:
		n := g.name(exp, "CT")
		g.decls = append(g.decls, fmt.Sprintf("const %s = %s", n, untypedBools[g.pick("bool", len(untypedBools))]))
		g.label("const-untyped-bool")
	case 8:
		n := g.name(exp, "CC")
		pool := complexExact
		if g.f.complexConst && g.chance("cinexact", 2) {
			pool = complexInexact
			g.label("const-untyped-complex-inexact")
		}
		g.decls = append(g.decls, fmt.Sprintf("const %s = %s", n, pool[g.pick("complex", len(pool))]))
		g.label("const-untyped-complex")
	case 9:
		// typed constants
		n := g.name(exp, "CX")
		typed := []string{"int64 = 1 << 62", "float32 = 1.5", "string = \"x\"", "uint64 = 1<<64 - 1", "rune = 'x'", "complex64 = 2i", "bool = true", "float64 = 1.0 / 3", "uint8 = 255", g.imp("time") + ".Duration = 5 * " + g.imp("time") + ".Second"}
		for _, t := range g.types {
			switch t.kind {
			case "int":
				typed = append(typed, t.name+" = 7")
			case "string":
				typed = append(typed, t.name+` = "y"`)
			case "float":
				typed = append(typed, t.name+" = 0.25")
			}
		}
		g.decls = append(g.decls, fmt.Sprintf("const %s %s", n, typed[g.pick("typed", len(typed))]))
		g.label("const-typed")
	case 10:
		// iota block
		var b strings.Builder
		b.WriteString("const (\n")
		first := []string{"iota", "1 << (10 * (iota + 1))", "iota * 0.5", "'a' + iota", "1 << iota", "iota + 1e3", "-iota", "uint16(iota)"}[g.pick("iotaexpr", 8)]
		for _, t := range g.types {
			if t.kind == "int" && g.chance("iota-typed", 2) {
				first = t.name + "(iota)"
				break
			}
		}
		cnt := 2 + g.pick("iotacount", 4)
		for i := 0; i < cnt; i++ {
			var n string
			switch {
			case i > 0 && g.chance("iota-blank", 6):
				n = "_"
			default:
				n = g.name(g.exported("iota-exported"), "CK")
			}
			if i == 0 {
				fmt.Fprintf(&b, "\t%s = %s\n", n, first)
			} else {
				fmt.Fprintf(&b, "\t%s\n", n)
			}
		}
		b.WriteString(")")
		g.decls = append(g.decls, b.String())
		g.label("const-iota-block")
	default:
		// derived from an earlier untyped integer constant
		if len(g.uints) == 0 {
			g.decls = append(g.decls, fmt.Sprintf("const %s = 12 / 5.0", g.name(exp, "CF")))
			g.label("const-untyped-float")
			return
		}
		base := g.uints[g.pick("base", len(g.uints))]
		n := g.name(exp, "CD")
		switch g.pick("derived", 3) {
		case 0:
			g.decls = append(g.decls, fmt.Sprintf("const %s = %s + 1", n, base))
			g.uints = append(g.uints, n)
			g.label("const-untyped-int")
		case 1:
			g.decls = append(g.decls, fmt.Sprintf("const %s = %s / 3.0", n, base))
			g.label("const-untyped-float")
		default:
			g.decls = append(g.decls, fmt.Sprintf("const %s = %s > 0", n, base))
			g.label("const-untyped-bool")
		}
	}
}

func (g *gen) varDecl() {
	exp := g.exported("var-exported")
	n := g.name(exp, "V")
	switch g.pick("varkind", 5) {
	case 0:
		g.decls = append(g.decls, fmt.Sprintf("var %s = %s", n, []string{"3", `"s"`, "1.5", "'r'", "2i", "[]int{1, 2}", "map[string]int{}", "struct{ A int }{1}", "func() {}", "1 << 40"}[g.pick("varinit", 10)]))
	case 1:
		n2 := g.name(g.exported("var2-exported"), "V")
		g.decls = append(g.decls, fmt.Sprintf("var %s, %s = 1, \"x\"", n, n2))
	case 2:
		g.decls = append(g.decls, fmt.Sprintf("var (\n\t%s %s\n)", n, g.typ(2, false)))
	default:
		g.decls = append(g.decls, fmt.Sprintf("var %s %s", n, g.typ(3, false)))
	}
	g.label("var")
}

func (g *gen) funcDecl() {
	n := g.name(g.exported("func-exported"), "F")
	g.decls = append(g.decls, fmt.Sprintf("func %s%s { panic(0) }", n, g.signature(sigOpts{})))
	g.label("func")
}

func (g *gen) genericDecl() {
	exp := g.exported("generic-exported")
	switch g.pick("generickind", 4) {
	case 0:
		n := g.name(exp, "GF")
		g.decls = append(g.decls, fmt.Sprintf("func %s[T any, U comparable](x T, y ...U) (T, error) { panic(0) }", n))
		g.label("func-generic")
	case 1:
		n := g.name(exp, "GN")
		c := g.name(g.exported("constraint-exported"), "Num")
		g.decls = append(g.decls, fmt.Sprintf("type %s interface{ ~int | ~int64 | ~float64 }", c))
		g.decls = append(g.decls, fmt.Sprintf("func %s[T %s](xs ...T) T { panic(0) }", n, c))
		g.label("func-generic")
		g.label("constraint-iface")
	case 2:
		n := g.name(exp, "G")
		g.decls = append(g.decls, fmt.Sprintf("type %s[T any] struct{ X T }\n\nfunc (v %s[T]) Get() T { return v.X }\n\nfunc (v *%s[T]) set(x T) { v.X = x }", n, n, n))
		g.generic = append(g.generic, n)
		g.label("type-generic")
	default:
		n := g.name(exp, "GI")
		g.decls = append(g.decls, fmt.Sprintf("type %s[K comparable, V any] interface {\n\tLookup(k K) (V, bool)\n\tKeys(more ...K) []K\n}", n))
		g.label("type-generic")
	}
}

func (g *gen) structDecl() {
	exp := g.exported("struct-exported")
	n := g.name(exp, "S")
	var b strings.Builder
	fmt.Fprintf(&b, "type %s struct {\n", n)
	nf := g.pick("nfields", 4)
	for i := 0; i < nf; i++ {
		fn := fmt.Sprintf("F%d", i)
		if g.chance("field-unexported", 3) {
			fn = fmt.Sprintf("f%d", i)
		}
		fmt.Fprintf(&b, "\t%s %s\n", fn, g.typ(2, false))
	}
	switch g.pick("embed", 5) {
	case 0:
		fmt.Fprintf(&b, "\t%s.Reader\n", g.imp("io"))
	case 1:
		fmt.Fprintf(&b, "\t%s.Time\n", g.imp("time"))
	}
	b.WriteString("}")
	if g.chance("struct-methods", 2) {
		fmt.Fprintf(&b, "\n\nfunc (recv %s) String() string { return \"\" }\n\nfunc (recv *%s) Set%s { panic(0) }\n\nfunc (recv *%s) hidden() {}", n, n, g.signature(sigOpts{}), n)
	}
	g.decls = append(g.decls, b.String())
	g.types = append(g.types, ownType{name: n, exported: exp, kind: "struct"})
	g.label("type-struct")
}

func (g *gen) namedDecl() {
	exp := g.exported("named-exported")
	n := g.name(exp, "T")
	kinds := []struct{ under, kind string }{
		{"int", "int"}, {"uint16", "int"}, {"string", "string"}, {"float64", "float"},
		{g.imp("time") + ".Duration", "int"}, {"func(int) string", "other"}, {"[]byte", "other"},
		{"map[string]int", "other"}, {"chan int", "other"}, {"[4]byte", "other"}, {"*int", "other"},
	}
	k := kinds[g.pick("under", len(kinds))]
	d := fmt.Sprintf("type %s %s", n, k.under)
	if k.under != "*int" && g.chance("named-method", 3) {
		d += fmt.Sprintf("\n\nfunc (v %s) Method%d() %s { return v }", n, g.n, n)
	}
	g.decls = append(g.decls, d)
	g.types = append(g.types, ownType{name: n, exported: exp, kind: k.kind})
	g.label("type-named")
}

func (g *gen) aliasDecl() {
	exp := g.exported("alias-exported")
	n := g.name(exp, "A")
	var target string
	kind := "other"
	empty := false
	switch g.pick("aliaskind", 6) {
	case 0:
		target = g.imp("io") + ".Reader"
		kind = "iface"
		g.label("alias-foreign-iface")
	case 1:
		target = "any"
		kind = "iface"
		empty = true
	case 2:
		if len(g.generic) > 0 {
			target = g.generic[g.pick("aliasgen", len(g.generic))] + "[int]"
			break
		}
		target = "struct{ X int }"
	case 3:
		target = g.imp("sort") + ".Interface"
		kind = "iface"
		g.label("alias-foreign-iface")
	default:
		if len(g.types) > 0 {
			t := g.types[g.pick("aliasown", len(g.types))]
			target, kind, empty = t.name, t.kind, t.empty
			if kind == "iface" && t.special {
				kind = "iface-special"
			}
			break
		}
		target = "[]string"
	}
	g.decls = append(g.decls, fmt.Sprintf("type %s = %s", n, target))
	if kind == "iface" || kind == "iface-special" {
		g.types = append(g.types, ownType{name: n, exported: exp, kind: "iface", special: kind == "iface-special", empty: empty})
	} else {
		g.types = append(g.types, ownType{name: n, exported: exp, kind: kind})
	}
	g.label("type-alias")
}

func (g *gen) ifaceDecl() {
	exp := g.exported("iface-exported")
	n := g.name(exp, "I")
	var lines []string
	special := false
	// embedded interfaces
	ne := g.pick("nembed", 3)
	hasEmbed := false
	allEmpty := true
	embedded := map[string]bool{}
	for i := 0; i < ne; i++ {
		var e string
		switch g.pick("embedkind", 12) {
		case 5:
			// interfaces whose methods mention types of packages which the
			// generated package does not import itself (time, io/fs, image/color)
			e = g.imp("context") + ".Context"
			g.label("iface-embeds-foreign-signature")
		case 6:
			e = g.imp("os") + ".FileInfo"
			g.label("iface-embeds-foreign-signature")
		case 7:
			e = g.imp("io/fs") + ".DirEntry"
			g.label("iface-embeds-foreign-signature")
		case 8:
			e = g.imp("image") + ".Image"
			g.label("iface-embeds-foreign-signature")
		case 0:
			e = g.imp("io") + ".Reader"
		case 1:
			e = g.imp("io") + ".ReadCloser"
		case 2:
			e = g.imp("io") + ".Writer"
		case 3:
			e = g.imp("sort") + ".Interface"
		case 4:
			e = "error"
		default:
			var c []ownType
			for _, t := range g.types {
				if t.kind == "iface" && !(t.special && special) {
					c = append(c, t)
				}
			}
			if len(c) == 0 {
				continue
			}
			t := c[g.pick("embedown", len(c))]
			e = t.name
			if embedded[e] {
				continue
			}
			special = special || t.special
			allEmpty = allEmpty && t.empty
			embedded[e] = true
			hasEmbed = true
			lines = append(lines, "\t"+e)
			g.label("iface-embedded")
			continue
		}
		if embedded[e] {
			continue
		}
		allEmpty = false
		embedded[e] = true
		hasEmbed = true
		lines = append(lines, "\t"+e)
		g.label("iface-embedded")
	}
	nm := g.pick("nmethods", 5)
	if nm == 0 && hasEmbed && allEmpty {
		if !g.f.constraintIface {
			nm = 1 // an empty method set declared by embedding is a recorded finding
		} else {
			g.label("iface-empty-by-embedding")
		}
	}
	for i := 0; i < nm; i++ {
		mexp := g.pick("method-exported", 5) != 0
		g.n++
		mn := fmt.Sprintf("M%d", g.n)
		if !mexp {
			mn = fmt.Sprintf("m%d", g.n)
			g.label("iface-unexported-method")
		}
		lines = append(lines, "\t"+mn+g.signature(sigOpts{iface: true, exported: mexp}))
	}
	if !hasEmbed && !special {
		switch g.pick("specialmethod", 14) {
		case 0:
			lines = append(lines, "\tString() string")
			special = true
			g.label("iface-String-method")
		case 1:
			if g.f.stringGuard && exp {
				lines = append(lines, "\tString(verbose bool) (int, error)")
				special = true
				g.label("iface-String-odd-signature")
			}
		case 2:
			if g.f.methodCollision && exp {
				lines = append(lines, "\tIValue() int")
				special = true
				g.label("iface-method-collides-field")
			}
		case 3:
			if g.f.methodCollision && exp {
				lines = append(lines, "\tGet() int", "\tWGet() func() int")
				special = true
				g.label("iface-method-collides-field")
			}
		case 4:
			lines = append(lines, "\tError() string")
			special = true
		}
	}
	g.decls = append(g.decls, fmt.Sprintf("type %s interface {\n%s\n}", n, strings.Join(lines, "\n")))
	g.types = append(g.types, ownType{name: n, exported: exp, kind: "iface", special: special, empty: len(lines) == 0 || nm == 0 && allEmpty && !special})
	g.label("type-iface")
}

func (g *gen) constraintDecl() {
	exp := g.exported("constraint-exported")
	n := g.name(exp, "K")
	switch g.pick("constraintkind", 5) {
	case 0:
		g.decls = append(g.decls, fmt.Sprintf("type %s interface{ ~int | ~string }", n))
	case 1:
		g.decls = append(g.decls, fmt.Sprintf("type %s interface{ comparable }", n))
	case 2:
		if g.f.constraintIface && exp {
			g.decls = append(g.decls, fmt.Sprintf("type %s interface {\n\t~int | ~int8\n\tString() string\n}", n))
			g.label("constraint-iface-with-method")
			break
		}
		g.decls = append(g.decls, fmt.Sprintf("type %s interface{ int | uint }", n))
	case 3:
		if g.f.constraintIface && exp {
			g.decls = append(g.decls, fmt.Sprintf("type %s interface{ any }", n))
			g.types = append(g.types, ownType{name: n, exported: exp, kind: "iface", empty: true})
			g.label("iface-empty-by-embedding")
			return
		}
		g.decls = append(g.decls, fmt.Sprintf("type %s interface{ ~float32 | ~float64 }", n))
	default:
		g.decls = append(g.decls, fmt.Sprintf("type %s interface {\n\tcomparable\n\t~int | ~string\n}", n))
	}
	g.label("constraint-iface")
}

var pkgNames = []string{"p", "q", "baz", "mypkg", "util", "v2", "model"}
var riskyPkgNames = []string{"reflect", "constant", "token"}
var hosts = []string{"example.com", "guthib.com", "my-host.org", "x.y.z"}

// genCase draws one package.
func genCase(t *rapid.T, f feats) (*Case, []string) {
	g := &gen{t: t, f: f, imports: map[string]string{}, used: map[string]bool{}, labels: map[string]bool{}}
	g.pkg = pkgNames[g.pick("pkgname", len(pkgNames))]
	if f.importCollision && g.chance("risky-pkgname", 20) {
		g.pkg = riskyPkgNames[g.pick("riskypkg", len(riskyPkgNames))]
		g.label("pkg-name-collides-template-import")
	}
	g.used[g.pkg] = true
	for _, n := range []string{"io", "time", "sort", "rand", "rand2"} {
		g.used[n] = true
	}
	nd := 3 + g.pick("ndecls", 10)
	for i := 0; i < nd; i++ {
		switch g.pick("declkind", 16) {
		case 0, 1, 2, 3:
			g.constDecl()
		case 4:
			g.varDecl()
		case 5:
			g.funcDecl()
		case 6:
			g.genericDecl()
		case 7:
			g.structDecl()
		case 8:
			g.namedDecl()
		case 9:
			g.aliasDecl()
		case 10, 11, 12, 13:
			g.ifaceDecl()
		case 14:
			g.constraintDecl()
		default:
			g.namedDecl()
		}
	}
	// import path and directory
	last := g.pkg
	switch g.pick("lastelem", 6) {
	case 0:
		last = g.pkg + "-go"
	case 1:
		last = "go-" + g.pkg
	case 2:
		last = g.pkg + ".v2"
	case 3:
		last = g.pkg + "~x"
	}
	id := fmt.Sprintf("%06x", rapid.IntRange(0, 1<<24-1).Draw(t, "pathid"))
	c := &Case{
		ImportPath: hosts[g.pick("host", len(hosts))] + "/" + id + "/" + last,
		Dest:       []string{"wrap", "symbols", "stdlib", "bar"}[g.pick("dest", 4)],
		Files:      map[string]string{},
	}
	switch g.pick("mode", 4) {
	case 0, 1:
		c.Mode = "gopath"
	case 2:
		c.Mode = "gopath-rel"
	default:
		c.Mode = "rel"
		if g.selfRef && !f.selfImport {
			c.Mode = "gopath-rel"
		}
	}
	g.label("mode-" + c.Mode)

	// render; optionally split over two files and add ignored files
	split := len(g.decls)
	if g.chance("two-files", 3) {
		split = g.pick("split", len(g.decls)+1)
		g.label("two-files")
	}
	files := [][]string{g.decls[:split], g.decls[split:]}
	for i, ds := range files {
		if i == 1 && len(ds) == 0 {
			continue
		}
		body := strings.Join(ds, "\n\n")
		var b strings.Builder
		if i == 0 {
			b.WriteString("// Package " + g.pkg + " is a generated test package.\n")
		}
		b.WriteString("package " + g.pkg + "\n\n")
		var paths []string
		for p := range g.imports {
			paths = append(paths, p)
		}
		sort.Strings(paths)
		var lines []string
		for _, p := range paths {
			local := g.imports[p]
			use := local
			if use == "" {
				use = p[strings.LastIndex(p, "/")+1:]
			}
			if !mentions(body, use) {
				continue
			}
			if local != "" {
				lines = append(lines, fmt.Sprintf("\t%s %q", local, p))
			} else {
				lines = append(lines, fmt.Sprintf("\t%q", p))
			}
		}
		if len(lines) > 0 {
			b.WriteString("import (\n" + strings.Join(lines, "\n") + "\n)\n\n")
		}
		b.WriteString(body + "\n")
		c.Files[fmt.Sprintf("f%d.go", i)] = b.String()
	}
	if g.chance("test-file", 5) {
		c.Files["extra_test.go"] = "package " + g.pkg + "\n\nconst OnlyInTest = 1\n\nfunc HelperInTest() {}\n"
		g.label("ignored-test-file")
	}
	if g.chance("constrained-file", 5) {
		c.Files["other_windows.go"] = "package " + g.pkg + "\n\nconst OnlyOnWindows = 1\n\ntype WinIface interface{ Win(a ...int) }\n"
		c.Files["ignored.go"] = "//go:build ignore\n\npackage main\n\nfunc Ignored() {}\n"
		g.label("ignored-constrained-file")
	}
	var labels []string
	for l := range g.labels {
		labels = append(labels, l)
	}
	sort.Strings(labels)
	return c, labels
}

// mentions reports whether body uses the qualifier "name." as a package
// reference (crude but sufficient: generated identifiers never end in an
// import name followed by a dot).
func mentions(body, name string) bool {
	for i := 0; ; {
		j := strings.Index(body[i:], name+".")
		if j < 0 {
			return false
		}
		j += i
		if j == 0 || !isIdentByte(body[j-1]) {
			return true
		}
		i = j + 1
	}
}

func isIdentByte(b byte) bool {
	return b == '_' || b >= '0' && b <= '9' || b >= 'a' && b <= 'z' || b >= 'A' && b <= 'Z'
}
