// Package c18 checks that the extract tool emits complete, compilable and
// faithful wrappers: the generated text is decided against the go/types view
// of the input package.
package c18

import (
	"bytes"
	"context"
	"crypto/sha256"
	"encoding/json"
	"errors"
	"fmt"
	"go/ast"
	"go/build"
	"go/constant"
	"go/parser"
	"go/printer"
	"go/token"
	"go/types"
	"math/big"
	"os"
	"os/exec"
	"path/filepath"
	"sort"
	"strings"
	"time"

	"pgregory.net/rapid"

	"github.com/traefik/yaegi/extract"

	"verif/internal/vf"
)

// Case is one input package: a standard-library package (Std) or a package
// given by its files. Mode says how the package is handed to Extract:
// "gopath" = by import path, looked up in GOPATH (GO111MODULE=off);
// "gopath-rel" = by relative directory plus explicit import path, the
// directory being inside GOPATH; "rel" = the same outside any GOPATH (as
// extract_test.go does).
type Case struct {
	Std        string            `json:"std,omitempty"`
	Files      map[string]string `json:"files,omitempty"`
	ImportPath string            `json:"import_path,omitempty"`
	Mode       string            `json:"mode,omitempty"`
	Dest       string            `json:"dest,omitempty"`
	Native     bool              `json:"native,omitempty"` // replay: also compile natively
}

// ---------------------------------------------------------------------------
// extraction runs in a subprocess of the check binary: Extract resolves
// relative paths against the process working directory and reads GOPATH and
// GO111MODULE from the environment.

func init() {
	if os.Getenv("C18_EXTRACT_WORKER") == "1" {
		workerMain()
	}
}

func workerMain() {
	defer func() {
		if r := recover(); r != nil {
			fmt.Fprintf(os.Stderr, "EXTRACT-PANIC: %v\n", r)
			os.Exit(4)
		}
	}()
	ex := extract.Extractor{Dest: os.Getenv("C18_DEST")}
	var buf bytes.Buffer
	if _, err := ex.Extract(os.Getenv("C18_IDENT"), os.Getenv("C18_IMPORT_PATH"), &buf); err != nil {
		fmt.Fprintf(os.Stderr, "EXTRACT-ERROR: %v\n", err)
		os.Exit(3)
	}
	_, _ = os.Stdout.Write(buf.Bytes())
	os.Exit(0)
}

type extractResult struct {
	Out     string
	Err     string // extract returned an error / panicked
	Panic   bool
	Harness string // the subprocess could not be run
}

func runExtract(cwd, gopath, dest, ident, importPath string) extractResult {
	self, err := os.Executable()
	if err != nil {
		return extractResult{Harness: err.Error()}
	}
	cctx, cancel := context.WithTimeout(context.Background(), 10*time.Minute)
	defer cancel()
	cmd := exec.CommandContext(cctx, self)
	cmd.Dir = cwd
	var env []string
	for _, kv := range os.Environ() {
		k := strings.SplitN(kv, "=", 2)[0]
		switch k {
		case "GOPATH", "GO111MODULE", "GOFLAGS", "PWD":
			continue
		}
		env = append(env, kv)
	}
	env = append(env, "C18_EXTRACT_WORKER=1", "C18_DEST="+dest, "C18_IDENT="+ident, "C18_IMPORT_PATH="+importPath,
		"GO111MODULE=off", "GOPATH="+gopath, "GOFLAGS=", "PWD="+cwd)
	cmd.Env = env
	var stdout, stderr bytes.Buffer
	cmd.Stdout, cmd.Stderr = &stdout, &stderr
	err = cmd.Run()
	if err == nil {
		return extractResult{Out: stdout.String()}
	}
	var ee *exec.ExitError
	if errors.As(err, &ee) && cctx.Err() == nil {
		switch ee.ExitCode() {
		case 3:
			return extractResult{Err: strings.TrimSpace(stderr.String())}
		case 4:
			return extractResult{Err: strings.TrimSpace(stderr.String()), Panic: true}
		}
	}
	return extractResult{Harness: fmt.Sprintf("extract subprocess: %v: %s", err, clip(stderr.String()))}
}

// ---------------------------------------------------------------------------

func nodeString(fset *token.FileSet, n ast.Node) string {
	if n == nil {
		return "<nil>"
	}
	var b bytes.Buffer
	_ = printer.Fprint(&b, fset, n)
	s := b.String()
	if len(s) > 400 {
		s = s[:400] + "…"
	}
	return s
}

// runner holds what one process needs.
type runner struct {
	e       *env
	scratch string
	n       int
	f       feats
}

func newRunner(scratch string) *runner {
	_ = os.Setenv("GO111MODULE", "off")
	_ = os.MkdirAll(filepath.Join(scratch, "empty"), 0o755)
	_ = os.MkdirAll(filepath.Join(scratch, "emptygp"), 0o755)
	return &runner{e: newEnv(), scratch: scratch, f: loadFeats()}
}

type outcome struct {
	v       *verdict
	harness string
	wrapper string
	pkg     *types.Package
}

// evalStd extracts one standard package and decides the oracle.
func (r *runner) evalStd(c *Case) outcome {
	pkg, err := r.e.imp.Import(c.Std)
	if err != nil {
		return outcome{harness: fmt.Sprintf("oracle cannot type-check %s from source: %v", c.Std, err)}
	}
	dest := c.Dest
	if dest == "" {
		dest = "stdlib"
	}
	res := runExtract(filepath.Join(r.scratch, "empty"), filepath.Join(r.scratch, "emptygp"), dest, c.Std, "")
	if res.Harness != "" {
		return outcome{harness: res.Harness}
	}
	if res.Err != "" {
		sig := "extract-error"
		if res.Panic {
			sig = "extract-panic"
		}
		return outcome{v: bad(sig, "Extract(%q) failed on an importable package: %s", c.Std, clip(res.Err)), pkg: pkg}
	}
	return outcome{v: checkWrapper(r.e, c, pkg, c.Std, res.Out), wrapper: res.Out, pkg: pkg}
}

func safeRel(name string) bool {
	return name != "" && !strings.Contains(name, "..") && !strings.HasPrefix(name, "/") && !strings.ContainsAny(name, "\x00")
}

// evalFiles writes the package, extracts it as the mode says and decides the
// oracle.
func (r *runner) evalFiles(c *Case) outcome {
	if !safeRel(c.ImportPath) {
		return outcome{harness: "bad import path in case"}
	}
	r.n++
	root := filepath.Join(r.scratch, fmt.Sprintf("case%06d", r.n))
	defer os.RemoveAll(root)
	gp := filepath.Join(root, "gp")
	dir := filepath.Join(gp, "src", filepath.FromSlash(c.ImportPath))
	if err := os.MkdirAll(dir, 0o755); err != nil {
		return outcome{harness: err.Error()}
	}
	for name, src := range c.Files {
		if !safeRel(name) || strings.Contains(name, "/") {
			return outcome{harness: "bad file name in case"}
		}
		if err := os.WriteFile(filepath.Join(dir, name), []byte(src), 0o644); err != nil {
			return outcome{harness: err.Error()}
		}
	}
	// oracle view: the files go/build selects, type-checked by go/types
	bp, err := build.Default.ImportDir(dir, 0)
	if err != nil {
		return outcome{harness: fmt.Sprintf("generator: go/build rejects the package: %v", err)}
	}
	var files []*ast.File
	for _, fn := range bp.GoFiles {
		f, err := parser.ParseFile(r.e.fset, filepath.Join(dir, fn), nil, parser.SkipObjectResolution)
		if err != nil {
			return outcome{harness: fmt.Sprintf("generator: package does not parse: %v", err)}
		}
		files = append(files, f)
	}
	var terrs []string
	conf := types.Config{Importer: r.e.imp, IgnoreFuncBodies: false, Error: func(err error) {
		if len(terrs) < 5 {
			terrs = append(terrs, err.Error())
		}
	}}
	pkg, _ := conf.Check(c.ImportPath, r.e.fset, files, nil)
	if len(terrs) > 0 {
		return outcome{harness: fmt.Sprintf("generator: package does not type-check: %s", strings.Join(terrs, " | "))}
	}
	dest := c.Dest
	if dest == "" {
		dest = "wrap"
	}
	var res extractResult
	switch c.Mode {
	case "", "gopath":
		cwd := filepath.Join(root, "cwd")
		_ = os.MkdirAll(cwd, 0o755)
		res = runExtract(cwd, gp, dest, c.ImportPath, "")
	case "gopath-rel", "rel":
		cwd := filepath.Join(filepath.Dir(dir), "c18-sibling")
		_ = os.MkdirAll(cwd, 0o755)
		g := gp
		if c.Mode == "rel" {
			g = filepath.Join(r.scratch, "emptygp")
		}
		res = runExtract(cwd, g, dest, "../"+filepath.Base(dir), c.ImportPath)
	default:
		return outcome{harness: "unknown mode " + c.Mode}
	}
	if res.Harness != "" {
		return outcome{harness: res.Harness}
	}
	if res.Err != "" {
		sig := "extract-error"
		if res.Panic {
			sig = "extract-panic"
		}
		return outcome{v: bad(sig, "Extract failed on a valid package (%s, mode %s): %s", c.ImportPath, c.Mode, clip(res.Err)), pkg: pkg}
	}
	v := checkWrapper(r.e, c, pkg, c.ImportPath, res.Out)
	if v != nil {
		// keep messages free of scratch paths
		v.Msg = strings.ReplaceAll(v.Msg, dir+string(filepath.Separator), "")
	}
	return outcome{v: v, wrapper: res.Out, pkg: pkg}
}

// ---------------------------------------------------------------------------
// classes and the non-trivial rule, computed from the go/types view

func pkgClasses(pkg *types.Package) (labels []string, nontrivial bool) {
	set := map[string]bool{}
	sc := pkg.Scope()
	for _, name := range sc.Names() {
		o := sc.Lookup(name)
		if !o.Exported() {
			continue
		}
		switch o := o.(type) {
		case *types.Const:
			uk, untyped := untypedKind(o)
			if !untyped {
				set["x:const-typed"] = true
				break
			}
			switch uk {
			case types.UntypedInt:
				set["x:const-untyped-int"] = true
				if _, ok := constant.Int64Val(o.Val()); !ok {
					set["x:const-untyped-int>64bit"] = true
				}
			case types.UntypedRune:
				set["x:const-untyped-rune"] = true
			case types.UntypedFloat:
				set["x:const-untyped-float"] = true
				nontrivial = true
				if _, isBig := constant.Val(constant.ToFloat(o.Val())).(*big.Float); isBig {
					set["x:const-untyped-float-bigexp"] = true
				} else if r := ratOf(constant.ToFloat(o.Val())); r != nil && !isDyadic(r) {
					set["x:const-untyped-float-not-binary-fraction"] = true
				}
			case types.UntypedString:
				set["x:const-untyped-string"] = true
				nontrivial = true
			case types.UntypedBool:
				set["x:const-untyped-bool"] = true
				nontrivial = true
			case types.UntypedComplex:
				set["x:const-untyped-complex"] = true
				nontrivial = true
			}
		case *types.Var:
			set["x:var"] = true
		case *types.Func:
			if isGenericFunc(o) {
				set["x:func-generic-skipped"] = true
				nontrivial = true
				break
			}
			set["x:func"] = true
			s := o.Type().(*types.Signature)
			if s.Variadic() {
				set["x:func-variadic"] = true
			}
			if s.Results().Len() > 0 && s.Results().At(0).Name() != "" {
				set["x:func-named-results"] = true
			}
		case *types.TypeName:
			if isGenericType(o) {
				set["x:type-generic-skipped"] = true
				nontrivial = true
				break
			}
			if o.IsAlias() {
				set["x:type-alias"] = true
			}
			switch u := o.Type().Underlying().(type) {
			case *types.Struct:
				set["x:type-struct"] = true
			case *types.Interface:
				if !u.IsMethodSet() {
					set["x:iface-constraint-skipped"] = true
					break
				}
				set["x:iface"] = true
				if u.NumEmbeddeds() > 0 {
					set["x:iface-embedding"] = true
				}
				for i := 0; i < u.NumMethods(); i++ {
					m := u.Method(i)
					if !m.Exported() {
						set["x:iface-unexported-method"] = true
						continue
					}
					s := m.Type().(*types.Signature)
					if s.Variadic() {
						set["x:iface-method-variadic"] = true
						nontrivial = true
					}
					if s.Results().Len() >= 2 {
						set["x:iface-method-multi-result"] = true
						nontrivial = true
					}
					if s.Results().Len() > 0 && s.Results().At(0).Name() != "" {
						set["x:iface-method-named-results"] = true
					}
					if s.Params().Len() > 0 && s.Params().At(0).Name() == "" {
						set["x:iface-method-unnamed-params"] = true
					}
					if mentionsForeign(s, pkg) {
						set["x:iface-method-foreign-types"] = true
					}
				}
			default:
				set["x:type-other"] = true
			}
		}
	}
	for l := range set {
		labels = append(labels, l)
	}
	sort.Strings(labels)
	return labels, nontrivial
}

func mentionsForeign(s *types.Signature, pkg *types.Package) bool {
	foreign := false
	q := func(p *types.Package) string {
		if p != pkg {
			foreign = true
		}
		return p.Name()
	}
	_ = types.TypeString(s, q)
	return foreign
}

// ---------------------------------------------------------------------------
// standard library enumeration

func stdList() ([]string, error) {
	cmd := exec.Command("go", "list", "std")
	cmd.Env = append(os.Environ(), "GO111MODULE=off", "GOFLAGS=")
	cmd.Dir = os.TempDir()
	out, err := cmd.Output()
	if err != nil {
		return nil, fmt.Errorf("go list std: %v", err)
	}
	var list []string
	for _, p := range strings.Fields(string(out)) {
		skip := strings.HasPrefix(p, "cmd/") || p == "cmd"
		for _, el := range strings.Split(p, "/") {
			if el == "internal" || el == "vendor" {
				skip = true
			}
		}
		if !skip {
			list = append(list, p)
		}
	}
	sort.Strings(list)
	if len(list) < 100 {
		return nil, fmt.Errorf("go list std returned only %d packages", len(list))
	}
	return list, nil
}

var alwaysStd = []string{"io", "math", "net/http", "syscall", "os", "fmt", "reflect", "sort", "time", "log", "go/constant", "unsafe"}

const quickStd = 40

// selectStd: thorough = all; quick = the fixed ones plus a seeded sample.
func selectStd(all []string, tier string, seed int64) []string {
	if tier != "quick" {
		return all
	}
	in := map[string]bool{}
	have := map[string]bool{}
	for _, p := range all {
		have[p] = true
	}
	var sel []string
	for _, p := range alwaysStd {
		if have[p] {
			in[p] = true
			sel = append(sel, p)
		}
	}
	rest := make([]string, 0, len(all))
	for _, p := range all {
		if !in[p] {
			rest = append(rest, p)
		}
	}
	key := func(p string) string {
		h := sha256.Sum256([]byte(fmt.Sprintf("%d|%s", seed, p)))
		return string(h[:])
	}
	sort.Slice(rest, func(i, j int) bool { return key(rest[i]) < key(rest[j]) })
	for _, p := range rest {
		if len(sel) >= quickStd {
			break
		}
		sel = append(sel, p)
	}
	sort.Strings(sel)
	return sel
}

// ---------------------------------------------------------------------------
// native compilation (thorough): wrappers and generated packages are laid
// out in one GOPATH tree and built with the Go command.

type nativeItem struct {
	c       *Case
	wrapper string
}

func nativeBuild(scratch string, items []nativeItem) (failed map[int]string, harness string) {
	failed = map[int]string{}
	if len(items) == 0 {
		return failed, ""
	}
	gp := filepath.Join(scratch, "native")
	_ = os.RemoveAll(gp)
	defer os.RemoveAll(gp)
	var targets []string
	seen := map[string]bool{}
	idx := map[string]int{}
	for i, it := range items {
		if it.c.Std == "" {
			if seen[it.c.ImportPath] {
				continue
			}
			seen[it.c.ImportPath] = true
			dir := filepath.Join(gp, "src", filepath.FromSlash(it.c.ImportPath))
			if err := os.MkdirAll(dir, 0o755); err != nil {
				return failed, err.Error()
			}
			for name, src := range it.c.Files {
				if err := os.WriteFile(filepath.Join(dir, name), []byte(src), 0o644); err != nil {
					return failed, err.Error()
				}
			}
		}
		wname := fmt.Sprintf("w%05d", i)
		wdir := filepath.Join(gp, "src", "c18wrap", wname)
		if err := os.MkdirAll(wdir, 0o755); err != nil {
			return failed, err.Error()
		}
		dest := "wrap"
		if f, err := parser.ParseFile(token.NewFileSet(), "w.go", it.wrapper, parser.PackageClauseOnly); err == nil {
			dest = f.Name.Name
		}
		_ = os.WriteFile(filepath.Join(wdir, "wrapper.go"), []byte(it.wrapper), 0o644)
		_ = os.WriteFile(filepath.Join(wdir, "symbols_stub.go"), []byte(stubSource(dest, it.c.Std)), 0o644)
		targets = append(targets, "c18wrap/"+wname)
		idx[wname] = i
	}
	cctx, cancel := context.WithTimeout(context.Background(), 60*time.Minute)
	defer cancel()
	cmd := exec.CommandContext(cctx, "go", "build", "c18wrap/...")
	cmd.Dir = gp
	var env []string
	for _, kv := range os.Environ() {
		switch strings.SplitN(kv, "=", 2)[0] {
		case "GOPATH", "GO111MODULE", "GOFLAGS", "PWD":
			continue
		}
		env = append(env, kv)
	}
	cmd.Env = append(env, "GO111MODULE=off", "GOPATH="+gp, "GOFLAGS=", "PWD="+gp)
	out, err := cmd.CombinedOutput()
	if err == nil {
		return failed, ""
	}
	if cctx.Err() != nil {
		return failed, "native go build timed out"
	}
	// attribute error lines to wrapper directories
	for _, line := range strings.Split(string(out), "\n") {
		j := strings.Index(line, "c18wrap/w")
		if j < 0 {
			continue
		}
		rest := line[j+len("c18wrap/"):]
		if len(rest) < 6 {
			continue
		}
		if i, ok := idx[rest[:6]]; ok {
			if !strings.HasPrefix(strings.TrimSpace(line), "#") && len(failed[i]) < 600 {
				failed[i] += strings.TrimSpace(line) + " | "
			} else if _, have := failed[i]; !have {
				failed[i] = ""
			}
		}
	}
	if len(failed) == 0 {
		return failed, fmt.Sprintf("native go build failed without attributable errors: %v: %s", err, clip(string(out)))
	}
	return failed, ""
}

// ---------------------------------------------------------------------------

func (r *runner) eval(c *Case) outcome {
	if c.Std != "" {
		return r.evalStd(c)
	}
	return r.evalFiles(c)
}

func run(ctx *vf.Ctx) {
	r := newRunner(ctx.Scratch)
	for _, fk := range featKeys {
		if !*fk.get(&r.f) {
			ctx.Excluded(fk.key)
		}
	}
	var native []nativeItem
	thorough := ctx.Tier == "thorough"

	// (a) standard library
	all, err := stdList()
	if err != nil {
		ctx.Inconclusive("%v", err)
		return
	}
	sel := selectStd(all, ctx.Tier, ctx.Seed)
	nstd := 0
	for i, p := range sel {
		if i%ctx.NShards != ctx.Shard {
			continue
		}
		c := &Case{Std: p}
		o := r.eval(c)
		ctx.Eval()
		nstd++
		ctx.Class("std")
		if o.harness != "" {
			ctx.Inconclusive("std %s: %s", p, o.harness)
			continue
		}
		labels, nt := pkgClasses(o.pkg)
		for _, l := range labels {
			ctx.Class(l)
		}
		if nt {
			ctx.Nontrivial("std:" + p)
		}
		if o.v != nil {
			ctx.ReportViolation(o.v.Sig, o.v.Msg, c)
			continue
		}
		if thorough {
			native = append(native, nativeItem{c, o.wrapper})
		}
	}
	ctx.SetExtra("std_packages_evaluated", float64(nstd))
	if ctx.Shard == 0 {
		ctx.SetExtra("std_packages_installed", len(all))
	}

	// (b) generated packages
	prop := func(t *rapid.T) {
		c, labels := genCase(t, r.f)
		ctx.Eval()
		o := r.eval(c)
		if o.harness != "" {
			ctx.Inconclusive("generated package: %s", o.harness)
			ctx.Sample(c, 1)
			ctx.Done()
			return
		}
		if !r.f.unusedImport && onlyLiteralConsts(o.pkg) {
			// input-side exclusion of a recorded finding
			ctx.Excluded("unused-package-import:case")
			ctx.Done()
			return
		}
		ctx.Class("generated")
		for _, l := range labels {
			ctx.Class("g:" + l)
		}
		pl, nt := pkgClasses(o.pkg)
		for _, l := range pl {
			ctx.Class(l)
		}
		if nt {
			b, _ := json.Marshal(c.Files)
			ctx.Nontrivial(string(b))
		}
		ctx.Sample(c, 2)
		if o.v != nil {
			ctx.CaseFail(t, o.v.Sig, o.v.Msg, c)
		} else if thorough {
			native = append(native, nativeItem{c, o.wrapper})
		}
		ctx.Done()
	}
	ok := ctx.Rapid("gen", 0, ctx.Cases, 40*time.Second, prop)

	// (5) native compilation of everything that passed
	if thorough && ok {
		failed, harness := nativeBuild(ctx.Scratch, native)
		if harness != "" {
			ctx.Inconclusive("%s", harness)
		}
		var is []int
		for i := range failed {
			is = append(is, i)
		}
		sort.Ints(is)
		for _, i := range is {
			c := *native[i].c
			c.Native = true
			ctx.ReportViolation("native-build", "wrapper accepted by go/types is rejected by go build: "+failed[i], &c)
		}
		ctx.SetExtra("native_wrappers_built", float64(len(native)))
	}
}

func replay(ctx *vf.Ctx, data json.RawMessage) (string, string) {
	var c Case
	if err := json.Unmarshal(data, &c); err != nil {
		return "bad replay file: " + err.Error(), "harness"
	}
	if c.Std == "" && len(c.Files) == 0 {
		return "bad replay file: neither std nor files", "harness"
	}
	r := newRunner(ctx.Scratch)
	o := r.eval(&c)
	if o.harness != "" {
		return o.harness, "harness"
	}
	if o.v != nil {
		return o.v.Msg, o.v.Sig
	}
	if c.Native {
		failed, harness := nativeBuild(ctx.Scratch, []nativeItem{{&c, o.wrapper}})
		if harness != "" {
			return harness, "harness"
		}
		if msg, bad := failed[0]; bad {
			return "wrapper accepted by go/types is rejected by go build: " + msg, "native-build"
		}
	}
	return "", ""
}

func init() {
	vf.Register(&vf.Check{
		ID:    "C18",
		Level: "exploration",
		Rule:  "case = one input package handed to extract.Extractor.Extract in a subprocess: (a) importable packages of the installed standard library (go list std minus internal/vendor/cmd; quick = 12 fixed incl. io math net/http syscall os fmt reflect sort time + seeded sample up to 40, thorough = all; these come on top of the requested case count), (b) rapid-generated packages of 3-12 declarations (typed/untyped constants of every kind incl. 2^511, 1e±400, 1e±1500, non-decimal rationals, iota blocks; vars; funcs; generic funcs/types; structs; named types; aliases; interfaces with embedded own/foreign interfaces, unexported, variadic, multi-result, named-result methods, foreign and own types, template-colliding names; constraint interfaces), extracted by import path in a GOPATH, by relative path inside a GOPATH, or by relative path outside any GOPATH. Oracle = go/types view of the input: wrapper parses and type-checks with a Symbols stub; key set == exported non-generic non-constraint objects (+ _I per interface); each key bound to its own object (vars &v .Elem(), types (*T)(nil)); untyped constants exact (floats: exact if binary fraction, else within 2^-(p-2) relative, p=max(64,bitlen num,bitlen den)); wrapper struct has IValue + W<M> per exported method with identical signatures, forwards every parameter (variadic with ...), implements the interface; thorough also go-builds every accepted wrapper. non-trivial = package has an interface with a variadic or multi-result exported method, or an untyped non-integer constant, or a generic declaration; distinct by std path / file contents",
		Assumptions: []string{
			"the go/types (source importer) view of the installed go1.23 standard library for the host platform is the reference; extract uses the same platform",
			"extraction is run with GO111MODULE=off (the only mode extract.go documents) and a private GOPATH",
			"restricted symbols (os.Exit, os.FindProcess, log.Fatal*, log.Logger, log.New, log.Default) are bound to the documented local replacements; the stub declares them",
			"the +build header of the wrapper is only parsed, not evaluated; parameter/result names of wrapper methods are not compared (type identity ignores them)",
			"package unsafe's builtin functions are not values and are not expected to be bound",
		},
		Cases:  map[string]int{"quick": 800, "thorough": 3000},
		Shards: map[string]int{"quick": 16, "thorough": 16},
		Run:    run,
		Replay: replay,
	})
}
