package c02

import (
	"math"
	"math/big"

	"pgregory.net/rapid"
)

// drawInt draws a value of an integer kind: uniformly over the bit patterns
// or biased towards small magnitudes and boundaries (rapid's own bias).
func drawInt(t *rapid.T, k *kind) val {
	var u uint64
	if rapid.Bool().Draw(t, "uniform") {
		u = rapid.Uint64Range(0, math.MaxUint64).Draw(t, "bits")
		if rapid.Bool().Draw(t, "hi") {
			u = ^u
		}
	} else {
		u = uint64(rapid.Int64().Draw(t, "small"))
	}
	v := new(big.Int).SetUint64(u)
	v.And(v, new(big.Int).Sub(pow2(k.Bits), big.NewInt(1)))
	if k.Class == "sint" && v.Bit(k.Bits-1) == 1 {
		v.Sub(v, pow2(k.Bits))
	}
	r := intVal(v, k)
	r.Special = false
	return r
}

func drawCount(t *rapid.T, w int, ck *kind) val {
	lo := -3
	if ck.Class == "uint" {
		lo = 0
	}
	hi := 2*w + 3
	if m := ck.max(); m.IsInt64() && int64(hi) > m.Int64() {
		hi = int(m.Int64())
	}
	n := rapid.IntRange(lo, hi).Draw(t, "count")
	return intVal(big.NewInt(int64(n)), ck)
}

func drawFloat(t *rapid.T, k *kind) val {
	var f float64
	if k.Bits == 32 {
		f = float64(rapid.Float32().Draw(t, "f32"))
	} else {
		f = rapid.Float64().Draw(t, "f64")
	}
	v := floatVal(f, k)
	v.Special = false
	return v
}

func drawString(t *rapid.T) string {
	if rapid.Bool().Draw(t, "bytes") {
		return string(rapid.SliceOfN(rapid.Byte(), 0, 6).Draw(t, "b"))
	}
	return rapid.StringN(0, 5, 12).Draw(t, "s")
}

// drawVal draws one operand of kind k.
func drawVal(t *rapid.T, k *kind) val {
	switch k.Class {
	case "sint", "uint":
		return drawInt(t, k)
	case "float":
		return drawFloat(t, k)
	case "complex":
		sub := kindByName("float64")
		if k.Bits == 64 {
			sub = kindByName("float32")
		}
		v := complexVal(drawFloat(t, sub).F, drawFloat(t, sub).F, k)
		v.Special = false
		return v
	case "string":
		v := strVal(drawString(t))
		v.Special = false
		return v
	case "bool":
		return boolSet()[rapid.IntRange(0, 1).Draw(t, "bool")]
	case "bytes":
		return bytesVal([]byte(drawString(t)))
	case "runes":
		return runesVal(rapid.SliceOfN(rapid.Int32Range(-2, 0x110010), 0, 5).Draw(t, "runes"))
	}
	panic("drawVal " + k.Name)
}

// drawConvSource draws a source of the conversion src → dst for which the
// conversion is defined by the language.
func drawConvSource(t *rapid.T, src, dst *kind) val {
	switch {
	case src.isFloat() && dst.isInt():
		n := drawInt(t, dst)
		f, _ := new(big.Float).SetInt(n.I).Float64()
		f += float64(rapid.IntRange(-3, 3).Draw(t, "frac")) / 4
		if src.Bits == 32 {
			f = float64(float32(f))
		}
		if !floatFitsInt(f, dst) {
			f = 1.5
		}
		v := floatVal(f, src)
		v.Special = false
		return v
	case src.isFloat() && src.Bits == 64 && dst.isFloat() && dst.Bits == 32:
		v := drawFloat(t, src)
		if !floatFitsFloat32(v.F) {
			v = floatVal(float64(float32(math.Sqrt(math.Abs(v.F))))+1e-9, src)
			v.Special = false
		}
		return v
	case src.isComplex() && src.Bits == 128 && dst.Bits == 64:
		v := drawVal(t, src)
		if !floatFitsFloat32(v.Re) || !floatFitsFloat32(v.Im) {
			v = complexVal(0.1, 16777217, src)
			v.Special = false
		}
		return v
	}
	return drawVal(t, src)
}

// drawOperands fills the drawn operands of a group.
func (g *group) drawOperands(t *rapid.T, n int) {
	g.RX, g.RY = nil, nil
	for i := 0; i < n; i++ {
		switch {
		case g.Op.Grp == "conv":
			g.RX = append(g.RX, drawConvSource(t, g.K, g.K2))
		case g.Op.Grp == "shift" && g.Forms == "vv":
			g.RX = append(g.RX, drawVal(t, g.K))
			g.RY = append(g.RY, drawCount(t, g.K.Bits, g.K2))
		case g.Op.Grp == "shift" && g.Forms[0] != 'v':
			g.RX = append(g.RX, drawCount(t, g.K.Bits, g.K2))
		case g.Forms == "vv":
			g.RX = append(g.RX, drawVal(t, g.K))
			g.RY = append(g.RY, drawVal(t, g.K))
		default:
			g.RX = append(g.RX, drawVal(t, g.aKind()))
		}
	}
}
