// Package c02 checks that operators and conversions compute Go's results for
// every basic kind: the complete cross product operator × kind × operand form
// × result context × boundary-value set is generated as Go programs, built
// natively and run under the interpreter, and the outputs are compared cell
// by cell.
package c02

import (
	"encoding/json"
	"fmt"
	"go/ast"
	"go/importer"
	"go/parser"
	"go/token"
	"go/types"
	"math/big"
	"path/filepath"
	"regexp"
	"sort"
	"strconv"
	"strings"
	"sync"
	"time"

	"pgregory.net/rapid"

	"verif/internal/diff"
	"verif/internal/oracle"
	"verif/internal/vf"
	"verif/internal/yrun"
)

// Cell names one evaluation.
type Cell struct {
	ID    string `json:"id"` // op/kind[.kind2]/forms/context
	Op    string `json:"op"`
	Kind  string `json:"kind"`
	Kind2 string `json:"kind2,omitempty"`
	Forms string `json:"forms"`
	Ctx   string `json:"ctx"`
	X     string `json:"x"`           // value of the variable operand a
	Y     string `json:"y,omitempty"` // value of the second operand (variable b or the constant)
}

// Case is the replayable form of one differing cell: a minimal program.
type Case struct {
	Cell   Cell   `json:"cell"`
	Src    string `json:"src"`
	Native string `json:"native,omitempty"`
	Interp string `json:"interp,omitempty"`
}

// ---------------------------------------------------------------------------
// type check (all errors)

var (
	impMu sync.Mutex
	imp   types.Importer
)

func typeCheck(src string) []string {
	fset := token.NewFileSet()
	f, err := parser.ParseFile(fset, "main.go", src, 0)
	if err != nil {
		return []string{"parse: " + err.Error()}
	}
	impMu.Lock()
	defer impMu.Unlock()
	if imp == nil {
		imp = importer.ForCompiler(token.NewFileSet(), "source", nil)
	}
	var errs []string
	conf := types.Config{Importer: imp, GoVersion: "go1.22", Error: func(e error) {
		if len(errs) < 25 {
			errs = append(errs, e.Error())
		}
	}}
	_, _ = conf.Check("main", fset, []*ast.File{f}, nil)
	return errs
}

// ---------------------------------------------------------------------------
// output lines

type line struct {
	Key   string // id|x|y
	ID    string
	X, Y  int
	Value string
}

var nanRe = regexp.MustCompile(`NaN [0-9a-f]{8,16}`)

func parseLines(out string) []line {
	var ls []line
	for _, s := range strings.Split(out, "\n") {
		p := strings.SplitN(s, "|", 4)
		if len(p) != 4 {
			continue
		}
		x, e1 := strconv.Atoi(p[1])
		y, e2 := strconv.Atoi(p[2])
		if e1 != nil || e2 != nil {
			continue
		}
		v := p[3]
		if strings.Contains(v, "NaN ") {
			v = nanRe.ReplaceAllString(v, "NaN") // NaN payloads are not compared
		}
		ls = append(ls, line{Key: p[0] + "|" + p[1] + "|" + p[2], ID: p[0], X: x, Y: y, Value: v})
	}
	return ls
}

// ---------------------------------------------------------------------------
// cells, signatures

func (g *group) operand(tab *table, rnd []val, i int) (val, bool) {
	if i >= 1000 {
		if i-1000 < len(rnd) {
			return rnd[i-1000], true
		}
		return val{}, false
	}
	if tab != nil && i >= 0 && i < len(tab.Vals) {
		return tab.Vals[i], true
	}
	return val{}, false
}

// operands returns the operand values of cell (x, y) of the group.
func (g *group) operands(x, y int) (xv, yv val, ok bool) {
	xv, ok = g.operand(g.X, g.RX, x)
	if !ok {
		return
	}
	switch {
	case g.Forms == "vv":
		yv, ok = g.operand(g.Y, g.RY, y)
	case len(g.Forms) == 2:
		if y < 0 || y >= len(g.Consts) {
			return xv, yv, false
		}
		yv = g.Consts[y]
	}
	return
}

func (g *group) cell(x, y int) Cell {
	c := Cell{ID: g.ID, Op: g.Op.Name, Kind: g.K.Name, Forms: g.Forms, Ctx: g.Ctx}
	if g.K2 != nil {
		c.Kind2 = g.K2.Name
	}
	xv, yv, _ := g.operands(x, y)
	c.X, c.Y = xv.Disp, yv.Disp
	return c
}

// describe names the cell with its operands: a (and b) are the variable
// operands, k is the constant operand.
func (c Cell) describe() string {
	switch {
	case len(c.Forms) == 1:
		return fmt.Sprintf("%s a=%s", c.ID, c.X)
	case c.Forms == "vv":
		return fmt.Sprintf("%s a=%s b=%s", c.ID, c.X, c.Y)
	case c.Forms[0] == 'v':
		return fmt.Sprintf("%s a=%s k=%s (a op k)", c.ID, c.X, c.Y)
	}
	return fmt.Sprintf("%s k=%s a=%s (k op a)", c.ID, c.Y, c.X)
}

func cellFromID(id string) Cell {
	p := strings.Split(id, "/")
	c := Cell{ID: id}
	if len(p) != 4 {
		return c
	}
	c.Op, c.Forms, c.Ctx = p[0], p[2], p[3]
	c.Kind = p[1]
	if i := strings.IndexByte(p[1], '.'); i >= 0 {
		c.Kind, c.Kind2 = p[1][:i], p[1][i+1:]
	}
	return c
}

var ctxNames = map[string]string{"as": "assign", "def": "define", "opas": "op-assign", "ret": "return", "reti": "return-interface", "if": "if", "ifn": "if-not", "ifna": "for-not-and", "iface": "interface", "stmt": "statement", "dump": "dump"}

func symptom(nat, ya string, natOK, yaOK bool) string {
	switch {
	case !yaOK:
		return "missing"
	case !natOK:
		return "extra"
	case nat == "PANIC":
		return "no-panic"
	case ya == "PANIC":
		return "spurious-panic"
	}
	return "value"
}

// genericSig is the signature of a differing cell that matches no recorded
// root cause: operator, kinds, forms, context and symptom.
func genericSig(c Cell, sym string) string {
	k := c.Kind
	if c.Kind2 != "" {
		k += "." + c.Kind2
	}
	return fmt.Sprintf("%s/%s/%s/%s: %s", c.Op, k, formDesc(c.Forms), ctxNames[c.Ctx], sym)
}

// sigOf maps a differing cell to its root-cause key: a recorded root cause
// when one of the rules (rules.go) matches, else the generic signature.
func sigOf(c Cell, nat, ya, sym string) string {
	for _, r := range rules {
		if r.Match(c, nat, ya, sym) {
			return r.Key
		}
	}
	return genericSig(c, sym)
}

// ---------------------------------------------------------------------------
// non-triviality

func lastField(v string) string {
	if i := strings.LastIndexByte(v, '|'); i >= 0 {
		return v[i+1:]
	}
	return v
}

// exactInt is the infinitely precise result of an integer cell, nil when the
// rule does not apply.
func exactInt(g *group, x, y val) *big.Int {
	if x.I == nil && y.I == nil {
		return nil
	}
	l, r := x.I, y.I
	if len(g.Forms) == 2 && g.Forms[0] != 'v' {
		l, r = y.I, x.I
	}
	switch g.Op.Name {
	case "add":
		return new(big.Int).Add(l, r)
	case "sub":
		return new(big.Int).Sub(l, r)
	case "mul":
		return new(big.Int).Mul(l, r)
	case "quo":
		if r.Sign() == 0 {
			return nil
		}
		return new(big.Int).Quo(l, r)
	case "shl":
		if r.Sign() < 0 || r.Cmp(big.NewInt(300)) > 0 {
			return nil
		}
		return new(big.Int).Lsh(l, uint(r.Int64()))
	case "neg":
		return new(big.Int).Neg(l)
	case "inc":
		return new(big.Int).Add(l, big.NewInt(1))
	case "dec":
		return new(big.Int).Sub(l, big.NewInt(1))
	case "conv":
		return l
	}
	return nil
}

func nontrivial(g *group, x, y val, nat string) bool {
	if strings.HasSuffix(nat, "PANIC") {
		return true
	}
	R := g.result()
	if g.K.isInt() && R.isInt() && g.Ctx != "if" {
		if ex := exactInt(g, x, y); ex != nil {
			return ex.String() != lastField(nat) || x.Special || y.Special
		}
		if g.Op.Grp == "shift" {
			cnt := y.I
			if g.Forms[0] != 'v' {
				cnt = x.I
			}
			if cnt != nil && cnt.Cmp(big.NewInt(int64(g.K.Bits))) >= 0 {
				return true
			}
		}
	}
	return x.Special || y.Special
}

// ---------------------------------------------------------------------------
// minimal program of one cell

func one(name string, k *kind, v val) *table { return &table{Name: name, K: k, Vals: []val{v}} }

func miniProgram(g *group, x, y int) string {
	xv, yv, ok := g.operands(x, y)
	if !ok {
		// unknown indices: keep the first operands
		xv, yv, _ = g.operands(0, 0)
	}
	m := *g
	m.RX, m.RY = nil, nil
	m.X = one("tx", g.X.K, xv)
	switch {
	case g.Forms == "vv":
		m.Y = one("ty", g.Y.K, yv)
	case len(g.Forms) == 2:
		m.Consts = []val{yv}
	}
	return render([]*group{&m}, false)
}

// ---------------------------------------------------------------------------
// running

type cluster struct {
	Sig   string
	N     int
	First Case
	Msg   string
	More  []string
}

type runner struct {
	ctx      *vf.Ctx
	pool     *yrun.Pool
	clusters map[string]*cluster
	order    []string
}

func (r *runner) differ(sig string, cs func() Case, short string) {
	cl := r.clusters[sig]
	if cl == nil {
		c := cs()
		cl = &cluster{Sig: sig, First: c, Msg: short}
		r.clusters[sig] = cl
		r.order = append(r.order, sig)
	} else if len(cl.More) < 4 {
		cl.More = append(cl.More, short)
	}
	cl.N++
}

type reject struct {
	G     *group
	Class string
	Err   string
}

const opBudget = 1 << 40 // the programs are bounded by construction

// interp runs the groups under the interpreter; when the program is rejected
// or does not run to its end, the groups are bisected so that the smallest
// offending function group is named.
func (r *runner) interp(groups []*group, dump bool, ya map[string]string, rej *[]reject) {
	src := render(groups, dump)
	out := r.pool.Run(&yrun.Job{Src: src, OpBudget: opBudget}, 20*time.Minute)
	if out.Class == yrun.Timeout {
		r.ctx.Inconclusive("interpreter wall-clock backstop hit on %d groups starting at %s", len(groups), groups[0].ID)
		return
	}
	complete := out.Class == yrun.OK && strings.Contains(out.Stdout, fmt.Sprintf("end|0|0|%d\n", len(groups)))
	if complete || len(groups) == 1 {
		for _, l := range parseLines(out.Stdout) {
			ya[l.Key] = l.Value
		}
		if !complete {
			e := out.Err
			if out.Class == yrun.OK {
				e = "output incomplete"
			}
			*rej = append(*rej, reject{G: groups[0], Class: out.Class, Err: e})
		}
		return
	}
	h := len(groups) / 2
	r.interp(groups[:h], dump, ya, rej)
	r.interp(groups[h:], dump, ya, rej)
}

func classOf(g *group) string {
	c := g.K.Class
	if g.K2 != nil && g.Op.Grp == "conv" {
		c += "-" + g.K2.Class
	}
	return g.Op.Name + "/" + c
}

func (r *runner) compareFile(fs *fileSpec, nat *oracle.Result) {
	ctx := r.ctx
	byID := map[string]*group{}
	for _, g := range fs.Groups {
		byID[g.ID] = g
	}
	natLines := parseLines(nat.Stdout)
	if len(natLines) == 0 || natLines[len(natLines)-1].ID != "end" {
		ctx.Inconclusive("native output of file %s-%d is incomplete (%d lines, exit %d, %s)", fs.Name, fs.Idx, len(natLines), nat.Exit, nat.PanicLine)
		return
	}
	ya := map[string]string{}
	var rej []reject
	r.interp(fs.Groups, true, ya, &rej)
	rejected := map[string]bool{}
	for _, rj := range rej {
		g := rj.G
		rejected[g.ID] = true
		c := g.cell(0, 0)
		what := "rejects-valid"
		if rj.Class != yrun.Compile {
			what = "aborts-" + rj.Class
		}
		sym := what + ": " + diff.NormErr(rj.Err)
		sig := sigOf(c, "", "", sym)
		r.differ(sig, func() Case { return Case{Cell: c, Src: miniProgram(g, 0, 0)} },
			fmt.Sprintf("%s: the interpreter ends with %s (%s) on a function group the Go toolchain compiles and runs", g.ID, rj.Class, oneLine(rj.Err)))
	}
	// a panic recovered in a multi-statement function hides the later cells
	panicked := map[string]bool{}
	for k, v := range ya {
		if v == "PANIC" && strings.HasSuffix(k, "|-1") {
			panicked[strings.TrimSuffix(k, "|-1")] = true
		}
	}
	seen := map[string]bool{}
	n := 0
	for _, l := range natLines {
		if l.ID == "end" {
			continue
		}
		seen[l.Key] = true
		g := byID[l.ID]
		if g == nil {
			if strings.HasPrefix(l.ID, "tab/") {
				if v, ok := ya[l.Key]; !ok || v != l.Value {
					c := cellFromID(l.ID)
					r.differ("table/"+c.Kind+": "+symptom(l.Value, v, true, ok), func() Case { return Case{Cell: c, Src: render(fs.Groups[:1], true), Native: l.Value, Interp: v} },
						fmt.Sprintf("operand table %s entry %d: native %s, interpreter %s", c.Kind, l.X, l.Value, v))
				}
			}
			continue
		}
		n++
		if n%9973 == 1 {
			ctx.Sample(map[string]any{"cell": g.cell(l.X, l.Y).describe(), "result": l.Value}, 3)
		}
		xv, yv, _ := g.operands(l.X, l.Y)
		if nontrivial(g, xv, yv, l.Value) {
			ctx.Nontrivial(l.Key)
		}
		v, ok := ya[l.Key]
		if ok && v == l.Value {
			continue
		}
		if !ok && rejected[g.ID] {
			continue
		}
		sym := symptom(l.Value, v, true, ok)
		if !ok && panicked[fmt.Sprintf("%s|%d", l.ID, l.X)] {
			sym, v = "spurious-panic", "PANIC"
		}
		c := g.cell(l.X, l.Y)
		sig := sigOf(c, l.Value, v, sym)
		lx, ly, nv := l.X, l.Y, l.Value
		r.differ(sig, func() Case { return Case{Cell: c, Src: miniProgram(g, lx, ly), Native: nv, Interp: v} },
			fmt.Sprintf("%s: native %s, interpreter %s", c.describe(), l.Value, orMissing(v, ok)))
	}
	// lines only the interpreter printed
	var extra []string
	for k := range ya {
		if !seen[k] && !strings.HasSuffix(k, "|-1") && !strings.HasPrefix(k, "end|") {
			extra = append(extra, k)
		}
	}
	sort.Strings(extra)
	for _, k := range extra {
		p := strings.Split(k, "|")
		g := byID[p[0]]
		if g == nil {
			continue
		}
		x, _ := strconv.Atoi(p[1])
		y, _ := strconv.Atoi(p[2])
		c := g.cell(x, y)
		v := ya[k]
		r.differ(sigOf(c, "", v, "extra"), func() Case { return Case{Cell: c, Src: miniProgram(g, x, y), Interp: v} },
			fmt.Sprintf("%s: the interpreter printed %s, the native program printed nothing for this cell", c.describe(), v))
	}
	ctx.EvalN(n)
	for _, g := range fs.Groups {
		ctx.ClassN(classOf(g), g.cells(len(g.RX)))
		ctx.ClassN("form:"+formDesc(g.Forms), 1)
		ctx.ClassN("context:"+ctxNames[g.Ctx], 1)
	}
}

func orMissing(v string, ok bool) string {
	if !ok {
		return "<no line>"
	}
	return v
}

func oneLine(s string) string {
	s = strings.ReplaceAll(s, "\n", " ")
	if len(s) > 240 {
		s = s[:240] + "…"
	}
	return s
}

// prepare draws the random operands of a file's groups and renders it.
func prepare(ctx *vf.Ctx, fs *fileSpec, t *tier) string {
	if t.NRand > 0 {
		ctx.RapidCollect("operands", fs.Idx+1, 1, func(rt *rapid.T) {
			for _, g := range fs.Groups {
				g.drawOperands(rt, t.NRand)
			}
		})
	}
	return render(fs.Groups, true)
}

func run(ctx *vf.Ctx) {
	t := tiers[ctx.Tier]
	if t == nil {
		ctx.Inconclusive("unknown tier %q", ctx.Tier)
		return
	}
	files := plan(t)
	var mine []*fileSpec
	for _, f := range files {
		if f.Idx%ctx.NShards == ctx.Shard {
			mine = append(mine, f)
		}
	}
	batch, err := oracle.NewBatch(filepath.Join(ctx.Scratch, "oracle"))
	if err != nil {
		ctx.Inconclusive("oracle: %v", err)
		return
	}
	ids := make([]string, len(mine))
	srcs := make([]string, len(mine))
	for i, f := range mine {
		src := prepare(ctx, f, t)
		srcs[i] = src
		if errs := typeCheck(src); len(errs) > 0 {
			ctx.Inconclusive("generator bug: file %s-%d is rejected by go/types: %s", f.Name, f.Idx, strings.Join(errs, "; "))
			return
		}
		ids[i] = batch.Add(oracle.Single(src))
	}
	if err := batch.Build(); err != nil {
		ctx.Inconclusive("native build: %v", err)
		return
	}
	r := &runner{ctx: ctx, clusters: map[string]*cluster{}}
	r.pool = yrun.NewPool(1, filepath.Join(ctx.Scratch, "workers"))
	defer r.pool.Close()
	ngroups, ncells := 0, 0
	for i, f := range mine {
		nat := batch.Result(ids[i])
		if nat != nil && nat.Built && nat.TimedOut {
			// the native run has a fixed wall-clock limit: try once more (a
			// comment makes it a new program for the batch)
			_, nat = batch.Ensure(oracle.Single(srcs[i] + "\n// second run\n"))
		}
		switch {
		case nat == nil || !nat.Built:
			msg := "no result"
			if nat != nil {
				msg = nat.BuildErr
			}
			ctx.Inconclusive("generator bug: file %s-%d does not build natively: %s", f.Name, f.Idx, msg)
			continue
		case nat.TimedOut || len(nat.Stdout) >= 8<<20:
			ctx.Inconclusive("native run of file %s-%d timed out or overflowed the output limit", f.Name, f.Idx)
			continue
		}
		r.compareFile(f, nat)
		batch.Forget(ids[i])
		ngroups += len(f.Groups)
		for _, g := range f.Groups {
			ncells += g.cells(len(g.RX))
			if g.Excl != "" {
				ctx.Excluded(g.Excl)
			}
		}
	}
	for _, sig := range r.order {
		cl := r.clusters[sig]
		msg := fmt.Sprintf("%d cell(s) differ; %s", cl.N, cl.Msg)
		if len(cl.More) > 0 {
			msg += "; also " + strings.Join(cl.More, "; ")
		}
		if vf.IsKnown("C02", sig) {
			for i := 0; i < cl.N; i++ {
				ctx.Excluded(sig)
			}
		}
		ctx.ReportViolation(sig, msg, cl.First)
	}
	ctx.SetExtra("files", float64(len(mine)))
	ctx.SetExtra("function_groups", float64(ngroups))
	ctx.SetExtra("cells_enumerated", float64(ncells))
	ctx.DoneN(ctx.Cases)
}

func replay(ctx *vf.Ctx, data json.RawMessage) (string, string) {
	var c Case
	if err := json.Unmarshal(data, &c); err != nil {
		return "bad replay file: " + err.Error(), "harness"
	}
	batch, err := oracle.NewBatch(filepath.Join(ctx.Scratch, "oracle"))
	if err != nil {
		return "", ""
	}
	_, nat := batch.Ensure(oracle.Single(c.Src))
	if nat == nil || !nat.Built || nat.TimedOut {
		return "", ""
	}
	pool := yrun.NewPool(1, filepath.Join(ctx.Scratch, "workers"))
	defer pool.Close()
	out := pool.Run(&yrun.Job{Src: c.Src, OpBudget: opBudget}, 5*time.Minute)
	if out.Class == yrun.Timeout {
		return "", ""
	}
	if out.Class != yrun.OK {
		what := "rejects-valid"
		if out.Class != yrun.Compile {
			what = "aborts-" + out.Class
		}
		sym := what + ": " + diff.NormErr(out.Err)
		return fmt.Sprintf("%s: the interpreter ends with %s (%s) on a program the Go toolchain compiles and runs", c.Cell.ID, out.Class, oneLine(out.Err)), sigOf(c.Cell, "", "", sym)
	}
	ya := map[string]string{}
	for _, l := range parseLines(out.Stdout) {
		ya[l.Key] = l.Value
	}
	for _, l := range parseLines(nat.Stdout) {
		v, ok := ya[l.Key]
		if ok && v == l.Value {
			continue
		}
		sym := symptom(l.Value, v, true, ok)
		if !ok && ya[fmt.Sprintf("%s|%d|-1", l.ID, l.X)] == "PANIC" {
			sym, v = "spurious-panic", "PANIC"
		}
		cell := c.Cell
		if strings.HasPrefix(l.ID, "tab/") {
			cell = cellFromID(l.ID)
			return fmt.Sprintf("operand table %s entry %d: native %s, interpreter %s", cell.Kind, l.X, l.Value, v), "table/" + cell.Kind + ": " + sym
		}
		return fmt.Sprintf("%s: native %s, interpreter %s", cell.describe(), l.Value, orMissing(v, ok)), sigOf(cell, l.Value, v, sym)
	}
	return "", ""
}

func init() {
	cases := map[string]int{}
	for name, t := range tiers {
		cases[name] = len(plan(t))
	}
	vf.Register(&vf.Check{
		ID:    "C02",
		Level: "exploration",
		Rule: "case = one generated file; evaluation = one cell (operator, operand kind(s), operand forms, result context, operand values) whose printed result is compared with the natively compiled program's; " +
			"the cross product operator {+ - * / % & | ^ &^ << >> == != < <= > >= && || unary + - ^ ! ++ -- and the op-assign forms} x applicable kind x forms {variable, literal, typed and untyped named constant; not constant-constant} x context {assign, define, op-assign, return, if, interface, and for comparisons and logical operators the negated operation as condition of an if and as left operand of && in a for condition} x boundary set is enumerated completely (quick: six to eight values per kind and 2 rapid-drawn operands per function group, thorough: the full sets of 15 to 35 values plus 8 rapid-drawn operands per function group; shift counts 0, 1, w-1, w, w+1, 200, the count kind's maximum and, for signed count kinds, -1 and the minimum), plus all numeric conversions, int->string, string<->[]byte, string<->[]rune; " +
			"non-trivial = the native result is a panic, or the integer result differs from the infinitely precise result (wrap, truncation, sign extension), or an operand is a boundary value (min, min+1, max-1, max, -1, neighbour of a power of two >= 16, NaN, Inf, -0, denormal, |x| >= 2^24-1 (float32) / 2^53-1 (float64), non-ASCII or empty string); distinct by cell id and operand indices",
		Assumptions: []string{
			"the installed Go toolchain (amd64: int, uint and uintptr are 64 bits wide) is the reference",
			"float to integer conversions are generated only for values whose truncation is in range, float64 to float32 only for values within the float32 range (other results are implementation-defined)",
			"NaN payloads are not compared; expressions with two constant operands belong to C03",
			"cells matching a root cause listed in known_findings.jsonl are counted under excluded_by_construction and reported as known findings",
		},
		Cases:      cases,
		Shards:     map[string]int{"quick": 16, "thorough": 16},
		Run:        run,
		Replay:     replay,
		Exhaustive: true,
	})
}
