package c02

import (
	"encoding/json"
	"fmt"
	"os"
	"testing"

	"pgregory.net/rapid"

	"verif/internal/vf"
)

// TestPlan type-checks every generated file of a tier (C02_TIER, default
// quick) and prints the size of the enumeration. C02_DUMP=<dir> writes the
// files.
func TestPlan(t *testing.T) {
	name := os.Getenv("C02_TIER")
	if name == "" {
		name = "quick"
	}
	tr := tiers[name]
	files := plan(tr)
	groups, cells, lines := 0, 0, 0
	for _, f := range files {
		rapid.Check(t, func(rt *rapid.T) {
			for _, g := range f.Groups {
				g.drawOperands(rt, tr.NRand)
			}
		})
		src := render(f.Groups, true)
		if d := os.Getenv("C02_DUMP"); d != "" {
			_ = os.MkdirAll(d, 0o755)
			_ = os.WriteFile(fmt.Sprintf("%s/%s-%03d.go", d, f.Name, f.Idx), []byte(src), 0o644)
		}
		if errs := typeCheck(src); len(errs) > 0 {
			t.Errorf("file %s-%d: %d errors, first: %v", f.Name, f.Idx, len(errs), errs[:min(len(errs), 5)])
		}
		bytes := 0
		for _, g := range f.Groups {
			cells += g.cells(tr.NRand)
			bytes += g.estBytes(tr.NRand)
		}
		groups += len(f.Groups)
		for _, c := range src {
			if c == '\n' {
				lines++
			}
		}
		t.Logf("%s-%d: %d groups, est %d KB output, %d KB source", f.Name, f.Idx, len(f.Groups), bytes/1024, len(src)/1024)
	}
	t.Logf("tier %s: %d files, %d groups, %d cells, %d source lines", name, len(files), groups, cells, lines)
}

// TestWriteKnownReplays regenerates replays/known/C02/*.json (only with
// C02_WRITE_KNOWN=1): one minimal program per recorded root cause.
func TestWriteKnownReplays(t *testing.T) {
	if os.Getenv("C02_WRITE_KNOWN") == "" {
		t.Skip("set C02_WRITE_KNOWN=1")
	}
	files := plan(tiers["quick"])
	byID := map[string]*group{}
	for _, f := range files {
		for _, g := range f.Groups {
			byID[g.ID] = g
		}
	}
	pick := func(id, x, y string) (*group, int, int) {
		g := byID[id]
		if g == nil {
			t.Fatalf("no group %s", id)
		}
		xi, yi := -1, -1
		for i, v := range g.X.Vals {
			if v.Disp == x {
				xi = i
			}
		}
		switch {
		case g.Forms == "vv":
			for i, v := range g.Y.Vals {
				if v.Disp == y {
					yi = i
				}
			}
		case len(g.Forms) == 2:
			for i, v := range g.Consts {
				if v.Disp == y {
					yi = i
				}
			}
		default:
			yi = 0
		}
		if xi < 0 || yi < 0 {
			t.Fatalf("%s: operand %q/%q not found", id, x, y)
		}
		return g, xi, yi
	}
	type item struct{ key, id, x, y, msg string }
	items := []item{
		{keyNegShift, "shl/int.int/vv/as", "1", "-1", "1 << n with n = -1 (int variable): Go panics (negative shift amount), the interpreter yields 0"},
		{keyC64Const, "sub/complex64/vc/def", "(3.4028235e+38,3.4028235e+38)", "(3.4028235e+38,3.4028235e+38)", "x - k with const k complex64 = (3.4028235e+38 + 3.4028235e+38i) and x holding the same value: k is not rounded to complex64, the difference is not 0"},
		{keyC64Lit, "sub/complex64/vl/as", "(3.4028235e+38,3.4028235e+38)", "(3.4028235e+38,3.4028235e+38)", "r = x - (3.4028235e+38 + 3.4028235e+38i) with complex64 r, x: the literal is not rounded to complex64, the difference is not 0"},
		{keyFloatDivZero, "quo/float64/vl/as", "1.5", "0", "x / 0 with a float64 variable x is rejected (division by zero); Go yields +Inf"},
		{keyUintptrInc, "inc/uintptr/v/stmt", "1", "", "x++ on a uintptr variable ends the enclosing function"},
		{keyShiftCmp, "shl/int.uint/lv/if", "1", "1", "if (1 << n) == c ends the enclosing function"},
	}
	dir := "../../replays/known/C02"
	_ = os.MkdirAll(dir, 0o755)
	for _, it := range items {
		g, xi, yi := pick(it.id, it.x, it.y)
		c := Case{Cell: g.cell(xi, yi), Src: miniProgram(g, xi, yi)}
		writeReplay(t, dir, it.key, it.msg, c)
	}
	writeReplay(t, dir, keyNegZeroArg, "a float64 negative zero passed as argument to an interpreted function arrives as +0", Case{
		Cell: Cell{ID: "arg/float64/v/call", Op: "arg", Kind: "float64", Forms: "v", Ctx: "call", X: "-0"},
		Src:  "package main\n\nimport (\n\t\"fmt\"\n\t\"math\"\n)\n\nfunc show(v float64) {\n\tfmt.Printf(\"arg/float64/v/call|0|0|%v %016x\\n\", v, math.Float64bits(v))\n}\n\nfunc main() {\n\tz := math.Copysign(0, -1)\n\tshow(z)\n\tfmt.Printf(\"end|0|0|1\\n\")\n}\n",
	})
}

func writeReplay(t *testing.T, dir, key, msg string, c Case) {
	raw, _ := json.MarshalIndent(c, " ", " ")
	rf := vf.ReplayFile{Property: "C02", Sig: key, Msg: msg, Seed: 0, Tier: "quick", Case: raw}
	b, _ := json.MarshalIndent(rf, "", " ")
	if err := os.WriteFile(dir+"/"+key+".json", append(b, '\n'), 0o644); err != nil {
		t.Fatal(err)
	}
}
