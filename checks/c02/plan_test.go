package c02

import (
	"fmt"
	"os"
	"testing"

	"pgregory.net/rapid"
)

// TestPlan type-checks every generated file of a tier (C02_TIER, default
// quick) and prints the size of the enumeration. C02_DUMP=<dir> writes the
// files.
func TestPlan(t *testing.T) {
	name := os.Getenv("C02_TIER")
	if name == "" {
		name = "quick"
	}
	tr := tiers[name]
	files := plan(tr)
	groups, cells, lines := 0, 0, 0
	for _, f := range files {
		rapid.Check(t, func(rt *rapid.T) {
			for _, g := range f.Groups {
				g.drawOperands(rt, tr.NRand)
			}
		})
		src := render(f.Groups, true)
		if d := os.Getenv("C02_DUMP"); d != "" {
			_ = os.MkdirAll(d, 0o755)
			_ = os.WriteFile(fmt.Sprintf("%s/%s-%03d.go", d, f.Name, f.Idx), []byte(src), 0o644)
		}
		if errs := typeCheck(src); len(errs) > 0 {
			t.Errorf("file %s-%d: %d errors, first: %v", f.Name, f.Idx, len(errs), errs[:min(len(errs), 5)])
		}
		bytes := 0
		for _, g := range f.Groups {
			cells += g.cells(tr.NRand)
			bytes += g.estBytes(tr.NRand)
		}
		groups += len(f.Groups)
		for _, c := range src {
			if c == '\n' {
				lines++
			}
		}
		t.Logf("%s-%d: %d groups, est %d KB output, %d KB source", f.Name, f.Idx, len(f.Groups), bytes/1024, len(src)/1024)
	}
	t.Logf("tier %s: %d files, %d groups, %d cells, %d source lines", name, len(files), groups, cells, lines)
}
