package c02

import (
	"fmt"
	"math"
	"math/big"
	"strconv"
	"strings"
)

// kind is one operand kind of the property's cross product (the seventeen
// basic kinds) or one of the two slice pseudo-kinds used by the string
// conversions.
type kind struct {
	Name  string // Go type text
	Short string // identifier fragment
	Class string // sint uint float complex string bool bytes runes
	Bits  int
}

var kinds = []*kind{
	{"int", "Int", "sint", 64}, {"int8", "Int8", "sint", 8}, {"int16", "Int16", "sint", 16}, {"int32", "Int32", "sint", 32}, {"int64", "Int64", "sint", 64},
	{"uint", "Uint", "uint", 64}, {"uint8", "Uint8", "uint", 8}, {"uint16", "Uint16", "uint", 16}, {"uint32", "Uint32", "uint", 32}, {"uint64", "Uint64", "uint", 64}, {"uintptr", "Uintptr", "uint", 64},
	{"float32", "Float32", "float", 32}, {"float64", "Float64", "float", 64},
	{"complex64", "Complex64", "complex", 64}, {"complex128", "Complex128", "complex", 128},
	{"string", "String", "string", 0}, {"bool", "Bool", "bool", 0},
}

var (
	kBytes = &kind{"[]byte", "Bytes", "bytes", 0}
	kRunes = &kind{"[]rune", "Runes", "runes", 0}
)

func kindByName(n string) *kind {
	for _, k := range kinds {
		if k.Name == n {
			return k
		}
	}
	switch n {
	case "[]byte":
		return kBytes
	case "[]rune":
		return kRunes
	}
	return nil
}

func (k *kind) isInt() bool     { return k.Class == "sint" || k.Class == "uint" }
func (k *kind) isFloat() bool   { return k.Class == "float" }
func (k *kind) isComplex() bool { return k.Class == "complex" }
func (k *kind) numeric() bool   { return k.isInt() || k.isFloat() || k.isComplex() }
func (k *kind) ordered() bool   { return k.isInt() || k.isFloat() || k.Class == "string" }

func (k *kind) min() *big.Int {
	if k.Class == "sint" {
		return new(big.Int).Neg(new(big.Int).Lsh(big.NewInt(1), uint(k.Bits-1)))
	}
	return big.NewInt(0)
}

func (k *kind) max() *big.Int {
	n := k.Bits
	if k.Class == "sint" {
		n--
	}
	return new(big.Int).Sub(new(big.Int).Lsh(big.NewInt(1), uint(n)), big.NewInt(1))
}

func (k *kind) inRange(v *big.Int) bool { return v.Cmp(k.min()) >= 0 && v.Cmp(k.max()) <= 0 }

// val is one operand value.
type val struct {
	Src     string // run-time expression of the kind (table initialiser)
	Lit     string // untyped constant expression denoting the value, "" if there is none (NaN, Inf, -0)
	Disp    string // for messages and replay descriptors
	Special bool   // boundary value (non-triviality rule)
	I       *big.Int
	F       float64
	Re, Im  float64
}

// ---------------------------------------------------------------------------
// integers

func pow2(k int) *big.Int { return new(big.Int).Lsh(big.NewInt(1), uint(k)) }

func intVal(v *big.Int, k *kind) val {
	s := v.String()
	sp := false
	lo, hi := k.min(), k.max()
	d1 := new(big.Int).Sub(v, lo)
	d2 := new(big.Int).Sub(hi, v)
	if d1.Cmp(big.NewInt(1)) <= 0 || d2.Cmp(big.NewInt(1)) <= 0 || v.Cmp(big.NewInt(-1)) == 0 {
		sp = true
	}
	a := new(big.Int).Abs(v)
	if a.BitLen() >= 5 {
		// neighbour of a power of two
		for _, d := range []int64{-1, 0, 1} {
			t := new(big.Int).Add(a, big.NewInt(d))
			if t.Sign() > 0 && new(big.Int).And(t, new(big.Int).Sub(t, big.NewInt(1))).Sign() == 0 {
				sp = true
			}
		}
	}
	return val{Src: s, Lit: s, Disp: s, Special: sp, I: new(big.Int).Set(v)}
}

func dedupeInts(k *kind, vs []*big.Int) []val {
	seen := map[string]bool{}
	var out []val
	for _, v := range vs {
		if !k.inRange(v) || seen[v.String()] {
			continue
		}
		seen[v.String()] = true
		out = append(out, intVal(v, k))
	}
	return out
}

func bi(n int64) *big.Int { return big.NewInt(n) }
func add(a *big.Int, n int64) *big.Int {
	return new(big.Int).Add(a, big.NewInt(n))
}
func neg(a *big.Int) *big.Int { return new(big.Int).Neg(a) }

// intSet is the boundary set of an integer kind: quick = six values, full =
// min, min+1, -1, 0, 1, max-1, max, small values and powers of two with their
// neighbours.
func intSet(k *kind, full bool) []val {
	lo, hi := k.min(), k.max()
	w := k.Bits
	if !full {
		if k.Class == "sint" {
			return dedupeInts(k, []*big.Int{lo, bi(-1), bi(0), bi(1), bi(3), hi})
		}
		return dedupeInts(k, []*big.Int{bi(0), bi(1), bi(3), pow2(w - 1), add(hi, -1), hi})
	}
	vs := []*big.Int{lo, add(lo, 1), bi(-1), bi(0), bi(1), add(hi, -1), hi, bi(2), bi(3), bi(-2), bi(-3), bi(7), bi(10), bi(-10)}
	var ks, nks []int
	switch w {
	case 8:
		ks, nks = []int{4, 6, 7}, []int{6}
	case 16:
		ks, nks = []int{7, 8, 14, 15}, []int{8, 14}
	case 32:
		ks, nks = []int{8, 16, 24, 30, 31}, []int{16, 30}
	default:
		ks, nks = []int{16, 31, 32, 53, 62, 63}, []int{31, 62}
	}
	for _, e := range ks {
		p := pow2(e)
		vs = append(vs, add(p, -1), p, add(p, 1))
	}
	if k.Class == "sint" {
		for _, e := range nks {
			p := neg(pow2(e))
			vs = append(vs, add(p, -1), p, add(p, 1))
		}
	}
	return dedupeInts(k, vs)
}

// shiftCounts is the count set of a shift whose left operand has width w, for
// the count kind ck: 0, 1, w-1, w, w+1, 200 (or the kind's maximum), and for
// signed count kinds also negative counts.
func shiftCounts(w int, ck *kind, withNeg bool) []val {
	vs := []*big.Int{bi(0), bi(1), bi(int64(w - 1)), bi(int64(w)), bi(int64(w + 1)), bi(200), ck.max()}
	if ck.Class == "sint" && withNeg {
		vs = append(vs, bi(-1), ck.min())
	}
	return dedupeInts(ck, vs)
}

// ---------------------------------------------------------------------------
// floats

func f32src(f float32) string {
	return fmt.Sprintf("math.Float32frombits(0x%08x)", math.Float32bits(f))
}
func f64src(f float64) string {
	return fmt.Sprintf("math.Float64frombits(0x%016x)", math.Float64bits(f))
}

func floatLit(f float64, bits int) string {
	if math.IsNaN(f) || math.IsInf(f, 0) || (f == 0 && math.Signbit(f)) {
		return ""
	}
	return strconv.FormatFloat(f, 'g', -1, bits)
}

func floatDisp(f float64, bits int) string {
	if f == 0 && math.Signbit(f) {
		return "-0"
	}
	return strconv.FormatFloat(f, 'g', -1, bits)
}

func floatSpecial(f float64, bits int) bool {
	a := math.Abs(f)
	switch {
	case math.IsNaN(f), math.IsInf(f, 0), f == 0 && math.Signbit(f):
		return true
	case bits == 32:
		return a >= 1<<24-1 || (a != 0 && a < 1.2e-38)
	default:
		return a >= 1<<53-1 || (a != 0 && a < 2.3e-308)
	}
}

func floatVal(f float64, k *kind) val {
	if k.Bits == 32 {
		f = float64(float32(f))
		return val{Src: f32src(float32(f)), Lit: floatLit(f, 32), Disp: floatDisp(f, 32), Special: floatSpecial(f, 32), F: f}
	}
	return val{Src: f64src(f), Lit: floatLit(f, 64), Disp: floatDisp(f, 64), Special: floatSpecial(f, 64), F: f}
}

func dedupeFloats(k *kind, fs []float64) []val {
	seen := map[uint64]bool{}
	var out []val
	for _, f := range fs {
		if k.Bits == 32 {
			if !math.IsInf(f, 0) && !math.IsNaN(f) && math.Abs(f) > math.MaxFloat32 {
				continue
			}
			f = float64(float32(f))
		}
		b := math.Float64bits(f)
		if seen[b] {
			continue
		}
		seen[b] = true
		out = append(out, floatVal(f, k))
	}
	return out
}

var negZero = math.Copysign(0, -1)

func floatSet(k *kind, full bool) []val {
	inf, nan := math.Inf(1), math.NaN()
	if k.Bits == 32 {
		if !full {
			return dedupeFloats(k, []float64{negZero, 1.5, 1<<24 - 1, math.MaxFloat32, -inf, nan, 0.3})
		}
		return dedupeFloats(k, []float64{0, negZero, 1, -1, 0.5, 1.5, 2.5, -2.5, 0.1, 3, 1e10, 1<<24 - 1, 1 << 24, 1<<24 + 2, -(1<<24 - 1),
			math.MaxFloat32, -math.MaxFloat32, math.SmallestNonzeroFloat32, 1.1754943508222875e-38, inf, -inf, nan, 127, 255.5, 1 << 31, 0.3333333432674408, 0.3, -0.1})
	}
	if !full {
		return dedupeFloats(k, []float64{negZero, 1.5, 1<<53 - 1, math.MaxFloat64, -inf, nan, 0.3})
	}
	return dedupeFloats(k, []float64{0, negZero, 1, -1, 0.5, 1.5, 2.5, -2.5, 0.1, 3, 1e10, 1<<24 - 1, 1 << 24, 1<<24 + 1, 1<<53 - 1, 1 << 53, 1<<53 + 2, -(1<<53 - 1),
		math.MaxFloat64, -math.MaxFloat64, math.SmallestNonzeroFloat64, 2.2250738585072014e-308, inf, -inf, nan, math.MaxFloat32, 255.5, 1 << 63, 1.0 / 3, 0.3, -0.1})
}

// floatConvExtras are additional float sources used by float→integer
// conversions: fractional values and the values around the limits of the
// target kind (reduced: the limits only).
func floatConvExtras(src, dst *kind, full bool) []float64 {
	lo, _ := new(big.Float).SetInt(dst.min()).Float64()
	hi1, _ := new(big.Float).SetInt(add(dst.max(), 1)).Float64() // 2^(w-1) or 2^w, exact
	fs := []float64{lo, lo - 0.5, hi1 - 1, math.Nextafter(hi1, 0), -0.9999, 2.5}
	if src.Bits == 32 {
		fs = append(fs, float64(math.Nextafter32(float32(hi1), 0)))
	}
	if full {
		fs = append(fs, 0.9999, 1.5, -1.5, 127.9, 255.9, -128.9, 65535.5, lo+0.5, hi1-0.5, math.Nextafter(lo, 0))
		if src.Bits == 32 {
			fs = append(fs, float64(math.Nextafter32(float32(lo), 0)))
		}
	}
	return fs
}

// floatFitsInt reports whether converting f to the integer kind k is defined
// by the language (the truncated value is in range).
func floatFitsInt(f float64, k *kind) bool {
	if math.IsNaN(f) || math.IsInf(f, 0) {
		return false
	}
	t := math.Trunc(f)
	lo, _ := new(big.Float).SetInt(k.min()).Float64()
	hi1, _ := new(big.Float).SetInt(add(k.max(), 1)).Float64()
	return t >= lo && t < hi1
}

// floatFitsFloat32: a float64 value whose conversion to float32 is defined.
func floatFitsFloat32(f float64) bool {
	return math.IsNaN(f) || math.IsInf(f, 0) || math.Abs(f) <= math.MaxFloat32
}

// ---------------------------------------------------------------------------
// complex

func complexVal(re, im float64, k *kind) val {
	bits := k.Bits / 2
	var rs, is string
	if bits == 32 {
		re, im = float64(float32(re)), float64(float32(im))
		rs, is = f32src(float32(re)), f32src(float32(im))
	} else {
		rs, is = f64src(re), f64src(im)
	}
	v := val{Src: "complex(" + rs + ", " + is + ")", Re: re, Im: im}
	rl, il := floatLit(re, bits), floatLit(im, bits)
	if rl != "" && il != "" {
		v.Lit = "(" + rl + " + " + il + "i)"
	}
	v.Disp = "(" + floatDisp(re, bits) + "," + floatDisp(im, bits) + ")"
	v.Special = floatSpecial(re, bits) || floatSpecial(im, bits)
	return v
}

func complexSet(k *kind, full bool) []val {
	inf, nan := math.Inf(1), math.NaN()
	mx, big1 := math.MaxFloat64, float64(1<<53-1)
	if k.Bits == 64 {
		mx, big1 = math.MaxFloat32, 1<<24-1
	}
	ps := [][2]float64{{1, 2}, {-1.5, 0.5}, {negZero, 0}, {nan, 1}, {mx, mx}, {1, -inf}, {0.1, -0.3}}
	if full {
		ps = append(ps, [2]float64{0, 0}, [2]float64{1, 0}, [2]float64{0, 1}, [2]float64{3, -4}, [2]float64{0.1, 0.2}, [2]float64{big1, 1}, [2]float64{inf, inf},
			[2]float64{nan, nan}, [2]float64{0, negZero}, [2]float64{-mx, 2}, [2]float64{1e-40, 1e-40}, [2]float64{inf, nan}, [2]float64{-2.5, -2.5}, [2]float64{1e10, 3})
	}
	var out []val
	for _, p := range ps {
		out = append(out, complexVal(p[0], p[1], k))
	}
	return out
}

// ---------------------------------------------------------------------------
// strings, bools, slices

func strVal(s string) val {
	q := strconv.QuoteToASCII(s)
	sp := false
	for i := 0; i < len(s); i++ {
		if s[i] >= 0x80 || s[i] == 0 {
			sp = true
		}
	}
	return val{Src: q, Lit: q, Disp: q, Special: sp || s == ""}
}

func stringSet(full bool) []val {
	ss := []string{"", "a", "ab", "\xff", "日本"}
	if full {
		ss = append(ss, "b", "aa", "a\x00", "é", "A", "a\xffb", "\xe2\x82", "\xed\xa0\x80", "\xf4\x90\x80\x80", "\xc0\x80", "\U0010ffff", "héllo wörld")
	}
	var out []val
	for _, s := range ss {
		out = append(out, strVal(s))
	}
	return out
}

func boolSet() []val {
	return []val{{Src: "false", Lit: "false", Disp: "false"}, {Src: "true", Lit: "true", Disp: "true", Special: true}}
}

func bytesVal(b []byte) val {
	var sb strings.Builder
	sb.WriteString("{")
	sp := false
	for i, c := range b {
		if i > 0 {
			sb.WriteString(", ")
		}
		fmt.Fprintf(&sb, "0x%02x", c)
		if c >= 0x80 {
			sp = true
		}
	}
	sb.WriteString("}")
	return val{Src: "[]byte" + sb.String(), Disp: fmt.Sprintf("[]byte(%q)", string(b)), Special: sp || len(b) == 0}
}

func bytesSet(full bool) []val {
	var out []val
	for _, v := range stringSet(full) {
		s, _ := strconv.Unquote(v.Src)
		out = append(out, bytesVal([]byte(s)))
	}
	return out
}

func runesVal(r []int32) val {
	var sb strings.Builder
	sb.WriteString("{")
	sp := false
	for i, c := range r {
		if i > 0 {
			sb.WriteString(", ")
		}
		fmt.Fprintf(&sb, "%d", c)
		if c >= 0x80 || c < 0 {
			sp = true
		}
	}
	sb.WriteString("}")
	return val{Src: "[]rune" + sb.String(), Disp: "[]rune" + sb.String(), Special: sp || len(r) == 0}
}

func runesSet(full bool) []val {
	rs := [][]int32{{}, {'a'}, {'a', 0xe9, 0x65e5}, {-1}, {0xd800, 'x'}, {0x110000}}
	if full {
		rs = append(rs, []int32{0}, []int32{0x10ffff}, []int32{0xdfff}, []int32{0xe000}, []int32{0x7f, 0x80, 0x7ff, 0x800, 0xffff, 0x10000}, []int32{math.MinInt32, math.MaxInt32}, []int32{0xfffd})
	}
	var out []val
	for _, r := range rs {
		out = append(out, runesVal(r))
	}
	return out
}

// runeSources are additional integer sources of string(x): the code points
// around the UTF-8 length limits, the surrogates and the end of Unicode.
func runeSources(k *kind) []val {
	vs := []*big.Int{bi(0), bi(65), bi(0x7f), bi(0x80), bi(0xe9), bi(0xff), bi(0x7ff), bi(0x800), bi(0xd7ff), bi(0xd800), bi(0xdfff), bi(0xe000), bi(0xfffd), bi(0xffff), bi(0x10000), bi(0x10ffff), bi(0x110000), bi(-1)}
	return dedupeInts(k, vs)
}

// convPatterns are additional integer sources of numeric conversions.
func convPatterns(k *kind) []val {
	mask := new(big.Int).Sub(pow2(k.Bits), big.NewInt(1))
	var vs []*big.Int
	for _, p := range []uint64{0x8182838485868788, 0x7172737475767778, 0x0102030405060708, 0x00000000ff00ff80} {
		v := new(big.Int).SetUint64(p)
		v.And(v, mask)
		if k.Class == "sint" && v.Bit(k.Bits-1) == 1 {
			v.Sub(v, pow2(k.Bits))
		}
		vs = append(vs, v)
	}
	vs = append(vs, bi(16777217), bi(33554435), bi(9007199254740993), bi(-16777217), new(big.Int).SetUint64(0xffffffffffffe7ff))
	return dedupeInts(k, vs)
}

// ---------------------------------------------------------------------------
// kind tables

// valueSet is the boundary set of a kind.
func valueSet(k *kind, full bool) []val {
	switch k.Class {
	case "sint", "uint":
		return intSet(k, full)
	case "float":
		return floatSet(k, full)
	case "complex":
		return complexSet(k, full)
	case "string":
		return stringSet(full)
	case "bool":
		return boolSet()
	case "bytes":
		return bytesSet(full)
	case "runes":
		return runesSet(full)
	}
	return nil
}

// constSet is the set of constant operands of a kind: the values of the
// reduced set that have a constant form, and a few more in the full tier.
// Float and complex kinds have their own lists (most of their boundary values
// have no constant form): they include decimal fractions that must be rounded
// to the kind's precision, with both signs.
func constSet(k *kind, full bool) []val {
	switch k.Class {
	case "float":
		mx, big1, tiny := math.MaxFloat64, float64(1<<53-1), math.SmallestNonzeroFloat64
		if k.Bits == 32 {
			mx, big1, tiny = math.MaxFloat32, 1<<24-1, math.SmallestNonzeroFloat32
		}
		fs := []float64{0, 1.5, -0.1, mx, big1, 0.3}
		if full {
			fs = append(fs, 1, -1, -2.5, tiny, 1e10, -mx)
		}
		return dedupeFloats(k, fs)
	case "complex":
		mx := math.MaxFloat64
		if k.Bits == 64 {
			mx = math.MaxFloat32
		}
		ps := [][2]float64{{1, 2}, {-1.5, 0.5}, {0, 0}, {0.1, -0.3}, {mx, mx}, {0, 1}}
		if full {
			ps = append(ps, [2]float64{1, 0}, [2]float64{-0.1, 0.7}, [2]float64{3, -4}, [2]float64{1e10, 1e-10})
		}
		var out []val
		for _, p := range ps {
			out = append(out, complexVal(p[0], p[1], k))
		}
		return out
	}
	var out []val
	seen := map[string]bool{}
	addv := func(vs []val, max int) {
		for _, v := range vs {
			if v.Lit == "" || seen[v.Lit] || len(out) >= max {
				continue
			}
			seen[v.Lit] = true
			out = append(out, v)
		}
	}
	addv(valueSet(k, false), 6)
	if full {
		addv(valueSet(k, true), 9)
	}
	return out
}

// table is a named slice of operand values in a generated file.
type table struct {
	Name string
	K    *kind
	Vals []val
}

func kindTable(k *kind, full bool) *table {
	return &table{Name: "t" + k.Short, K: k, Vals: valueSet(k, full)}
}
