package c02

import (
	"fmt"
	"sort"
	"strconv"
	"strings"

	"verif/internal/vf"
)

type opInfo struct {
	Name string
	Tok  string
	Grp  string // arith bit shift cmp logic unary incdec conv
}

var ops = []*opInfo{
	{"add", "+", "arith"}, {"sub", "-", "arith"}, {"mul", "*", "arith"}, {"quo", "/", "arith"},
	{"rem", "%", "bit"}, {"and", "&", "bit"}, {"or", "|", "bit"}, {"xor", "^", "bit"}, {"andnot", "&^", "bit"},
	{"shl", "<<", "shift"}, {"shr", ">>", "shift"},
	{"eq", "==", "cmp"}, {"ne", "!=", "cmp"}, {"lt", "<", "cmp"}, {"le", "<=", "cmp"}, {"gt", ">", "cmp"}, {"ge", ">=", "cmp"},
	{"land", "&&", "logic"}, {"lor", "||", "logic"},
	{"pos", "+", "unary"}, {"neg", "-", "unary"}, {"bitnot", "^", "unary"}, {"not", "!", "unary"},
	{"inc", "++", "incdec"}, {"dec", "--", "incdec"},
	{"conv", "", "conv"},
}

func opByName(n string) *opInfo {
	for _, o := range ops {
		if o.Name == n {
			return o
		}
	}
	return nil
}

func (o *opInfo) applies(k *kind) bool {
	switch o.Name {
	case "add":
		return k.numeric() || k.Class == "string"
	case "sub", "mul", "quo", "pos", "neg", "inc", "dec":
		return k.numeric()
	case "rem", "and", "or", "xor", "andnot", "shl", "shr", "bitnot":
		return k.isInt()
	case "eq", "ne":
		return k.Class != "bytes" && k.Class != "runes"
	case "lt", "le", "gt", "ge":
		return k.ordered()
	case "land", "lor", "not":
		return k.Class == "bool"
	}
	return false
}

var formNames = map[byte]string{'v': "var", 'l': "lit", 'c': "tconst", 'u': "uconst"}

func formDesc(f string) string {
	if len(f) == 1 {
		return formNames[f[0]]
	}
	return formNames[f[0]] + "-" + formNames[f[1]]
}

// group is one (operator, kind, forms, context) combination: one generated
// cell function (or one per constant) applied to the value table(s).
type group struct {
	N      int
	Op     *opInfo
	K      *kind // operand kind (left operand of shifts, source of conversions)
	K2     *kind // count kind of shifts, target kind of conversions
	Forms  string
	Ctx    string // as def opas ret if iface stmt
	X      *table // values of the variable operand a
	Y      *table // values of the variable operand b (var-var only)
	Consts []val  // constant operands
	ConstK *kind  // kind of the constant operand
	RX, RY []val  // drawn operands
	ID     string
	Excl   string // key of the recorded finding that removed constructs from the group
}

func (g *group) result() *kind {
	switch g.Op.Grp {
	case "cmp", "logic":
		return kindByName("bool")
	case "conv":
		return g.K2
	}
	if g.Op.Name == "not" {
		return kindByName("bool")
	}
	return g.K
}

// isRet: the operation is the value of a return statement of a result function.
func (g *group) isRet() bool { return g.Ctx == "ret" || g.Ctx == "reti" }

// retType is the result type of the result function.
func (g *group) retType() string {
	if g.Ctx == "reti" {
		return "interface{}"
	}
	return g.result().Name
}

// aKind is the kind of the variable operand a.
func (g *group) aKind() *kind {
	if g.Op.Grp == "shift" && g.Forms[0] != 'v' {
		return g.K2
	}
	return g.K
}

func (g *group) bKind() *kind {
	if g.Op.Grp == "shift" {
		return g.K2
	}
	return g.K
}

// perConst: the variable operand can make the evaluation panic, so every
// constant gets its own function.
func (g *group) perConst() bool {
	if len(g.Forms) != 2 || g.Forms[0] == 'v' {
		return false
	}
	switch g.Op.Name {
	case "quo", "rem":
		return g.K.isInt()
	case "shl", "shr":
		return g.K2.Class == "sint"
	}
	return false
}

func (g *group) mkID() {
	k := g.K.Name
	if g.K2 != nil {
		k += "." + g.K2.Name
	}
	g.ID = g.Op.Name + "/" + k + "/" + g.Forms + "/" + g.Ctx
}

// cells is the number of evaluations the group performs.
func (g *group) cells(nrand int) int {
	nx := len(g.X.Vals)
	switch {
	case g.Forms == "vv":
		return nx*len(g.Y.Vals) + nrand
	case len(g.Forms) == 2:
		return (nx + nrand) * len(g.Consts)
	}
	return nx + nrand
}

func (g *group) estBytes(nrand int) int {
	w := 12
	switch g.result().Class {
	case "float":
		w = 42
	case "complex":
		w = 50
	case "string", "bytes", "runes":
		w = 24
	}
	if g.Ctx == "iface" {
		w += 10
	}
	return g.cells(nrand) * (len(g.ID) + 10 + w)
}

// ---------------------------------------------------------------------------
// enumeration of the cross product

type tier struct {
	Name  string
	Full  bool
	NRand int
}

var tiers = map[string]*tier{
	"quick":    {"quick", false, 2},
	"thorough": {"thorough", true, 8},
}

type planner struct {
	t      *tier
	tabs   map[string]*table
	groups []*group
}

func (p *planner) kindTab(k *kind) *table {
	if t, ok := p.tabs["t"+k.Short]; ok {
		return t
	}
	t := kindTable(k, p.t.Full)
	p.tabs[t.Name] = t
	return t
}

func (p *planner) shiftTab(w int, ck *kind) *table {
	name := fmt.Sprintf("tS%d%s", w, ck.Short)
	if t, ok := p.tabs[name]; ok {
		return t
	}
	t := &table{Name: name, K: ck, Vals: shiftCounts(w, ck, true)}
	p.tabs[name] = t
	return t
}

func (p *planner) add(g *group) {
	g.N = len(p.groups)
	g.mkID()
	p.groups = append(p.groups, g)
}

var binForms = []string{"vv", "vl", "vc", "vu", "lv", "cv", "uv"}

func nonZero(vs []val) []val {
	var out []val
	for _, v := range vs {
		if (v.I != nil && v.I.Sign() == 0) || v.Lit == "0" || v.Lit == "(0 + 0i)" {
			continue
		}
		out = append(out, v)
	}
	return out
}

func (p *planner) binary() {
	for _, o := range ops {
		switch o.Grp {
		case "arith", "bit", "cmp", "logic":
		default:
			continue
		}
		ctxs := []string{"as", "def", "opas", "ret", "reti", "if", "iface"}
		if o.Grp == "cmp" || o.Grp == "logic" {
			// ifn, ifna: the negated operation as branch condition, alone and as
			// left operand of && (a NaN operand makes !(a < b) differ from a >= b)
			ctxs = []string{"as", "def", "ret", "reti", "if", "iface", "ifn", "ifna"}
		}
		for _, k := range kinds {
			if !o.applies(k) {
				continue
			}
			for _, f := range binForms {
				for _, c := range ctxs {
					if c == "opas" && f[0] != 'v' {
						continue
					}
					g := &group{Op: o, K: k, Forms: f, Ctx: c, X: p.kindTab(k)}
					if f == "vv" {
						g.Y = p.kindTab(k)
					} else {
						g.Consts = constSet(k, p.t.Full)
						g.ConstK = k
						if (o.Name == "quo" || o.Name == "rem") && k.isInt() && f[0] == 'v' {
							g.Consts = nonZero(g.Consts) // a constant zero divisor is a compile error
						}
						if o.Name == "quo" && (k.isFloat() || k.isComplex()) && (f == "vl" || f == "vu") && c != "opas" && vf.IsKnown("C02", keyFloatDivZero) {
							// recorded finding: the whole function would be rejected
							g.Consts = nonZero(g.Consts)
							g.Excl = keyFloatDivZero
						}
					}
					p.add(g)
				}
			}
		}
	}
}

func (p *planner) shifts() {
	intKind := kindByName("int")
	for _, o := range ops {
		if o.Grp != "shift" {
			continue
		}
		for _, k := range kinds {
			if !k.isInt() {
				continue
			}
			for _, f := range binForms {
				for _, c := range []string{"as", "def", "opas", "ret", "reti", "if", "iface"} {
					if c == "opas" && f[0] != 'v' {
						continue
					}
					// an untyped constant left operand takes its type from the
					// context: int in a short declaration or interface value
					if (f == "lv" || f == "uv") && (c == "def" || c == "iface" || c == "reti") && k != intKind {
						continue
					}
					switch f {
					case "vl", "vu":
						// untyped constant count
						g := &group{Op: o, K: k, K2: intKind, Forms: f, Ctx: c, X: p.kindTab(k), ConstK: intKind}
						g.Consts = shiftCounts(k.Bits, kindByName("uint16"), false)[:6]
						p.add(g)
					default:
						for _, ck := range kinds {
							if !ck.isInt() {
								continue
							}
							g := &group{Op: o, K: k, K2: ck, Forms: f, Ctx: c}
							switch f {
							case "vv":
								g.X, g.Y = p.kindTab(k), p.shiftTab(k.Bits, ck)
							case "vc":
								g.X = p.kindTab(k)
								g.Consts, g.ConstK = shiftCounts(k.Bits, ck, false), ck
							default: // lv cv uv: constant left operand, variable count
								g.X = p.shiftTab(k.Bits, ck)
								g.Consts, g.ConstK = constSet(k, p.t.Full), k
							}
							p.add(g)
						}
					}
				}
			}
		}
	}
}

func (p *planner) unary() {
	for _, o := range ops {
		switch o.Grp {
		case "unary":
			for _, k := range kinds {
				if !o.applies(k) {
					continue
				}
				for _, c := range []string{"as", "def", "ret", "reti", "if", "iface"} {
					p.add(&group{Op: o, K: k, Forms: "v", Ctx: c, X: p.kindTab(k)})
				}
			}
		case "incdec":
			for _, k := range kinds {
				if o.applies(k) {
					p.add(&group{Op: o, K: k, Forms: "v", Ctx: "stmt", X: p.kindTab(k)})
				}
			}
		}
	}
}

func (p *planner) convTab(src, dst *kind) *table {
	base := p.kindTab(src)
	switch {
	case src.isFloat() && dst.isInt():
		name := "tC" + src.Short + dst.Short
		if t, ok := p.tabs[name]; ok {
			return t
		}
		var fs []float64
		for _, v := range base.Vals {
			fs = append(fs, v.F)
		}
		fs = append(fs, floatConvExtras(src, dst, p.t.Full)...)
		var keep []float64
		for _, f := range fs {
			if src.Bits == 32 {
				f = float64(float32(f))
			}
			if floatFitsInt(f, dst) {
				keep = append(keep, f)
			}
		}
		t := &table{Name: name, K: src, Vals: dedupeFloats(src, keep)}
		p.tabs[name] = t
		return t
	case src.Class == "float" && src.Bits == 64 && dst.Class == "float" && dst.Bits == 32:
		name := "tC" + src.Short + dst.Short
		if t, ok := p.tabs[name]; ok {
			return t
		}
		t := &table{Name: name, K: src}
		for _, v := range base.Vals {
			if floatFitsFloat32(v.F) {
				t.Vals = append(t.Vals, v)
			}
		}
		if p.t.Full {
			// rounding cases: halfway between two float32 values, below the smallest denormal
			t.Vals = append(t.Vals, floatVal(16777217, src), floatVal(16777219, src), floatVal(1e-46, src), floatVal(0.1, src), floatVal(3.4028235677973366e+38, src))
		} else {
			t.Vals = append(t.Vals, floatVal(16777217, src))
		}
		p.tabs[name] = t
		return t
	case src.Class == "complex" && src.Bits == 128 && dst.Bits == 64:
		name := "tC" + src.Short + dst.Short
		if t, ok := p.tabs[name]; ok {
			return t
		}
		t := &table{Name: name, K: src}
		for _, v := range base.Vals {
			if floatFitsFloat32(v.Re) && floatFitsFloat32(v.Im) {
				t.Vals = append(t.Vals, v)
			}
		}
		t.Vals = append(t.Vals, complexVal(16777217, 0.1, src))
		p.tabs[name] = t
		return t
	case src.isInt() && (dst.isInt() || dst.isFloat()):
		// bit patterns whose bytes differ, so that a conversion through a
		// narrower kind is visible, and integers that a float must round
		name := "tP" + src.Short
		if t, ok := p.tabs[name]; ok {
			return t
		}
		t := &table{Name: name, K: src}
		seen := map[string]bool{}
		for _, v := range append(append([]val{}, base.Vals...), convPatterns(src)...) {
			if !seen[v.Src] {
				seen[v.Src] = true
				t.Vals = append(t.Vals, v)
			}
		}
		p.tabs[name] = t
		return t
	case src.isInt() && dst.Class == "string":
		name := "tC" + src.Short + dst.Short
		if t, ok := p.tabs[name]; ok {
			return t
		}
		t := &table{Name: name, K: src}
		seen := map[string]bool{}
		for _, v := range append(append([]val{}, base.Vals...), runeSources(src)...) {
			if !seen[v.Src] {
				seen[v.Src] = true
				t.Vals = append(t.Vals, v)
			}
		}
		p.tabs[name] = t
		return t
	}
	return base
}

func (p *planner) convs() {
	o := opByName("conv")
	str := kindByName("string")
	var pairs [][2]*kind
	for _, a := range kinds {
		for _, b := range kinds {
			switch {
			case (a.isInt() || a.isFloat()) && (b.isInt() || b.isFloat()):
			case a.isComplex() && b.isComplex():
			case a.isInt() && b == str:
			case a == str && b == str:
			default:
				continue
			}
			pairs = append(pairs, [2]*kind{a, b})
		}
	}
	pairs = append(pairs, [2]*kind{str, kBytes}, [2]*kind{kBytes, str}, [2]*kind{str, kRunes}, [2]*kind{kRunes, str})
	for _, pr := range pairs {
		for _, c := range []string{"as", "def", "ret", "reti", "if", "iface"} {
			if c == "if" && (pr[1] == kBytes || pr[1] == kRunes) {
				continue
			}
			p.add(&group{Op: o, K: pr[0], K2: pr[1], Forms: "v", Ctx: c, X: p.convTab(pr[0], pr[1])})
		}
	}
}

type fileSpec struct {
	Idx    int
	Name   string
	Groups []*group
}

const (
	maxFileBytes  = 3_500_000
	maxFileGroups = 260
)

// plan enumerates the whole cross product for a tier and splits it into
// files by operator group.
func plan(t *tier) []*fileSpec {
	p := &planner{t: t, tabs: map[string]*table{}}
	p.tabs["tBytes"] = kindTable(kBytes, t.Full)
	p.tabs["tRunes"] = kindTable(kRunes, t.Full)
	p.binary()
	p.shifts()
	p.unary()
	p.convs()
	// chunk by operator
	var files []*fileSpec
	var cur *fileSpec
	bytes := 0
	for _, g := range p.groups {
		name := g.Op.Name
		b := g.estBytes(t.NRand)
		if cur == nil || cur.Name != name || len(cur.Groups) >= maxFileGroups || bytes+b > maxFileBytes {
			cur = &fileSpec{Idx: len(files), Name: name}
			files = append(files, cur)
			bytes = 0
		}
		cur.Groups = append(cur.Groups, g)
		bytes += b
	}
	return files
}

// ---------------------------------------------------------------------------
// rendering
//
// Operands reach a cell function as (table, index) and are loaded into the
// local variables a and b, and results are printed by fmt.Printf directly in
// the cell function: values never travel through parameters of interpreted
// functions (see the known finding negzero-call-argument).

const prelude = `package main

import (
	"fmt"
	"math"
)

var _ = math.Pi

func rc(id string, x, y int) {
	if recover() != nil {
		fmt.Printf("%s|%d|%d|PANIC\n", id, x, y)
	}
}

`

// printStmt prints value expression v of kind k for cell (id, x, y); pre is
// put in front of the value.
func printStmt(k *kind, id, x, y, pre, v string) string {
	h := `fmt.Printf("%s|%d|%d|` + pre
	a := fmt.Sprintf(", %s, %s, %s, %s", id, x, y, v)
	switch k.Class {
	case "sint", "uint", "runes":
		return h + `%d\n"` + a + ")"
	case "float":
		if k.Bits == 32 {
			return h + `%v %08x\n"` + a + ", math.Float32bits(" + v + "))"
		}
		return h + `%v %016x\n"` + a + ", math.Float64bits(" + v + "))"
	case "complex", "bool":
		return h + `%v\n"` + a + ")"
	case "string":
		return h + `%q\n"` + a + ")"
	case "bytes":
		return h + `%d:%x\n"` + fmt.Sprintf(", %s, %s, %s, len(%s), %s)", id, x, y, v, v)
	}
	panic("printStmt " + k.Name)
}

func ifacePrinterSrc() string {
	var b strings.Builder
	b.WriteString("func pIface(id string, x, y int, i interface{}) {\n\tswitch v := i.(type) {\n")
	for _, k := range append(append([]*kind{}, kinds...), kBytes, kRunes) {
		fmt.Fprintf(&b, "\tcase %s:\n\t\t%s\n", k.Name, printStmt(k, "id", "x", "y", k.Name+" ", "v"))
	}
	b.WriteString("\tdefault:\n\t\tfmt.Printf(\"%s|%d|%d|other\\n\", id, x, y)\n\t}\n}\n")
	return b.String()
}

type writer struct {
	decl strings.Builder
	main strings.Builder
	tabs map[string]*table
	ifc  bool
}

func newWriter() *writer {
	return &writer{tabs: map[string]*table{}}
}

func (w *writer) useTab(t *table) string {
	w.tabs[t.Name] = t
	return t.Name
}

func slice(k *kind, vs []val) string {
	var b strings.Builder
	b.WriteString("[]" + k.Name + "{")
	for i, v := range vs {
		if i > 0 {
			b.WriteString(", ")
		}
		b.WriteString(v.Src)
	}
	b.WriteString("}")
	return b.String()
}

// constText is the source text of constant j of the group in its form.
func (g *group) constText(form byte, j int) string {
	switch form {
	case 'l':
		return g.Consts[j].Lit
	case 'c':
		return fmt.Sprintf("k%d_%d", g.N, j)
	default:
		return fmt.Sprintf("u%d_%d", g.N, j)
	}
}

// expr is the evaluated expression with operand texts l and r.
func (g *group) expr(l, r string) string {
	switch g.Op.Grp {
	case "unary":
		return g.Op.Tok + l
	case "conv":
		return g.K2.Name + "(" + l + ")"
	}
	return l + " " + g.Op.Tok + " " + r
}

// stmt renders the evaluation of the expression with operands l, r in the
// group's context, printing with cell indices x, ys. fn is the name of the
// result function of the "ret" context (declared by the caller), called with
// args.
func (g *group) stmt(w *writer, l, r, ys, fn, args string) string {
	R := g.result()
	e := g.expr(l, r)
	id := strconv.Quote(g.ID)
	pr := func(k *kind, v string) string { return printStmt(k, id, "x", ys, "", v) }
	switch g.Ctx {
	case "as":
		return fmt.Sprintf("\tr = %s\n\t%s\n", e, pr(R, "r"))
	case "def":
		return fmt.Sprintf("\t{\n\t\tr := %s\n\t\t%s\n\t}\n", e, pr(R, "r"))
	case "opas":
		return fmt.Sprintf("\t{\n\t\tr := %s\n\t\tr %s= %s\n\t\t%s\n\t}\n", l, g.Op.Tok, r, pr(R, "r"))
	case "stmt":
		return fmt.Sprintf("\t{\n\t\tr := %s\n\t\tr%s\n\t\t%s\n\t}\n", l, g.Op.Tok, pr(R, "r"))
	case "ret":
		return fmt.Sprintf("\t{\n\t\tr := %s(%s)\n\t\t%s\n\t}\n", fn, args, pr(R, "r"))
	case "reti":
		w.ifc = true
		return fmt.Sprintf("\t{\n\t\ti := %s(%s)\n\t\tpIface(%s, x, %s, i)\n\t}\n", fn, args, id, ys)
	case "iface":
		w.ifc = true
		return fmt.Sprintf("\t{\n\t\tvar i interface{} = %s\n\t\tpIface(%s, x, %s, i)\n\t}\n", e, id, ys)
	case "ifn":
		return fmt.Sprintf("\tif !(%s) {\n\t\t%s\n\t} else {\n\t\t%s\n\t}\n", e, pr(R, "false"), pr(R, "true"))
	case "ifna":
		return fmt.Sprintf("\tfor n := 0; !(%s) && n < 1; n++ {\n\t\t%s\n\t\treturn\n\t}\n\t%s\n", e, pr(R, "false"), pr(R, "true"))
	case "if":
		if R.Class == "bool" {
			return fmt.Sprintf("\tif %s {\n\t\t%s\n\t} else {\n\t\t%s\n\t}\n", e, pr(R, "true"), pr(R, "false"))
		}
		s := fmt.Sprintf("\t{\n\t\tvar c %s\n\t\tc = %s\n\t\tt := 0\n\t\tif (%s) == c {\n\t\t\tt = 1\n\t\t}\n", R.Name, e, e)
		if g.aKind() == R && g.Op.Grp != "conv" {
			s += fmt.Sprintf("\t\tif (%s) == a {\n\t\t\tt += 2\n\t\t}\n", e)
		}
		return s + fmt.Sprintf("\t\t%s\n\t}\n", pr(kindByName("int"), "t"))
	}
	panic("bad ctx " + g.Ctx)
}

// emit writes the declarations of a group and its driver call.
func (g *group) emit(w *writer) {
	R := g.result()
	d := &w.decl
	fmt.Fprintf(d, "// %s\n", g.ID)
	aK := g.aKind()
	preamble := func(ys string) string {
		s := fmt.Sprintf("\tdefer rc(%q, x, %s)\n", g.ID, ys)
		if g.Ctx == "as" {
			s += "\tvar r " + R.Name + "\n"
		}
		return s
	}
	drv := &strings.Builder{}
	fmt.Fprintf(drv, "func d%d() {\n", g.N)
	xt := w.useTab(g.X)
	if g.Forms == "vv" {
		bK := g.bKind()
		fn := fmt.Sprintf("c%dr", g.N)
		params := fmt.Sprintf("i, j int, ta []%s, tb []%s", aK.Name, bK.Name)
		if g.isRet() {
			fmt.Fprintf(d, "func %s(%s) %s {\n\ta, b := ta[i], tb[j]\n\treturn %s\n}\n", fn, params, g.retType(), g.expr("a", "b"))
		}
		load := "\ta, b := ta[i], tb[j]\n"
		if g.isRet() {
			load = "" // the operands are used by the result function only
		}
		fmt.Fprintf(d, "func c%d(x, y, %s) {\n%s%s%s}\n", g.N, params, preamble("y"), load, g.stmt(w, "a", "b", "y", fn, "i, j, ta, tb"))
		yt := w.useTab(g.Y)
		fmt.Fprintf(drv, "\tfor x := range %s {\n\t\tfor y := range %s {\n\t\t\tc%d(x, y, x, y, %s, %s)\n\t\t}\n\t}\n", xt, yt, g.N, xt, yt)
		if len(g.RX) > 0 {
			fmt.Fprintf(d, "var x%d = %s\nvar y%d = %s\n", g.N, slice(aK, g.RX), g.N, slice(bK, g.RY))
			fmt.Fprintf(drv, "\tfor k := range x%d {\n\t\tc%d(1000+k, 1000+k, k, k, x%d, y%d)\n\t}\n", g.N, g.N, g.N, g.N)
		}
	} else {
		params := fmt.Sprintf("i int, ta []%s", aK.Name)
		load := "\ta := ta[i]\n"
		if g.isRet() {
			load = ""
		}
		var calls []string
		if len(g.Forms) == 1 {
			fn := fmt.Sprintf("c%dr", g.N)
			if g.isRet() {
				fmt.Fprintf(d, "func %s(%s) %s {\n\ta := ta[i]\n\treturn %s\n}\n", fn, params, g.retType(), g.expr("a", ""))
			}
			fmt.Fprintf(d, "func c%d(x, %s) {\n%s%s%s}\n", g.N, params, preamble("0"), load, g.stmt(w, "a", "", "0", fn, "i, ta"))
			calls = append(calls, fmt.Sprintf("c%d", g.N))
		} else {
			cf := g.Forms[0]
			if cf == 'v' {
				cf = g.Forms[1]
			}
			var body strings.Builder
			for j, cv := range g.Consts {
				switch cf {
				case 'c':
					fmt.Fprintf(d, "const k%d_%d %s = %s\n", g.N, j, g.ConstK.Name, cv.Lit)
				case 'u':
					fmt.Fprintf(d, "const u%d_%d = %s\n", g.N, j, cv.Lit)
				}
				l, r := "a", g.constText(cf, j)
				if g.Forms[0] != 'v' {
					l, r = r, l
				}
				fn := fmt.Sprintf("c%dr%d", g.N, j)
				if g.isRet() {
					fmt.Fprintf(d, "func %s(%s) %s {\n\ta := ta[i]\n\treturn %s\n}\n", fn, params, g.retType(), g.expr(l, r))
				}
				st := g.stmt(w, l, r, fmt.Sprint(j), fn, "i, ta")
				if g.perConst() {
					fmt.Fprintf(d, "func c%d_%d(x, %s) {\n%s%s%s}\n", g.N, j, params, preamble(fmt.Sprint(j)), load, st)
					calls = append(calls, fmt.Sprintf("c%d_%d", g.N, j))
				} else {
					body.WriteString(st)
				}
			}
			if !g.perConst() {
				fmt.Fprintf(d, "func c%d(x, %s) {\n%s%s%s}\n", g.N, params, preamble("-1"), load, body.String())
				calls = append(calls, fmt.Sprintf("c%d", g.N))
			}
		}
		fmt.Fprintf(drv, "\tfor x := range %s {\n", xt)
		for _, c := range calls {
			fmt.Fprintf(drv, "\t\t%s(x, x, %s)\n", c, xt)
		}
		drv.WriteString("\t}\n")
		if len(g.RX) > 0 {
			fmt.Fprintf(d, "var x%d = %s\n", g.N, slice(aK, g.RX))
			fmt.Fprintf(drv, "\tfor k := range x%d {\n", g.N)
			for _, c := range calls {
				fmt.Fprintf(drv, "\t\t%s(1000+k, k, x%d)\n", c, g.N)
			}
			drv.WriteString("\t}\n")
		}
	}
	drv.WriteString("}\n\n")
	d.WriteString(drv.String())
	fmt.Fprintf(&w.main, "\td%d()\n", g.N)
}

// render produces the program evaluating the given groups. With dump, the
// shared tables are printed first, so that a defect in building a table is
// not blamed on an operator.
func render(groups []*group, dump bool) string {
	w := newWriter()
	for _, g := range groups {
		g.emit(w)
	}
	var names []string
	for n := range w.tabs {
		names = append(names, n)
	}
	sort.Strings(names)
	var b strings.Builder
	b.WriteString(prelude)
	var tabs, dumps strings.Builder
	for _, n := range names {
		t := w.tabs[n]
		fmt.Fprintf(&tabs, "var %s = %s\n", t.Name, slice(t.K, t.Vals))
		if dump {
			fmt.Fprintf(&dumps, "\tfor x, a := range %s {\n\t\t%s\n\t}\n", t.Name, printStmt(t.K, strconv.Quote("tab/"+t.Name+"/v/dump"), "x", "0", "", "a"))
		}
	}
	if w.ifc {
		b.WriteString(ifacePrinterSrc())
	}
	b.WriteString("\n")
	b.WriteString(tabs.String())
	b.WriteString("\n")
	b.WriteString(w.decl.String())
	b.WriteString("func main() {\n")
	b.WriteString(dumps.String())
	b.WriteString(w.main.String())
	fmt.Fprintf(&b, "\tfmt.Printf(\"end|0|0|%d\\n\")\n}\n", len(groups))
	return b.String()
}
