// Package c02 holds the check of property C02.
package c02
