package c02

import (
	"strconv"
	"strings"
)

// rule maps differing cells to a recorded root cause. A rule generalises only
// over the dimensions its root cause was verified to span; every other
// differing cell keeps its generic signature (operator, kinds, forms,
// context, symptom) and is reported as a violation.
type rule struct {
	Key   string
	Match func(c Cell, nat, ya, sym string) bool
}

// keys of the recorded root causes (known_findings.jsonl)
const (
	keyNegShift     = "shift-negative-count-no-panic"
	keyC64Const     = "complex64-typed-constant-not-rounded"
	keyC64Lit       = "complex64-literal-not-rounded-in-assignment"
	keyFloatDivZero = "float-division-by-constant-zero-rejected"
	keyUintptrInc   = "uintptr-incdec-ends-function"
	keyShiftCmp     = "untyped-const-shift-in-comparison-ends-function"
	keyNegZeroArg   = "negzero-call-argument"
)

func isShift(op string) bool { return op == "shl" || op == "shr" }

func signedKind(k string) bool { return strings.HasPrefix(k, "int") }

// countOperand is the shift count of a shift cell.
func countOperand(c Cell) string {
	if c.Forms[0] == 'v' {
		return c.Y
	}
	return c.X
}

func hasConstForm(forms string, set string) bool {
	return len(forms) == 2 && forms != "vv" && strings.ContainsAny(forms, set)
}

// inexactFloat32Parts: the constant "(re,im)" has a part whose decimal text
// does not denote a float32 value exactly.
func inexactFloat32Parts(disp string) bool {
	disp = strings.TrimSuffix(strings.TrimPrefix(disp, "("), ")")
	for _, p := range strings.Split(disp, ",") {
		f, err := strconv.ParseFloat(p, 64)
		if err != nil {
			return false
		}
		if float64(float32(f)) != f {
			return true
		}
	}
	return false
}

var rules = []rule{
	// a negative zero passed as argument to an interpreted function; the
	// generated programs avoid it by construction (operands are loaded from
	// tables, results printed in place), only the stored replay has this cell
	{keyNegZeroArg, func(c Cell, nat, ya, sym string) bool {
		return c.Op == "arg" && sym == "value" && strings.HasPrefix(c.X, "-0")
	}},
	// a negative variable shift count (signed count kind) yields a value
	// instead of a run-time panic: every left kind, var-var and constant-left
	// forms, every context
	{keyNegShift, func(c Cell, nat, ya, sym string) bool {
		return isShift(c.Op) && sym == "no-panic" && signedKind(c.Kind2) && strings.HasPrefix(countOperand(c), "-")
	}},
	// a typed complex64 constant whose parts are not float32 values in
	// decimal is used with float64 precision: every operator, both operand
	// positions, every context
	{keyC64Const, func(c Cell, nat, ya, sym string) bool {
		return c.Kind == "complex64" && sym == "value" && hasConstForm(c.Forms, "c") && inexactFloat32Parts(c.Y)
	}},
	// the same for a complex literal operand when the result is assigned to
	// an existing variable (r = a op lit, r op= lit; the if context computes
	// its reference value that way)
	{keyC64Lit, func(c Cell, nat, ya, sym string) bool {
		return c.Kind == "complex64" && sym == "value" && hasConstForm(c.Forms, "l") && (c.Ctx == "as" || c.Ctx == "opas" || c.Ctx == "if") && inexactFloat32Parts(c.Y)
	}},
	// x / 0 with a float or complex variable x and an untyped constant zero
	{keyFloatDivZero, func(c Cell, nat, ya, sym string) bool {
		return c.Op == "quo" && (strings.HasPrefix(c.Kind, "float") || strings.HasPrefix(c.Kind, "complex")) && (c.Forms == "vl" || c.Forms == "vu") &&
			strings.HasPrefix(sym, "rejects-valid: invalid operation: division by zero")
	}},
	// x++ / x-- on a uintptr variable
	{keyUintptrInc, func(c Cell, nat, ya, sym string) bool {
		return (c.Op == "inc" || c.Op == "dec") && c.Kind == "uintptr" && sym == "missing"
	}},
	// (1 << n) == x
	{keyShiftCmp, func(c Cell, nat, ya, sym string) bool {
		return isShift(c.Op) && (c.Forms == "lv" || c.Forms == "uv") && c.Ctx == "if" && sym == "missing"
	}},
}
