// Package c03 checks property C03: constant expressions follow Go's exact
// constant semantics. Oracle: go/types + go/constant on the same source.
package c03

import (
	"encoding/json"
	"fmt"
	"go/ast"
	"go/constant"
	"go/importer"
	"go/parser"
	"go/token"
	"go/types"
	"math"
	"math/big"
	"os"
	"path/filepath"
	"reflect"
	"sort"
	"strings"
	"sync"
	"time"

	"pgregory.net/rapid"

	"verif/internal/vf"
	"verif/internal/yrun"
)

// Obs is one observation of a constant in the generated program.
//
//	var      var vN = Expr                      (default type)
//	typed    var vN T = Expr                    (assignment position)
//	arg      vN := fN(Expr), func fN(x T) T     (argument position)
//	shiftvar var sN T = 1; vN := sN << Expr     (constant shift count of a non-constant shift)
//	case     var xN T = K; switch xN { case Expr: hit; default: miss }
type Obs struct {
	Form string `json:"form"`
	T    string `json:"t,omitempty"`
	Expr string `json:"expr"`
	K    string `json:"k,omitempty"`
}

// Case is one generated program: package-level declarations (each element one
// complete declaration) and the observed constant expressions.
type Case struct {
	Origin string   `json:"origin"`
	Decls  []string `json:"decls"`
	Obs    []Obs    `json:"obs"`
}

// ---------------------------------------------------------------------------
// rendering

type span struct{ from, to int }

type rendered struct {
	src   string
	exprs []span // byte range of Obs[i].Expr in src
	ks    []span // byte range of Obs[i].K (case form)
	decls []span // byte range of Decls[i]
}

func (c *Case) render() *rendered {
	r := &rendered{}
	var b strings.Builder
	b.WriteString("package main\n\nimport \"fmt\"\n\n")
	for _, d := range c.Decls {
		r.decls = append(r.decls, span{b.Len(), b.Len() + len(d)})
		b.WriteString(d)
		b.WriteString("\n")
	}
	for i, o := range c.Obs {
		if o.Form == "arg" {
			fmt.Fprintf(&b, "func f%d(x %s) %s { return x }\n", i, o.T, o.T)
		}
	}
	b.WriteString("\nfunc main() {\n")
	put := func(s string) span {
		sp := span{b.Len(), b.Len() + len(s)}
		b.WriteString(s)
		return sp
	}
	for i, o := range c.Obs {
		ksp := span{}
		var esp span
		switch o.Form {
		case "typed":
			fmt.Fprintf(&b, "\tvar v%d %s = ", i, o.T)
			esp = put(o.Expr)
			fmt.Fprintf(&b, "\n\tfmt.Printf(\"%%v|%%T\\n\", v%d, v%d)\n", i, i)
		case "arg":
			fmt.Fprintf(&b, "\tv%d := f%d(", i, i)
			esp = put(o.Expr)
			fmt.Fprintf(&b, ")\n\tfmt.Printf(\"%%v|%%T\\n\", v%d, v%d)\n", i, i)
		case "shiftvar":
			fmt.Fprintf(&b, "\tvar s%d %s = 1\n\tv%d := s%d << ", i, o.T, i, i)
			esp = put(o.Expr)
			fmt.Fprintf(&b, "\n\tfmt.Printf(\"%%v|%%T\\n\", v%d, v%d)\n", i, i)
		case "case":
			fmt.Fprintf(&b, "\tvar x%d %s = ", i, o.T)
			ksp = put(o.K)
			fmt.Fprintf(&b, "\n\tswitch x%d {\n\tcase ", i)
			esp = put(o.Expr)
			b.WriteString(":\n\t\tfmt.Println(\"hit\")\n\tdefault:\n\t\tfmt.Println(\"miss\")\n\t}\n")
		default: // var
			fmt.Fprintf(&b, "\tvar v%d = ", i)
			esp = put(o.Expr)
			fmt.Fprintf(&b, "\n\tfmt.Printf(\"%%v|%%T\\n\", v%d, v%d)\n", i, i)
		}
		r.exprs = append(r.exprs, esp)
		r.ks = append(r.ks, ksp)
	}
	b.WriteString("}\n")
	r.src = b.String()
	return r
}

// ---------------------------------------------------------------------------
// oracle

var (
	impOnce sync.Once
	impFset *token.FileSet
	imp     types.Importer
	impMu   sync.Mutex
)

// cachingImporter serialises the source importer and remembers its packages
// (srcimporter consults go/build on every Import, which costs a millisecond).
type cachingImporter struct {
	types.Importer
	pkgs map[string]*types.Package
}

func (l *cachingImporter) Import(path string) (*types.Package, error) {
	impMu.Lock()
	defer impMu.Unlock()
	if p, ok := l.pkgs[path]; ok {
		return p, nil
	}
	p, err := l.Importer.Import(path)
	if err == nil {
		l.pkgs[path] = p
	}
	return p, err
}

func theImporter() types.Importer {
	impOnce.Do(func() {
		impFset = token.NewFileSet()
		imp = &cachingImporter{Importer: importer.ForCompiler(impFset, "source", nil), pkgs: map[string]*types.Package{}}
	})
	return imp
}

// verdict is what go/types says about a rendered program.
type verdict struct {
	parseErr error
	file     *ast.File
	fset     *token.FileSet
	info     *types.Info
	errs     []types.Error
	r        *rendered
}

func (v *verdict) accepted() bool { return v.parseErr == nil && len(v.errs) == 0 }

func (v *verdict) firstErr() string {
	if v.parseErr != nil {
		return "parse: " + v.parseErr.Error()
	}
	if len(v.errs) == 0 {
		return ""
	}
	return v.errs[0].Msg
}

func typecheck(r *rendered) *verdict {
	v := &verdict{r: r, fset: token.NewFileSet()}
	f, err := parser.ParseFile(v.fset, "main.go", r.src, parser.SkipObjectResolution)
	if err != nil {
		v.parseErr = err
		return v
	}
	v.file = f
	v.info = &types.Info{
		Types: map[ast.Expr]types.TypeAndValue{},
		Defs:  map[*ast.Ident]types.Object{},
		Uses:  map[*ast.Ident]types.Object{},
	}
	conf := types.Config{
		Importer: theImporter(),
		Error: func(err error) {
			if te, ok := err.(types.Error); ok {
				if !te.Soft {
					v.errs = append(v.errs, te)
				}
			} else {
				v.errs = append(v.errs, types.Error{Msg: err.Error()})
			}
		},
		GoVersion: "go1.22",
	}
	_, _ = conf.Check("main", v.fset, []*ast.File{f}, v.info)
	return v
}

// largestArray returns the largest array length of a declared array type.
func (v *verdict) largestArray() int64 {
	var max int64
	if v.file == nil {
		return 0
	}
	ast.Inspect(v.file, func(n ast.Node) bool {
		at, ok := n.(*ast.ArrayType)
		if !ok || at.Len == nil {
			return true
		}
		if tv, ok := v.info.Types[at.Len]; ok && tv.Value != nil {
			if b := bigOf(tv.Value); b != nil && b.Sign() > 0 {
				if !b.IsInt64() {
					max = math.MaxInt64
				} else if b.Int64() > max {
					max = b.Int64()
				}
			}
		}
		return true
	})
	return max
}

// exprAt returns the outermost expression spanning exactly the byte range.
func (v *verdict) exprAt(sp span) ast.Expr {
	if v.file == nil || sp.to <= sp.from {
		return nil
	}
	base := v.fset.File(v.file.Pos()).Base()
	var found ast.Expr
	ast.Inspect(v.file, func(n ast.Node) bool {
		if n == nil || found != nil {
			return false
		}
		from, to := int(n.Pos())-base, int(n.End())-base
		if to <= sp.from || from >= sp.to {
			return from <= sp.from && to >= sp.to
		}
		if e, ok := n.(ast.Expr); ok && from == sp.from && to == sp.to {
			found = e
			return false
		}
		return true
	})
	return found
}

// implLimit recognises go/types errors that come from implementation
// restrictions (512-bit constants, shift counts above 1074) rather than from
// the language specification.
func implLimit(msg string) bool {
	if strings.Contains(msg, "invalid shift count") {
		return true
	}
	return strings.Contains(msg, "overflow") && !strings.Contains(msg, "overflows") && strings.HasPrefix(msg, "constant ")
}

// rejectClass maps a go/types error text to a coarse rejection reason.
func rejectClass(msg string) string {
	switch {
	case msg == "":
		return ""
	case strings.HasPrefix(msg, "parse:"):
		return "parse"
	case strings.Contains(msg, "division by zero"):
		return "divzero"
	case strings.Contains(msg, "truncated"):
		return "truncated"
	case strings.Contains(msg, "negative shift count"):
		return "negshift"
	case strings.Contains(msg, "invalid shift count"), strings.Contains(msg, "shift count"):
		return "shiftcount"
	case strings.Contains(msg, "shifted operand"), strings.Contains(msg, "shift of type"):
		return "shiftoperand"
	case strings.Contains(msg, "overflows"), strings.Contains(msg, "overflow"):
		return "overflow"
	case strings.Contains(msg, "mismatched types"):
		return "mismatch"
	case strings.Contains(msg, "not defined on"):
		return "opundefined"
	case strings.Contains(msg, "cannot convert"):
		return "convert"
	case strings.Contains(msg, "cannot use"):
		return "assign"
	case strings.Contains(msg, "array length"), strings.Contains(msg, "invalid array"):
		return "arraylen"
	case strings.Contains(msg, "duplicate case"):
		return "dupcase"
	case strings.Contains(msg, "is not constant"), strings.Contains(msg, "not constant"):
		return "notconst"
	case strings.Contains(msg, "initialization cycle"), strings.Contains(msg, "cycle"):
		return "cycle"
	}
	return "other"
}

var basicNames = map[types.BasicKind]string{
	types.Bool: "bool", types.String: "string",
	types.Int: "int", types.Int8: "int8", types.Int16: "int16", types.Int32: "int32", types.Int64: "int64",
	types.Uint: "uint", types.Uint8: "uint8", types.Uint16: "uint16", types.Uint32: "uint32", types.Uint64: "uint64", types.Uintptr: "uintptr",
	types.Float32: "float32", types.Float64: "float64", types.Complex64: "complex64", types.Complex128: "complex128",
}

func noNegZero(f float64) float64 {
	if f == 0 {
		return 0
	}
	return f
}

// formatConst renders value val of basic type typ exactly as
// fmt.Printf("%v|%T") prints the Go variable holding it. ok is false when the
// pair is outside what the harness can predict (then the case is discarded).
func formatConst(val constant.Value, typ types.Type) (string, bool) {
	b, isBasic := typ.Underlying().(*types.Basic)
	if !isBasic || val == nil || val.Kind() == constant.Unknown {
		return "", false
	}
	if _, named := typ.(*types.Named); named {
		return "", false
	}
	name, ok := basicNames[b.Kind()]
	if !ok {
		return "", false
	}
	var s string
	switch {
	case b.Info()&types.IsInteger != 0:
		x := constant.ToInt(val)
		if x.Kind() != constant.Int {
			return "", false
		}
		if _, fits := fit(x, name); !fits {
			return "", false
		}
		s = x.ExactString()
	case b.Kind() == types.Float32:
		x := constant.ToFloat(val)
		if x.Kind() != constant.Float {
			return "", false
		}
		f, _ := constant.Float32Val(x)
		if math.IsInf(float64(f), 0) {
			return "", false
		}
		s = fmt.Sprintf("%v", float32(noNegZero(float64(f))))
	case b.Kind() == types.Float64:
		x := constant.ToFloat(val)
		if x.Kind() != constant.Float {
			return "", false
		}
		f, _ := constant.Float64Val(x)
		if math.IsInf(f, 0) {
			return "", false
		}
		s = fmt.Sprintf("%v", noNegZero(f))
	case b.Kind() == types.Complex64:
		x := constant.ToComplex(val)
		if x.Kind() != constant.Complex {
			return "", false
		}
		re, _ := constant.Float32Val(constant.Real(x))
		im, _ := constant.Float32Val(constant.Imag(x))
		if math.IsInf(float64(re), 0) || math.IsInf(float64(im), 0) {
			return "", false
		}
		s = fmt.Sprintf("%v", complex(float32(noNegZero(float64(re))), float32(noNegZero(float64(im)))))
	case b.Kind() == types.Complex128:
		x := constant.ToComplex(val)
		if x.Kind() != constant.Complex {
			return "", false
		}
		re, _ := constant.Float64Val(constant.Real(x))
		im, _ := constant.Float64Val(constant.Imag(x))
		if math.IsInf(re, 0) || math.IsInf(im, 0) {
			return "", false
		}
		s = fmt.Sprintf("%v", complex(noNegZero(re), noNegZero(im)))
	case b.Kind() == types.String:
		if val.Kind() != constant.String {
			return "", false
		}
		s = constant.StringVal(val)
	case b.Kind() == types.Bool:
		if val.Kind() != constant.Bool {
			return "", false
		}
		s = fmt.Sprintf("%v", constant.BoolVal(val))
	default:
		return "", false
	}
	return s + "|" + name, true
}

var intWidth = map[string]uint{"int": 64, "int8": 8, "int16": 16, "int32": 32, "int64": 64,
	"uint": 64, "uint8": 8, "uint16": 16, "uint32": 32, "uint64": 64, "uintptr": 64, "byte": 8, "rune": 32}

func isSignedName(t string) bool { return strings.HasPrefix(t, "int") || t == "rune" }

func canonType(t string) string {
	switch t {
	case "byte":
		return "uint8"
	case "rune":
		return "int32"
	}
	return t
}

// expectation computes, for an accepted program, the exact stdout lines.
// problem is non-empty when the harness cannot predict the output (generator
// trouble, never a verdict).
func (v *verdict) expectation(c *Case) (lines []string, problem string) {
	for i, o := range c.Obs {
		e := v.exprAt(v.r.exprs[i])
		if e == nil {
			return nil, fmt.Sprintf("obs %d: expression %q not found in the parsed program", i, o.Expr)
		}
		tv, ok := v.info.Types[e]
		if !ok || tv.Value == nil {
			return nil, fmt.Sprintf("obs %d: %q is not a constant for go/types", i, o.Expr)
		}
		switch o.Form {
		case "var", "":
			s, ok := formatConst(tv.Value, types.Default(tv.Type))
			if !ok {
				return nil, fmt.Sprintf("obs %d: cannot predict %q of type %v", i, o.Expr, tv.Type)
			}
			lines = append(lines, s)
		case "typed", "arg":
			// go/types records the converted (rounded) value and the target type
			s, ok := formatConst(tv.Value, tv.Type)
			if !ok || !strings.HasSuffix(s, "|"+canonType(o.T)) {
				return nil, fmt.Sprintf("obs %d: cannot predict %q as %s (recorded type %v)", i, o.Expr, o.T, tv.Type)
			}
			lines = append(lines, s)
		case "shiftvar":
			w, ok := intWidth[o.T]
			cnt := constant.ToInt(tv.Value)
			if !ok || cnt.Kind() != constant.Int || constant.Sign(cnt) < 0 {
				return nil, fmt.Sprintf("obs %d: bad shift observation", i)
			}
			res := new(big.Int)
			if n, exact := constant.Uint64Val(cnt); exact && n < uint64(w) {
				res.Lsh(big.NewInt(1), uint(n))
				if isSignedName(o.T) && n == uint64(w-1) {
					res.Neg(res) // 1<<(w-1) wraps to the minimum
				}
			}
			lines = append(lines, res.String()+"|"+canonType(o.T))
		case "case":
			k := v.exprAt(v.r.ks[i])
			ktv, ok := v.info.Types[k]
			if k == nil || !ok || ktv.Value == nil {
				return nil, fmt.Sprintf("obs %d: switch tag %q is not constant", i, o.K)
			}
			if constant.Compare(constant.ToInt(ktv.Value), token.EQL, constant.ToInt(tv.Value)) {
				lines = append(lines, "hit")
			} else {
				lines = append(lines, "miss")
			}
		default:
			return nil, "unknown observation form " + o.Form
		}
	}
	return lines, ""
}

// ---------------------------------------------------------------------------
// yaegi side

type observed struct {
	class  string // yrun outcome class, "eval-ok"/"eval-error"/"eval-novalue" in REPL mode, "crash"/"timeout" from the worker
	stdout string
	err    string
}

// rejected reports whether the interpreter refused the program with an error
// before evaluating anything.
func (o observed) rejected() bool { return o.class == yrun.Compile || o.class == "eval-error" }

// evaluated reports whether the interpreter evaluated the program.
func (o observed) evaluated() bool {
	return o.class == yrun.OK || o.class == yrun.Panic || o.class == yrun.Error || o.class == "eval-ok"
}

func runProgramLocal(src string) observed {
	out, _ := yrun.Execute(&yrun.Job{Src: src, OpBudget: 2_000_000}, 0)
	return observed{class: out.Class, stdout: out.Stdout, err: out.Err}
}

// replEligible: the Eval sub-check applies to cases whose observations are all
// plain `var v = expr`.
func (c *Case) replEligible() bool {
	for _, o := range c.Obs {
		if o.Form != "var" && o.Form != "" {
			return false
		}
	}
	return len(c.Obs) > 0
}

// runREPL evaluates the declarations, then every expression with
// Interpreter.Eval and prints the returned reflect.Value like the program
// mode does.
func runREPLLocal(c *Case) (res observed) {
	defer func() {
		if p := recover(); p != nil {
			res = observed{class: yrun.Escaped, err: fmt.Sprint(p)}
		}
	}()
	var so, se strings.Builder
	i := yrun.NewInterp(&yrun.Job{}, &so, &se)
	if len(c.Decls) > 0 {
		if _, err := i.Eval(strings.Join(c.Decls, "\n") + "\n"); err != nil {
			return observed{class: "eval-error", err: err.Error()}
		}
	}
	var b strings.Builder
	for _, o := range c.Obs {
		v, err := i.Eval(o.Expr)
		if err != nil {
			return observed{class: "eval-error", err: err.Error(), stdout: b.String()}
		}
		if !v.IsValid() || !v.CanInterface() {
			return observed{class: "eval-novalue", err: "Eval returned no usable value for " + o.Expr, stdout: b.String()}
		}
		switch v.Kind() {
		case reflect.Bool, reflect.String, reflect.Int, reflect.Int8, reflect.Int16, reflect.Int32, reflect.Int64,
			reflect.Uint, reflect.Uint8, reflect.Uint16, reflect.Uint32, reflect.Uint64, reflect.Uintptr,
			reflect.Float32, reflect.Float64, reflect.Complex64, reflect.Complex128:
			if v.Type().PkgPath() != "" {
				return observed{class: "eval-novalue", err: "Eval returned a named type " + v.Type().String(), stdout: b.String()}
			}
			fmt.Fprintf(&b, "%v|%s\n", v.Interface(), v.Type().String())
		default:
			// e.g. a go/constant value: not comparable soundly
			return observed{class: "eval-novalue", err: "Eval returned " + v.Type().String(), stdout: b.String()}
		}
	}
	return observed{class: "eval-ok", stdout: b.String()}
}

// ---------------------------------------------------------------------------
// comparison

// result of checking one case in one mode.
type result struct {
	div     string // "", accepted, rejected, value, type, crash
	msg     string
	discard string // harness could not decide (never a verdict)
	goOK    bool
	goErr   string
}

func compare(c *Case, v *verdict, got observed, mode string) result {
	res := result{goOK: v.accepted(), goErr: v.firstErr()}
	if got.class == "timeout" {
		res.discard = "worker timeout: " + got.err
		return res
	}
	if !res.goOK {
		for _, e := range v.errs {
			if implLimit(e.Msg) {
				res.discard = "implementation limit of go/types, not a language rule: " + e.Msg
				return res
			}
		}
		switch {
		case got.rejected():
		case got.evaluated():
			res.div = "accepted"
			res.msg = fmt.Sprintf("%s mode: go/types rejects (%s) but yaegi evaluated it: class=%s stdout=%q err=%q", mode, res.goErr, got.class, got.stdout, got.err)
		case got.class == yrun.Escaped || got.class == "crash":
			// Neither "rejected with an error" nor evaluated: a Go panic or fatal error left the
			// interpreter. The property only opposes rejection to evaluation, and escaping panics
			// are the subject of C06, so this outcome is counted but not decided here.
			res.discard = "go rejects, yaegi " + got.class
		default:
			res.discard = "go rejects, yaegi " + got.class
		}
		return res
	}
	want, problem := v.expectation(c)
	if problem != "" {
		res.discard = problem
		return res
	}
	wantOut := strings.Join(want, "\n") + "\n"
	switch {
	case got.rejected():
		res.div = "rejected"
		res.msg = fmt.Sprintf("%s mode: go/types accepts (want %q) but yaegi rejects: %s", mode, wantOut, got.err)
	case got.class == "eval-novalue":
		res.discard = got.err
	case got.class != yrun.OK && got.class != "eval-ok":
		res.div = "crash"
		res.msg = fmt.Sprintf("%s mode: go/types accepts (want %q) but yaegi ended with class=%s err=%q stdout=%q", mode, wantOut, got.class, got.err, got.stdout)
	case got.stdout != wantOut:
		res.div = "value"
		gl := strings.Split(strings.TrimSuffix(got.stdout, "\n"), "\n")
		for i := range want {
			if i >= len(gl) {
				break
			}
			if gl[i] != want[i] {
				wi, gi := strings.LastIndex(want[i], "|"), strings.LastIndex(gl[i], "|")
				if wi >= 0 && gi >= 0 && want[i][:wi] == gl[i][:gi] {
					res.div = "type"
				}
				break
			}
		}
		res.msg = fmt.Sprintf("%s mode: want %q, yaegi printed %q", mode, wantOut, got.stdout)
	}
	return res
}

// checkCase runs both modes. It returns the failing mode ("prog"/"eval"), the
// result of that mode, and the verdict for further analysis.
func checkCase(c *Case, skipProg, skipEval bool) (mode string, res result, v *verdict, discards []string) {
	r := c.render()
	v = typecheck(r)
	if v.parseErr != nil {
		return "", result{discard: "generated program does not parse: " + v.parseErr.Error()}, v, []string{"parse"}
	}
	if n := v.largestArray(); n > 65536 {
		// never hand the interpreter (or the gc compiler) an array type of this size
		return "", result{discard: fmt.Sprintf("array of %d elements", n)}, v, []string{"large-array"}
	}
	if !skipProg {
		res = compare(c, v, runProgram(r.src), "program")
		if res.discard != "" {
			discards = append(discards, "prog: "+res.discard)
		}
		if res.div != "" {
			return "prog", res, v, discards
		}
	}
	if !skipEval && c.replEligible() {
		res = compare(c, v, runREPL(c), "Eval")
		if res.discard != "" {
			discards = append(discards, "eval: "+res.discard)
		}
		if res.div != "" {
			return "eval", res, v, discards
		}
	}
	return "", result{goOK: v.accepted(), goErr: v.firstErr()}, v, discards
}

// ---------------------------------------------------------------------------
// run / replay

func run(ctx *vf.Ctx) {
	ex := exclusions()
	for _, k := range ex.names() {
		ctx.Excluded("switch:" + k)
	}
	nb := runBoundary(ctx, ex)
	n := ctx.Cases - nb
	if n < 0 {
		n = 0
	}
	discards, undecided := 0, 0
	prop := func(t *rapid.T) {
		var c *Case
		var gi *genInfo
		skipProg, skipEval := true, true
		for attempt := 0; attempt < 4 && skipProg; attempt++ {
			c, gi = genCase(t)
			var why []string
			skipProg, skipEval, why = ex.match(c)
			for _, w := range why {
				ctx.Excluded(w)
			}
		}
		if skipProg {
			ctx.Class("excluded-known")
			ctx.Done()
			return
		}
		ctx.Eval()
		for _, l := range gi.labels {
			ctx.Class("gen:" + l)
		}
		mode, res, v, ds := checkCase(c, skipProg, skipEval)
		for _, d := range ds {
			if strings.Contains(d, "go rejects, yaegi") || strings.Contains(d, "implementation limit") || d == "large-array" {
				undecided++
				ctx.Class("undecided:" + d)
				continue
			}
			discards++
			ctx.Class("discarded")
			if discards <= 5 {
				ctx.Note("discarded: %s | %s", d, oneLine(c))
			}
		}
		labels, nontrivial := astLabels(v)
		for _, l := range labels {
			ctx.Class(l)
		}
		if v.accepted() {
			ctx.Class("go-accepts")
		} else {
			ctx.Class("go-rejects")
			ctx.Class("reject:" + rejectClass(v.firstErr()))
		}
		if c.replEligible() && !skipEval {
			ctx.Class("mode:eval-checked")
		}
		if nontrivial || !v.accepted() {
			b, _ := json.Marshal(c)
			ctx.Nontrivial(string(b))
		}
		ctx.Sample(c, 3)
		if res.div != "" {
			sig, msg, rc := diagnose(c, mode, res)
			ctx.CaseFail(t, sig, msg, rc)
		}
		ctx.Done()
	}
	ctx.Rapid("constexpr", 0, n, 30*time.Second, prop)
	if n > 0 && discards*50 > n {
		ctx.Inconclusive("%d of %d generated cases were discarded (harness could not predict or observe them)", discards, n)
	}
}

// surveyDump stores a failing enumerated case in survey mode.
func surveyDump(ctx *vf.Ctx, sig, msg string, c *Case) {
	dir := filepath.Join(vf.Root, "scratch", "survey", ctx.Check.ID)
	_ = os.MkdirAll(dir, 0o755)
	raw, _ := json.MarshalIndent(c, "", " ")
	rf := vf.ReplayFile{Property: ctx.Check.ID, Sig: sig, Msg: msg, Seed: ctx.Seed, Tier: ctx.Tier, Case: raw}
	b, _ := json.MarshalIndent(rf, "", " ")
	_ = os.WriteFile(filepath.Join(dir, fmt.Sprintf("b%02d-%s-%s.json", ctx.Shard, vf.Hash(string(raw)), sanitizeSig(sig))), b, 0o644)
}

func sanitizeSig(s string) string {
	var b strings.Builder
	for _, r := range s {
		switch {
		case r >= 'a' && r <= 'z', r >= 'A' && r <= 'Z', r >= '0' && r <= '9', r == '-', r == '_', r == '.':
			b.WriteRune(r)
		default:
			b.WriteByte('_')
		}
	}
	if b.Len() > 60 {
		return b.String()[:60]
	}
	return b.String()
}

// astLabels derives the class labels of a case from its parsed program and
// decides the non-trivial rule.
func astLabels(v *verdict) (labels []string, nontrivial bool) {
	if v.file == nil {
		return nil, false
	}
	set := map[string]bool{}
	nops := 0
	var walk func(n ast.Node) bool
	walk = func(n ast.Node) bool {
		switch x := n.(type) {
		case *ast.ImportSpec:
			return false
		case *ast.FuncDecl:
			if x.Name.Name != "main" {
				return false
			}
		case *ast.CallExpr:
			if _, ok := x.Fun.(*ast.SelectorExpr); ok {
				return false // fmt.Printf(...)
			}
			if id, ok := x.Fun.(*ast.Ident); ok {
				switch {
				case id.Name == "len":
					set["len"] = true
				case isTypeName(id.Name):
					set["conv:"+canonType(id.Name)] = true
					set["conversion"] = true
					nontrivial = true
				}
			}
		case *ast.BinaryExpr:
			nops++
			set["op:"+x.Op.String()] = true
			if x.Op == token.SHL || x.Op == token.SHR {
				nontrivial = true
			}
		case *ast.UnaryExpr:
			nops++
			set["unop:"+x.Op.String()] = true
		case *ast.BasicLit:
			set["lit:"+litClass(x)] = true
			if x.Kind == token.INT {
				if val := constant.MakeFromLiteral(x.Value, token.INT, 0); val.Kind() == constant.Int && constant.BitLen(val) > 64 {
					set["lit:int>64bit"] = true
					nontrivial = true
				}
			}
			if x.Kind == token.FLOAT {
				if val := constant.MakeFromLiteral(x.Value, token.FLOAT, 0); val.Kind() != constant.Unknown {
					f, _ := constant.Float64Val(val)
					if math.IsInf(f, 0) || (f == 0 && constant.Sign(val) != 0) {
						set["lit:float-beyond-float64"] = true
					}
				}
			}
		case *ast.Ident:
			switch x.Name {
			case "true", "false":
				set["lit:bool"] = true
			case "iota":
				set["iota"] = true
			}
		case *ast.GenDecl:
			if x.Tok == token.CONST {
				usesIota := false
				ast.Inspect(x, func(m ast.Node) bool {
					if id, ok := m.(*ast.Ident); ok && id.Name == "iota" {
						usesIota = true
					}
					return true
				})
				for i, s := range x.Specs {
					vs := s.(*ast.ValueSpec)
					if vs.Type != nil {
						set["const-typed"] = true
					} else if len(vs.Values) > 0 {
						set["const-untyped"] = true
					}
					if len(vs.Names) > 1 {
						set["const-multi-name"] = true
					}
					for _, nm := range vs.Names {
						if nm.Name == "_" {
							set["const-blank"] = true
						}
					}
					if i > 0 && len(vs.Values) == 0 {
						set["const-implicit-repetition"] = true
						if usesIota {
							set["iota-implicit-repetition"] = true
							nontrivial = true
						}
					}
				}
			}
		}
		return true
	}
	ast.Inspect(v.file, walk)
	if nops >= 2 {
		nontrivial = true
		set["ops>=2"] = true
	}
	for k := range set {
		labels = append(labels, k)
	}
	sort.Strings(labels)
	return labels, nontrivial
}

func oneLine(c *Case) string {
	var parts []string
	parts = append(parts, c.Decls...)
	for _, o := range c.Obs {
		switch o.Form {
		case "var", "":
			parts = append(parts, "var v = "+o.Expr)
		case "case":
			parts = append(parts, fmt.Sprintf("var x %s = %s; switch x { case %s: }", o.T, o.K, o.Expr))
		default:
			parts = append(parts, fmt.Sprintf("%s[%s] %s", o.Form, o.T, o.Expr))
		}
	}
	s := strings.Join(parts, " ; ")
	s = strings.ReplaceAll(s, "\n", " ; ")
	s = strings.ReplaceAll(s, "\t", "")
	if len(s) > 700 {
		s = s[:700] + "..."
	}
	return s
}

func replay(ctx *vf.Ctx, data json.RawMessage) (string, string) {
	var c Case
	if err := json.Unmarshal(data, &c); err != nil {
		return "bad replay file: " + err.Error(), "harness"
	}
	mode, res, _, _ := checkCase(&c, false, false)
	if res.div == "" {
		return "", ""
	}
	sig, msg, _ := diagnose(&c, mode, res)
	return msg, sig
}

func init() {
	workerHook()
	vf.Register(&vf.Check{
		ID:    "C03",
		Level: "exploration",
		Rule:  ruleText,
		Assumptions: []string{
			"go/types + go/constant of the installed toolchain (go1.23, language level go1.22, 64-bit int/uint/uintptr) are the reference for accept/reject, value and default type",
			"expected output is computed from the constant.Value converted to the variable's type (Float64Val/Float32Val round to nearest even; a constant is never negative zero) and formatted with the same fmt verb; %T is only used on predeclared basic types",
			"rejected = Compile (program mode) or Eval returned an error (REPL mode); an escaped Go panic or a process crash on a program go/types rejects is counted (class undecided:...) but not decided by this check (C06 owns escaping panics)",
			"array lengths above 65536 that go/types accepts are not generated (the gc compiler rejects such types as too large)",
		},
		Cases:  map[string]int{"quick": 6000, "thorough": 300000},
		Shards: map[string]int{"quick": 16, "thorough": 16},
		Run:    run,
		Replay: replay,
	})
}

const ruleText = "case = package main with typed/untyped const declarations (forward references, iota blocks with skips, _, implicit repetition, several names per spec, typed blocks), array variables, and 1..n observed constant expressions (trees of depth<=6 over int literals up to 2^200 in dec/hex/0o/0b/rune/_ forms, dec/hex float, imaginary, string, bool literals; all constant operators; conversions to every basic type; len of constant strings/arrays) observed as var v = e / var v T = e / f(e) / s << e / switch case e, printed with %v|%T, plus Eval(e) on a fresh interpreter; boundary enumeration of {min-1,min,max,max+1,2^(w-1),2^w-1,2^w} x 12 integer types x positions; ~30% constructed to be rejected; oracle go/types accept/reject + types.Info constant value and type; non-trivial = >=2 operators, or a conversion/shift, or an operand beyond 64 bits, or an iota block with implicit repetition, or rejected by go/types; distinct by full case content"
