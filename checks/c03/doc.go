// Package c03 holds the check of property C03.
package c03
