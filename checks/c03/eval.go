package c03

// A small model of Go's constant typing rules, used ONLY to steer the
// generator (so that most accept-intended trees are accepted and to evaluate
// iota blocks line by line). It is never the oracle: go/types decides.

import (
	"go/constant"
	"go/token"
	"math"
	"math/big"
	"strings"
)

type kind int

const (
	kInt kind = iota
	kRune
	kFloat
	kComplex
	kString
	kBool
)

func (k kind) String() string {
	return [...]string{"int", "rune", "float", "complex", "string", "bool"}[k]
}

// ctype is the type of a constant: an untyped kind or a predeclared basic type.
type ctype struct {
	typed bool
	k     kind   // untyped kind, or the class of the typed name
	name  string // canonical type name when typed
}

func (c ctype) String() string {
	if c.typed {
		return c.name
	}
	return "untyped-" + c.k.String()
}

func untyped(k kind) ctype { return ctype{k: k} }

func typedT(name string) ctype {
	name = canonType(name)
	c := ctype{typed: true, name: name}
	switch {
	case strings.HasPrefix(name, "int"), strings.HasPrefix(name, "uint"):
		c.k = kInt
	case strings.HasPrefix(name, "float"):
		c.k = kFloat
	case strings.HasPrefix(name, "complex"):
		c.k = kComplex
	case name == "string":
		c.k = kString
	default:
		c.k = kBool
	}
	return c
}

func (c ctype) isInteger() bool { return c.k == kInt || c.k == kRune }
func (c ctype) isNumeric() bool { return c.k <= kComplex }

var intTypes = []string{"int", "int8", "int16", "int32", "int64", "uint", "uint8", "uint16", "uint32", "uint64", "uintptr"}
var allTypes = []string{"int", "int8", "int16", "int32", "int64", "uint", "uint8", "uint16", "uint32", "uint64", "uintptr",
	"float32", "float64", "complex64", "complex128", "string", "bool"}

func intRange(name string) (min, max *big.Int) {
	w := intWidth[name]
	one := big.NewInt(1)
	if isSignedName(name) {
		max = new(big.Int).Sub(new(big.Int).Lsh(one, w-1), one)
		min = new(big.Int).Neg(new(big.Int).Lsh(one, w-1))
	} else {
		min = big.NewInt(0)
		max = new(big.Int).Sub(new(big.Int).Lsh(one, w), one)
	}
	return
}

func bigOf(v constant.Value) *big.Int {
	x := constant.ToInt(v)
	if x.Kind() != constant.Int {
		return nil
	}
	b, ok := new(big.Int).SetString(x.ExactString(), 10)
	if !ok {
		return nil
	}
	return b
}

func mkBig(b *big.Int) constant.Value { return constant.Make(new(big.Int).Set(b)) }

// fit converts v to typed type name; ok=false when not representable.
func fit(v constant.Value, name string) (constant.Value, bool) {
	if v == nil || v.Kind() == constant.Unknown {
		return nil, false
	}
	switch {
	case intWidth[name] != 0:
		if v.Kind() == constant.String || v.Kind() == constant.Bool {
			return nil, false
		}
		b := bigOf(v)
		if b == nil {
			return nil, false
		}
		min, max := intRange(name)
		if b.Cmp(min) < 0 || b.Cmp(max) > 0 {
			return nil, false
		}
		return constant.ToInt(v), true
	case name == "float32" || name == "float64":
		if v.Kind() == constant.String || v.Kind() == constant.Bool {
			return nil, false
		}
		x := constant.ToFloat(v)
		if x.Kind() != constant.Float {
			return nil, false
		}
		var f float64
		if name == "float32" {
			f32, _ := constant.Float32Val(x)
			f = float64(f32)
		} else {
			f, _ = constant.Float64Val(x)
		}
		if math.IsInf(f, 0) || math.IsNaN(f) {
			return nil, false
		}
		return constant.MakeFloat64(f), true
	case name == "complex64" || name == "complex128":
		if v.Kind() == constant.String || v.Kind() == constant.Bool {
			return nil, false
		}
		x := constant.ToComplex(v)
		if x.Kind() != constant.Complex {
			return nil, false
		}
		part := "float64"
		if name == "complex64" {
			part = "float32"
		}
		re, ok1 := fit(constant.Real(x), part)
		im, ok2 := fit(constant.Imag(x), part)
		if !ok1 || !ok2 {
			return nil, false
		}
		return constant.BinaryOp(re, token.ADD, constant.MakeImag(im)), true
	case name == "string":
		return v, v.Kind() == constant.String
	case name == "bool":
		return v, v.Kind() == constant.Bool
	}
	return nil, false
}

// fitsDefault reports whether an untyped constant can be assigned to a
// variable of its default type.
func fitsDefault(ct ctype, v constant.Value) bool {
	if ct.typed {
		return true
	}
	_, ok := fit(v, defaultName(ct.k))
	return ok
}

func defaultName(k kind) string {
	return [...]string{"int", "int32", "float64", "complex128", "string", "bool"}[k]
}

const shiftBound = 1023 - 1 + 52

type tval struct {
	ct ctype
	v  constant.Value
}

func valKindOK(k kind, v constant.Value) constant.Value {
	// normalise the representation of an untyped value to its kind
	switch k {
	case kInt, kRune:
		return constant.ToInt(v)
	case kFloat:
		return constant.ToFloat(v)
	case kComplex:
		return constant.ToComplex(v)
	}
	return v
}

// unify brings two operands of a binary (non-shift) operation to one type.
func unify(x, y tval) (tval, tval, bool) {
	switch {
	case x.ct.typed && y.ct.typed:
		return x, y, x.ct.name == y.ct.name
	case x.ct.typed:
		if !compatibleKinds(y.ct.k, x.ct.k) {
			return x, y, false
		}
		v, ok := fit(y.v, x.ct.name)
		return x, tval{x.ct, v}, ok
	case y.ct.typed:
		b, a, ok := unify(y, x)
		return a, b, ok
	}
	// both untyped
	if x.ct.isNumeric() != y.ct.isNumeric() || (!x.ct.isNumeric() && x.ct.k != y.ct.k) {
		return x, y, false
	}
	k := x.ct.k
	if y.ct.k > k {
		k = y.ct.k
	}
	return tval{untyped(k), valKindOK(k, x.v)}, tval{untyped(k), valKindOK(k, y.v)}, true
}

// compatibleKinds: may an untyped constant of kind from be converted to a
// typed constant of class to (representability is checked separately)?
func compatibleKinds(from, to kind) bool {
	fn, tn := from <= kComplex, to <= kComplex
	if fn != tn {
		return false
	}
	return fn || from == to
}

var tokOf = map[string]token.Token{"+": token.ADD, "-": token.SUB, "*": token.MUL, "/": token.QUO, "%": token.REM,
	"&": token.AND, "|": token.OR, "^": token.XOR, "&^": token.AND_NOT, "<<": token.SHL, ">>": token.SHR,
	"==": token.EQL, "!=": token.NEQ, "<": token.LSS, "<=": token.LEQ, ">": token.GTR, ">=": token.GEQ,
	"&&": token.LAND, "||": token.LOR, "!": token.NOT}

func isCmp(op string) bool {
	switch op {
	case "==", "!=", "<", "<=", ">", ">=":
		return true
	}
	return false
}

// finish applies the typed-result rule: the result of an operation on typed
// constants must be representable in the type (and is rounded to it).
func finish(ct ctype, v constant.Value) (tval, bool) {
	if v == nil || v.Kind() == constant.Unknown {
		return tval{}, false
	}
	if ct.typed {
		w, ok := fit(v, ct.name)
		return tval{ct, w}, ok
	}
	// untyped values may not exceed the implementation's limits; keep them sane
	if ct.k <= kRune {
		if b := bigOf(v); b == nil || b.BitLen() > 4000 {
			return tval{}, false
		}
	}
	return tval{ct, v}, true
}

func evalBinary(op string, x, y tval) (res tval, ok bool) {
	defer func() {
		if recover() != nil {
			ok = false
		}
	}()
	if op == "<<" || op == ">>" {
		return evalShift(op, x, y)
	}
	x, y, ok = unify(x, y)
	if !ok {
		return tval{}, false
	}
	ct := x.ct
	if isCmp(op) {
		switch {
		case op == "==" || op == "!=":
		case ct.k == kBool || ct.k == kComplex:
			return tval{}, false
		}
		return tval{untyped(kBool), constant.MakeBool(constant.Compare(x.v, tokOf[op], y.v))}, true
	}
	switch op {
	case "&&", "||":
		if ct.k != kBool {
			return tval{}, false
		}
		return finish(ct, constant.BinaryOp(x.v, tokOf[op], y.v))
	case "+":
		if ct.k == kBool {
			return tval{}, false
		}
	case "-", "*", "/":
		if !ct.isNumeric() {
			return tval{}, false
		}
	default: // % & | ^ &^
		if !ct.isInteger() {
			return tval{}, false
		}
	}
	tok := tokOf[op]
	if op == "/" || op == "%" {
		if constant.Sign(constant.Real(constant.ToComplex(y.v))) == 0 && constant.Sign(constant.Imag(constant.ToComplex(y.v))) == 0 {
			return tval{}, false
		}
		if op == "/" && ct.isInteger() {
			tok = token.QUO_ASSIGN
		}
	}
	xv, yv := x.v, y.v
	if ct.isInteger() {
		xv, yv = constant.ToInt(xv), constant.ToInt(yv)
	}
	return finish(ct, constant.BinaryOp(xv, tok, yv))
}

func evalShift(op string, x, y tval) (tval, bool) {
	// count
	if !y.ct.isNumeric() {
		return tval{}, false
	}
	if y.ct.typed && y.ct.k != kInt {
		return tval{}, false
	}
	cnt := bigOf(y.v)
	if cnt == nil || cnt.Sign() < 0 || cnt.Cmp(big.NewInt(shiftBound)) >= 0 {
		return tval{}, false
	}
	if !y.ct.typed {
		if _, ok := fit(y.v, "uint"); !ok {
			return tval{}, false
		}
	}
	// operand
	if !x.ct.isNumeric() {
		return tval{}, false
	}
	ct := x.ct
	if ct.typed {
		if ct.k != kInt {
			return tval{}, false
		}
	} else {
		if bigOf(x.v) == nil {
			return tval{}, false
		}
		if ct.k != kRune {
			ct = untyped(kInt)
		}
	}
	return finish(ct, constant.Shift(constant.ToInt(x.v), tokOf[op], uint(cnt.Uint64())))
}

func evalUnary(op string, x tval) (res tval, ok bool) {
	defer func() {
		if recover() != nil {
			ok = false
		}
	}()
	switch op {
	case "!":
		if x.ct.k != kBool {
			return tval{}, false
		}
		return finish(x.ct, constant.UnaryOp(token.NOT, x.v, 0))
	case "+", "-":
		if !x.ct.isNumeric() {
			return tval{}, false
		}
		return finish(x.ct, constant.UnaryOp(tokOf[op], x.v, 0))
	case "^":
		if !x.ct.isInteger() {
			return tval{}, false
		}
		prec := uint(0)
		if x.ct.typed && !isSignedName(x.ct.name) {
			prec = intWidth[x.ct.name]
		}
		return finish(x.ct, constant.UnaryOp(token.XOR, constant.ToInt(x.v), prec))
	}
	return tval{}, false
}

func evalConv(name string, x tval) (tval, bool) {
	name = canonType(name)
	t := typedT(name)
	switch {
	case t.k == kString:
		if x.ct.k == kString {
			return tval{t, x.v}, true
		}
		if x.ct.isInteger() {
			r := rune(0xFFFD)
			if b := bigOf(x.v); b != nil && b.IsInt64() && b.Int64() >= 0 && b.Int64() <= 0x10FFFF && !(b.Int64() >= 0xD800 && b.Int64() <= 0xDFFF) {
				r = rune(b.Int64())
			}
			return tval{t, constant.MakeString(string(r))}, true
		}
		return tval{}, false
	case t.k == kBool:
		return tval{t, x.v}, x.ct.k == kBool
	}
	if !x.ct.isNumeric() {
		return tval{}, false
	}
	v, ok := fit(x.v, name)
	return tval{t, v}, ok
}
