package c03

// The interpreter can die with an unrecoverable Go fatal error (stack
// overflow, out of memory) on some constant programs, so every observation
// runs in a worker subprocess of the check binary itself. The worker is
// entered through an init hook (argument "c03-worker"), because the driver's
// own worker protocol cannot return the reflect.Value of Interpreter.Eval.

import (
	"bufio"
	"encoding/json"
	"fmt"
	"io"
	"os"
	"os/exec"
	"sync"
	"syscall"
	"time"
)

type wreq struct {
	Mode string `json:"mode"` // prog | eval
	Src  string `json:"src,omitempty"`
	Case *Case  `json:"case,omitempty"`
}

type wresp struct {
	Class  string `json:"class"`
	Stdout []byte `json:"stdout"` // bytes: program output may be invalid UTF-8
	Err    string `json:"err"`
}

func workerHook() {
	if len(os.Args) < 2 || os.Args[1] != "c03-worker" {
		return
	}
	// bound the address space: a constant program must not be able to take the machine down
	lim := syscall.Rlimit{Cur: 12 << 30, Max: 12 << 30}
	_ = syscall.Setrlimit(syscall.RLIMIT_AS, &lim)
	rd := bufio.NewReaderSize(os.Stdin, 1<<20)
	out := os.NewFile(3, "responses")
	enc := json.NewEncoder(out)
	for {
		line, err := rd.ReadBytes('\n')
		if len(line) > 0 {
			var q wreq
			if json.Unmarshal(line, &q) != nil {
				os.Exit(3)
			}
			var o observed
			if q.Mode == "eval" && q.Case != nil {
				o = runREPLLocal(q.Case)
			} else {
				o = runProgramLocal(q.Src)
			}
			if enc.Encode(wresp{o.class, []byte(o.stdout), o.err}) != nil {
				os.Exit(3)
			}
		}
		if err != nil {
			os.Exit(0)
		}
	}
}

type capBuf struct {
	mu sync.Mutex
	b  []byte
}

func (c *capBuf) Write(p []byte) (int, error) {
	c.mu.Lock()
	if len(c.b) < 6000 {
		k := 6000 - len(c.b)
		if k > len(p) {
			k = len(p)
		}
		c.b = append(c.b, p[:k]...)
	}
	c.mu.Unlock()
	return len(p), nil
}

func (c *capBuf) String() string { c.mu.Lock(); defer c.mu.Unlock(); return string(c.b) }

type wproc struct {
	cmd  *exec.Cmd
	in   io.WriteCloser
	rd   *bufio.Reader
	resp *os.File
	errb *capBuf
}

var (
	wmu  sync.Mutex
	wcur *wproc
)

func startWorker() (*wproc, error) {
	self, err := os.Executable()
	if err != nil {
		return nil, err
	}
	pr, pw, err := os.Pipe()
	if err != nil {
		return nil, err
	}
	cmd := exec.Command(self, "c03-worker")
	cmd.ExtraFiles = []*os.File{pw}
	w := &wproc{cmd: cmd, errb: &capBuf{}, resp: pr}
	cmd.Stderr = w.errb
	cmd.Stdout = w.errb
	cmd.SysProcAttr = &syscall.SysProcAttr{Setpgid: true, Pdeathsig: syscall.SIGKILL}
	if w.in, err = cmd.StdinPipe(); err != nil {
		return nil, err
	}
	if err := cmd.Start(); err != nil {
		return nil, err
	}
	pw.Close()
	w.rd = bufio.NewReaderSize(pr, 1<<20)
	return w, nil
}

func (w *wproc) kill() {
	if w.cmd.Process != nil {
		_ = syscall.Kill(-w.cmd.Process.Pid, syscall.SIGKILL)
	}
	w.in.Close()
	w.resp.Close()
	_ = w.cmd.Wait()
}

// ask sends one request to the worker of this process (started lazily,
// restarted after a crash).
func ask(q wreq) observed {
	wmu.Lock()
	defer wmu.Unlock()
	if wcur == nil {
		w, err := startWorker()
		if err != nil {
			return observed{class: "timeout", err: "cannot start worker: " + err.Error()}
		}
		wcur = w
	}
	w := wcur
	b, _ := json.Marshal(q)
	b = append(b, '\n')
	type rr struct {
		r   wresp
		err error
	}
	ch := make(chan rr, 1)
	go func() {
		if _, err := w.in.Write(b); err != nil {
			ch <- rr{err: err}
			return
		}
		line, err := w.rd.ReadBytes('\n')
		if err != nil {
			ch <- rr{err: err}
			return
		}
		var r wresp
		err = json.Unmarshal(line, &r)
		ch <- rr{r: r, err: err}
	}()
	select {
	case r := <-ch:
		if r.err != nil {
			w.kill()
			wcur = nil
			return observed{class: "crash", err: fmt.Sprintf("interpreter process died (%v): %s", r.err, firstLines(w.errb.String(), 6))}
		}
		return observed{class: r.r.Class, stdout: string(r.r.Stdout), err: r.r.Err}
	case <-time.After(120 * time.Second):
		w.kill()
		wcur = nil
		return observed{class: "timeout", err: "wall-clock backstop"}
	}
}

func firstLines(s string, n int) string {
	out := ""
	for i := 0; i < n; i++ {
		j := 0
		for j < len(s) && s[j] != '\n' {
			j++
		}
		out += s[:j] + " / "
		if j >= len(s) {
			break
		}
		s = s[j+1:]
	}
	return out
}

func runProgram(src string) observed { return ask(wreq{Mode: "prog", Src: src}) }
func runREPL(c *Case) observed       { return ask(wreq{Mode: "eval", Case: c}) }
