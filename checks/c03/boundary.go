package c03

import (
	"encoding/json"
	"fmt"
	"math/big"
	"strings"

	"verif/internal/vf"
)

// boundaryCases enumerates, for every integer type, the literals
// {min-1, min, max, max+1, 2^(w-1), 2^w-1, 2^w} in assignment, conversion,
// argument, array-length, shift-count, constant-shift and switch-case
// positions, in decimal and hexadecimal spelling.
func boundaryCases() []*Case {
	var out []*Case
	types := append(append([]string{}, intTypes...), "byte", "rune")
	for _, T := range types {
		w := intWidth[T]
		min, max := intRange(T)
		one := big.NewInt(1)
		lits := []*big.Int{
			new(big.Int).Sub(min, one), min, max, new(big.Int).Add(max, one),
			new(big.Int).Lsh(one, w-1), new(big.Int).Sub(new(big.Int).Lsh(one, w), one), new(big.Int).Lsh(one, w),
		}
		seen := map[string]bool{}
		for _, b := range lits {
			for _, hex := range []bool{false, true} {
				abs := new(big.Int).Abs(b)
				s := abs.Text(10)
				if hex {
					s = "0x" + abs.Text(16)
				}
				if b.Sign() < 0 {
					s = "-" + s
				}
				if seen[s] {
					continue
				}
				seen[s] = true
				mk := func(decls []string, o ...Obs) {
					out = append(out, &Case{Origin: "boundary", Decls: decls, Obs: o})
				}
				mk(nil, Obs{Form: "typed", T: T, Expr: s})
				mk(nil, Obs{Form: "var", Expr: fmt.Sprintf("%s(%s)", T, s)})
				mk(nil, Obs{Form: "arg", T: T, Expr: s})
				mk([]string{fmt.Sprintf("const c1 %s = %s", T, s)}, Obs{Form: "var", Expr: "c1"})
				mk(nil, Obs{Form: "shiftvar", T: T, Expr: s})
				mk(nil, Obs{Form: "var", Expr: fmt.Sprintf("%s(1) << %s", T, shiftLit(b, w))})
				mk(nil, Obs{Form: "case", T: T, K: "1", Expr: s})
				mk(nil, Obs{Form: "var", Expr: fmt.Sprintf("%s(1) + %s == 0", T, s)})
				// array length: only lengths the gc compiler can lay out, or ones go/types rejects
				if b.Sign() < 0 || b.Cmp(big.NewInt(65536)) <= 0 || b.BitLen() >= 64 {
					mk([]string{fmt.Sprintf("var a1 [%s]%s", s, T)}, Obs{Form: "var", Expr: "len(a1)"})
					mk([]string{fmt.Sprintf("const n1 %s = %s", T, s), "var a1 [n1]bool"}, Obs{Form: "var", Expr: "len(a1)"})
				}
			}
		}
	}
	return out
}

// shiftLit spells the shift counts around the width of the type: for the
// boundary literal b of a w-bit type the count is derived from its bit length
// so that the set {w-2, w-1, w, w+1} and a negative count are covered.
func shiftLit(b *big.Int, w uint) string {
	if b.Sign() < 0 {
		return "-1"
	}
	return fmt.Sprint(b.BitLen())
}

// runBoundary checks this shard's share of the boundary enumeration and
// returns the number of cases it consumed from the budget.
func runBoundary(ctx *vf.Ctx, ex *exclusionSet) int {
	all := boundaryCases()
	n := 0
	for i, c := range all {
		if i%ctx.NShards != ctx.Shard {
			continue
		}
		if n >= ctx.Cases {
			break
		}
		n++
		skipProg, skipEval, why := ex.match(c)
		for _, w := range why {
			ctx.Excluded(w)
		}
		if skipProg {
			ctx.Class("boundary-excluded-known")
			continue
		}
		ctx.Eval()
		ctx.Class("boundary")
		ctx.Class("boundary-pos:" + boundaryPos(c))
		mode, res, v, ds := checkCase(c, skipProg, skipEval)
		for _, d := range ds {
			if strings.Contains(d, "go rejects, yaegi") || strings.Contains(d, "implementation limit") || d == "large-array" {
				ctx.Class("undecided:" + d)
				continue
			}
			ctx.Class("boundary-discarded")
			ctx.Note("boundary discarded: %s | %s", d, oneLine(c))
		}
		if v.accepted() {
			ctx.Class("boundary-go-accepts")
		} else {
			ctx.Class("boundary-go-rejects")
		}
		b, _ := json.Marshal(c)
		ctx.Nontrivial(string(b))
		if res.div != "" {
			sig, msg, rc := diagnose(c, mode, res)
			if ctx.Survey {
				ctx.Class("survey-fail:" + sig)
				surveyDump(ctx, sig, msg, rc)
				continue
			}
			ctx.ReportViolation(sig, msg, rc)
		}
	}
	ctx.DoneN(n)
	return n
}

func boundaryPos(c *Case) string {
	o := c.Obs[0]
	switch {
	case o.Form != "var":
		return o.Form
	case len(c.Decls) == 2:
		return "arraylen-typedconst"
	case len(c.Decls) == 1 && c.Decls[0][0] == 'v':
		return "arraylen"
	case len(c.Decls) == 1:
		return "constdecl"
	case len(o.Expr) > 3 && o.Expr[len(o.Expr)-4:] == "== 0":
		return "operand"
	}
	for i := 0; i+1 < len(o.Expr); i++ {
		if o.Expr[i] == '<' && o.Expr[i+1] == '<' {
			return "constshift"
		}
	}
	return "conversion"
}
