package c03

import (
	"encoding/json"
	"fmt"
	"math/big"
	"strings"

	"verif/internal/vf"
)

// boundaryCases enumerates, for every integer type, the literals
// {min-1, min, max, max+1, 2^(w-1), 2^w-1, 2^w} in assignment, conversion,
// argument, array-length, shift-count, constant-shift and switch-case
// positions, in decimal and hexadecimal spelling.
func boundaryCases() []*Case {
	var out []*Case
	types := append(append([]string{}, intTypes...), "byte", "rune")
	for _, T := range types {
		w := intWidth[T]
		min, max := intRange(T)
		one := big.NewInt(1)
		lits := []*big.Int{
			new(big.Int).Sub(min, one), min, max, new(big.Int).Add(max, one),
			new(big.Int).Lsh(one, w-1), new(big.Int).Sub(new(big.Int).Lsh(one, w), one), new(big.Int).Lsh(one, w),
		}
		seen := map[string]bool{}
		for _, b := range lits {
			for _, hex := range []bool{false, true} {
				abs := new(big.Int).Abs(b)
				s := abs.Text(10)
				if hex {
					s = "0x" + abs.Text(16)
				}
				if b.Sign() < 0 {
					s = "-" + s
				}
				if seen[s] {
					continue
				}
				seen[s] = true
				mk := func(decls []string, o ...Obs) {
					out = append(out, &Case{Origin: "boundary", Decls: decls, Obs: o})
				}
				mk(nil, Obs{Form: "typed", T: T, Expr: s})
				mk(nil, Obs{Form: "var", Expr: fmt.Sprintf("%s(%s)", T, s)})
				mk(nil, Obs{Form: "arg", T: T, Expr: s})
				mk([]string{fmt.Sprintf("const c1 %s = %s", T, s)}, Obs{Form: "var", Expr: "c1"})
				mk(nil, Obs{Form: "shiftvar", T: T, Expr: s})
				mk(nil, Obs{Form: "var", Expr: fmt.Sprintf("%s(1) << %s", T, shiftLit(b, w))})
				mk(nil, Obs{Form: "case", T: T, K: "1", Expr: s})
				mk(nil, Obs{Form: "var", Expr: fmt.Sprintf("%s(1) + %s == 0", T, s)})
				// array length: only lengths the gc compiler can lay out, or ones go/types rejects
				if b.Sign() < 0 || b.Cmp(big.NewInt(65536)) <= 0 || b.BitLen() >= 64 {
					mk([]string{fmt.Sprintf("var a1 [%s]%s", s, T)}, Obs{Form: "var", Expr: "len(a1)"})
					mk([]string{fmt.Sprintf("const n1 %s = %s", T, s), "var a1 [n1]bool"}, Obs{Form: "var", Expr: "len(a1)"})
				}
			}
		}
	}
	out = append(out, floatBoundaryCases()...)
	return out
}

// floatBoundaryCases enumerates untyped constants next to rounding midpoints
// of float32 and float64 (a midpoint plus or minus 2^-60 resp. 2^-100 of its
// magnitude: rounding the exact value once and rounding it through a wider
// or narrower format give different results), and next to the largest finite
// values, in assignment, conversion, argument and constant declaration
// positions, for the float and complex types.
func floatBoundaryCases() []*Case {
	var out []*Case
	mk := func(decls []string, o ...Obs) {
		out = append(out, &Case{Origin: "boundary", Decls: decls, Obs: o})
	}
	type fb struct {
		T    string
		expr string
	}
	var list []fb
	for _, base := range []string{"0x1p0", "0x1.8p1", "0x1.fffffep3", "0x1p24", "0x1p-100", "0x1.2p100"} {
		// float32: the midpoint above a value with a 24-bit mantissa is +2^-24 relative
		for _, d := range []string{"+", "-"} {
			list = append(list, fb{"float32", fmt.Sprintf("%s + %s * 0x1p-24 %s %s * 0x1p-60", base, pow2of(base), d, pow2of(base))})
		}
	}
	for _, base := range []string{"0x1p0", "0x1.8p1", "0x1.fffffffffffffp3", "0x1p53", "0x1p-500", "0x1.2p900"} {
		for _, d := range []string{"+", "-"} {
			list = append(list, fb{"float64", fmt.Sprintf("%s + %s * 0x1p-53 %s %s * 0x1p-100", base, pow2of(base), d, pow2of(base))})
		}
	}
	list = append(list,
		fb{"float32", "0x1p128 - 0x1p103 - 0x1p40"}, // just below the midpoint above MaxFloat32
		fb{"float32", "0x1p128 - 0x1p103"},          // the midpoint: overflows
		fb{"float32", "0x1p-149 / 2 + 0x1p-200"},    // just above half the smallest denormal
		fb{"float32", "0x1p-149 / 2"},               // half the smallest denormal: rounds to 0
		fb{"float64", "0x1p1024 - 0x1p970 - 0x1p900"},
		fb{"float64", "0x1p1024 - 0x1p970"},
		fb{"float64", "0x1p-1074 / 2 + 0x1p-1200"},
		fb{"float64", "0x1p-1074 / 2"},
	)
	for _, c := range list {
		T, s := c.T, c.expr
		mk(nil, Obs{Form: "typed", T: T, Expr: s})
		mk(nil, Obs{Form: "var", Expr: fmt.Sprintf("%s(%s)", T, s)})
		mk(nil, Obs{Form: "arg", T: T, Expr: s})
		mk([]string{fmt.Sprintf("const c1 %s = %s", T, s)}, Obs{Form: "var", Expr: "c1"})
		mk([]string{fmt.Sprintf("const c1 = %s", s)}, Obs{Form: "var", Expr: fmt.Sprintf("%s(c1)", T)})
		CT := map[string]string{"float32": "complex64", "float64": "complex128"}[T]
		mk(nil, Obs{Form: "typed", T: CT, Expr: s})
		mk(nil, Obs{Form: "var", Expr: fmt.Sprintf("%s(%s) == %s(%s)", T, s, T, strings.SplitN(s, " ", 2)[0])})
	}
	return out
}

// pow2of gives the power of two of the exponent of a hexadecimal float literal.
func pow2of(lit string) string {
	return "0x1" + lit[strings.IndexByte(lit, 'p'):]
}

// shiftLit spells the shift counts around the width of the type: for the
// boundary literal b of a w-bit type the count is derived from its bit length
// so that the set {w-2, w-1, w, w+1} and a negative count are covered.
func shiftLit(b *big.Int, w uint) string {
	if b.Sign() < 0 {
		return "-1"
	}
	return fmt.Sprint(b.BitLen())
}

// runBoundary checks this shard's share of the boundary enumeration and
// returns the number of cases it consumed from the budget.
func runBoundary(ctx *vf.Ctx, ex *exclusionSet) int {
	all := boundaryCases()
	n := 0
	for i, c := range all {
		if i%ctx.NShards != ctx.Shard {
			continue
		}
		if n >= ctx.Cases {
			break
		}
		n++
		skipProg, skipEval, why := ex.match(c)
		for _, w := range why {
			ctx.Excluded(w)
		}
		if skipProg {
			ctx.Class("boundary-excluded-known")
			continue
		}
		ctx.Eval()
		ctx.Class("boundary")
		ctx.Class("boundary-pos:" + boundaryPos(c))
		mode, res, v, ds := checkCase(c, skipProg, skipEval)
		for _, d := range ds {
			if strings.Contains(d, "go rejects, yaegi") || strings.Contains(d, "implementation limit") || d == "large-array" {
				ctx.Class("undecided:" + d)
				continue
			}
			ctx.Class("boundary-discarded")
			ctx.Note("boundary discarded: %s | %s", d, oneLine(c))
		}
		if v.accepted() {
			ctx.Class("boundary-go-accepts")
		} else {
			ctx.Class("boundary-go-rejects")
		}
		b, _ := json.Marshal(c)
		ctx.Nontrivial(string(b))
		if res.div != "" {
			sig, msg, rc := diagnose(c, mode, res)
			if ctx.Survey {
				ctx.Class("survey-fail:" + sig)
				surveyDump(ctx, sig, msg, rc)
				continue
			}
			ctx.ReportViolation(sig, msg, rc)
		}
	}
	ctx.DoneN(n)
	return n
}

func boundaryPos(c *Case) string {
	o := c.Obs[0]
	switch {
	case o.Form != "var":
		return o.Form
	case len(c.Decls) == 2:
		return "arraylen-typedconst"
	case len(c.Decls) == 1 && c.Decls[0][0] == 'v':
		return "arraylen"
	case len(c.Decls) == 1:
		return "constdecl"
	case len(o.Expr) > 3 && o.Expr[len(o.Expr)-4:] == "== 0":
		return "operand"
	}
	for i := 0; i+1 < len(o.Expr); i++ {
		if o.Expr[i] == '<' && o.Expr[i+1] == '<' {
			return "constshift"
		}
	}
	return "conversion"
}
