package c03

// Failure localisation and signatures.
//
// A failing case is cut into candidates: every constant sub-expression of
// every declaration and observation (post-order), every const spec (with its
// block truncated after the spec), every array declaration and every
// non-plain observation. Each candidate is a stand-alone mini case (only the
// declarations it references). The first candidate on which yaegi and
// go/types disagree again is the culprit; its static features (operator,
// operand types and values, go/types verdict) select the signature through
// the rule table in rules.go. The same static features, computed for every
// candidate of every generated case, drive the exclusion switches of known
// findings, so a failure that would be classified under a known signature is
// never generated while that finding is listed.

import (
	"fmt"
	"go/ast"
	"go/constant"
	"go/token"
	"go/types"
	"math"
	"strings"
)

// opnd describes an operand of the culprit node.
type opnd struct {
	present bool
	valid   bool // go/types gave it a constant value
	typ     string
	untyped bool
	val     constant.Value
	text    string
	isLit   bool
}

// class is a coarse type class used in generic keys.
func (o opnd) class() string {
	if !o.present {
		return "-"
	}
	if !o.valid {
		return "invalid"
	}
	return typeClass(o.typ)
}

func typeClass(t string) string {
	switch {
	case strings.HasPrefix(t, "untyped "):
		return "u-" + strings.TrimPrefix(t, "untyped ")
	case strings.HasPrefix(t, "uint"), t == "byte":
		return "uint"
	case strings.HasPrefix(t, "int"), t == "rune":
		return "sint"
	case strings.HasPrefix(t, "float"):
		return "float"
	case strings.HasPrefix(t, "complex"):
		return "complex"
	}
	return t
}

// feat are the static features of a candidate (nothing observed from yaegi).
type feat struct {
	kind    string // lit ident unary binary conv len spec arraydecl obs other
	op      string // operator, or obs form
	T       string // canonical target/declared type ("" = none)
	x, y    opnd
	goOK    bool
	goClass string // rejectClass of the first go/types error
	goMsg   string
	lit     string // literal class for kind lit
	iota    bool   // spec inside a block that uses iota
	implic  bool   // spec without own expression list
	multi   bool   // spec with several names
	text    string
	res     opnd            // the culprit expression itself (valid only when go/types accepts it)
	has     map[string]bool // constructs inside the culprit expression (see tags)
	declHas map[string]bool // block-structure constructs of the declarations the candidate needs
}

type cand struct {
	mini *Case
	what string // expr | spec | arraydecl | obs
	key  string
	si   int    // spec: index of the spec in the last declaration of mini
	ni   int    // spec: index of the observed name in the spec (-1: only blank names)
	own  string // spec, arraydecl: the text of the declaration under test inside mini.Decls
	name string // spec: the constant under test
	// ctxValid: go/types gave the node a constant value inside the full program.
	// If the stand-alone form is nevertheless rejected (1<<100 alone does not fit
	// int, inside 1<<100>>98 it is fine) the candidate is an artefact and skipped.
	ctxValid bool
}

type unitInfo struct {
	gd    *ast.GenDecl
	names map[string]bool
	refs  map[string]bool
}

// units matches the declaration units of the case with the parsed program.
func (v *verdict) units(c *Case) []unitInfo {
	us := make([]unitInfo, len(c.Decls))
	base := v.fset.File(v.file.Pos()).Base()
	for i := range c.Decls {
		us[i].names = map[string]bool{}
		us[i].refs = identsOf(c.Decls[i])
		for _, d := range v.file.Decls {
			gd, ok := d.(*ast.GenDecl)
			if !ok || int(gd.Pos())-base != v.r.decls[i].from {
				continue
			}
			us[i].gd = gd
			for _, s := range gd.Specs {
				if vs, ok := s.(*ast.ValueSpec); ok {
					for _, n := range vs.Names {
						if n.Name != "_" {
							us[i].names[n.Name] = true
						}
					}
				}
			}
		}
	}
	return us
}

// closure returns the declaration units (in source order) needed by refs.
func closure(c *Case, us []unitInfo, refs map[string]bool, skip int) []string {
	need := map[int]bool{}
	var add func(refs map[string]bool)
	add = func(refs map[string]bool) {
		for i := range us {
			if need[i] || i == skip {
				continue
			}
			for n := range us[i].names {
				if refs[n] {
					need[i] = true
					add(us[i].refs)
					break
				}
			}
		}
	}
	add(refs)
	var out []string
	for i := range us {
		if need[i] {
			out = append(out, c.Decls[i])
		}
	}
	return out
}

// closureAt is closure plus the (possibly truncated) text of unit own, kept at
// its original position among the declarations: the source order matters to
// the interpreter (forward references).
func closureAt(c *Case, us []unitInfo, refs map[string]bool, own int, ownText string) []string {
	deps := map[string]bool{}
	for _, d := range closure(c, us, refs, own) {
		deps[d] = true
	}
	var out []string
	for i := range us {
		switch {
		case i == own:
			out = append(out, ownText)
		case deps[c.Decls[i]]:
			out = append(out, c.Decls[i])
		}
	}
	return out
}

func (v *verdict) text(n ast.Node) string {
	base := v.fset.File(v.file.Pos()).Base()
	return v.r.src[int(n.Pos())-base : int(n.End())-base]
}

// constNodes lists the constant sub-expressions of e in post-order: nodes
// that go/types evaluated to a constant, or did not record at all (invalid).
func (v *verdict) constNodes(e ast.Expr, out *[]ast.Expr) {
	switch x := e.(type) {
	case *ast.ParenExpr:
		v.constNodes(x.X, out)
		return
	case *ast.BinaryExpr:
		v.constNodes(x.X, out)
		v.constNodes(x.Y, out)
	case *ast.UnaryExpr:
		v.constNodes(x.X, out)
	case *ast.CallExpr:
		for _, a := range x.Args {
			v.constNodes(a, out)
		}
	case *ast.BasicLit, *ast.Ident:
	default:
		return
	}
	if tv, ok := v.info.Types[e]; ok && tv.Value == nil {
		return // a non-constant (array variable, composite literal)
	}
	*out = append(*out, e)
}

func usesIotaOrBlank(s string) bool {
	ids := identsOf(s)
	return ids["iota"] || ids["_"]
}

// candidates cuts the case into stand-alone mini cases.
func (v *verdict) candidates(c *Case) []cand {
	if v.file == nil {
		return nil
	}
	us := v.units(c)
	seen := map[string]bool{}
	var out []cand
	add := func(what string, m *Case) *cand {
		k := what + "\x00" + strings.Join(m.Decls, "\x00") + "\x01" + fmt.Sprint(m.Obs)
		if seen[k] {
			return &cand{} // duplicate: the caller's settings go nowhere
		}
		seen[k] = true
		out = append(out, cand{mini: m, what: what, key: k})
		return &out[len(out)-1]
	}
	base := v.fset.File(v.file.Pos()).Base()
	// truncate returns unit ui cut after its first n specs ("" for n == 0).
	truncate := func(ui, n int) string {
		u := us[ui]
		if n >= len(u.gd.Specs) || !u.gd.Lparen.IsValid() {
			if n == 0 {
				return ""
			}
			return c.Decls[ui]
		}
		if n == 0 {
			return ""
		}
		return v.r.src[int(u.gd.Pos())-base:int(u.gd.Specs[n-1].End())-base] + "\n)"
	}
	// exprCands adds the constant sub-expressions of e; when e belongs to spec
	// si of unit ui, only the specs before it are visible from that unit.
	exprCands := func(e ast.Expr, ui, si int) {
		var nodes []ast.Expr
		v.constNodes(e, &nodes)
		root := stripParens(e)
		for _, n := range nodes {
			t := v.text(n)
			if usesIotaOrBlank(t) {
				continue
			}
			ids := identsOf(t)
			decls := closure(c, us, ids, ui)
			if ui >= 0 {
				own := false
				for name := range us[ui].names {
					if ids[name] {
						own = true
					}
				}
				if pre := truncate(ui, si); own && pre != "" {
					decls = append(append([]string{}, closure(c, us, identsOf(pre), ui)...), pre)
					for _, d := range closure(c, us, ids, ui) {
						dup := false
						for _, e := range decls {
							dup = dup || e == d
						}
						if !dup {
							decls = append(decls, d)
						}
					}
				}
			}
			cd := add("expr", &Case{Origin: "mini", Decls: decls, Obs: []Obs{{Form: "var", Expr: t}}})
			if tv, ok := v.info.Types[n]; ok && tv.Value != nil && !(ui < 0 && n == root) {
				cd.ctxValid = true // (an observed expression itself is never an artefact)
			}
		}
	}
	// declarations are visited in dependency order (referenced units first), so
	// that a broken declaration is met as its own candidate before anything uses it
	var order []int
	state := make([]int, len(us))
	var visit func(i int)
	visit = func(i int) {
		if state[i] != 0 {
			return
		}
		state[i] = 1
		for j := range us {
			if j == i || state[j] != 0 {
				continue
			}
			for n := range us[j].names {
				if us[i].refs[n] {
					visit(j)
					break
				}
			}
		}
		state[i] = 2
		order = append(order, i)
	}
	for i := range us {
		visit(i)
	}
	for _, ui := range order {
		u := us[ui]
		if u.gd == nil {
			continue
		}
		switch u.gd.Tok {
		case token.CONST:
			for si, s := range u.gd.Specs {
				vs, ok := s.(*ast.ValueSpec)
				if !ok {
					continue
				}
				for _, val := range vs.Values {
					exprCands(val, ui, si)
				}
				// the unit truncated after this spec
				trunc := truncate(ui, si+1)
				withDeps := closureAt(c, us, identsOf(trunc), ui, trunc)
				named := false
				for ni, n := range vs.Names {
					if n.Name == "_" {
						continue
					}
					named = true
					obsExpr := n.Name
					valid := false
					if obj, ok := v.info.Defs[n].(*types.Const); ok && obj.Val() != nil && obj.Val().Kind() != constant.Unknown {
						valid = true
						if b, ok := obj.Type().(*types.Basic); ok && b.Info()&types.IsUntyped != 0 && b.Info()&types.IsNumeric != 0 {
							if _, fits := formatConst(obj.Val(), types.Default(b)); !fits {
								// too big for a variable of its default type: observe a valid use of it
								obsExpr = n.Name + " * 0"
							}
						}
					}
					cd := add("spec", &Case{Origin: "mini", Decls: withDeps, Obs: []Obs{{Form: "var", Expr: obsExpr}}})
					cd.si, cd.ni, cd.own, cd.name = si, ni, trunc, n.Name
					_ = valid // a spec candidate is never an artefact: its observation is always a valid use
				}
				if !named {
					cd := add("spec", &Case{Origin: "mini", Decls: withDeps, Obs: []Obs{{Form: "var", Expr: "0"}}})
					cd.si, cd.ni, cd.own = si, -1, trunc
				}
			}
		case token.VAR:
			for _, s := range u.gd.Specs {
				vs, ok := s.(*ast.ValueSpec)
				if !ok || len(vs.Names) != 1 {
					continue
				}
				t := vs.Type
				if st, ok := t.(*ast.StarExpr); ok {
					t = st.X
				}
				if at, ok := t.(*ast.ArrayType); ok && at.Len != nil {
					exprCands(at.Len, -1, 0)
				}
				cd := add("arraydecl", &Case{Origin: "mini", Decls: closureAt(c, us, u.refs, ui, c.Decls[ui]), Obs: []Obs{{Form: "var", Expr: "len(" + vs.Names[0].Name + ")"}}})
				cd.own = c.Decls[ui]
			}
		}
	}
	for oi, o := range c.Obs {
		if e := v.exprAt(v.r.exprs[oi]); e != nil {
			exprCands(e, -1, 0)
		} else {
			add("expr", &Case{Origin: "mini", Decls: closure(c, us, identsOf(o.Expr), -1), Obs: []Obs{{Form: "var", Expr: o.Expr}}})
		}
		if o.Form != "var" && o.Form != "" {
			add("obs", &Case{Origin: "mini", Decls: closure(c, us, identsOf(o.Expr+" "+o.K), -1), Obs: []Obs{o}})
		}
	}
	return out
}

// ---------------------------------------------------------------------------
// features of a candidate (from its own type-checked mini program)

func (v *verdict) operand(e ast.Expr) opnd {
	for {
		p, ok := e.(*ast.ParenExpr)
		if !ok {
			break
		}
		e = p.X
	}
	o := opnd{present: true, text: v.text(e)}
	_, o.isLit = e.(*ast.BasicLit)
	if u, ok := e.(*ast.UnaryExpr); ok && (u.Op == token.SUB || u.Op == token.ADD) {
		_, o.isLit = u.X.(*ast.BasicLit)
	}
	tv, ok := v.info.Types[e]
	if !ok || tv.Value == nil || tv.Type == nil {
		return o
	}
	o.valid = true
	o.val = tv.Value
	if b, ok := tv.Type.Underlying().(*types.Basic); ok {
		o.untyped = b.Info()&types.IsUntyped != 0
		o.typ = b.Name()
		if n, ok := basicNames[b.Kind()]; ok {
			o.typ = n
		}
	} else {
		o.typ = tv.Type.String()
	}
	return o
}

func litClass(l *ast.BasicLit) string {
	s := strings.ToLower(l.Value)
	sep := ""
	if strings.Contains(s, "_") {
		sep = "+sep"
	}
	switch l.Kind {
	case token.INT:
		switch {
		case strings.HasPrefix(s, "0x"):
			return "int-hex" + sep
		case strings.HasPrefix(s, "0o"):
			return "int-0o" + sep
		case strings.HasPrefix(s, "0b"):
			return "int-bin" + sep
		case len(s) > 1 && s[0] == '0':
			return "int-legacy-octal" + sep
		}
		return "int-dec" + sep
	case token.FLOAT:
		if strings.HasPrefix(s, "0x") {
			return "float-hex" + sep
		}
		return "float-dec" + sep
	case token.IMAG:
		return "imag"
	case token.CHAR:
		return "rune"
	case token.STRING:
		if strings.HasPrefix(s, "`") {
			return "string-raw"
		}
		return "string"
	}
	return "lit"
}

func isTypeName(s string) bool {
	_, ok := intWidth[s]
	switch s {
	case "float32", "float64", "complex64", "complex128", "string", "bool":
		return true
	}
	return ok
}

// featOf computes the static features of a candidate.
func featOf(cd cand) (*feat, *verdict) {
	m := cd.mini
	r := m.render()
	mv := typecheck(r)
	f := &feat{kind: "other", goOK: mv.accepted(), goMsg: mv.firstErr(), has: map[string]bool{}, declHas: map[string]bool{}}
	f.goClass = rejectClass(f.goMsg)
	if mv.file == nil {
		return f, mv
	}
	mv.declTags(m, f.declHas)
	o := m.Obs[0]
	f.text = o.Expr
	switch cd.what {
	case "obs":
		f.kind, f.op, f.T = "obs", o.Form, canonType(o.T)
		if e := mv.exprAt(r.exprs[0]); e != nil {
			f.x = mv.operand(e)
			f.res = f.x
			mv.tags(e, f.has)
			if f.T != "" && mv.benign(e, f.T) {
				f.has["benign-typed-site"] = true
			}
		}
		return f, mv
	case "arraydecl":
		f.kind = "arraydecl"
		us := mv.units(m)
		u := us[ownIndex(m, cd.own)]
		if u.gd != nil {
			if vs, ok := u.gd.Specs[0].(*ast.ValueSpec); ok {
				t := vs.Type
				if st, ok := t.(*ast.StarExpr); ok {
					t = st.X
					f.op = "ptr"
				}
				if at, ok := t.(*ast.ArrayType); ok && at.Len != nil {
					f.x = mv.operand(at.Len)
					mv.tags(at.Len, f.has)
				}
			}
		}
		return f, mv
	case "spec":
		f.kind = "spec"
		us := mv.units(m)
		u := us[ownIndex(m, cd.own)]
		if u.gd == nil {
			return f, mv
		}
		f.iota = identsOf(cd.own)["iota"]
		// the spec under test, and the expression list in force for it
		var inForce *ast.ValueSpec
		for si, s := range u.gd.Specs {
			vs := s.(*ast.ValueSpec)
			if len(vs.Values) > 0 {
				inForce = vs
			}
			if si != cd.si {
				continue
			}
			f.implic = len(vs.Values) == 0
			f.multi = len(vs.Names) > 1
			if inForce == nil {
				break
			}
			if id, ok := inForce.Type.(*ast.Ident); ok {
				f.T = canonType(id.Name)
			}
			benign := f.T != "" && !f.iota && !f.implic
			for i, val := range inForce.Values {
				benign = benign && mv.benign(val, f.T)
				mv.tags(val, f.has) // every expression of the spec: one bad neighbour spoils the spec
				if i == cd.ni || cd.ni < 0 && i == 0 {
					f.x = mv.operand(val)
					if f.implic || f.iota {
						// the recorded value belongs to some line of the block, not necessarily this one
						f.x.val = nil
					}
				}
			}
			if benign {
				f.has["benign-typed-site"] = true
			}
			break
		}
		if obj := mv.lookupConst(cd.name); obj != nil {
			f.y = opnd{present: true, valid: obj.Val() != nil && obj.Val().Kind() != constant.Unknown, typ: obj.Type().String(), val: obj.Val()}
			if b, ok := obj.Type().Underlying().(*types.Basic); ok {
				f.y.untyped = b.Info()&types.IsUntyped != 0
				if n, ok := basicNames[b.Kind()]; ok {
					f.y.typ = n
				}
			}
			f.res = f.y
		}
		return f, mv
	}
	e := mv.exprAt(r.exprs[0])
	for {
		p, ok := e.(*ast.ParenExpr)
		if !ok {
			break
		}
		e = p.X
	}
	if e != nil {
		mv.tags(e, f.has)
		f.res = mv.operand(e)
	}
	switch x := e.(type) {
	case *ast.BasicLit:
		f.kind, f.lit = "lit", litClass(x)
		f.x = mv.operand(x)
	case *ast.Ident:
		f.kind = "ident"
		f.x = mv.operand(x)
	case *ast.UnaryExpr:
		f.kind, f.op = "unary", x.Op.String()
		f.x = mv.operand(x.X)
	case *ast.BinaryExpr:
		f.kind, f.op = "binary", x.Op.String()
		f.x, f.y = mv.operand(x.X), mv.operand(x.Y)
	case *ast.CallExpr:
		id, _ := x.Fun.(*ast.Ident)
		switch {
		case id != nil && id.Name == "len" && len(x.Args) == 1:
			f.kind = "len"
			f.x = mv.operand(x.Args[0])
		case id != nil && isTypeName(id.Name) && len(x.Args) == 1:
			f.kind, f.T = "conv", canonType(id.Name)
			f.x = mv.operand(x.Args[0])
		}
	}
	return f, mv
}

func (v *verdict) lookupConst(name string) *types.Const {
	for id, obj := range v.info.Defs {
		if id.Name == name {
			if c, ok := obj.(*types.Const); ok {
				return c
			}
		}
	}
	return nil
}

func opClass(op string) string {
	switch op {
	case "+", "-", "*":
		return "arith"
	case "/":
		return "quo"
	case "%":
		return "rem"
	case "&", "|", "^", "&^":
		return "bitop"
	case "<<", ">>":
		return op
	case "==", "!=", "<", "<=", ">", ">=":
		return "cmp"
	case "&&", "||":
		return "logic"
	}
	return op
}

// genericKey is the fallback description of a culprit.
func (f *feat) genericKey() string {
	var s string
	switch f.kind {
	case "lit":
		s = "lit-" + f.lit
	case "ident":
		s = "ident-" + f.x.class()
	case "unary":
		s = "unary(" + f.op + ")-" + f.x.class()
	case "binary":
		s = "binary(" + opClass(f.op) + ")-" + f.x.class() + "," + f.y.class()
	case "conv":
		s = "conv(" + typeClass(f.T) + ")-" + f.x.class()
	case "len":
		s = "len-" + f.x.class()
	case "spec":
		t := "untyped"
		if f.T != "" {
			t = typeClass(f.T)
		}
		s = "constspec(" + t + ")"
		if f.iota {
			s += "+iota"
		}
		if f.implic {
			s += "+implicit"
		}
		if f.multi {
			s += "+multi"
		}
		s += "-" + f.x.class()
	case "arraydecl":
		s = "arraylen-" + f.x.class()
	case "obs":
		s = "obs-" + f.op + "(" + typeClass(f.T) + ")-" + f.x.class()
	default:
		s = "unclassified"
	}
	if f.goOK {
		s += "-go:ok"
	} else {
		s += "-go:" + f.goClass
	}
	return s
}

// ---------------------------------------------------------------------------
// localisation

type culprit struct {
	f    *feat
	res  result
	mini *Case
}

// localise finds the first candidate on which the failing mode diverges again.
func localise(c *Case, mode string) *culprit {
	r := c.render()
	v := typecheck(r)
	for _, cd := range v.candidates(c) {
		f, mv := featOf(cd)
		if mv.file == nil || cd.ctxValid && !f.goOK || mv.largestArray() > 65536 {
			continue
		}
		var res result
		if mode == "eval" {
			if !cd.mini.replEligible() {
				continue
			}
			res = compare(cd.mini, mv, runREPL(cd.mini), "Eval")
		} else {
			res = compare(cd.mini, mv, runProgram(mv.r.src), "program")
		}
		if res.div != "" {
			return &culprit{f: f, res: res, mini: cd.mini}
		}
	}
	return nil
}

// diagnose localises a failing case. It returns the signature, the message
// and the case to store as the counterexample: the culprit's stand-alone mini
// case when one was found (so that message, signature and replay file talk
// about the same divergence), otherwise the full case.
func diagnose(c *Case, mode string, res result) (sig, msg string, rc *Case) {
	prefix := ""
	if mode == "eval" {
		prefix = "eval-"
	}
	cu := localise(c, mode)
	if cu == nil {
		return prefix + "other-unlocalised-" + res.div, res.msg + " | program: " + oneLine(c), c
	}
	msg = cu.res.msg + " | program: " + oneLine(cu.mini)
	for _, rl := range rules {
		if rl.divs[cu.res.div] && rl.match(cu.f) {
			return prefix + rl.sig, msg, cu.mini
		}
	}
	// The culprit itself is no listed construct. If it stands on a declaration
	// that is one (whose own stand-alone observation happened to pass), the
	// divergence is attributed to that declaration. This adds no exclusion: a
	// case holding such a declaration is switched off anyway while the finding
	// is listed.
	if len(cu.mini.Decls) > 0 {
		mv := typecheck(cu.mini.render())
		for _, cd := range mv.candidates(cu.mini) {
			if cd.what != "spec" && cd.what != "arraydecl" {
				continue
			}
			f2, _ := featOf(cd)
			for _, rl := range rules {
				if rl.divs[cu.res.div] && rl.match(f2) {
					return prefix + rl.sig, msg, cu.mini
				}
			}
		}
	}
	return prefix + "other-" + cu.f.genericKey() + "-yaegi:" + cu.res.div, msg, cu.mini
}

// ---------------------------------------------------------------------------
// exclusion switches

type exclusionSet struct {
	prog []*rule // rules whose program-mode signature is a known finding
	eval []*rule // rules whose Eval-mode signature is a known finding
}

func (ex *exclusionSet) names() []string {
	var out []string
	for _, r := range ex.prog {
		out = append(out, r.sig)
	}
	for _, r := range ex.eval {
		out = append(out, "eval-"+r.sig)
	}
	return out
}

// match reports which modes must be skipped for this case, and why.
func (ex *exclusionSet) match(c *Case) (skipProg, skipEval bool, why []string) {
	if len(ex.prog) == 0 && len(ex.eval) == 0 {
		return
	}
	v := typecheck(c.render())
	for _, cd := range v.candidates(c) {
		f, _ := featOf(cd)
		if cd.ctxValid && !f.goOK {
			continue
		}
		for _, r := range ex.prog {
			if r.match(f) {
				if !skipProg {
					why = append(why, r.sig)
				}
				skipProg, skipEval = true, true
			}
		}
		for _, r := range ex.eval {
			if r.match(f) {
				if !skipEval {
					why = append(why, "eval-"+r.sig)
				}
				skipEval = true
			}
		}
	}
	return
}

func stripParens(e ast.Expr) ast.Expr {
	for {
		p, ok := e.(*ast.ParenExpr)
		if !ok {
			return e
		}
		e = p.X
	}
}

// isPlainOperand: a literal, an identifier or a signed literal.
func isPlainOperand(e ast.Expr) bool {
	switch x := stripParens(e).(type) {
	case *ast.BasicLit, *ast.Ident:
		return true
	case *ast.UnaryExpr:
		_, ok := stripParens(x.X).(*ast.BasicLit)
		return ok && (x.Op == token.SUB || x.Op == token.ADD)
	}
	return false
}

func (v *verdict) untypedKind(e ast.Expr) string {
	tv, ok := v.info.Types[stripParens(e)]
	if !ok || tv.Type == nil {
		return ""
	}
	if b, ok := tv.Type.(*types.Basic); ok && b.Info()&types.IsUntyped != 0 {
		return b.Name()
	}
	return ""
}

// tags records the constructs occurring inside expression e.
func (v *verdict) tags(e ast.Expr, has map[string]bool) {
	// typed shift counts do not make the shifted expression typed
	var counts []ast.Expr
	ast.Inspect(e, func(n ast.Node) bool {
		if b, ok := n.(*ast.BinaryExpr); ok && (b.Op == token.SHL || b.Op == token.SHR) {
			counts = append(counts, b.Y)
		}
		return true
	})
	inCount := func(n ast.Node) bool {
		for _, c := range counts {
			if n.Pos() >= c.Pos() && n.End() <= c.End() {
				return true
			}
		}
		return false
	}
	hadTyped := has["typed-leaf"]
	defer func() {
		if !hadTyped && !has["typed-leaf-outside-count"] {
			delete(has, "typed-leaf")
		}
	}()
	ast.Inspect(e, func(n ast.Node) bool {
		if n != nil && !inCount(n) {
			switch x := n.(type) {
			case *ast.CallExpr:
				if id, ok := x.Fun.(*ast.Ident); ok && (id.Name == "len" || isTypeName(id.Name)) {
					has["typed-leaf-outside-count"] = true
				}
			case *ast.Ident:
				if c, ok := v.info.Uses[x].(*types.Const); ok {
					if b, ok := c.Type().(*types.Basic); !ok || b.Info()&types.IsUntyped == 0 {
						has["typed-leaf-outside-count"] = true
					}
				}
			}
		}
		switch x := n.(type) {
		case *ast.BinaryExpr:
			has["binop"] = true
			if xk, yk := v.untypedKind(x.X), v.untypedKind(x.Y); xk != "" && yk != "" {
				has["untyped-binop"] = true
				if x.Op == token.QUO && xk == "untyped rune" {
					has["rune-quo"] = true
				}
				if x.Op == token.QUO && (xk == "untyped rune" || xk == "untyped int") {
					has["int-quo"] = true
				}
				if x.Op == token.QUO && xk == "untyped complex" {
					// divisor without imaginary part (its recorded value; iota makes it per-line, the kind does not change)
					if tv, ok := v.info.Types[stripParens(x.Y)]; ok && tv.Value != nil &&
						constant.Sign(constant.Imag(constant.ToComplex(tv.Value))) == 0 {
						has["complex-real-quo"] = true
					}
				}
			}
			switch x.Op {
			case token.EQL, token.NEQ, token.LSS, token.LEQ, token.GTR, token.GEQ:
				has["cmp"] = true
			case token.LAND, token.LOR:
				has["logic"] = true
			case token.SHL, token.SHR:
				has["shift"] = true
				// go/types records the shifted untyped operand with its final (integer) type, so look at the syntax
				if v.floatish(x.X) {
					has["floatshift"] = true
				}
			case token.QUO:
				has["quo"] = true
			case token.SUB:
				has["neg"] = true
			case token.REM, token.AND, token.OR, token.XOR, token.AND_NOT:
				has["intop"] = true
			}
		case *ast.UnaryExpr:
			has["unop"] = true
			if x.Op == token.XOR {
				has["intop"] = true
				has["neg"] = true // ^x is negative for x >= 0
			}
			if x.Op == token.SUB {
				has["neg"] = true
			}
		case *ast.BasicLit:
			if x.Kind == token.FLOAT || x.Kind == token.IMAG {
				has["floatlit"] = true
			}
		case *ast.Ident:
			if c, ok := v.info.Uses[x].(*types.Const); ok {
				if cv := c.Val(); cv != nil && (cv.Kind() == constant.Int || cv.Kind() == constant.Float || cv.Kind() == constant.Complex) &&
					constant.Sign(constant.Real(constant.ToComplex(cv))) < 0 {
					has["neg"] = true // a named constant with a negative value
				}
				if b, ok := c.Type().(*types.Basic); ok {
					if b.Info()&types.IsUntyped == 0 {
						has["typed-leaf"] = true
					} else if b.Kind() == types.UntypedFloat || b.Kind() == types.UntypedComplex {
						has["floatlit"] = true
					}
				} else {
					has["typed-leaf"] = true
				}
			}
		case *ast.CallExpr:
			id, _ := x.Fun.(*ast.Ident)
			if id == nil || len(x.Args) != 1 {
				return true
			}
			switch {
			case id.Name == "len":
				has["len"] = true
				has["typed-leaf"] = true
				if _, ok := stripParens(x.Args[0]).(*ast.BinaryExpr); ok {
					has["len-folded"] = true
				}
			case isTypeName(id.Name):
				has["conv"] = true
				has["typed-leaf"] = true
				if !isPlainOperand(x.Args[0]) {
					has["conv-folded"] = true
				}
			}
		}
		return true
	})
}

// benign reports that pushing the declared type T into the operands of the
// untyped constant expression e cannot change its value: every sub-expression
// has an exact value which T represents exactly (an integer in range for an
// integer T; an exactly representable float for a float or complex T, and then
// no operator restricted to integers). Folding such an expression operand by
// operand in T gives the value of the exact expression converted once.
func (v *verdict) benign(e ast.Expr, T string) bool {
	if T == "bool" || T == "string" {
		return true
	}
	if !isIntT(T) && !isFloatT(T) && !isComplexT(T) {
		return false
	}
	ok := true
	ast.Inspect(e, func(n ast.Node) bool {
		x, isExpr := n.(ast.Expr)
		if !isExpr || !ok {
			return ok
		}
		if !isIntT(T) {
			switch y := x.(type) {
			case *ast.BinaryExpr:
				switch y.Op {
				case token.REM, token.AND, token.OR, token.XOR, token.AND_NOT, token.SHL, token.SHR:
					ok = false
				}
			case *ast.UnaryExpr:
				if y.Op == token.XOR {
					ok = false
				}
			}
		}
		tv, found := v.info.Types[x]
		if !found || tv.Value == nil || !fitsExactly(tv.Value, T) {
			ok = false
		}
		return ok
	})
	return ok
}

func fitsExactly(val constant.Value, T string) bool {
	switch val.Kind() {
	case constant.Int, constant.Float:
	case constant.Complex:
		if !isComplexT(T) {
			return false
		}
		part := map[string]string{"complex64": "float32", "complex128": "float64"}[T]
		return fitsExactly(constant.Real(val), part) && fitsExactly(constant.Imag(val), part)
	default:
		return false
	}
	switch {
	case isIntT(T):
		i := constant.ToInt(val)
		if i.Kind() != constant.Int {
			return false
		}
		b := bigOf(i)
		if b == nil {
			return false
		}
		min, max := intRange(T)
		return b.Cmp(min) >= 0 && b.Cmp(max) <= 0
	case T == "float32" || T == "complex64":
		f, exact := constant.Float32Val(val)
		return exact && !math.IsInf(float64(f), 0) && !(f == 0 && constant.Sign(val) != 0)
	case T == "float64" || T == "complex128":
		f, exact := constant.Float64Val(val)
		return exact && !math.IsInf(f, 0) && !(f == 0 && constant.Sign(val) != 0)
	}
	return false
}

// floatish: the expression is syntactically a float constant (a float
// literal, possibly signed, parenthesised or shifted itself).
func (v *verdict) floatish(e ast.Expr) bool {
	switch x := stripParens(e).(type) {
	case *ast.BasicLit:
		return x.Kind == token.FLOAT
	case *ast.Ident:
		if c, ok := v.info.Uses[x].(*types.Const); ok {
			if b, ok := c.Type().(*types.Basic); ok {
				return b.Kind() == types.UntypedFloat
			}
		}
	case *ast.UnaryExpr:
		return v.floatish(x.X)
	case *ast.BinaryExpr:
		if x.Op == token.SHL || x.Op == token.SHR {
			return false
		}
		return v.floatish(x.X) || v.floatish(x.Y)
	}
	return false
}

// declTags records block-structure constructs of the const declarations of a
// mini case.
func (v *verdict) declTags(m *Case, has map[string]bool) {
	us := v.units(m)
	for i, u := range us {
		// forward references: this unit uses a name declared by a later unit
		for j := i + 1; j < len(us); j++ {
			for n := range us[j].names {
				if u.refs[n] {
					has["fwd-ref"] = true
					if u.refs["iota"] {
						has["iota-fwd-ref"] = true
					}
				}
			}
		}
	}
	for _, u := range us {
		if u.gd == nil || u.gd.Tok != token.CONST {
			continue
		}
		usesIota := u.refs["iota"]
		multiSeen := false
		for i, s := range u.gd.Specs {
			vs, ok := s.(*ast.ValueSpec)
			if !ok {
				continue
			}
			if i > 0 && len(vs.Values) == 0 {
				has["implicit"] = true
				if len(vs.Names) > 1 {
					has["implicit-multi"] = true
				}
			}
			if multiSeen && usesIota {
				has["iota-after-multi"] = true
			}
			if len(vs.Names) > 1 {
				multiSeen = true
				has["multi"] = true
			}
			for _, val := range vs.Values {
				t := map[string]bool{}
				v.tags(val, t)
				if t["floatshift"] {
					has["floatshift"] = true
				}
				if t["rune-quo"] {
					has["rune-quo"] = true
				}
				ast.Inspect(val, func(n ast.Node) bool {
					if b, ok := n.(*ast.BinaryExpr); ok && (b.Op == token.QUO || b.Op == token.REM) {
						if tv, ok := v.info.Types[b.Y]; ok && tv.Type != nil {
							if bt, ok := tv.Type.Underlying().(*types.Basic); ok && bt.Info()&types.IsUntyped == 0 && bt.Info()&types.IsInteger != 0 {
								has["typed-divisor"] = true
							}
						}
					}
					return true
				})
			}
		}
	}
}

func ownIndex(m *Case, own string) int {
	for i, d := range m.Decls {
		if d == own {
			return i
		}
	}
	return len(m.Decls) - 1
}
