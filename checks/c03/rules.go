package c03

import (
	"go/constant"
	"math/big"
	"regexp"
	"strings"

	"verif/internal/vf"
)

// rule is one root cause: a static predicate over the features of the culprit
// candidate plus the divergence kinds it explains. Predicates never look at
// what yaegi did; they describe the construct.
type rule struct {
	sig   string
	divs  map[string]bool
	match func(f *feat) bool
}

func divs(ds ...string) map[string]bool {
	m := map[string]bool{}
	for _, d := range ds {
		m[d] = true
	}
	return m
}

func isSignedT(t string) bool   { return strings.HasPrefix(t, "int") }
func isUnsignedT(t string) bool { return strings.HasPrefix(t, "uint") }
func isIntT(t string) bool      { return isSignedT(t) || isUnsignedT(t) }
func isFloatT(t string) bool    { return strings.HasPrefix(t, "float") }
func isComplexT(t string) bool  { return strings.HasPrefix(t, "complex") }

func (o opnd) typedInt() bool { return o.valid && !o.untyped && isIntT(o.typ) }
func (o opnd) typedFloat() bool {
	return o.valid && !o.untyped && (isFloatT(o.typ) || isComplexT(o.typ))
}
func (o opnd) untypedNum() bool {
	return o.valid && o.untyped && o.typ != "untyped string" && o.typ != "untyped bool" && o.typ != "untyped nil"
}
func (o opnd) kind(k string) bool { return o.valid && o.untyped && o.typ == "untyped "+k }

// convSite: the candidate converts constant x to integer type T (explicitly or
// implicitly); it returns T and the converted operand.
func convSite(f *feat) (string, opnd, bool) {
	switch f.kind {
	case "conv":
		return f.T, f.x, f.T != ""
	case "spec":
		return f.T, f.x, f.T != "" && f.x.valid && f.x.untyped
	case "obs":
		if f.op == "typed" || f.op == "arg" || f.op == "case" {
			return f.T, f.x, true
		}
	case "binary":
		if f.op == "<<" || f.op == ">>" {
			return "", opnd{}, false
		}
		if f.x.valid && f.y.valid && !f.x.untyped && f.y.untyped {
			return f.x.typ, f.y, true
		}
		if f.x.valid && f.y.valid && f.x.untyped && !f.y.untyped {
			return f.y.typ, f.x, true
		}
	}
	return "", opnd{}, false
}

// bitlenBug: v is outside signed T but its magnitude needs no more bits than
// the width of T (the bound representableConst uses).
func bitlenBug(T string, v constant.Value) bool {
	if !isSignedT(T) || v == nil {
		return false
	}
	b := bigOf(v)
	if b == nil {
		return false
	}
	min, max := intRange(T)
	if b.Cmp(min) >= 0 && b.Cmp(max) <= 0 {
		return false
	}
	return new(big.Int).Abs(b).BitLen() <= int(intWidth[T])
}

func intResult(f *feat) (string, bool) {
	switch f.kind {
	case "unary":
		return f.x.typ, f.x.typedInt()
	case "binary":
		if f.op == "<<" || f.op == ">>" {
			return f.x.typ, f.x.typedInt()
		}
		if f.x.typedInt() {
			return f.x.typ, true
		}
		return f.y.typ, f.y.typedInt()
	}
	return "", false
}

func floatOperand(f *feat) bool {
	return (f.kind == "binary" || f.kind == "unary") && (f.x.typedFloat() || f.y.typedFloat())
}

func isCmpOp(op string) bool { return opClass(op) == "cmp" }

// zeroPart: a float or complex constant with a component that is zero once
// rounded to float64 (exact zero, or an underflowing tiny value).
func zeroPart(o opnd) bool {
	if !o.valid || o.val == nil {
		return false
	}
	if !strings.Contains(o.typ, "float") && !strings.Contains(o.typ, "complex") {
		return false
	}
	isZero := func(v constant.Value) bool {
		f, _ := constant.Float64Val(constant.ToFloat(v))
		return f == 0
	}
	switch o.val.Kind() {
	case constant.Int, constant.Float:
		return isZero(o.val)
	case constant.Complex:
		return isZero(constant.Real(o.val)) || isZero(constant.Imag(o.val))
	}
	return false
}

// go/types words the overflow of a typed operation as "x op y (constant N of type T) overflows T"
var typedOpOverflow = regexp.MustCompile(`\(constant -?[0-9]+ of type u?int[0-9a-z]*\) overflows`)

var all = divs("accepted", "rejected", "value", "type", "crash")

// rules is ordered: the first matching rule names the signature.
var rules = []*rule{
	{"arraylen-float-const-escaped-panic", divs("crash", "rejected"), func(f *feat) bool {
		return f.kind == "arraydecl" && f.goOK && f.x.valid && f.x.val != nil && f.x.val.Kind() == constant.Float ||
			f.kind == "arraydecl" && f.goOK && strings.ContainsAny(f.x.text, ".ep") && !strings.HasPrefix(strings.ToLower(f.x.text), "0x") && f.x.isLit
	}},
	{"len-of-nil-array-pointer-evaluated", divs("crash", "rejected", "value"), func(f *feat) bool {
		return f.kind == "arraydecl" && f.op == "ptr" && f.goOK
	}},
	{"switch-case-const-not-converted-to-tag-type", divs("accepted", "crash", "value"), func(f *feat) bool {
		if f.kind != "obs" || f.op != "case" {
			return false
		}
		if !f.goOK {
			return true
		}
		b := bigOf(f.x.val) // accepted by Go: only values beyond int64 misbehave (uint tags)
		return f.x.valid && b != nil && !b.IsInt64()
	}},
	{"signed-overflow-accepted", divs("accepted"), func(f *feat) bool {
		T, x, ok := convSite(f)
		return ok && !f.goOK && f.goClass == "overflow" && x.valid && bitlenBug(T, x.val)
	}},
	{"comparison-untyped-operand-not-checked", divs("accepted"), func(f *feat) bool {
		return f.kind == "binary" && isCmpOp(f.op) && !f.goOK && f.x.valid && f.y.valid && f.x.untyped != f.y.untyped
	}},
	{"logical-op-on-non-bool-accepted", divs("accepted", "crash"), func(f *feat) bool {
		return (f.kind == "binary" && opClass(f.op) == "logic" || f.kind == "spec" && f.has["logic"]) && !f.goOK && (f.goClass == "opundefined" || f.goClass == "mismatch")
	}},
	{"comparison-and-logical-ops-not-folded", divs("value", "crash", "rejected", "type"), func(f *feat) bool {
		return f.goOK && (f.has["cmp"] || f.has["logic"])
	}},
	{"iota-multi-name-implicit-repetition", all, func(f *feat) bool {
		return f.declHas["implicit-multi"]
	}},
	{"iota-advances-per-name", all, func(f *feat) bool {
		return f.declHas["iota-after-multi"]
	}},
	{"iota-wrong-after-forward-reference", divs("value", "type", "rejected", "crash", "accepted"), func(f *feat) bool {
		return f.declHas["iota-fwd-ref"]
	}},
	{"arraylen-forward-const-reference-rejected", divs("rejected", "crash"), func(f *feat) bool {
		// [c + 1]T and [int(c)]T are accepted: the conversion to another type than int is what fails
		return f.kind == "arraydecl" && f.goOK && f.declHas["fwd-ref"] && f.has["conv"]
	}},
	{"shift-of-untyped-float-stays-float", divs("rejected", "type", "value", "crash", "accepted"), func(f *feat) bool {
		return (f.has["floatshift"] || f.declHas["floatshift"]) && (f.goOK || f.goClass == "overflow")
	}},
	{"typed-int-const-op-overflow-accepted", divs("accepted"), func(f *feat) bool {
		if f.kind == "spec" && !f.goOK && f.goClass == "overflow" && typedOpOverflow.MatchString(f.goMsg) {
			return true // a spec using iota has no stand-alone sub-expressions
		}
		_, ok := intResult(f)
		if !ok || f.goOK || f.goClass != "overflow" {
			return false
		}
		// the operands themselves are fine: the result overflows
		if f.kind == "binary" && f.op != "<<" && f.op != ">>" {
			if T, x, site := convSite(f); site {
				if _, fits := fit(x.val, T); !fits {
					return false
				}
			}
		}
		return true
	}},
	{"typed-const-zero-divisor-not-rejected", divs("accepted"), func(f *feat) bool {
		if f.goOK || f.goClass != "divzero" {
			return false
		}
		if f.kind == "spec" && f.has["quo"] || f.kind == "spec" && f.has["intop"] {
			return true // const specs (iota, declared type): the divisor is typed or becomes typed through the declaration
		}
		return f.kind == "binary" && (f.op == "/" || f.op == "%") && f.y.valid && !f.y.untyped
	}},
	{"typed-const-conversion-overflow-accepted", divs("accepted"), func(f *feat) bool {
		return f.kind == "conv" && !f.goOK && (f.goClass == "overflow" || f.goClass == "truncated") && f.x.valid && !f.x.untyped
	}},
	{"string-of-int-const-beyond-int32", divs("value"), func(f *feat) bool {
		if f.kind != "conv" || f.T != "string" || !f.goOK || !f.x.valid {
			return false
		}
		b := bigOf(f.x.val)
		return b != nil && f.x.val.Kind() == constant.Int && (!b.IsInt64() || b.Int64() > 1<<31-1 || b.Int64() < -1<<31)
	}},
	{"negative-zero-constant", divs("value"), func(f *feat) bool {
		// the result has a zero float/complex component and the expression can produce a negative
		// (possibly underflowing) intermediate: yaegi prints -0, Go constants have no negative zero
		if !f.goOK || !zeroPart(f.res) {
			return false
		}
		if strings.Contains(f.res.typ, "complex") {
			return f.has["binop"] || f.has["unop"]
		}
		neg := func(o opnd) bool {
			return o.valid && o.val != nil && o.val.Kind() != constant.String && o.val.Kind() != constant.Bool &&
				constant.Sign(constant.Real(constant.ToComplex(o.val))) < 0
		}
		return f.has["neg"] || neg(f.x) || neg(f.y)
	}},
	{"typed-float-const-op-machine-arithmetic", divs("value", "accepted"), func(f *feat) bool {
		return floatOperand(f) && (f.goOK || f.goClass == "overflow" || f.goClass == "divzero")
	}},
	{"complex-const-divided-by-real-escaped-panic", divs("crash", "rejected", "value"), func(f *feat) bool {
		real := f.y.valid && f.y.val != nil && constant.Sign(constant.Imag(constant.ToComplex(f.y.val))) == 0
		return f.goOK && (f.kind == "binary" && f.op == "/" && f.x.kind("complex") && f.y.untyped && real || f.has["complex-real-quo"])
	}},
	{"untyped-rune-quotient-becomes-int", divs("type"), func(f *feat) bool {
		return f.goOK && (f.kind == "binary" && f.op == "/" && f.x.kind("rune") && f.y.kind("rune") || f.has["rune-quo"] || f.declHas["rune-quo"])
	}},
	{"untyped-rune-overflow-accepted", divs("accepted"), func(f *feat) bool {
		return !f.goOK && f.goClass == "overflow" && strings.Contains(f.goMsg, "untyped rune constant")
	}},
	{"untyped-int-beyond-int64-wraps", divs("accepted"), func(f *feat) bool {
		return !f.goOK && f.goClass == "overflow" && strings.Contains(f.goMsg, "untyped int constant") && strings.Contains(f.goMsg, "as int value")
	}},
	{"untyped-float-overflow-becomes-inf", divs("accepted"), func(f *feat) bool {
		return !f.goOK && f.goClass == "overflow" && (strings.Contains(f.goMsg, "untyped float constant") || strings.Contains(f.goMsg, "untyped complex constant"))
	}},
	{"len-of-folded-string-as-operand", divs("crash", "value", "rejected"), func(f *feat) bool {
		return f.goOK && f.has["len-folded"] && f.kind != "len"
	}},
	{"const-decl-conversion-of-folded-constant", all, func(f *feat) bool {
		return f.kind == "spec" && f.has["conv-folded"]
	}},
	{"const-decl-integer-quotient-not-truncated", divs("value", "rejected", "crash", "type"), func(f *feat) bool {
		return f.kind == "spec" && f.goOK && f.has["int-quo"] && (f.has["floatlit"] || isFloatT(f.T) || isComplexT(f.T))
	}},
	{"decl-type-pushed-into-untyped-operands", divs("value", "type", "rejected", "crash"), func(f *feat) bool {
		// a typed declaration (or an untyped const declaration of float/complex kind) initialised by an
		// untyped constant expression with operators: yaegi converts the operands to the declared type
		// before folding instead of converting the exact result
		if !f.has["binop"] || !f.goOK {
			return false
		}
		if f.has["benign-typed-site"] && !f.has["typed-leaf"] {
			// every intermediate value is exact in the declared type: the push cannot show
			return false
		}
		if f.kind == "spec" && f.has["untyped-binop"] && (f.T != "" || f.has["typed-leaf"]) {
			return true // const declarations: the type also comes from a typed operand
		}
		if f.has["typed-leaf"] {
			return false
		}
		typedSite := f.kind == "spec" && f.T != "" || f.kind == "obs" && (f.op == "typed" || f.op == "arg")
		mixed := f.kind == "spec" && f.T == "" && f.has["floatlit"] && (f.has["shift"] || f.has["intop"])
		return typedSite || mixed
	}},
	{"decl-type-pushed-into-untyped-operands", divs("accepted"), func(f *feat) bool {
		// the same mechanism makes an integer-only operator with a float literal operand acceptable:
		// const c uint32 = (2 ^ 16) % 1e0
		typedSite := f.kind == "spec" && f.T != "" || f.kind == "obs" && (f.op == "typed" || f.op == "arg")
		return typedSite && !f.goOK && f.has["binop"] && (f.goClass == "opundefined" || f.goClass == "shiftoperand")
	}},
	{"typed-decl-negative-shift-count-accepted", divs("accepted"), func(f *feat) bool {
		typedSite := f.kind == "spec" && f.T != "" || f.kind == "obs" && (f.op == "typed" || f.op == "arg")
		return typedSite && !f.goOK && f.goClass == "negshift"
	}},
	{"typed-decl-untyped-bool-accepted", divs("accepted"), func(f *feat) bool {
		typedSite := f.kind == "spec" && f.T != "" || f.kind == "obs" && (f.op == "typed" || f.op == "arg")
		return typedSite && !f.goOK && f.T != "bool" && (f.x.kind("bool") || f.goClass == "mismatch" && strings.Contains(f.goMsg, "untyped bool"))
	}},
	{"typed-decl-misfit-accepted", divs("accepted"), func(f *feat) bool {
		// only initialisers with operators: a plain literal that does not fit is rejected correctly
		typedSite := f.kind == "spec" && f.T != "" || f.kind == "obs" && (f.op == "typed" || f.op == "arg")
		if !typedSite || f.goOK || !(f.has["binop"] || f.has["unop"]) {
			return false
		}
		return f.goClass == "overflow" || f.goClass == "truncated"
	}},
	{"complex-conversion-of-typed-real-rejected", divs("rejected"), func(f *feat) bool {
		return f.kind == "conv" && isComplexT(f.T) && f.goOK && f.x.valid && !f.x.untyped && !isComplexT(f.x.typ)
	}},
}

// exclusions builds the generator switches from known_findings.jsonl. A rule
// whose program-mode signature is known switches the construct off for both
// modes; a rule known only as "eval-<sig>" switches off the Eval sub-check.
func exclusions() *exclusionSet {
	ex := &exclusionSet{}
	for _, r := range rules {
		if vf.IsKnown("C03", r.sig) {
			ex.prog = append(ex.prog, r)
		} else if vf.IsKnown("C03", "eval-"+r.sig) {
			ex.eval = append(ex.eval, r)
		}
	}
	return ex
}
