package c03

import (
	"fmt"
	"go/constant"
	"go/token"
	"math/big"
	"strings"

	"pgregory.net/rapid"
)

// genInfo carries generator-side labels of one case.
type genInfo struct {
	labels []string
}

func (g *gen) newName(prefix string) string {
	g.nextID++
	return fmt.Sprintf("%s%d", prefix, g.nextID)
}

// intoRange wraps an untyped expression whose value does not fit its default
// type so that the observed result does (the big value stays an operand).
func (g *gen) intoRange(n *node) *node {
	tv, ok := n.eval(g.iota)
	if !ok || fitsDefault(tv.ct, tv.v) {
		return n
	}
	bin := func(op string, l, r *node) *node { return &node{op: "bin", tok: op, kids: []*node{l, r}} }
	var out *node
	switch tv.ct.k {
	case kInt, kRune:
		b := bigOf(tv.v)
		bits := b.BitLen()
		switch g.intn(7, "rangefix") {
		case 0:
			out = bin(">>", n, g.intLitOf(big.NewInt(int64(bits-10-g.intn(50, "keep")))))
		case 1:
			m := g.bigBits(8 + g.intn(54, "modbits"))
			out = bin("%", n, g.intLitOf(m))
		case 2:
			out = bin("/", n, g.intLitOf(g.bigBits(bits-5-g.intn(50, "divbits"))))
		case 3:
			other := g.intLitOf(g.bigBits(bits))
			if g.chance(30, "selfcmp") {
				other = g.intLitOf(new(big.Int).Abs(b))
			}
			out = bin(g.pick("cmp", "==", "!=", "<", "<=", ">", ">="), n, other)
		case 4:
			out = &node{op: "conv", tok: "float64", kids: []*node{n}}
		case 5:
			out = bin("&", n, g.intLitOf(g.bigBits(10+g.intn(52, "maskbits"))))
		default:
			out = bin("*", n, &node{op: "lit", tok: "1e-50", tv: tval{untyped(kFloat), constant.MakeFromLiteral("1e-50", token.FLOAT, 0)}})
			out = bin("/", n, out)
		}
	case kFloat:
		switch g.intn(3, "rangefixf") {
		case 0:
			out = bin(g.pick("cmp", "<", "<=", ">", ">=", "==", "!="), n, g.floatLit())
		case 1:
			out = bin("/", n, n)
		default:
			out = bin("*", n, &node{op: "lit", tok: "1e-400", tv: tval{untyped(kFloat), constant.MakeFromLiteral("1e-400", token.FLOAT, 0)}})
		}
	default:
		out = bin(g.pick("eq", "==", "!="), n, n)
	}
	if tv2, ok := out.eval(g.iota); ok && fitsDefault(tv2.ct, tv2.v) {
		return out
	}
	return bin("==", n, n)
}

func (g *gen) randomTarget() ctype {
	switch p := g.intn(100, "target"); {
	case p < 24:
		return untyped(kInt)
	case p < 29:
		return untyped(kRune)
	case p < 43:
		return untyped(kFloat)
	case p < 50:
		return untyped(kComplex)
	case p < 57:
		return untyped(kString)
	case p < 69:
		return untyped(kBool)
	case p < 87:
		return typedT(intTypes[g.intn(len(intTypes), "intT")])
	default:
		return typedT(g.pick("otherT", "float32", "float64", "complex64", "complex128", "string", "bool", "float64", "float32"))
	}
}

func (g *gen) depth() int {
	return []int{1, 2, 2, 3, 3, 3, 4, 4, 5, 6}[g.intn(10, "depth")]
}

// misfit is untyped source text that is not representable in type name.
func (g *gen) misfit(name string) string {
	t := typedT(name)
	switch t.k {
	case kInt:
		min, max := intRange(name)
		w := intWidth[name]
		one := big.NewInt(1)
		lit := func(b *big.Int) string {
			if b.Sign() < 0 {
				return "-" + g.intLitOf(new(big.Int).Neg(b)).String()
			}
			return g.intLitOf(b).String()
		}
		switch g.intn(8, "misfit") {
		case 0:
			return lit(new(big.Int).Add(max, one))
		case 1:
			return lit(new(big.Int).Sub(min, one))
		case 2:
			return lit(new(big.Int).Sub(new(big.Int).Lsh(one, w), one))
		case 3:
			return lit(new(big.Int).Lsh(one, w))
		case 4:
			return g.pick("frac", "1.5", "0.5", "2.5e0", "1e-1")
		case 5:
			return fmt.Sprintf("1 << %d", w)
		case 6:
			return g.pick("bad", `"1"`, "true", "1i")
		default:
			return lit(g.bigBits(int(w) + 1 + g.intn(60, "extra")))
		}
	case kFloat:
		if name == "float32" {
			return g.pick("f32bad", "1e39", "3.5e38", "-1e39", `"1"`, "1i", "true")
		}
		return g.pick("f64bad", "1e309", "1e400", "-1.8e308", `"1"`, "2i", "false")
	case kComplex:
		if name == "complex64" {
			return g.pick("c64bad", "1e39", "1e39i", `"1"`, "true")
		}
		return g.pick("c128bad", "1e309", "1e309i", `"1"`, "true")
	case kString:
		return g.pick("strbad", "1", "1.5", "true", "'a'", "65")
	}
	return g.pick("boolbad", "1", "0", `"true"`, "1.0")
}

// constDecl generates `const name [T] = expr` and registers the constant.
func (g *gen) constDecl(faulty bool) string {
	name := g.newName("c")
	d := g.intn(4, "declDepth")
	if faulty {
		T := g.randomType("declT")
		g.label("fault:decl-misfit")
		g.consts = append(g.consts, cdecl{name, g.standin(typedT(T))})
		return fmt.Sprintf("const %s %s = %s", name, spell(g, T), g.misfit(T))
	}
	if g.chance(45, "typeddecl") {
		T := g.randomType("declT")
		var n *node
		if g.chance(50, "declexprtyped") {
			n = g.gen(d, typedT(T))
		} else {
			n = g.fitting(T, d)
		}
		tv, ok := n.eval(g.iota)
		if ok {
			tv, ok = implicitConv(tv, T)
		}
		if !ok {
			tv = g.standin(typedT(T))
		}
		g.consts = append(g.consts, cdecl{name, tv})
		return fmt.Sprintf("const %s %s = %s", name, spell(g, T), n)
	}
	n := g.gen(d, g.randomTarget())
	tv, ok := n.eval(g.iota)
	if !ok {
		tv = g.standin(untyped(kInt))
	}
	g.consts = append(g.consts, cdecl{name, tv})
	return fmt.Sprintf("const %s = %s", name, n)
}

// implicitConv models the assignment of a constant to a declared type.
func implicitConv(tv tval, T string) (tval, bool) {
	t := typedT(T)
	if tv.ct.typed {
		return tv, tv.ct.name == t.name
	}
	if !compatibleKinds(tv.ct.k, t.k) {
		return tval{}, false
	}
	v, ok := fit(tv.v, t.name)
	return tval{t, v}, ok
}

// arrayDecl generates `var aN [len]T` (or a pointer to an array) whose len()
// is a constant.
func (g *gen) arrayDecl() string {
	name := g.newName("a")
	var tgt ctype
	switch g.intn(4, "lenT") {
	case 0:
		tgt = typedT(intTypes[g.intn(len(intTypes), "lenIntT")])
	case 1:
		tgt = untyped(kRune)
	default:
		tgt = untyped(kInt)
	}
	fault := g.fault
	g.fault = false // the length must stay small: no reject-intended leaf here
	n := g.gen(g.intn(3, "lenDepth"), tgt)
	g.fault = fault
	tv, ok := n.eval(g.iota)
	var ln int64 = -1
	if ok {
		if b := bigOf(tv.v); b != nil && b.IsInt64() && b.Int64() >= 0 && b.Int64() <= 64 {
			ln = b.Int64()
		}
	}
	if ln < 0 {
		ln = int64(g.intn(40, "lenLit"))
		n = g.intLitOf(big.NewInt(ln))
		if g.chance(20, "floatlen") {
			n = &node{op: "lit", tok: fmt.Sprintf("%d.0", ln), tv: tval{untyped(kFloat), constant.MakeInt64(ln)}}
		}
	}
	elem := g.pick("elem", "int", "string", "byte", "float64", "bool", "[3]int8", "struct{}")
	g.arrays = append(g.arrays, cdecl{name, tval{typedT("int"), constant.MakeInt64(ln)}})
	if g.chance(30, "ptrarray") {
		return fmt.Sprintf("var %s *[%s]%s", name, n, elem)
	}
	return fmt.Sprintf("var %s [%s]%s", name, n, elem)
}

// iotaBlock generates a const block using iota. It returns the source and the
// names declared (in order).
func (g *gen) iotaBlock(overflow bool) (string, []cdecl) {
	type spec struct {
		typ   string
		exprs []*node
	}
	var b strings.Builder
	var declared []cdecl
	b.WriteString("const (\n")
	nspec := 2 + g.intn(6, "nspec")
	var prev *spec
	implicitSeen := false
	for i := 0; i < nspec; i++ {
		g.iota = int64(i)
		g.iotaOK = true
		implicit := prev != nil && g.chance(55, "implicit")
		var sp *spec
		if implicit {
			sp = prev
		} else {
			nn := []int{1, 1, 1, 1, 1, 1, 1, 2, 2, 3}[g.intn(10, "nnames")]
			sp = &spec{}
			if g.chance(35, "typedspec") {
				sp.typ = intTypes[g.intn(len(intTypes), "specT")]
				if g.chance(20, "specOtherT") {
					sp.typ = g.pick("specT2", "float64", "float32", "complex128", "string", "bool")
				}
			}
			for j := 0; j < nn; j++ {
				var n *node
				d := g.intn(4, "iotaDepth")
				if sp.typ != "" {
					if g.chance(50, "spectypedexpr") {
						n = g.gen(d, typedT(sp.typ))
					} else {
						n = g.fitting(sp.typ, d)
					}
				} else {
					n = g.gen(d, g.randomTarget())
				}
				if g.chance(40, "classiciota") && (sp.typ == "" || typedT(sp.typ).k == kInt) {
					// the classic patterns
					switch g.intn(6, "pattern") {
					case 0:
						n = &node{op: "iota", tok: "iota"}
					case 1:
						n = &node{op: "bin", tok: "<<", kids: []*node{g.intLitOf(big.NewInt(1)), &node{op: "iota", tok: "iota"}}}
					case 2:
						n = &node{op: "bin", tok: "<<", kids: []*node{g.intLitOf(big.NewInt(1)), &node{op: "bin", tok: "*", kids: []*node{g.intLitOf(big.NewInt(int64(2 + g.intn(20, "mul")))), &node{op: "iota", tok: "iota"}}}}}
					case 3:
						n = &node{op: "bin", tok: "+", kids: []*node{&node{op: "bin", tok: "*", kids: []*node{&node{op: "iota", tok: "iota"}, g.intLit(16)}}, g.intLit(8)}}
					case 4:
						n = &node{op: "bin", tok: "-", kids: []*node{g.intLit(8), &node{op: "iota", tok: "iota"}}}
					default:
						n = &node{op: "bin", tok: "*", kids: []*node{&node{op: "iota", tok: "iota"}, &node{op: "iota", tok: "iota"}}}
					}
					if sp.typ != "" && !isSignedName(sp.typ) && g.intn(6, "p") == 4 {
						n = &node{op: "iota", tok: "iota"}
					}
				}
				sp.exprs = append(sp.exprs, n)
			}
		}
		// evaluate the line
		vals := make([]tval, len(sp.exprs))
		lineOK := true
		for j, n := range sp.exprs {
			tv, ok := n.eval(int64(i))
			if ok && sp.typ != "" {
				tv, ok = implicitConv(tv, sp.typ)
			}
			if !ok {
				lineOK = false
			}
			vals[j] = tv
		}
		if !lineOK {
			if implicit && !overflow {
				break // stop the block before the line that would be rejected
			}
			if !implicit && !g.hasRaw(sp.exprs) {
				// modelled rejection without an intended fault: use plain iota
				for j := range sp.exprs {
					sp.exprs[j] = &node{op: "iota", tok: "iota"}
					tv, _ := sp.exprs[j].eval(int64(i))
					if sp.typ != "" {
						var ok bool
						if tv, ok = implicitConv(tv, sp.typ); !ok {
							sp.typ = ""
							tv, _ = sp.exprs[j].eval(int64(i))
						}
					}
					vals[j] = tv
				}
				lineOK = true
			}
		}
		names := make([]string, len(sp.exprs))
		for j := range names {
			if g.chance(15, "blank") {
				names[j] = "_"
				continue
			}
			names[j] = g.newName("k")
			tv := vals[j]
			if tv.v == nil {
				tv = g.standin(untyped(kInt))
			}
			d := cdecl{names[j], tv}
			declared = append(declared, d)
			g.consts = append(g.consts, d)
		}
		b.WriteString("\t" + strings.Join(names, ", "))
		if !implicit {
			if sp.typ != "" {
				b.WriteString(" " + spell(g, sp.typ))
			}
			es := make([]string, len(sp.exprs))
			for j, n := range sp.exprs {
				es[j] = n.String()
			}
			b.WriteString(" = " + strings.Join(es, ", "))
			prev = sp
		} else {
			implicitSeen = true
		}
		b.WriteString("\n")
		if !lineOK && overflow {
			g.label("fault:iota-overflow")
			break
		}
	}
	b.WriteString(")")
	g.iotaOK = false
	g.iota = 0
	if implicitSeen {
		g.label("iota-implicit")
	}
	return b.String(), declared
}

func (g *gen) hasRaw(ns []*node) bool {
	var walk func(n *node) bool
	walk = func(n *node) bool {
		if n.op == "raw" {
			return true
		}
		for _, k := range n.kids {
			if walk(k) {
				return true
			}
		}
		return false
	}
	for _, n := range ns {
		if walk(n) {
			return true
		}
	}
	return false
}

func identsOf(src string) map[string]bool {
	m := map[string]bool{}
	cur := strings.Builder{}
	flush := func() {
		if cur.Len() > 0 {
			m[cur.String()] = true
			cur.Reset()
		}
	}
	for _, r := range src {
		if r == '_' || (r >= 'a' && r <= 'z') || (r >= 'A' && r <= 'Z') || (r >= '0' && r <= '9' && cur.Len() > 0) {
			cur.WriteRune(r)
		} else {
			flush()
		}
	}
	flush()
	return m
}

// genCase draws one case.
func genCase(t *rapid.T) (*Case, *genInfo) {
	g := &gen{t: t}
	c := &Case{}
	reject := g.chance(30, "rejectIntent")
	family := "expr"
	switch p := g.intn(100, "family"); {
	case p >= 92:
		family = "ctx"
	case p >= 74:
		family = "iota"
	case p >= 48:
		family = "decls"
	}
	c.Origin = family
	g.label("family:" + family)
	if family == "ctx" {
		g.label("intent:accept")
		g.smallCtx(c)
		return c, &genInfo{labels: g.labels}
	}
	faultKind := ""
	if reject {
		g.label("intent:reject")
		switch p := g.intn(100, "faultKind"); {
		case p < 66:
			faultKind = "leaf"
			g.fault = true
		case p < 80:
			faultKind = "toplevel"
		case p < 90 && family != "expr":
			faultKind = "decl"
		case family == "iota":
			faultKind = "iota"
		default:
			faultKind = "leaf"
			g.fault = true
		}
	} else {
		g.label("intent:accept")
	}
	var iotaNames []cdecl
	switch family {
	case "decls":
		n := 1 + g.intn(4, "ndecls")
		faultAt := -1
		if faultKind == "decl" {
			faultAt = g.intn(n, "faultAt")
		}
		for i := 0; i < n; i++ {
			switch {
			case i == faultAt:
				c.Decls = append(c.Decls, g.constDecl(true))
			case g.chance(18, "arraydecl"):
				c.Decls = append(c.Decls, g.arrayDecl())
			case g.chance(15, "groupdecl"):
				k := 2 + g.intn(2, "groupn")
				var lines []string
				for j := 0; j < k; j++ {
					lines = append(lines, "\t"+strings.TrimPrefix(g.constDecl(false), "const "))
				}
				c.Decls = append(c.Decls, "const (\n"+strings.Join(lines, "\n")+"\n)")
			default:
				c.Decls = append(c.Decls, g.constDecl(false))
			}
		}
	case "iota":
		if g.chance(30, "predecl") {
			c.Decls = append(c.Decls, g.constDecl(faultKind == "decl"))
		}
		var src string
		src, iotaNames = g.iotaBlock(faultKind == "iota")
		c.Decls = append(c.Decls, src)
	}
	// main observed expression
	wantMain := family != "iota" || g.chance(50, "iotaMain") || len(iotaNames) == 0
	if wantMain {
		tgt := g.randomTarget()
		n := g.gen(g.depth(), tgt)
		if g.fault {
			// the reject-intended leaf was not placed yet
			g.fault = false
			f := g.faulty(tgt)
			if g.chance(50, "faultalone") || tgt.k == kBool {
				n = f
			} else {
				op := "+"
				if tgt.k == kBool {
					op = "&&"
				}
				n = &node{op: "bin", tok: op, kids: []*node{n, f}}
			}
		}
		form := Obs{Form: "var"}
		if faultKind != "toplevel" {
			n = g.intoRange(n)
		} else {
			g.label("fault:toplevel")
			n = g.topLevelFault()
		}
		tv, ok := n.eval(0)
		if ok && !tv.ct.typed && faultKind == "" && g.chance(15, "typedObs") {
			// assignment position: var v T = untyped expression fitting T
			var cands []string
			for _, T := range allTypes {
				if compatibleKinds(tv.ct.k, typedT(T).k) {
					if _, ok := fit(tv.v, T); ok {
						cands = append(cands, T)
					}
				}
			}
			if len(cands) > 0 {
				form = Obs{Form: "typed", T: spell(g, cands[g.intn(len(cands), "obsT")])}
			}
		}
		form.Expr = n.String()
		c.Obs = append(c.Obs, form)
	}
	// observe declared constants that nothing references (iota blocks: all names)
	used := map[string]bool{}
	for _, d := range c.Decls {
		for id := range identsOf(d) {
			used[id] = true
		}
	}
	// a name is "used" only if it appears somewhere else than its own declaration; approximate
	// by counting occurrences over the whole program text.
	all := strings.Join(c.Decls, "\n")
	for _, o := range c.Obs {
		all += "\n" + o.Expr
	}
	observe := func(d cdecl) {
		n := &node{op: "ident", tok: d.name, tv: d.tv}
		c.Obs = append(c.Obs, Obs{Form: "var", Expr: g.intoRange(n).String()})
	}
	if family == "iota" {
		for _, d := range iotaNames {
			observe(d)
		}
	}
	for _, d := range g.consts {
		if family == "iota" && containsDecl(iotaNames, d.name) {
			continue
		}
		if countIdent(all, d.name) <= 1 {
			observe(d)
		}
	}
	if len(c.Obs) == 0 {
		c.Obs = append(c.Obs, Obs{Form: "var", Expr: g.leaf(untyped(kInt)).String()})
	}
	if len(c.Decls) > 1 && g.chance(30, "shuffle") {
		g.label("decl-order-shuffled")
		perm := rapid.Permutation(c.Decls).Draw(t, "perm")
		c.Decls = perm
	}
	return c, &genInfo{labels: g.labels}
}

func containsDecl(ds []cdecl, name string) bool {
	for _, d := range ds {
		if d.name == name {
			return true
		}
	}
	return false
}

func countIdent(src, name string) int {
	n := 0
	for i := 0; i+len(name) <= len(src); {
		j := strings.Index(src[i:], name)
		if j < 0 {
			break
		}
		j += i
		end := j + len(name)
		before := j == 0 || !isIdentByte(src[j-1])
		after := end == len(src) || !isIdentByte(src[end])
		if before && after {
			n++
		}
		i = end
	}
	return n
}

func isIdentByte(b byte) bool {
	return b == '_' || (b >= 'a' && b <= 'z') || (b >= 'A' && b <= 'Z') || (b >= '0' && b <= '9')
}

// topLevelFault is an untyped expression that is fine as a constant but does
// not fit its default type when assigned to a variable.
func (g *gen) topLevelFault() *node {
	raw := func(s string, k kind) *node { return &node{op: "raw", tok: s, tv: g.standin(untyped(k))} }
	switch g.intn(8, "topfault") {
	case 0:
		return raw(g.intLitOf(g.bigBits(64+g.intn(137, "bits"))).String(), kInt)
	case 1:
		return raw("1 << "+fmt.Sprint(g.pick2(63, 64, 65, 100, 200)), kInt)
	case 2:
		return raw("-"+g.intLitOf(new(big.Int).Add(new(big.Int).Lsh(big.NewInt(1), 63), big.NewInt(int64(1+g.intn(5, "d"))))).String(), kInt)
	case 3:
		return raw(g.pick("hugef", "1e309", "1e400", "-1e1000", "0x1p1024", "1.8e308"), kFloat)
	case 4:
		return raw("1e308 * "+g.pick("mulf", "10", "10.0", "1e10", "2"), kFloat)
	case 5:
		return raw(g.pick("hugec", "1e309i", "1e400 + 1i", "1e308i * 10"), kComplex)
	case 6:
		n := g.gen(2, untyped(kInt))
		return raw(fmt.Sprintf("(%s) + %s", n, g.intLitOf(g.bigBits(70+g.intn(100, "bits")))), kInt)
	default:
		return raw(fmt.Sprintf("'a' << %d", g.pick2(25, 26, 31, 40, 64)), kRune)
	}
}

// smallCtx builds a case where an untyped constant expression over small
// operands meets a declared type: var v T = e, f(e) with a parameter of type
// T, or const c T = e. All the intermediate values are small, so that the only
// thing exercised is how the expected type interacts with the folding of the
// untyped operands (integer quotients in a float context, parenthesised
// operands, mixed integer and float literals).
func (g *gen) smallCtx(c *Case) {
	T := g.pick("ctxT", "float64", "float32", "complex128", "complex64", "float64", "int", "int32", "uint8", "int64", "uint")
	intT := intWidth[T] != 0
	var build func(d int) *node
	leaf := func() *node {
		if !intT && g.chance(25, "ctxfloat") {
			return g.modestFloat()
		}
		return g.intLitOf(big.NewInt(int64(1 + g.intn(24, "ctxleaf"))))
	}
	build = func(d int) *node {
		if d <= 0 || g.chance(20, "ctxstop") {
			return leaf()
		}
		ops := []string{"/", "/", "+", "-", "*"}
		if intT {
			ops = append(ops, "%", "&", "|", "^", "<<")
		}
		op := ops[g.intn(len(ops), "ctxop")]
		l, r := build(d-1), build(d-1)
		if op == "<<" {
			r = g.intLitOf(big.NewInt(int64(g.intn(4, "ctxshift"))))
		}
		n := &node{op: "bin", tok: op, kids: []*node{l, r}}
		if g.chance(10, "ctxneg") {
			n = &node{op: "un", tok: "-", kids: []*node{n}}
		}
		return n
	}
	var n *node
	for try := 0; try < 8; try++ {
		n = build(1 + g.intn(3, "ctxdepth"))
		if tv, ok := n.eval(0); ok && !tv.ct.typed {
			if _, ok := fit(tv.v, T); ok {
				break
			}
		}
		n = leaf()
	}
	switch p := g.intn(100, "ctxform"); {
	case p < 45:
		c.Obs = append(c.Obs, Obs{Form: "typed", T: T, Expr: n.String()})
	case p < 65:
		c.Obs = append(c.Obs, Obs{Form: "arg", T: T, Expr: n.String()})
	default:
		name := g.newName("c")
		c.Decls = append(c.Decls, "const "+name+" "+T+" = "+n.String())
		c.Obs = append(c.Obs, Obs{Form: "var", Expr: name})
	}
}
