package c03

import (
	"fmt"
	"go/constant"
	"go/token"
	"math/big"
	"math/bits"
	"strconv"
	"strings"

	"pgregory.net/rapid"
)

// node is a generated constant expression.
type node struct {
	op   string // lit ident iota un bin conv len raw
	tok  string // literal text / identifier / operator / spelled type name / raw source
	kids []*node
	tv   tval // lit, ident, len, raw: the (claimed) value
}

var binPrec = map[string]int{"*": 5, "/": 5, "%": 5, "<<": 5, ">>": 5, "&": 5, "&^": 5,
	"+": 4, "-": 4, "|": 4, "^": 4, "==": 3, "!=": 3, "<": 3, "<=": 3, ">": 3, ">=": 3, "&&": 2, "||": 1}

func (n *node) prec() int {
	switch n.op {
	case "bin":
		return binPrec[n.tok]
	case "un":
		return 6
	case "raw":
		return 0
	}
	return 7
}

func (n *node) String() string {
	switch n.op {
	case "un":
		k := n.kids[0]
		s := k.String()
		if k.prec() < 7 {
			s = "(" + s + ")"
		}
		return n.tok + s
	case "bin":
		l, r := n.kids[0], n.kids[1]
		ls, rs := l.String(), r.String()
		if l.prec() < n.prec() {
			ls = "(" + ls + ")"
		}
		if r.prec() <= n.prec() {
			rs = "(" + rs + ")"
		}
		return ls + " " + n.tok + " " + rs
	case "conv", "len":
		return n.tok + "(" + n.kids[0].String() + ")"
	}
	return n.tok
}

// eval computes the modelled type and value of n for a given iota.
func (n *node) eval(iota int64) (tval, bool) {
	switch n.op {
	case "lit", "ident", "raw", "lenfix":
		return n.tv, true
	case "iota":
		return tval{untyped(kInt), constant.MakeInt64(iota)}, true
	case "un":
		x, ok := n.kids[0].eval(iota)
		if !ok {
			return tval{}, false
		}
		return evalUnary(n.tok, x)
	case "bin":
		x, ok1 := n.kids[0].eval(iota)
		y, ok2 := n.kids[1].eval(iota)
		if !ok1 || !ok2 {
			return tval{}, false
		}
		return evalBinary(n.tok, x, y)
	case "conv":
		x, ok := n.kids[0].eval(iota)
		if !ok {
			return tval{}, false
		}
		return evalConv(n.tok, x)
	case "len":
		x, ok := n.kids[0].eval(iota)
		if !ok || x.ct.k != kString {
			return tval{}, false
		}
		return tval{typedT("int"), constant.MakeInt64(int64(len(constant.StringVal(x.v))))}, true
	}
	return tval{}, false
}

func (n *node) usesIota() bool {
	if n.op == "iota" {
		return true
	}
	for _, k := range n.kids {
		if k.usesIota() {
			return true
		}
	}
	return false
}

type cdecl struct {
	name string
	tv   tval
}

type gen struct {
	t      *rapid.T
	consts []cdecl  // constants usable as leaves
	arrays []cdecl  // array variables: tv = typed int length
	fault  bool     // a faulty (reject-intended) leaf is still to be placed
	iotaOK bool     // inside an iota block: `iota` may be used
	iota   int64    // iota of the spec under construction
	labels []string // generator-side class labels
	nextID int
}

// intn draws uniformly from [0,n). rapid's integer generators favour small
// values, which would distort every probability of this generator, so the
// number is assembled from fair coin flips (which still shrink towards 0).
func (g *gen) intn(n int, lbl string) int {
	if n <= 1 {
		return 0
	}
	k := bits.Len(uint(n - 1))
	v := 0
	for try := 0; try < 6; try++ {
		v = 0
		for i := 0; i < k; i++ {
			v <<= 1
			if rapid.Bool().Draw(g.t, lbl) {
				v |= 1
			}
		}
		if v < n {
			return v
		}
	}
	return v % n
}

func (g *gen) chance(pct int, lbl string) bool { return g.intn(100, lbl) < pct }

// mix is the splitmix64 finaliser: it spreads rapid's small-biased words over
// the whole range (used for the digits of big literals only).
func mix(x uint64) uint64 {
	x += 0x9e3779b97f4a7c15
	x = (x ^ (x >> 30)) * 0xbf58476d1ce4e5b9
	x = (x ^ (x >> 27)) * 0x94d049bb133111eb
	return x ^ (x >> 31)
}
func (g *gen) pick(lbl string, xs ...string) string { return xs[g.intn(len(xs), lbl)] }

func (g *gen) label(l string) { g.labels = append(g.labels, l) }

// ---------------------------------------------------------------------------
// literals

func (g *gen) bigBits(bits int) *big.Int {
	if bits <= 0 {
		return big.NewInt(0)
	}
	b := new(big.Int)
	for got := 0; got < bits; got += 32 {
		w := uint32(mix(rapid.Uint64().Draw(g.t, "w")))
		b.Lsh(b, 32).Or(b, big.NewInt(int64(w)))
	}
	mask := new(big.Int).Sub(new(big.Int).Lsh(big.NewInt(1), uint(bits)), big.NewInt(1))
	b.And(b, mask)
	b.SetBit(b, bits-1, 1)
	return b
}

func underscore(g *gen, digits string, group int) string {
	if len(digits) <= group {
		return digits
	}
	var b strings.Builder
	for i, c := range digits {
		if i > 0 && (len(digits)-i)%group == 0 {
			b.WriteByte('_')
		}
		b.WriteRune(c)
	}
	return b.String()
}

// intLitOf spells a non-negative integer in a random literal form.
func (g *gen) intLitOf(v *big.Int) *node {
	var s string
	switch g.intn(12, "intform") {
	case 0, 1, 2, 3, 4:
		s = v.Text(10)
	case 5:
		s = underscore(g, v.Text(10), 3)
	case 6:
		s = g.pick("hexp", "0x", "0X") + v.Text(16)
	case 7:
		s = "0x" + underscore(g, strings.ToUpper(v.Text(16)), 4)
	case 8:
		s = g.pick("octp", "0o", "0O") + v.Text(8)
	case 9:
		if v.Sign() == 0 {
			s = "0"
		} else {
			s = "0" + v.Text(8) // legacy octal
		}
	case 10:
		s = g.pick("binp", "0b", "0B") + v.Text(2)
	default:
		s = "0b" + underscore(g, v.Text(2), 8)
	}
	return &node{op: "lit", tok: s, tv: tval{untyped(kInt), mkBig(v)}}
}

var bitChoices = []int{1, 2, 3, 4, 7, 8, 9, 15, 16, 17, 31, 32, 33, 62, 63, 64, 65, 80, 100, 128, 150, 200}

// intLit draws an untyped integer literal of at most maxBits bits.
func (g *gen) intLit(maxBits int) *node {
	if g.chance(35, "small") || maxBits <= 3 {
		lim := 20
		if maxBits < 5 {
			lim = 1 << uint(maxBits)
		}
		return g.intLitOf(big.NewInt(int64(g.intn(lim, "smallv"))))
	}
	var cands []int
	for _, b := range bitChoices {
		if b <= maxBits {
			cands = append(cands, b)
		}
	}
	bits := cands[g.intn(len(cands), "bits")]
	v := g.bigBits(bits)
	if g.chance(25, "allones") {
		v = new(big.Int).Sub(new(big.Int).Lsh(big.NewInt(1), uint(bits)), big.NewInt(1))
	} else if g.chance(15, "pow2") {
		v = new(big.Int).Lsh(big.NewInt(1), uint(bits-1))
	}
	return g.intLitOf(v)
}

var runeLits = []string{`'a'`, `'Z'`, `'0'`, `' '`, `'\n'`, `'\t'`, `'\\'`, `'\''`, `'\x41'`, `'\x00'`, `'\xff'`, `'\101'`, `'\000'`,
	`'é'`, `'世'`, `'é'`, `'世'`, `'\U0001F600'`, `'\U0010FFFF'`, `'~'`}

func (g *gen) runeLit() *node {
	s := runeLits[g.intn(len(runeLits), "rune")]
	v := constant.MakeFromLiteral(s, token.CHAR, 0)
	return &node{op: "lit", tok: s, tv: tval{untyped(kRune), v}}
}

var floatLits = []string{"0.0", "1.0", "2.0", "0.5", "1.5", "2.5", ".25", "3.", "0.1", "0.2", "0.3", "1e3", "1E3", "2.5e-3", "1e+2", "6.02e23",
	"1_000.5", "1e1_0", "3.141592653589793", "2.718281828459045235360287", "0x1p-2", "0x1.8p1", "0X.8P3", "0x1p10", "0x1.fffffep127", "0x1p-149",
	"0x1.fffffffffffffp1023", "1e100", "1e-100", "1e308", "1e-320", "4.9e-324", "1e400", "1e-400", "1e1000", "1.7976931348623157e308",
	"3.4028234663852886e38", "16777217.0", "9007199254740993.0", "0.1e1", "00.5", "1e0", "123456789.125", "0.000001", "1e19", "1.0e63", "7.0", "8.0", "100.0"}

func (g *gen) floatLit() *node {
	s := floatLits[g.intn(len(floatLits), "float")]
	if g.chance(25, "rndfloat") {
		s = fmt.Sprintf("%d.%d", g.intn(1000, "fi"), g.intn(1000, "ff"))
		if g.chance(30, "fexp") {
			s += fmt.Sprintf("e%d", g.intn(80, "fe")-40)
		}
	}
	v := constant.MakeFromLiteral(s, token.FLOAT, 0)
	return &node{op: "lit", tok: s, tv: tval{untyped(kFloat), v}}
}

// modestFloat is a float literal of ordinary magnitude.
func (g *gen) modestFloat() *node {
	s := g.pick("mfloat", "0.5", "1.5", "2.0", "2.5", "0.25", "3.0", "1e2", "0.1", "10.0", "0x1p-2", "7.0", "1e-3")
	return &node{op: "lit", tok: s, tv: tval{untyped(kFloat), constant.MakeFromLiteral(s, token.FLOAT, 0)}}
}

var imagLits = []string{"1i", "2i", "0i", "1.5i", "0.5i", "3i", "1e2i", "0x10i", "0b11i", "2.5e-1i", "10i", "0o7i", "1_0i"}

func (g *gen) imagLit() *node {
	s := imagLits[g.intn(len(imagLits), "imag")]
	v := constant.MakeFromLiteral(s, token.IMAG, 0)
	return &node{op: "lit", tok: s, tv: tval{untyped(kComplex), v}}
}

var stringLits = []string{`""`, `"a"`, `"abc"`, `"héllo"`, `"世界"`, `"a\tb"`, `"\x41"`, `"é"`, `"q\"q"`, "`raw`", "`r\\n`", `"\xff"`, `"a\xffé"`,
	`"\U0001F600"`, `"0"`, `"1"`, `"true"`, `" "`, `"Hello, World"`, `"\101\102"`, `"%v"`, `"x|y"`}

func (g *gen) stringLit() *node {
	s := stringLits[g.intn(len(stringLits), "str")]
	v := constant.MakeFromLiteral(s, token.STRING, 0)
	return &node{op: "lit", tok: s, tv: tval{untyped(kString), v}}
}

func (g *gen) boolLit() *node {
	if g.chance(50, "bool") {
		return &node{op: "lit", tok: "true", tv: tval{untyped(kBool), constant.MakeBool(true)}}
	}
	return &node{op: "lit", tok: "false", tv: tval{untyped(kBool), constant.MakeBool(false)}}
}

func spell(g *gen, name string) string {
	switch name {
	case "uint8":
		if g.chance(30, "byte") {
			return "byte"
		}
	case "int32":
		if g.chance(30, "rune") {
			return "rune"
		}
	}
	return name
}

// ---------------------------------------------------------------------------
// expression trees

// accepts reports whether an expression of type have is admissible where tgt
// was requested.
func accepts(have, tgt ctype) bool {
	if tgt.typed {
		return have.typed && have.name == tgt.name
	}
	if have.typed {
		return false
	}
	if tgt.k <= kComplex {
		if tgt.k <= kRune {
			return have.k <= kRune
		}
		return have.k <= tgt.k
	}
	return have.k == tgt.k
}

// leaf produces a literal (or constant reference) of the requested type.
func (g *gen) leaf(tgt ctype) *node {
	// references to declared constants
	if len(g.consts) > 0 && g.chance(35, "useconst") {
		var cands []cdecl
		for _, c := range g.consts {
			if accepts(c.tv.ct, tgt) {
				cands = append(cands, c)
			}
		}
		if len(cands) > 0 {
			c := cands[g.intn(len(cands), "const")]
			return &node{op: "ident", tok: c.name, tv: c.tv}
		}
	}
	if g.iotaOK && !tgt.typed && tgt.k <= kComplex && g.chance(45, "iota") {
		return &node{op: "iota", tok: "iota"}
	}
	if tgt.typed {
		if tgt.name == "int" && g.chance(20, "lenleaf") {
			return g.lenExpr()
		}
		// a conversion of a fitting literal
		return &node{op: "conv", tok: spell(g, tgt.name), kids: []*node{g.fitting(tgt.name, 0)}}
	}
	switch tgt.k {
	case kInt:
		return g.intLit(200)
	case kRune:
		if g.chance(70, "runeleaf") {
			return g.runeLit()
		}
		return g.intLit(200)
	case kFloat:
		switch g.intn(10, "floatleaf") {
		case 0:
			return g.intLit(100)
		case 1:
			return g.runeLit()
		}
		return g.floatLit()
	case kComplex:
		switch g.intn(10, "cplxleaf") {
		case 0:
			return g.intLit(30)
		case 1, 2:
			return g.modestFloat()
		case 3, 4, 5:
			return &node{op: "bin", tok: g.pick("cop", "+", "-"), kids: []*node{g.modestFloat(), g.imagLit()}}
		}
		return g.imagLit()
	case kString:
		return g.stringLit()
	default:
		return g.boolLit()
	}
}

// fitting produces an untyped expression whose value is representable in the
// typed type name.
func (g *gen) fitting(name string, d int) *node {
	t := typedT(name)
	if d > 0 && g.chance(50, "fitexpr") {
		var src ctype
		switch t.k {
		case kInt:
			src = untyped(kInt)
			if g.chance(15, "fitrune") {
				src = untyped(kRune)
			}
		case kFloat:
			src = untyped(kFloat)
		case kComplex:
			src = untyped(kComplex)
		case kString:
			src = untyped(kString)
		default:
			src = untyped(kBool)
		}
		n := g.gen(d, src)
		if tv, ok := n.eval(g.iota); ok {
			if _, ok := fit(tv.v, name); ok {
				return n
			}
		}
	}
	switch t.k {
	case kInt:
		w := int(intWidth[name])
		signed := isSignedName(name)
		if signed {
			w--
		}
		// boundary values now and then
		min, max := intRange(name)
		switch g.intn(12, "fitbound") {
		case 0:
			return g.intLitOf(max)
		case 1:
			if signed {
				return &node{op: "un", tok: "-", kids: []*node{g.intLitOf(new(big.Int).Neg(min))}}
			}
			return g.intLitOf(big.NewInt(0))
		case 2:
			if g.chance(50, "fitfloat") {
				s := g.pick("fitfl", "1.0", "2.0", "7.0", "1e2", "0x1p3", "100.0", "1e1")
				return &node{op: "lit", tok: s, tv: tval{untyped(kFloat), constant.MakeFromLiteral(s, token.FLOAT, 0)}}
			}
			return g.runeLit2(name)
		}
		n := g.intLit(w)
		if signed && g.chance(30, "neg") {
			return &node{op: "un", tok: "-", kids: []*node{n}}
		}
		return n
	case kFloat:
		if g.chance(20, "fitint") {
			return g.intLit(20)
		}
		return g.modestFloat()
	case kComplex:
		switch g.intn(4, "fitcplx") {
		case 0:
			return g.intLit(16)
		case 1:
			return g.modestFloat()
		case 2:
			return g.imagLit()
		}
		return &node{op: "bin", tok: "+", kids: []*node{g.modestFloat(), g.imagLit()}}
	case kString:
		return g.stringLit()
	}
	return g.boolLit()
}

// runeLit2 is a rune literal that fits the integer type name.
func (g *gen) runeLit2(name string) *node {
	for i := 0; i < 4; i++ {
		n := g.runeLit()
		if _, ok := fit(n.tv.v, name); ok {
			return n
		}
	}
	return g.intLitOf(big.NewInt(65))
}

func (g *gen) lenExpr() *node {
	switch g.intn(6, "lenkind") {
	case 0, 1:
		return &node{op: "len", tok: "len", kids: []*node{g.gen(1, untyped(kString))}}
	case 2:
		if len(g.arrays) > 0 {
			a := g.arrays[g.intn(len(g.arrays), "arr")]
			return &node{op: "lenfix", tok: "len(" + a.name + ")", tv: a.tv}
		}
		fallthrough
	case 3:
		n := g.intn(20, "arrlen")
		elem := g.pick("elem", "int", "string", "byte", "float64", "bool", "[2]int", "struct{}")
		return &node{op: "lenfix", tok: fmt.Sprintf("len([%d]%s{})", n, elem), tv: tval{typedT("int"), constant.MakeInt64(int64(n))}}
	case 4:
		k := 1 + g.intn(4, "ellipsis")
		elems := make([]string, k)
		for i := range elems {
			elems[i] = strconv.Itoa(g.intn(9, "el"))
		}
		return &node{op: "lenfix", tok: "len([...]int{" + strings.Join(elems, ", ") + "})", tv: tval{typedT("int"), constant.MakeInt64(int64(k))}}
	default:
		return &node{op: "len", tok: "len", kids: []*node{g.stringLit()}}
	}
}

// gen produces an expression of the requested type whose modelled evaluation
// succeeds (unless it contains the reject-intended leaf).
func (g *gen) gen(d int, tgt ctype) *node {
	if g.fault && g.chance(22, "faulthere") {
		g.fault = false
		return g.faulty(tgt)
	}
	if d <= 0 || g.chance(18, "leafnow") {
		return g.leaf(tgt)
	}
	for try := 0; try < 3; try++ {
		n := g.compose(d, tgt)
		if n == nil {
			continue
		}
		if tv, ok := n.eval(g.iota); ok && accepts(tv.ct, tgt) {
			return n
		}
	}
	return g.leaf(tgt)
}

func (g *gen) shiftCount() *node {
	switch g.intn(10, "cntkind") {
	case 0:
		return &node{op: "conv", tok: spell(g, g.pick("cntT", "uint", "uint8", "int", "uint32", "int64")), kids: []*node{g.intLitOf(big.NewInt(int64(g.intn(12, "cnt"))))}}
	case 1:
		s := g.pick("cntf", "1.0", "2.0", "3.0", "1e1", "0x1p2")
		return &node{op: "lit", tok: s, tv: tval{untyped(kFloat), constant.MakeFromLiteral(s, token.FLOAT, 0)}}
	case 2:
		return g.gen(1, untyped(kInt))
	case 3:
		return g.intLitOf(big.NewInt(int64(g.pick2(31, 32, 33, 62, 63, 64, 65, 70, 100, 127))))
	}
	return g.intLitOf(big.NewInt(int64(g.intn(20, "cnt"))))
}

func (g *gen) pick2(xs ...int) int { return xs[g.intn(len(xs), "pick")] }

func (g *gen) compose(d int, tgt ctype) *node {
	bin := func(op string, l, r *node) *node { return &node{op: "bin", tok: op, kids: []*node{l, r}} }
	un := func(op string, x *node) *node { return &node{op: "un", tok: op, kids: []*node{x}} }
	if tgt.typed {
		// operands of a typed operation: both typed, or one untyped fitting
		pair := func() (*node, *node) {
			switch g.intn(4, "pairkind") {
			case 0:
				return g.gen(d-1, tgt), g.fitting(tgt.name, d-1)
			case 1:
				return g.fitting(tgt.name, d-1), g.gen(d-1, tgt)
			}
			return g.gen(d-1, tgt), g.gen(d-1, tgt)
		}
		switch tgt.k {
		case kInt:
			switch g.intn(10, "tint") {
			case 0, 1:
				return g.conv(d, tgt)
			case 2, 3, 4:
				l, r := pair()
				return bin(g.pick("arith", "+", "-", "*", "/", "%"), l, r)
			case 5, 6:
				l, r := pair()
				return bin(g.pick("bitop", "&", "|", "^", "&^"), l, r)
			case 7:
				return bin(g.pick("shift", "<<", ">>"), g.gen(d-1, tgt), g.shiftCount())
			case 8:
				return un(g.pick("unop", "+", "-", "^"), g.gen(d-1, tgt))
			default:
				if tgt.name == "int" {
					return g.lenExpr()
				}
				return g.conv(d, tgt)
			}
		case kFloat, kComplex:
			switch g.intn(6, "tfloat") {
			case 0, 1:
				return g.conv(d, tgt)
			case 2, 3, 4:
				l, r := pair()
				return bin(g.pick("farith", "+", "-", "*", "/"), l, r)
			default:
				return un(g.pick("funop", "+", "-"), g.gen(d-1, tgt))
			}
		case kString:
			if g.chance(50, "tstr") {
				return g.conv(d, tgt)
			}
			l, r := pair()
			return bin("+", l, r)
		default:
			switch g.intn(3, "tbool") {
			case 0:
				return g.conv(d, tgt)
			case 1:
				return un("!", g.gen(d-1, tgt))
			}
			l, r := pair()
			return bin(g.pick("logic", "&&", "||"), l, r)
		}
	}
	sub := func(max kind) ctype {
		// an untyped numeric kind <= max
		k := max
		if g.chance(35, "lowerkind") {
			k = kind(g.intn(int(max)+1, "kind"))
		}
		return untyped(k)
	}
	switch tgt.k {
	case kInt, kRune:
		ik := func() ctype {
			if tgt.k == kRune && g.chance(50, "runeop") {
				return untyped(kRune)
			}
			return untyped(kInt)
		}
		switch g.intn(10, "uint") {
		case 0, 1, 2, 3:
			return bin(g.pick("arith", "+", "-", "*", "/", "%"), g.gen(d-1, ik()), g.gen(d-1, ik()))
		case 4, 5:
			return bin(g.pick("bitop", "&", "|", "^", "&^"), g.gen(d-1, ik()), g.gen(d-1, ik()))
		case 6, 7:
			l := g.gen(d-1, ik())
			if g.chance(10, "floatshift") {
				s := g.pick("shf", "1.0", "2.0", "8.0", "1e2", "0x1p4")
				l = &node{op: "lit", tok: s, tv: tval{untyped(kFloat), constant.MakeFromLiteral(s, token.FLOAT, 0)}}
			}
			return bin(g.pick("shift", "<<", ">>"), l, g.shiftCount())
		default:
			return un(g.pick("unop", "+", "-", "^"), g.gen(d-1, ik()))
		}
	case kFloat, kComplex:
		switch g.intn(6, "ufloat") {
		case 0, 1, 2, 3:
			l, r := g.gen(d-1, sub(tgt.k)), g.gen(d-1, sub(tgt.k))
			if g.chance(50, "swap") {
				l, r = r, l
			}
			return bin(g.pick("farith", "+", "-", "*", "/"), l, r)
		case 4:
			return un(g.pick("funop", "+", "-"), g.gen(d-1, tgt))
		default:
			// an integer sub-expression used in float context
			return bin(g.pick("farith", "+", "-", "*", "/"), g.gen(d-1, untyped(kInt)), g.gen(d-1, tgt))
		}
	case kString:
		return bin("+", g.gen(d-1, tgt), g.gen(d-1, tgt))
	default: // bool
		switch g.intn(10, "ubool") {
		case 0, 1, 2, 3, 4:
			return g.comparison(d)
		case 5:
			return un("!", g.gen(d-1, tgt))
		default:
			return bin(g.pick("logic", "&&", "||"), g.gen(d-1, tgt), g.gen(d-1, tgt))
		}
	}
}

func (g *gen) randomType(lbl string) string { return allTypes[g.intn(len(allTypes), lbl)] }

func (g *gen) comparison(d int) *node {
	bin := func(op string, l, r *node) *node { return &node{op: "bin", tok: op, kids: []*node{l, r}} }
	ord := g.pick("cmp", "==", "!=", "<", "<=", ">", ">=")
	eq := g.pick("eq", "==", "!=")
	switch g.intn(8, "cmpkind") {
	case 0, 1:
		return bin(ord, g.gen(d-1, untyped(kInt)), g.gen(d-1, untyped(kInt)))
	case 2:
		return bin(ord, g.gen(d-1, untyped(kFloat)), g.gen(d-1, untyped(kFloat)))
	case 3:
		return bin(eq, g.gen(d-1, untyped(kComplex)), g.gen(d-1, untyped(kComplex)))
	case 4:
		return bin(ord, g.gen(d-1, untyped(kString)), g.gen(d-1, untyped(kString)))
	case 5:
		return bin(eq, g.gen(d-1, untyped(kBool)), g.gen(d-1, untyped(kBool)))
	default:
		name := g.randomType("cmpT")
		t := typedT(name)
		op := ord
		if t.k == kBool || t.k == kComplex {
			op = eq
		}
		if g.chance(50, "cmpuntyped") {
			return bin(op, g.gen(d-1, t), g.fitting(name, d-1))
		}
		return bin(op, g.gen(d-1, t), g.gen(d-1, t))
	}
}

// conv builds T(x) with x chosen so that the conversion is representable.
func (g *gen) conv(d int, tgt ctype) *node {
	mk := func(x *node) *node { return &node{op: "conv", tok: spell(g, tgt.name), kids: []*node{x}} }
	for try := 0; try < 3; try++ {
		var src ctype
		switch tgt.k {
		case kInt, kFloat, kComplex:
			switch g.intn(6, "convsrc") {
			case 0:
				src = untyped(kInt)
			case 1:
				src = untyped(kFloat)
			case 2:
				src = untyped(kRune)
			case 3:
				if tgt.k == kComplex {
					src = untyped(kComplex)
				} else {
					src = untyped(kInt)
				}
			default:
				// typed numeric source
				names := []string{"int", "int8", "int16", "int32", "int64", "uint", "uint8", "uint16", "uint32", "uint64", "uintptr", "float32", "float64"}
				if tgt.k == kComplex {
					names = append(names, "complex64", "complex128")
				}
				src = typedT(names[g.intn(len(names), "convT")])
			}
		case kString:
			switch g.intn(4, "strsrc") {
			case 0:
				src = untyped(kString)
			case 1:
				src = typedT("string")
			case 2:
				src = untyped(kRune)
			default:
				src = typedT(g.pick("strT", "int32", "uint8", "int", "uint16"))
			}
		default:
			src = untyped(kBool)
			if g.chance(30, "boolT") {
				src = typedT("bool")
			}
		}
		x := g.gen(d-1, src)
		n := mk(x)
		if _, ok := n.eval(g.iota); ok {
			return n
		}
	}
	return mk(g.fitting(tgt.name, 0))
}

// ---------------------------------------------------------------------------
// reject-intended leaves

func (g *gen) standin(tgt ctype) tval {
	if tgt.typed {
		v, _ := map[kind]constant.Value{kInt: constant.MakeInt64(1), kFloat: constant.MakeFloat64(1), kComplex: constant.ToComplex(constant.MakeInt64(1)),
			kString: constant.MakeString("s"), kBool: constant.MakeBool(true)}[tgt.k]
		return tval{tgt, v}
	}
	switch tgt.k {
	case kInt, kRune:
		return tval{tgt, constant.MakeInt64(1)}
	case kFloat:
		return tval{tgt, constant.MakeFloat64(1.5)}
	case kComplex:
		return tval{tgt, constant.MakeImag(constant.MakeInt64(1))}
	case kString:
		return tval{tgt, constant.MakeString("s")}
	}
	return tval{tgt, constant.MakeBool(true)}
}

// faulty produces source text intended to be rejected by Go, claiming type tgt.
func (g *gen) faulty(tgt ctype) *node {
	raw := func(label, s string) *node {
		g.label("fault:" + label)
		return &node{op: "raw", tok: s, tv: g.standin(tgt)}
	}
	sub := func(t ctype) string {
		n := g.gen(1, t)
		s := n.String()
		if n.prec() < 7 {
			s = "(" + s + ")"
		}
		return s
	}
	if tgt.typed {
		T := spell(g, tgt.name)
		switch tgt.k {
		case kInt:
			min, max := intRange(tgt.name)
			w := intWidth[tgt.name]
			signed := isSignedName(tgt.name)
			one := big.NewInt(1)
			above := new(big.Int).Add(max, one)
			below := new(big.Int).Sub(min, one)
			full := new(big.Int).Sub(new(big.Int).Lsh(one, w), one)
			x := sub(tgt)
			other := intTypes[g.intn(len(intTypes), "otherT")]
			if other == tgt.name {
				other = "float64"
			}
			lit := func(b *big.Int) string {
				if b.Sign() < 0 {
					return "-" + g.intLitOf(new(big.Int).Neg(b)).String()
				}
				return g.intLitOf(b).String()
			}
			switch g.intn(30, "faultint") {
			case 0:
				return raw("conv-overflow", fmt.Sprintf("%s(%s)", T, lit(above)))
			case 1:
				return raw("conv-overflow", fmt.Sprintf("%s(%s)", T, lit(below)))
			case 2:
				return raw("conv-overflow", fmt.Sprintf("%s(%s)", T, lit(full)))
			case 3:
				return raw("conv-overflow", fmt.Sprintf("%s(%s)", T, lit(new(big.Int).Lsh(one, w))))
			case 4:
				return raw("conv-overflow", fmt.Sprintf("%s(%s)", T, g.intLitOf(g.bigBits(int(w)+1+g.intn(100, "extra"))).String()))
			case 5:
				return raw("arith-overflow", fmt.Sprintf("%s(%s) + 1", T, lit(max)))
			case 6:
				return raw("arith-overflow", fmt.Sprintf("%s(%s) - 1", T, lit(min)))
			case 7:
				if signed {
					return raw("arith-overflow", fmt.Sprintf("-%s(%s)", T, lit(min)))
				}
				return raw("arith-overflow", fmt.Sprintf("-%s(%d)", T, 1+g.intn(100, "k")))
			case 8:
				if signed {
					return raw("arith-overflow", fmt.Sprintf("%s(%s) / -1", T, lit(min)))
				}
				return raw("arith-overflow", fmt.Sprintf("%s(0) - %s", T, x))
			case 9:
				return raw("arith-overflow", fmt.Sprintf("%s(%s) * %s(2)", T, lit(max), T))
			case 10:
				k := w
				if signed {
					k = w - 1
				}
				return raw("shift-overflow", fmt.Sprintf("%s(1) << %d", T, k))
			case 11:
				return raw("arith-overflow", fmt.Sprintf("%s(%s) + %s(%s)", T, lit(max), T, lit(max)))
			case 12:
				return raw("truncated", fmt.Sprintf("%s(%s)", T, g.pick("frac", "1.5", "0.5", "2.5e0", "1e-1", "0.1", "3.999", "0x1p-1")))
			case 13:
				return raw("truncated", fmt.Sprintf("%s + %s", x, g.pick("frac", "0.5", "1.5", "2.25", "1e-2")))
			case 14:
				return raw("truncated", fmt.Sprintf("%s(0.1 + 0.2)", T))
			case 15:
				return raw("divzero", fmt.Sprintf("%s %s 0", x, g.pick("div", "/", "%")))
			case 16:
				return raw("divzero", fmt.Sprintf("%s %s %s(0)", x, g.pick("div", "/", "%"), T))
			case 17:
				return raw("divzero", fmt.Sprintf("%s %s (1 - 1)", x, g.pick("div", "/", "%")))
			case 18:
				return raw("negshift", fmt.Sprintf("%s %s -%d", x, g.pick("sh", "<<", ">>"), 1+g.intn(5, "k")))
			case 19:
				return raw("negshift", fmt.Sprintf("%s %s (1 - 2)", x, g.pick("sh", "<<", ">>")))
			case 20:
				return raw("fracshift", fmt.Sprintf("%s << 1.5", x))
			case 21:
				return raw("bigshift", fmt.Sprintf("%s(1) << %d", T, g.pick2(64, 65, 100, 200, 1000)))
			case 22:
				return raw("bigshift", fmt.Sprintf("%s << %d", x, g.pick2(64, 70, 128, 500)))
			case 23:
				return raw("mismatch", fmt.Sprintf("%s + \"a\"", x))
			case 24:
				return raw("mismatch", fmt.Sprintf("%s + %s(1)", x, other))
			case 25:
				return raw("mismatch", fmt.Sprintf("%s(%s)", T, g.pick("bad", `"1"`, "true", `"a"`)))
			case 26:
				return raw("truncated", fmt.Sprintf("%s %s 1.5", x, g.pick("bitop", "&", "|", "^")))
			case 27:
				return raw("mismatch", fmt.Sprintf("%s + 1i", x))
			case 28:
				return raw("conv-complex", fmt.Sprintf("%s(1 + 2i)", T))
			default:
				if signed {
					return raw("arith-overflow", fmt.Sprintf("%s(%s) - %s", T, lit(min), x))
				}
				return raw("arith-overflow", fmt.Sprintf("^%s(0) + 1", T))
			}
		case kFloat:
			x := sub(tgt)
			switch g.intn(12, "faultfloat") {
			case 0:
				if tgt.name == "float32" {
					return raw("conv-overflow", fmt.Sprintf("%s(%s)", T, g.pick("f32big", "1e39", "3.5e38", "-1e39", "0x1p128", "1e400")))
				}
				return raw("conv-overflow", fmt.Sprintf("%s(%s)", T, g.pick("f64big", "1e309", "1.8e308", "-1e309", "0x1p1024", "1e400")))
			case 1:
				if tgt.name == "float32" {
					return raw("arith-overflow", fmt.Sprintf("%s(1e38) * 10", T))
				}
				return raw("arith-overflow", fmt.Sprintf("%s(1e308) * 10", T))
			case 2:
				return raw("divzero", fmt.Sprintf("%s / %s", x, g.pick("zero", "0", "0.0", "(1 - 1)", T+"(0)")))
			case 3:
				return raw("mismatch", fmt.Sprintf("%s(%s)", T, g.pick("bad", `"1"`, "true", `"1.5"`)))
			case 4:
				return raw("conv-complex", fmt.Sprintf("%s(%s)", T, g.pick("cplx", "1i", "1 + 2i", "2.5i")))
			case 5:
				return raw("opundefined", fmt.Sprintf("%s %% 2", x))
			case 6:
				return raw("opundefined", fmt.Sprintf("%s << 1", x))
			case 7:
				return raw("opundefined", fmt.Sprintf("%s & 1", x))
			case 8:
				return raw("mismatch", fmt.Sprintf("%s + %s(1)", x, g.pick("otherf", "int", "complex128", map[string]string{"float32": "float64", "float64": "float32"}[tgt.name])))
			case 9:
				return raw("opundefined", fmt.Sprintf("^%s", x))
			case 10:
				return raw("mismatch", fmt.Sprintf("%s + \"a\"", x))
			default:
				return raw("mismatch", fmt.Sprintf("%s + 1i", x))
			}
		case kComplex:
			x := sub(tgt)
			switch g.intn(7, "faultcplx") {
			case 0:
				if tgt.name == "complex64" {
					return raw("conv-overflow", fmt.Sprintf("%s(%s)", T, g.pick("c64big", "1e39", "1e39i", "1 + 1e39i")))
				}
				return raw("conv-overflow", fmt.Sprintf("%s(%s)", T, g.pick("c128big", "1e309", "1e309i", "1 + 1e309i")))
			case 1:
				return raw("divzero", fmt.Sprintf("%s / %s", x, g.pick("zero", "0", "0.0", "0i", "(1 - 1)")))
			case 2:
				return raw("opundefined", fmt.Sprintf("%s %% 2", x))
			case 3:
				return raw("mismatch", fmt.Sprintf("%s(%s)", T, g.pick("bad", `"1"`, "true")))
			case 4:
				return raw("mismatch", fmt.Sprintf("%s + %s(1)", x, map[string]string{"complex64": "complex128", "complex128": "complex64"}[tgt.name]))
			case 5:
				return raw("opundefined", fmt.Sprintf("%s << 1", x))
			default:
				return raw("mismatch", fmt.Sprintf("%s + float64(1)", x))
			}
		case kString:
			x := sub(tgt)
			switch g.intn(8, "faultstr") {
			case 0:
				return raw("mismatch", fmt.Sprintf("%s(%s)", T, g.pick("bad", "1.5", "true", "1 + 2i", "65.0")))
			case 1:
				return raw("opundefined", fmt.Sprintf("%s - %s", x, x))
			case 2:
				return raw("mismatch", fmt.Sprintf("%s + 1", x))
			case 3:
				return raw("mismatch", fmt.Sprintf("%s + 'b'", x))
			case 4:
				return raw("opundefined", fmt.Sprintf("%s * 2", x))
			case 5:
				return raw("opundefined", fmt.Sprintf("-%s", x))
			case 6:
				return raw("opundefined", fmt.Sprintf("%s << 1", x))
			default:
				return raw("opundefined", fmt.Sprintf("%s & %s", x, x))
			}
		default:
			x := sub(tgt)
			switch g.intn(6, "faultbool") {
			case 0:
				return raw("mismatch", fmt.Sprintf("%s(%s)", T, g.pick("bad", "1", `"true"`, "0", "1.0")))
			case 1:
				return raw("opundefined", fmt.Sprintf("%s + %s", x, x))
			case 2:
				return raw("mismatch", fmt.Sprintf("%s && 1", x))
			case 3:
				return raw("opundefined", fmt.Sprintf("-%s", x))
			case 4:
				return raw("opundefined", fmt.Sprintf("%s & %s", x, x))
			default:
				return raw("opundefined", fmt.Sprintf("^%s", x))
			}
		}
	}
	switch tgt.k {
	case kInt, kRune:
		x := sub(untyped(kInt))
		switch g.intn(18, "faultuint") {
		case 0, 1:
			return raw("divzero", fmt.Sprintf("%s %s 0", x, g.pick("div", "/", "%")))
		case 2:
			return raw("divzero", fmt.Sprintf("%s %s (%s - %s)", x, g.pick("div", "/", "%"), x, x))
		case 3:
			return raw("divzero", fmt.Sprintf("%s %s (0 * %s)", x, g.pick("div", "/", "%"), x))
		case 4:
			return raw("divzero", fmt.Sprintf("%s %% 0.0", x))
		case 5, 6:
			return raw("negshift", fmt.Sprintf("%s %s -%d", x, g.pick("sh", "<<", ">>"), 1+g.intn(70, "k")))
		case 7:
			return raw("negshift", fmt.Sprintf("%s %s (2 - 3)", x, g.pick("sh", "<<", ">>")))
		case 8:
			return raw("fracshift", fmt.Sprintf("%s %s %s", x, g.pick("sh", "<<", ">>"), g.pick("frac", "1.5", "0.5", "2.25")))
		case 9:
			return raw("shiftoperand", fmt.Sprintf("%s %s 2", g.pick("frac", "1.5", "0.5", "2.25", "1e-1"), g.pick("sh", "<<", ">>")))
		case 10:
			return raw("negshift", fmt.Sprintf("%s >> (0 - %s)", x, g.intLit(70)))
		case 11:
			return raw("mismatch", fmt.Sprintf("%s + \"a\"", x))
		case 12:
			return raw("mismatch", fmt.Sprintf("\"a\" + %s", x))
		case 13:
			return raw("opundefined", fmt.Sprintf("%s %% %s", x, g.pick("frac", "2.5", "1.5", "2.0", "1e0")))
		case 14:
			return raw("opundefined", fmt.Sprintf("%s %s 1.5", x, g.pick("bitop", "&", "|", "^", "&^")))
		case 15:
			return raw("opundefined", fmt.Sprintf("^%s", g.pick("frac", "1.5", "2.0", "1e1")))
		case 16:
			return raw("opundefined", fmt.Sprintf("%s %s true", x, g.pick("arith", "+", "-", "*")))
		default:
			return raw("mismatch", fmt.Sprintf("%s(%s)", g.pick("T", "int", "uint8", "int64"), `"12"`))
		}
	case kFloat:
		x := sub(untyped(kFloat))
		switch g.intn(8, "faultufloat") {
		case 0, 1:
			return raw("divzero", fmt.Sprintf("%s / %s", x, g.pick("zero", "0", "0.0", "(1.5 - 1.5)", "0e0", "0x0p0")))
		case 2:
			return raw("opundefined", fmt.Sprintf("%s %% 2", x))
		case 3:
			return raw("opundefined", fmt.Sprintf("%s & 1", g.pick("frac", "1.5", "0.5")))
		case 4:
			return raw("mismatch", fmt.Sprintf("%s + \"a\"", x))
		case 5:
			return raw("conv-overflow", fmt.Sprintf("float64(%s) + %s", g.pick("huge", "1e309", "1e400", "0x1p1024"), x))
		case 6:
			return raw("conv-overflow", fmt.Sprintf("float32(%s) + %s", g.pick("huge", "1e39", "1e400", "3.5e38"), x))
		default:
			return raw("opundefined", fmt.Sprintf("%s * true", x))
		}
	case kComplex:
		x := sub(untyped(kComplex))
		switch g.intn(5, "faultucplx") {
		case 0, 1:
			return raw("divzero", fmt.Sprintf("%s / %s", x, g.pick("zero", "0", "0.0", "0i", "(1i - 1i)")))
		case 2:
			return raw("opundefined", fmt.Sprintf("%s %% 2", x))
		case 3:
			return raw("mismatch", fmt.Sprintf("%s + \"a\"", x))
		default:
			return raw("conv-overflow", fmt.Sprintf("complex128(%s) + %s", g.pick("huge", "1e309", "1e309i"), x))
		}
	case kString:
		x := sub(untyped(kString))
		switch g.intn(8, "faultustr") {
		case 0:
			return raw("opundefined", fmt.Sprintf("%s - %s", x, x))
		case 1:
			return raw("opundefined", fmt.Sprintf("%s * 2", x))
		case 2:
			return raw("mismatch", fmt.Sprintf("%s + 1", x))
		case 3:
			return raw("mismatch", fmt.Sprintf("%s + 'b'", x))
		case 4:
			return raw("mismatch", fmt.Sprintf("1 + %s", x))
		case 5:
			return raw("opundefined", fmt.Sprintf("-%s", x))
		case 6:
			return raw("opundefined", fmt.Sprintf("%s / %s", x, x))
		default:
			return raw("mismatch", fmt.Sprintf("%s + 1.5", x))
		}
	default:
		xi := sub(untyped(kInt))
		xb := sub(untyped(kBool))
		switch g.intn(16, "faultubool") {
		case 0:
			return raw("opundefined", fmt.Sprintf("!%s", xi))
		case 1:
			return raw("opundefined", fmt.Sprintf("!%s", sub(untyped(kString))))
		case 2:
			return raw("opundefined", fmt.Sprintf("%s + %s", xb, xb))
		case 3:
			return raw("opundefined", fmt.Sprintf("%s < %s", xb, xb))
		case 4:
			return raw("mismatch", fmt.Sprintf("%s == \"a\"", xi))
		case 5:
			return raw("mismatch", fmt.Sprintf("%s == 1", xb))
		case 6:
			return raw("mismatch", fmt.Sprintf("\"a\" < %s", xi))
		case 7:
			return raw("mismatch", "int8(1) == int16(1)")
		case 8:
			return raw("opundefined", fmt.Sprintf("%s && %s", xi, xi))
		case 9:
			return raw("opundefined", fmt.Sprintf("(1 + 2i) < %s", xi))
		case 10:
			return raw("divzero", fmt.Sprintf("%s / 0 == 0", xi))
		case 11:
			return raw("divzero", fmt.Sprintf("%s && %s %% 0 == 0", xb, xi))
		case 12:
			return raw("cmp-overflow", fmt.Sprintf("%s(%d) == %s", g.pick("T", "int8", "uint8"), g.intn(100, "k"), g.pick("big", "256", "300", "-200", "1 << 70")))
		case 13:
			return raw("cmp-truncated", fmt.Sprintf("int(%d) < %s", g.intn(100, "k"), g.pick("frac", "1.5", "2.5", "0.1")))
		case 14:
			return raw("opundefined", fmt.Sprintf("-%s", xb))
		default:
			return raw("mismatch", fmt.Sprintf("uint8(1) == %s", g.pick("neg", "-1", "-128")))
		}
	}
}
