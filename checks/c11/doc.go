// Package c11 holds the check of property C11.
package c11
