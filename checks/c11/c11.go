// Package c11 checks that evaluating a program piecewise (successive Eval
// calls, Compile+Execute, CompileAST, EvalPath on real and virtual
// filesystems) gives the same output as evaluating it in one piece, and that
// redefining a function replaces only that function.
package c11

import (
	"bytes"
	"encoding/json"
	"errors"
	"fmt"
	"go/parser"
	"os"
	"path/filepath"
	"reflect"
	"sort"
	"strings"
	"sync"
	"testing/fstest"
	"time"

	"github.com/traefik/yaegi/interp"
	"github.com/traefik/yaegi/stdlib"
	"pgregory.net/rapid"

	"verif/internal/progen"
	"verif/internal/vf"
	"verif/internal/yrun"
)

// Case is a program with one way of cutting it.
type Case struct {
	Src     string   `json:"src"`     // whole program
	Decls   []string `json:"decls"`   // declaration chunks, in order (first: imports)
	Stmts   []string `json:"stmts"`   // statement chunks of the main body, in order
	Variant string   `json:"variant"` // which entry point / piecewise mode is compared with whole Eval
	// Shadowed are the package-level variables which the main body redeclares
	// with := as its own: evaluated as a chunk, such a statement redefines the
	// package-level name, so these names are left out of the final state.
	Shadowed []string `json:"shadowed,omitempty"`
	// Expect is the output computed by the generator's model (type-growth
	// histories only): a whole evaluation which differs from it is not compared.
	Expect string `json:"expect,omitempty"`
}

type syncBuf struct {
	mu sync.Mutex
	b  bytes.Buffer
}

func (s *syncBuf) Write(p []byte) (int, error) {
	s.mu.Lock()
	defer s.mu.Unlock()
	if s.b.Len() < 4<<20 {
		s.b.Write(p)
	}
	return len(p), nil
}
func (s *syncBuf) String() string {
	s.mu.Lock()
	defer s.mu.Unlock()
	return s.b.String()
}

type result struct {
	stdout  string
	err     string // "" | "panic: v" | "error: text"
	globals string
	stuck   bool
}

func newInterp(out *syncBuf, opt interp.Options) *interp.Interpreter {
	opt.Stdout, opt.Stderr = out, &syncBuf{}
	if opt.Args == nil {
		opt.Args = []string{"prog"}
	}
	i := interp.New(opt)
	if err := i.Use(stdlib.Symbols); err != nil {
		panic(err)
	}
	return i
}

func errText(err error) string {
	var p interp.Panic
	switch {
	case err == nil:
		return ""
	case errors.As(err, &p):
		return "panic: " + fmt.Sprint(p.Value)
	default:
		return "error: " + err.Error()
	}
}

// globalsOf renders the package-level variables named g* (read-only basic
// values in generated programs).
func globalsOf(i *interp.Interpreter, skip []string) (res string) {
	defer func() {
		if p := recover(); p != nil {
			res = fmt.Sprintf("Globals() panicked: %v", p)
		}
	}()
	g := i.Globals()
	var names []string
	skipped := map[string]bool{}
	for _, k := range skip {
		skipped[k] = true
	}
	for k := range g {
		if strings.HasPrefix(k, "g") && len(k) > 1 && k[1] >= 'A' && k[1] <= 'Z' && !skipped[k] {
			names = append(names, k)
		}
	}
	sort.Strings(names)
	var b strings.Builder
	for _, k := range names {
		v := g[k]
		if v.IsValid() && v.CanInterface() {
			switch v.Kind() {
			case reflect.Func, reflect.Ptr, reflect.Map, reflect.Slice, reflect.Chan, reflect.Interface:
			default:
				fmt.Fprintf(&b, "%s=%v;", k, v.Interface())
			}
		}
	}
	return b.String()
}

// guarded runs f on its own goroutine and gives up when the interpreter makes
// no progress for 20 s (never a bare wall-clock limit).
func guarded(i *interp.Interpreter, f func()) (stuck bool) {
	done := make(chan struct{})
	go func() {
		defer close(done)
		f()
	}()
	last, clock := i.VerifOps(), yrun.NewStallClock()
	t := time.NewTicker(100 * time.Millisecond)
	defer t.Stop()
	for {
		select {
		case <-done:
			return false
		case <-t.C:
			if n := i.VerifOps(); n != last {
				last = n
				clock.Reset()
			} else if clock.Idle() > 20*time.Second {
				return true
			}
		}
	}
}

func safely(f func() error) (err error) {
	defer func() {
		if p := recover(); p != nil {
			err = fmt.Errorf("escaped Go panic: %v", p)
		}
	}()
	return f()
}

// whole evaluates the program in one piece through the given entry point.
func whole(c *Case, variant, scratch string) result {
	out := &syncBuf{}
	var r result
	var i *interp.Interpreter
	var run func() error
	switch variant {
	case "eval":
		i = newInterp(out, interp.Options{})
		run = func() error { _, err := i.Eval(c.Src); return err }
	case "compile-execute":
		i = newInterp(out, interp.Options{})
		run = func() error {
			p, err := i.Compile(c.Src)
			if err != nil {
				return err
			}
			_, err = i.Execute(p)
			return err
		}
	case "compile-ast":
		i = newInterp(out, interp.Options{})
		run = func() error {
			f, err := parser.ParseFile(i.FileSet(), "main.go", c.Src, 0)
			if err != nil {
				return err
			}
			p, err := i.CompileAST(f)
			if err != nil {
				return err
			}
			_, err = i.Execute(p)
			return err
		}
	case "evalpath-disk":
		dir, err := os.MkdirTemp(scratch, "c11-")
		if err != nil {
			return result{err: "harness: " + err.Error()}
		}
		defer os.RemoveAll(dir)
		path := filepath.Join(dir, "main.go")
		_ = os.WriteFile(path, []byte(c.Src), 0o644)
		i = newInterp(out, interp.Options{})
		run = func() error { _, err := i.EvalPath(path); return err }
	case "evalpath-mapfs":
		i = newInterp(out, interp.Options{SourcecodeFilesystem: fstest.MapFS{"m/main.go": &fstest.MapFile{Data: []byte(c.Src)}}})
		run = func() error { _, err := i.EvalPath("m/main.go"); return err }
	default:
		return result{err: "harness: unknown variant " + variant}
	}
	var err error
	r.stuck = guarded(i, func() { err = safely(run) })
	if r.stuck {
		return r
	}
	r.stdout, r.err, r.globals = out.String(), errText(err), globalsOf(i, c.Shadowed)
	return r
}

// piecewise feeds the chunks to one interpreter; it stops at the first error
// as a whole program would.
func piecewise(c *Case, viaCompile bool) result {
	out := &syncBuf{}
	i := newInterp(out, interp.Options{})
	var r result
	var err error
	evalOne := func(src string) error {
		if viaCompile {
			p, err := i.Compile(src)
			if err != nil {
				return err
			}
			_, err = i.Execute(p)
			return err
		}
		_, err := i.Eval(src)
		return err
	}
	r.stuck = guarded(i, func() {
		err = safely(func() error {
			for _, ch := range append(append([]string{}, c.Decls...), c.Stmts...) {
				if e := evalOne(ch); e != nil {
					return e
				}
			}
			return nil
		})
	})
	if r.stuck {
		return r
	}
	r.stdout, r.err, r.globals = out.String(), errText(err), globalsOf(i, c.Shadowed)
	return r
}

func (c *Case) check(scratch string) (sig, msg string) {
	ref := whole(c, "eval", scratch)
	if ref.stuck || strings.HasPrefix(ref.err, "error:") {
		return "", "" // the reference itself does not run: not a C11 matter (C01)
	}
	var got result
	switch c.Variant {
	case "piecewise-eval":
		got = piecewise(c, false)
	case "piecewise-compile":
		got = piecewise(c, true)
	default:
		got = whole(c, c.Variant, scratch)
	}
	switch {
	case got.stuck:
		return c.Variant + "/stuck", "evaluation made no progress for 20 s"
	case got.stdout != ref.stdout:
		return c.Variant + "/stdout", fmt.Sprintf("whole Eval prints %q, %s prints %q (ends %q)", clip(ref.stdout), c.Variant, clip(got.stdout), got.err)
	case (got.err == "") != (ref.err == ""):
		return c.Variant + "/ending", fmt.Sprintf("whole Eval ends %q, %s ends %q", ref.err, c.Variant, got.err)
	case got.globals != ref.globals:
		return c.Variant + "/globals", fmt.Sprintf("package variables after whole Eval %q, after %s %q", ref.globals, c.Variant, got.globals)
	}
	return "", ""
}

func clip(s string) string {
	if len(s) > 400 {
		// show the region around the end, where piecewise runs usually diverge
		return s[:200] + "…" + s[len(s)-150:]
	}
	return s
}

var variants = []string{"piecewise-eval", "piecewise-eval", "piecewise-eval", "piecewise-compile", "compile-execute", "compile-ast", "evalpath-disk", "evalpath-mapfs"}

var c01Switches = []string{"fallthrough-default-not-last", "label-in-case-clause", "shadow-loopvar", "invalid-utf8", "keyed-lit-compare-in-logic", "shift-count-deep-const", "delete-big-uint-const"}

func config(ctx *vf.Ctx) *progen.Config {
	cfg := progen.DefaultConfig()
	cfg.Stmts = 10
	cfg.FaultPct = 0
	cfg.Off["main-early-return"] = true // a return in a chunk only ends the chunk
	cfg.Off["goto"] = true              // labels and jumps cannot span chunks
	for _, s := range c01Switches {
		if vf.IsKnown("C01", s) {
			cfg.Off[s] = true
		}
	}
	for _, s := range []string{"var-decl-stmt", "map-comma-ok", "labels", "closures", "methods", "shadow", "recursion", "switch", "range", "maps", "defer", "multi-assign"} {
		if vf.IsKnown("C11", "repl:"+s) {
			cfg.Off[s] = true
			if s == "map-comma-ok" {
				cfg.Off["multi-value-define"] = true // same root cause
			}
			if ctx != nil {
				ctx.Excluded("repl:" + s)
			}
		}
	}
	return cfg
}

// cut partitions xs into consecutive groups.
func cut(t *rapid.T, xs []string, label string) []string {
	if len(xs) == 0 {
		return nil
	}
	var out []string
	cur := xs[0]
	isDecl := func(s string) bool {
		return strings.HasPrefix(s, "var ") || strings.HasPrefix(s, "type ") || strings.HasPrefix(s, "func ") || strings.HasPrefix(s, "const ")
	}
	for k := 1; k < len(xs); k++ {
		// the incremental parser decides from the first token whether a chunk
		// holds declarations or statements: the two kinds are never mixed
		mix := isDecl(cur) != isDecl(xs[k])
		if !mix && rapid.IntRange(0, 2).Draw(t, label) == 0 {
			cur += "\n" + xs[k]
		} else {
			out = append(out, cur)
			cur = xs[k]
		}
	}
	return append(out, cur)
}

func genCase(t *rapid.T, cfg *progen.Config) (*Case, []string) {
	p := progen.Generate(t, cfg)
	c := &Case{Src: p.Src, Shadowed: p.ShadowedGlobals}
	var labels []string
	if len(c.Shadowed) > 0 {
		labels = append(labels, "main-shadows-package-variable")
	}
	var imports []string
	for _, im := range p.Parts.Imports {
		imports = append(imports, fmt.Sprintf("import %q", im))
	}
	c.Decls = append(c.Decls, strings.Join(imports, "\n"))
	var decls []string
	decls = append(decls, p.Parts.Types...)
	decls = append(decls, p.Parts.Globals...)
	decls = append(decls, p.Parts.Funcs...)
	c.Decls = append(c.Decls, cut(t, decls, "dcut")...)
	// statements lose the indentation of the main body
	var stmts []string
	for _, s := range p.Parts.Main {
		var ls []string
		for _, l := range strings.Split(strings.TrimRight(s, "\n"), "\n") {
			ls = append(ls, strings.TrimPrefix(l, "\t"))
		}
		// the incremental parser decides from the first token whether a chunk holds
		// declarations or statements: the one-line var declarations which open a
		// statement group (range in assignment form) are given as items of their own
		for len(ls) > 1 && strings.HasPrefix(ls[0], "var ") && !strings.HasSuffix(ls[0], "{") && !strings.HasSuffix(ls[0], "(") {
			stmts = append(stmts, ls[0])
			ls = ls[1:]
		}
		stmts = append(stmts, strings.Join(ls, "\n"))
	}
	c.Stmts = cut(t, stmts, "scut")
	c.Variant = variants[rapid.IntRange(0, len(variants)-1).Draw(t, "variant")]
	if len(c.Decls)+len(c.Stmts) >= 4 {
		labels = append(labels, "chunks>=4")
	}
	if len(p.Parts.Types) > 0 && len(p.Parts.Funcs) > 0 {
		labels = append(labels, "type-then-func")
	}
	for k := range p.Used {
		switch k {
		case "closure-counter", "closure-var", "closure-loopvar", "method-call", "call", "map-assign", "append":
			labels = append(labels, "uses:"+k)
		}
	}
	return c, labels
}

// ---------------------------------------------------------------------------
// redefinition histories

// RedefCase is a history of define/redefine/use actions.
type RedefCase struct {
	Actions []RedefAction `json:"actions"`
}

// RedefAction defines f<Fn>, or uses f<Fn>(Arg), or bumps the counter variable
// through inc(). A definition has a body: "" f(x) = A*x+B; "call" f(x) =
// f<To>(x)+B; "host" f(x) = hostc11.Apply(f<To>, x)+B (the function passed by
// name to a host function); "defer" the same through a deferred call which
// stores the result. A reference to another function is bound late: it
// designates the definition of the same chunk, or else the one current when
// the referring function was defined (a referring function leaves the model
// when the function it refers to is redefined by a later chunk: the property
// does not say which one it then calls). With2 > 0 defines
// f<With2-1> (linear, A2*x+B2) in the same chunk, after (Second) or before the
// function which may refer to it.
type RedefAction struct {
	Kind   string `json:"kind"` // define | use | inc | usevar
	Fn     int    `json:"fn"`
	A      int    `json:"a"`
	B      int    `json:"b"`
	Arg    int    `json:"arg"`
	Body   string `json:"body,omitempty"`
	To     int    `json:"to,omitempty"`
	With2  int    `json:"with2,omitempty"`
	A2     int    `json:"a2,omitempty"`
	B2     int    `json:"b2,omitempty"`
	Second bool   `json:"second,omitempty"`
}

// rdef is the model of a definition.
type rdef struct {
	body string
	a, b int
	to   int
}

// rEval evaluates f<fn>(x) in the model (late binding); ok is false when a
// referenced function is not defined or the chain of references loops.
func rEval(model map[int]rdef, fn, x, depth int) (int, bool) {
	d, ok := model[fn]
	if !ok || depth > 8 {
		return 0, false
	}
	if d.body == "" {
		return d.a*x + d.b, true
	}
	v, ok := rEval(model, d.to, x, depth+1)
	return v + d.b, ok
}

func hasDef(model map[int]rdef, fn int) bool {
	_, ok := model[fn]
	return ok
}

func rSrc(fn int, d rdef) string {
	switch d.body {
	case "call":
		return fmt.Sprintf("func f%d(x int) int { return f%d(x) + %d }", fn, d.to, d.b)
	case "host":
		return fmt.Sprintf("func f%d(x int) int { return hostc11.Apply(f%d, x) + %d }", fn, d.to, d.b)
	case "defer":
		return fmt.Sprintf("func f%d(x int) (r int) {\n\tdefer func() { r += %d }()\n\tdefer hostc11.Store(&r, f%d, x)\n\treturn 0\n}", fn, d.b, d.to)
	}
	return fmt.Sprintf("func f%d(x int) int { return %d*x + %d }", fn, d.a, d.b)
}

func (rc *RedefCase) check() (sig, msg string) {
	out := &syncBuf{}
	i := newInterp(out, interp.Options{})
	if err := i.Use(interp.Exports{"hostc11/hostc11": {
		"Apply": reflect.ValueOf(func(f func(int) int, x int) int { return f(x) }),
		"Store": reflect.ValueOf(func(p *int, f func(int) int, x int) { *p += f(x) }),
	}}); err != nil {
		return "redef/harness", err.Error()
	}
	if _, err := i.Eval(`import "hostc11"`); err != nil {
		return "redef/harness", err.Error()
	}
	model := map[int]rdef{}
	cnt, haveCnt := 0, false
	var fail string
	var failSig string
	stuck := guarded(i, func() {
		_ = safely(func() error {
			for k, a := range rc.Actions {
				switch a.Kind {
				case "define":
					d := rdef{body: a.Body, a: a.A, b: a.B, to: a.To}
					if d.body != "" {
						// the function referred to must exist (now, or defined by this chunk)
						if _, ok := model[d.to]; !ok && !(a.With2 > 0 && a.With2-1 == d.to) || d.to == a.Fn {
							d.body = ""
						}
					}
					src := rSrc(a.Fn, d)
					if a.With2 > 0 && a.With2-1 != a.Fn {
						d2 := rdef{a: a.A2, b: a.B2}
						if a.Second {
							src = src + "\n\n" + rSrc(a.With2-1, d2)
						} else {
							src = rSrc(a.With2-1, d2) + "\n\n" + src
						}
						model[a.With2-1] = d2
					}
					if _, err := i.Eval(src); err != nil {
						failSig, fail = "redefine-rejected", fmt.Sprintf("step %d: %s: %v", k, src, err)
						return nil
					}
					model[a.Fn] = d
					// A function compiled by an earlier chunk which refers to a function
					// redefined now: the property does not say which definition it calls
					// from now on. It leaves the model until it is defined again.
					changed := map[int]bool{a.Fn: true}
					if a.With2 > 0 {
						changed[a.With2-1] = true
					}
					for again := true; again; {
						again = false
						for g, gd := range model {
							if !changed[g] && gd.body != "" && (changed[gd.to] || model[gd.to] == (rdef{}) && !hasDef(model, gd.to)) {
								delete(model, g)
								again = true
							}
						}
					}
				case "use":
					want, ok := rEval(model, a.Fn, a.Arg, 0)
					if !ok {
						continue
					}
					v, err := i.Eval(fmt.Sprintf("f%d(%d)", a.Fn, a.Arg))
					if err != nil {
						failSig, fail = "use-error", fmt.Sprintf("step %d: f%d(%d): %v", k, a.Fn, a.Arg, err)
						return nil
					}
					if !v.IsValid() || !v.CanInt() || int(v.Int()) != want {
						failSig, fail = "use-wrong-result", fmt.Sprintf("step %d: f%d(%d) = %v, the current definitions give %d", k, a.Fn, a.Arg, v, want)
						return nil
					}
				case "inc":
					if !haveCnt {
						if _, err := i.Eval("var cnt = 0\nfunc inc() int { cnt++; return cnt }"); err != nil {
							failSig, fail = "define-error", err.Error()
							return nil
						}
						haveCnt = true
					}
					v, err := i.Eval("inc()")
					cnt++
					if err != nil || !v.IsValid() || !v.CanInt() || int(v.Int()) != cnt {
						failSig, fail = "state-lost", fmt.Sprintf("step %d: inc() = %v (%v), want %d", k, v, err, cnt)
						return nil
					}
				case "usevar":
					if !haveCnt {
						continue
					}
					v, err := i.Eval("cnt")
					if err != nil || !v.IsValid() || !v.CanInt() || int(v.Int()) != cnt {
						failSig, fail = "state-lost", fmt.Sprintf("step %d: cnt = %v (%v), want %d", k, v, err, cnt)
						return nil
					}
				}
			}
			return nil
		})
	})
	if stuck {
		return "redef/stuck", "history made no progress for 20 s"
	}
	if fail != "" {
		return "redef/" + failSig, fail
	}
	return "", ""
}

func genRedef(t *rapid.T) *RedefCase {
	n := rapid.IntRange(4, 30).Draw(t, "nactions")
	rc := &RedefCase{}
	for k := 0; k < n; k++ {
		a := RedefAction{Fn: rapid.IntRange(0, 3).Draw(t, "fn")}
		switch rapid.IntRange(0, 9).Draw(t, "kind") {
		case 0, 1, 2:
			a.Kind, a.A, a.B = "define", rapid.IntRange(-5, 5).Draw(t, "a"), rapid.IntRange(-9, 9).Draw(t, "b")
			a.Body = []string{"", "", "call", "host", "defer", "host", "defer"}[rapid.IntRange(0, 6).Draw(t, "body")]
			if a.Body != "" {
				a.To = rapid.IntRange(0, 3).Draw(t, "to")
			}
			if rapid.IntRange(0, 2).Draw(t, "with2") == 0 {
				a.With2 = 1 + rapid.IntRange(0, 3).Draw(t, "fn2")
				a.A2, a.B2 = rapid.IntRange(-5, 5).Draw(t, "a2"), rapid.IntRange(-9, 9).Draw(t, "b2")
				a.Second = rapid.Bool().Draw(t, "second")
				if a.Body != "" && a.With2-1 != a.Fn && rapid.IntRange(0, 9).Draw(t, "tosame") < 7 {
					// the function referred to is (re)defined by the same chunk
					a.To = a.With2 - 1
				}
			}
		case 3, 4, 5, 6:
			a.Kind, a.Arg = "use", rapid.IntRange(-10, 10).Draw(t, "arg")
		case 7, 8:
			a.Kind = "inc"
		default:
			a.Kind = "usevar"
		}
		rc.Actions = append(rc.Actions, a)
	}
	return rc
}

// replayCase is the stored form of either kind of case.
type replayCase struct {
	Program *Case      `json:"program,omitempty"`
	Redef   *RedefCase `json:"redef,omitempty"`
}

func run(ctx *vf.Ctx) {
	cfg := config(ctx)
	nProg := ctx.Cases * 9 / 16
	nGrow := ctx.Cases / 4
	nRedef := ctx.Cases - nProg - nGrow
	ok := ctx.Rapid("piecewise", 0, nProg, 60*time.Second, func(t *rapid.T) {
		c, labels := genCase(t, cfg)
		ctx.Done()
		if progen.TypeCheck(c.Src) != "" {
			return
		}
		sig, msg := c.check(ctx.Scratch)
		ctx.Eval()
		ctx.Class("variant:" + c.Variant)
		nt := false
		for _, l := range labels {
			ctx.Class(l)
			nt = nt || l == "chunks>=4"
		}
		if nt {
			b, _ := json.Marshal(c)
			ctx.Nontrivial(string(b))
		}
		ctx.Sample(map[string]any{"variant": c.Variant, "decl_chunks": len(c.Decls), "stmt_chunks": len(c.Stmts), "first_stmt_chunk": first(c.Stmts)}, 3)
		if sig != "" {
			ctx.CaseFail(t, sig, msg, replayCase{Program: c})
		}
	})
	if !ok {
		ctx.DoneN(nRedef + nGrow)
		return
	}
	ok = ctx.Rapid("typegrow", 2, nGrow, 30*time.Second, func(t *rapid.T) {
		c, labels := genGrow(t)
		ctx.Done()
		if msg := progen.TypeCheck(c.Src); msg != "" {
			ctx.Class("grow:generator-not-valid-go")
			return
		}
		ctx.Eval()
		ctx.Class("history:typegrow")
		ctx.Class("variant:" + c.Variant)
		if ref := whole(c, "eval", ctx.Scratch); ref.stdout != c.Expect || ref.err != "" {
			// the whole program itself does not behave as compiled Go: C01 / C05 matter
			ctx.Class("grow:whole-differs-from-model")
			return
		}
		nt := false
		for _, l := range labels {
			ctx.Class(l)
			nt = nt || l == "grow:use-of-method-declared-after-a-use"
		}
		if nt {
			b, _ := json.Marshal(c)
			ctx.Nontrivial(string(b))
		}
		ctx.Sample(map[string]any{"variant": c.Variant, "typegrow_chunks": c.Decls[1:]}, 2)
		if sig, msg := c.check(ctx.Scratch); sig != "" {
			ctx.CaseFail(t, "typegrow/"+sig, msg, replayCase{Program: c})
		}
	})
	if !ok {
		ctx.DoneN(nRedef)
		return
	}
	ctx.Rapid("redefine", 1, nRedef, 30*time.Second, func(t *rapid.T) {
		rc := genRedef(t)
		ctx.Done()
		ctx.Eval()
		redefs, uses := 0, 0
		seen := map[int]bool{}
		for _, a := range rc.Actions {
			if a.Kind == "define" {
				if seen[a.Fn] {
					redefs++
				}
				seen[a.Fn] = true
			}
			if a.Kind == "use" && seen[a.Fn] {
				uses++
			}
		}
		ctx.Class("history:redefine")
		if redefs > 0 && uses > 0 {
			b, _ := json.Marshal(rc)
			ctx.Nontrivial(string(b))
			ctx.Class("history:redefine-then-use")
		}
		if sig, msg := rc.check(); sig != "" {
			ctx.CaseFail(t, sig, msg, replayCase{Redef: rc})
		}
	})
}

func first(s []string) string {
	if len(s) == 0 {
		return ""
	}
	return s[0]
}

func replay(ctx *vf.Ctx, data json.RawMessage) (string, string) {
	var rc replayCase
	if err := json.Unmarshal(data, &rc); err != nil {
		return "bad replay file: " + err.Error(), "harness"
	}
	scratch := os.TempDir()
	if ctx != nil && ctx.Scratch != "" {
		scratch = ctx.Scratch
		_ = os.MkdirAll(scratch, 0o755)
	}
	var sig, msg string
	switch {
	case rc.Program != nil:
		sig, msg = rc.Program.check(scratch)
	case rc.Redef != nil:
		sig, msg = rc.Redef.check()
	}
	return msg, sig
}

func init() {
	vf.Register(&vf.Check{
		ID:    "C11",
		Level: "exploration",
		Rule:  "case A = a program from internal/progen (REPL profile: no goto, no early return from main, no deliberate fault) x a drawn cut of its declarations and of its top-level main statements into consecutive chunks x one variant of {successive Eval calls, Compile+Execute per chunk, whole Compile+Execute, go/parser with the interpreter FileSet + CompileAST, EvalPath on a real temp file, EvalPath on a MapFS}; oracle: stdout, ending and package variables equal those of one Eval of the whole source (itself tied to compiled Go by C01); case B = a history of define/redefine/use actions on linear functions f0..f3 and a counter variable, compared with a model; case C = a type-growth history: the methods of a struct type declared one chunk at a time (value and pointer receivers), interleaved with interface declarations and with package-level variables whose initialisers convert T, *T, embedding struct and pointer forms to these interfaces (parameter passing, or assertion from a non-empty interface with a position-independent outcome) and call the methods; oracle: whole Eval of the same text, itself required to equal the output computed by the generator; non-trivial A = at least 4 chunks, B = a use after a redefinition, C = a use requiring a method declared after an earlier use; distinct by full case content",
		Assumptions: []string{
			"turning main-body locals into package variables cannot change meaning because generated names are unique",
			"chunks are homogeneous (declarations or statements), as the incremental parser requires",
			"constructs behind recorded known findings of C01 are switched off",
		},
		Cases:  map[string]int{"quick": 640, "thorough": 16000},
		Shards: map[string]int{"quick": 8, "thorough": 16},
		Run:    run,
		Replay: replay,
	})
}

// assemble rebuilds the whole program from the chunks (development aid for
// the reducer: dropping a chunk drops it on both sides).
func assemble(decls, stmts []string) string {
	var b strings.Builder
	b.WriteString("package main\n\n")
	for _, d := range decls {
		b.WriteString(d + "\n\n")
	}
	b.WriteString("func main() {\n")
	for _, s := range stmts {
		for _, l := range strings.Split(s, "\n") {
			b.WriteString("\t" + l + "\n")
		}
	}
	b.WriteString("}\n")
	return b.String()
}

// Reduce minimises a failing program case chunk by chunk and then line by
// line inside statement chunks (development aid).
func Reduce(data json.RawMessage) string {
	var rc replayCase
	if json.Unmarshal(data, &rc) != nil || rc.Program == nil {
		return "not a program case"
	}
	c := rc.Program
	scratch := os.TempDir()
	c.Src = assemble(c.Decls, c.Stmts)
	sig0, _ := c.check(scratch)
	if sig0 == "" {
		return "does not fail after reassembly"
	}
	try := func(decls, stmts []string) bool {
		d := &Case{Decls: decls, Stmts: stmts, Variant: c.Variant}
		d.Src = assemble(decls, stmts)
		if progen.TypeCheck(d.Src) != "" {
			return false
		}
		sig, _ := d.check(scratch)
		return sig == sig0
	}
	without := func(xs []string, i int) []string {
		return append(append([]string{}, xs[:i]...), xs[i+1:]...)
	}
	for changed := true; changed; {
		changed = false
		for i := len(c.Stmts) - 1; i >= 0; i-- {
			if i < len(c.Stmts) && try(c.Decls, without(c.Stmts, i)) {
				c.Stmts = without(c.Stmts, i)
				changed = true
			}
		}
		for i := len(c.Decls) - 1; i >= 1; i-- {
			if i < len(c.Decls) && try(without(c.Decls, i), c.Stmts) {
				c.Decls = without(c.Decls, i)
				changed = true
			}
		}
		// split multi-line statement chunks and drop single lines
		for i := len(c.Stmts) - 1; i >= 0; i-- {
			ls := strings.Split(c.Stmts[i], "\n")
			for j := len(ls) - 1; j >= 0 && len(ls) > 1; j-- {
				cand := append(append([]string{}, c.Stmts[:i]...), strings.Join(without(ls, j), "\n"))
				cand = append(cand, c.Stmts[i+1:]...)
				if try(c.Decls, cand) {
					ls = without(ls, j)
					c.Stmts = cand
					changed = true
				}
			}
		}
	}
	sig, msg := (&Case{Src: assemble(c.Decls, c.Stmts), Decls: c.Decls, Stmts: c.Stmts, Variant: c.Variant}).check(scratch)
	var b strings.Builder
	fmt.Fprintf(&b, "VARIANT %s\n", c.Variant)
	for _, d := range c.Decls {
		fmt.Fprintf(&b, "--- decl chunk\n%s\n", d)
	}
	for _, s := range c.Stmts {
		fmt.Fprintf(&b, "--- stmt chunk\n%s\n", s)
	}
	fmt.Fprintf(&b, "=== %s | %s\n", sig, msg)
	return b.String()
}
