package c11

import (
	"fmt"
	"sort"
	"strings"

	"pgregory.net/rapid"
)

// Type-growth histories (case C). The methods of a struct type T arrive one
// declaration at a time, interleaved with interface declarations and with
// package-level variables whose initialisers convert a T, *T, E (embedding
// T), *E or P (embedding *T) value to one of these interfaces, statically
// (parameter passing) or by a type assertion from a non-empty interface, and
// call the methods. Every declaration is legal at the point where it stands,
// hence in the whole program too; a type assertion is only generated when its
// outcome does not depend on the position: every required method is already
// declared, or one of them (M4) is never declared. The history is a Case made
// of declaration chunks only: whole evaluation of the same text is the oracle.

type growMethod struct {
	ptr bool
	a   int
}

var growForms = []string{"val", "ptr", "emb", "embptr", "pemb"}

func growExpr(form string, v int) string {
	switch form {
	case "val":
		return fmt.Sprintf("T{V: %d}", v)
	case "ptr":
		return fmt.Sprintf("&T{V: %d}", v)
	case "emb":
		return fmt.Sprintf("E{T{V: %d}}", v)
	case "embptr":
		return fmt.Sprintf("&E{T: T{V: %d}}", v)
	}
	return fmt.Sprintf("P{&T{V: %d}}", v)
}

// growHas tells whether the method set of the form holds method m.
func growHas(form string, m growMethod) bool {
	return !m.ptr || form == "ptr" || form == "embptr" || form == "pemb"
}

func genGrow(t *rapid.T) (*Case, []string) {
	c := &Case{}
	decls := []string{"type T struct{ V int }\n\nfunc (t T) Base() int { return t.V }\n\ntype IB interface{ Base() int }\n\ntype E struct{ T }\n\ntype P struct{ *T }"}
	methods := map[int]growMethod{}
	var ifaces [][]int
	n := rapid.IntRange(6, 18).Draw(t, "nactions")
	usedForm := map[string]int{}     // form -> number of uses so far
	methodAfterUse := map[int]bool{} // methods declared after some use
	label := map[string]bool{}
	var expect strings.Builder
	implements := func(form string, set []int) bool {
		for _, m := range set {
			d, ok := methods[m]
			if !ok || !growHas(form, d) {
				return false
			}
		}
		return true
	}
	// a method declared after a use is often followed by an interface which
	// requires it and by a use of that interface through a form used before
	forceIface, forceUse := -1, -1
	for k := 0; k < n; k++ {
		kind := rapid.IntRange(0, 9).Draw(t, "kind")
		switch {
		case forceIface >= 0:
			kind = 3
		case forceUse >= 0:
			kind = 9
		}
		switch {
		case kind <= 2 && len(methods) < 4:
			m := rapid.IntRange(0, 3).Draw(t, "m")
			for _, ok := methods[m]; ok; _, ok = methods[m] {
				m = (m + 1) % 4
			}
			d := growMethod{ptr: rapid.IntRange(0, 2).Draw(t, "ptr") == 0, a: rapid.IntRange(1, 9).Draw(t, "a")}
			methods[m] = d
			recv := "t T"
			if d.ptr {
				recv = "t *T"
			}
			decls = append(decls, fmt.Sprintf("func (%s) M%d() int { return t.V*%d + %d }", recv, m, d.a, m))
			if len(usedForm) > 0 {
				methodAfterUse[m] = true
				if rapid.IntRange(0, 2).Draw(t, "follow") > 0 {
					forceIface = m
				}
			}
		case kind <= 4 || len(ifaces) == 0:
			var set []int
			for m := 0; m <= 4; m++ {
				// methods already declared are preferred, so that uses are possible
				// early; M4 is never declared. Every interface requires Base: the
				// set may be empty.
				w := 4
				if _, ok := methods[m]; ok {
					w = 1
				} else if m == 4 {
					w = 7
				}
				if rapid.IntRange(0, w).Draw(t, "in") == 0 || m == forceIface {
					set = append(set, m)
				}
			}
			if forceIface >= 0 {
				forceIface, forceUse = -1, len(ifaces)
			}
			sort.Ints(set)
			id := len(ifaces)
			ifaces = append(ifaces, set)
			ms, calls := []string{"Base() int"}, []string{"x.Base()"}
			for j, m := range set {
				ms = append(ms, fmt.Sprintf("M%d() int", m))
				calls = append(calls, fmt.Sprintf("%d*x.M%d()", j*7+2, m))
			}
			decls = append(decls, fmt.Sprintf("type I%d interface{ %s }\n\nfunc useI%d(tag string, x I%d) int {\n\ts := %s\n\tfmt.Println(tag, s)\n\treturn s\n}\n\nfunc asI%d(tag string, n IB) int {\n\tx, ok := n.(I%d)\n\tif !ok {\n\t\tfmt.Println(tag, \"no\")\n\t\treturn -1\n\t}\n\treturn useI%d(tag, x)\n}",
				id, strings.Join(ms, "; "), id, id, strings.Join(calls, " + "), id, id, id))
		default:
			form := growForms[rapid.IntRange(0, len(growForms)-1).Draw(t, "form")]
			dynamic := rapid.IntRange(0, 2).Draw(t, "dynamic") == 0
			var ok []int
			if forceUse >= 0 {
				// prefer a form used before which implements the new interface
				for _, f := range growForms {
					if usedForm[f] > 0 && implements(f, ifaces[forceUse]) && (f == form || !implements(form, ifaces[forceUse]) || usedForm[form] == 0) {
						form = f
						break
					}
				}
				if implements(form, ifaces[forceUse]) {
					ok = []int{forceUse}
				}
				forceUse = -1
			}
			for id, set := range ifaces {
				never := len(set) > 0 && set[len(set)-1] == 4
				if len(ok) == 1 && ok[0] == id {
					continue
				}
				if implements(form, set) || (dynamic && never) {
					ok = append(ok, id)
				}
			}
			if len(ok) == 0 {
				continue
			}
			// index 0 (the shrink target and rapid's favourite) is the forced interface, if any
			id := ok[rapid.IntRange(0, len(ok)-1).Draw(t, "iface")]
			v := rapid.IntRange(-5, 9).Draw(t, "v")
			fn := "useI"
			if dynamic {
				fn = "asI"
			}
			decls = append(decls, fmt.Sprintf("var gu%d = %s%d(\"u%d\", %s)", k, fn, id, k, growExpr(form, v)))
			if implements(form, ifaces[id]) {
				s := v
				for j, m := range ifaces[id] {
					s += (j*7 + 2) * (v*methods[m].a + m)
				}
				fmt.Fprintf(&expect, "u%d %d\n", k, s)
			} else {
				fmt.Fprintf(&expect, "u%d no\n", k)
			}
			for _, m := range ifaces[id] {
				if methodAfterUse[m] {
					label["grow:use-of-method-declared-after-a-use"] = true
					if usedForm[form] > 0 {
						label["grow:same-form-used-before-and-after-method"] = true
					}
				}
			}
			usedForm[form]++
			if dynamic {
				label["grow:assertion"] = true
			}
		}
	}
	c.Decls = append([]string{"import \"fmt\""}, cut(t, decls, "gcut")...)
	c.Variant = []string{"piecewise-eval", "piecewise-eval", "piecewise-compile"}[rapid.IntRange(0, 2).Draw(t, "variant")]
	c.Expect = expect.String()
	c.Src = "package main\n\n" + strings.Join(c.Decls, "\n\n") + "\n\nfunc main() {}\n"
	var labels []string
	for l := range label {
		labels = append(labels, l)
	}
	sort.Strings(labels)
	return c, labels
}
