package c04

import (
	"fmt"
	"strings"
)

func init() {
	opTable = append(opTable, []struct {
		name   string
		weight int
		fn     opFn
	}{
		{"lit-places", 7, (*gen).opLitPlaces},
		{"box", 5, (*gen).opBox},
		{"defer-arg", 4, (*gen).opDeferArg},
		{"variadic", 5, (*gen).opVariadic},
		{"multi-return", 4, (*gen).opMultiReturn},
		{"closure-factory", 4, (*gen).opClosureFactory},
		{"append-self", 4, (*gen).opAppendSelf},
		{"append-own-elements", 4, (*gen).opAppendOwnElements},
		{"named-results-swap", 4, (*gen).opNamedResultsSwap},
		{"copy-across", 4, (*gen).opCopyAcross},
		{"convert", 6, (*gen).opConvert},
		{"lookup-assign", 4, (*gen).opLookupAssign},
		{"lookup-loop", 3, (*gen).opLookupLoop},
		{"range-assign", 4, (*gen).opRangeAssign},
		{"range-bin-array", 3, (*gen).opRangeBinArray},
	}...)
}

// litFrom renders a literal of type t in which some components are copies of
// existing places (the guards of those places are collected).
func (g *gen) litFrom(t *typ, guards *[]string, depth int) string {
	if depth > 0 && g.chance(45) {
		cs := g.poolPlaces(func(sc schema) bool { return sc.end == t })
		if len(cs) > 0 {
			c := cs[g.uni(len(cs), "src")]
			q := g.inst(c.v.name, c.v.t.k != kPtr, c.sc)
			// known finding: an element expression that is not itself an index
			// expression and holds an index of a dereferenced pointer
			if !(g.off["literal-elem-index-of-deref"] && q.derefIndexInside) {
				*guards = append(*guards, q.guards...)
				return q.expr
			}
		}
	}
	switch t.k {
	case kArray:
		var el []string
		for i := 0; i < t.n; i++ {
			el = append(el, g.litFrom(t.elem, guards, depth+1))
		}
		return t.str + "{" + strings.Join(el, ", ") + "}"
	case kSlice:
		n := g.rng(1, 3, "sl")
		var el []string
		for i := 0; i < n; i++ {
			el = append(el, g.litFrom(t.elem, guards, depth+1))
		}
		return t.str + "{" + strings.Join(el, ", ") + "}"
	case kMap:
		n := g.rng(1, 3, "ml")
		used := map[int]bool{}
		var el []string
		for i := 0; i < n; i++ {
			k := g.rng(0, mapKeys-1, "k")
			if used[k] {
				continue
			}
			used[k] = true
			el = append(el, fmt.Sprintf("%d: %s", k, g.litFrom(t.elem, guards, depth+1)))
		}
		return t.str + "{" + strings.Join(el, ", ") + "}"
	case kStruct:
		var el []string
		for _, f := range t.fields {
			el = append(el, f.name+": "+g.litFrom(f.t, guards, depth+1))
		}
		return t.str + "{" + strings.Join(el, ", ") + "}"
	case kPtr:
		if g.chance(50) {
			cs := g.poolPlaces(func(sc schema) bool { return sc.end == t.elem && sc.addr })
			if len(cs) > 0 {
				c := cs[g.uni(len(cs), "src")]
				q := g.inst(c.v.name, c.v.t.k != kPtr, c.sc)
				if !(g.off["literal-elem-index-of-deref"] && q.derefIndex) {
					*guards = append(*guards, q.guards...)
					return g.addrOf(q)
				}
			}
		}
		if t.elem.k == kInt || t.elem.k == kPtr {
			return g.lit(t, "")
		}
		return "&" + g.litFrom(t.elem, guards, 0)
	}
	return g.lit(t, "")
}

// opLitPlaces: P = T{…} where components of the literal are copies of places
// (possibly parts of P itself: the literal is built before P is written).
func (g *gen) opLitPlaces() bool {
	p, ok := g.pickPool(func(sc schema) bool {
		k := sc.end.k
		return sc.assignable && (k == kArray || k == kStruct || k == kSlice || k == kMap || (k == kPtr && sc.end.elem.k != kInt))
	})
	if !ok {
		return false
	}
	guards := p.wguards()
	l := g.litFrom(p.t, &guards, 0)
	g.wrote(p)
	g.guarded(guards, func() { g.w.line("%s = %s", p.expr, l) })
	if isValueAggregate(p.t) {
		g.prog.Flagged[g.step] = "copy-mutate"
	}
	return true
}

// opBox: store a value in an interface, change the original, take it out.
func (g *gen) opBox() bool {
	q, ok := g.pickArg()
	if !ok {
		return false
	}
	b, c := g.fresh("b"), g.fresh("c")
	g.guarded(q.guards, func() {
		if g.chance(50) {
			g.w.line("var %s interface{} = %s", b, q.expr)
		} else {
			g.w.line("%s := interface{}(%s)", b, q.expr)
		}
		if q.addr {
			g.mutateInt(q.expr, q.t, false)
		}
		if g.chance(30) {
			okv := g.fresh("ok")
			g.w.line("%s, %s := %s.(%s)", c, okv, b, q.t.str)
			g.w.line("fmt.Println(\"ok\", %s)", okv)
		} else {
			g.w.line("%s := %s.(%s)", c, b, q.t.str)
		}
		if g.chance(50) {
			g.mutateInt(c, q.t, false)
			c2 := g.fresh("c")
			g.w.line("%s := %s.(%s)", c2, b, q.t.str)
			g.showLine(c2, c2, q.t)
		}
		g.showLine(c, c, q.t)
	})
	g.wrote(place{t: q.t})
	if isValueAggregate(q.t) {
		g.prog.Flagged[g.step] = "copy-mutate"
	}
	return true
}

// opDeferArg: the arguments of a deferred call are copied when the defer
// statement executes.
func (g *gen) opDeferArg() bool {
	q, ok := g.pickAddrArg()
	if !ok {
		return false
	}
	fn := g.fresh("f")
	g.inFunc(fmt.Sprintf("func %s(x %s)", fn, q.t.str), func() {
		g.showLine("deferred", "x", q.t)
		g.mutateInt("x", q.t, false)
	})
	g.guarded(q.guards, func() {
		g.w.line("func() {")
		g.w.ind++
		g.w.line("defer %s(%s)", fn, q.expr)
		g.mutateInt(q.expr, q.t, false)
		if q.t.k != kInt && g.chance(40) {
			// the variable itself is set again after the defer statement: the
			// deferred call keeps the value it had (slice, map, pointer included)
			g.w.line("%s = %s", q.expr, g.lit(q.t, ""))
			g.count("defer-arg:reassigned")
		}
		g.w.ind--
		g.w.line("}()")
	})
	g.wrote(place{t: q.t})
	if isValueAggregate(q.t) {
		g.prog.Flagged[g.step] = "copy-mutate"
	}
	return true
}

// opVariadic: f(s...) shares the slice, f(a, b) copies the values.
func (g *gen) opVariadic() bool {
	fn := g.fresh("f")
	if g.chance(50) {
		p, ok := g.pickPool(func(sc schema) bool { return sc.end.k == kSlice })
		if !ok {
			return false
		}
		xt := g.slice(p.t.elem)
		g.inFunc(fmt.Sprintf("func %s(xs ...%s)", fn, p.t.elem.str), func() {
			g.mutateInt("xs", xt, false)
			g.showLine("xs", "xs", xt)
		})
		g.count("variadic:spread")
		g.guarded(p.guards, func() { g.w.line("%s(%s...)", fn, p.expr) })
		g.wrote(place{t: p.t})
		return true
	}
	q, ok := g.pickPool(func(sc schema) bool { return true })
	if !ok {
		return false
	}
	st := g.slice(q.t)
	args := []string{q.expr}
	guards := q.guards
	cs := g.poolPlaces(func(sc schema) bool { return sc.end == q.t })
	for n := g.rng(0, 2, "nargs"); n > 0; n-- {
		c := cs[g.uni(len(cs), "src")]
		r := g.inst(c.v.name, c.v.t.k != kPtr, c.sc)
		args = append(args, r.expr)
		guards = append(guards, r.guards...)
	}
	g.inFunc(fmt.Sprintf("func %s(xs ...%s)", fn, q.t.str), func() {
		if g.off["variadic-cap"] {
			g.w.line("xs = xs[:len(xs):len(xs)]")
		}
		g.mutateInt("xs", st, false)
		g.showLine("xs", "xs", st)
	})
	g.count("variadic:values")
	g.guarded(guards, func() { g.w.line("%s(%s)", fn, strings.Join(args, ", ")) })
	g.wrote(place{t: q.t})
	if isValueAggregate(q.t) {
		g.prog.Flagged[g.step] = "copy-mutate"
	}
	return true
}

// opMultiReturn: a function returning its (mutated) parameter and an int.
func (g *gen) opMultiReturn() bool {
	q, ok := g.pickArg()
	if !ok {
		return false
	}
	cs := g.poolPlaces(func(sc schema) bool { return sc.end == q.t && sc.assignable })
	if len(cs) == 0 {
		return false
	}
	c := cs[g.uni(len(cs), "dst")]
	p := g.inst(c.v.name, c.v.t.k != kPtr, c.sc)
	fn := g.fresh("f")
	// a map element of a map at a fixed location can be assigned directly when
	// the callee only updates ints (it cannot replace the map)
	direct := p.static || (p.mapStatic && !g.off["tuple-assign-to-map-elem"])
	g.inFunc(fmt.Sprintf("func %s(x %s) (%s, int)", fn, q.t.str, q.t.str), func() {
		if p.mapStatic {
			g.mutateIntOnly("x", q.t)
		} else {
			g.mutateInt("x", q.t, false)
		}
		g.w.line("return x, %d", g.rng(0, 99, "v"))
	})
	g.wrote(p)
	g.wrote(place{t: q.t})
	g.guarded(append(p.wguards(), q.guards...), func() {
		n := g.fresh("n")
		if direct {
			g.w.line("var %s int", n)
			g.w.line("%s, %s = %s(%s)", p.expr, n, fn, q.expr)
		} else {
			r := g.fresh("r")
			g.w.line("%s, %s := %s(%s)", r, n, fn, q.expr)
			g.guarded(p.wguards(), func() { g.w.line("%s = %s", p.expr, r) })
		}
		g.w.line("fmt.Println(\"n\", %s)", n)
	})
	if isValueAggregate(q.t) {
		g.prog.Flagged[g.step] = "copy-mutate"
	}
	return true
}

// opClosureFactory: a function returns a closure over its parameter; the
// closure is called now and kept for later.
func (g *gen) opClosureFactory() bool {
	q, ok := g.pickArg()
	if !ok {
		return false
	}
	fn, k := g.fresh("f"), g.fresh("k")
	g.inFunc(fmt.Sprintf("func %s(x %s) func()", fn, q.t.str), func() {
		g.w.line("return func() {")
		g.w.ind++
		g.mutateInt("x", q.t, false)
		g.showLine("captured", "x", q.t)
		g.w.ind--
		g.w.line("}")
	})
	g.guarded(q.guards, func() {
		g.w.line("%s := %s(%s)", k, fn, q.expr)
		g.w.line("%s()", k)
		if q.addr {
			g.mutateInt(q.expr, q.t, false)
		}
		g.w.line("%s()", k)
		g.w.line("later = append(later, %s)", k)
	})
	g.nLater++
	g.forget()
	if isValueAggregate(q.t) {
		g.prog.Flagged[g.step] = "copy-mutate"
	}
	return true
}

// opAppendSelf: s = append(s, s[i]) — the appended value is read before the
// slice grows.
func (g *gen) opAppendSelf() bool {
	p, ok := g.pickPool(func(sc schema) bool { return sc.end.k == kSlice && sc.assignable })
	if !ok {
		return false
	}
	i := g.sliceIndex(p.expr)
	vals := fmt.Sprintf("%s[%d]", p.expr, i)
	n := 1
	if g.chance(40) {
		vals += ", " + g.lit(p.t.elem, "")
		n = 2
	}
	g.guarded(append(p.wguards(), fmt.Sprintf("%d < len(%s)", i, p.expr)), func() {
		g.appendStmt(p, p.expr, vals, n)
	})
	return true
}

// opAppendOwnElements: P = append(P[:a], P[i], P[j]) with i > j: the arguments
// are elements of the appended slice, which the stores of the append overwrite;
// they are read before (the elements may be slices, maps or pointers).
func (g *gen) opAppendOwnElements() bool {
	p, ok := g.pickPool(func(sc schema) bool { return sc.end.k == kSlice && sc.assignable })
	if !ok {
		return false
	}
	n := 3
	if sh, ok := g.shadow[p.expr]; ok && sh.l > 1 {
		n = sh.l
	}
	j := g.rng(0, n-2, "j")
	i := g.rng(j+1, n-1, "i")
	a := g.rng(0, j, "a")
	guards := append(p.wguards(), fmt.Sprintf("%d < len(%s)", i, p.expr), fmt.Sprintf("%d <= len(%s)", a+2, p.expr))
	g.guarded(guards, func() {
		g.w.line("%s = append(%s[:%d], %s[%d], %s[%d])", p.expr, p.expr, a, p.expr, i, p.expr, j)
	})
	g.wrote(p)
	g.prog.Flagged[g.step] = "alias-append"
	return true
}

// opNamedResultsSwap: P, Q = f(P, Q) where f returns its named results in the
// other order (the results may be slices, maps or pointers: the value of a
// result variable is read before another result is stored).
func (g *gen) opNamedResultsSwap() bool {
	p, ok := g.pickPool(func(sc schema) bool { return composite(sc) && sc.assignable })
	if !ok {
		return false
	}
	cs := g.poolPlaces(func(sc schema) bool { return sc.end == p.t && sc.assignable })
	if len(cs) == 0 {
		return false
	}
	c := cs[g.uni(len(cs), "other")]
	q := g.inst(c.v.name, c.v.t.k != kPtr, c.sc)
	if q.expr == p.expr {
		return false
	}
	fn := g.fresh("f")
	g.inFunc(fmt.Sprintf("func %s(a, b %s) (x, y %s)", fn, p.t.str, p.t.str), func() {
		g.w.line("x, y = a, b")
		g.w.line("return y, x")
	})
	g.guarded(append(p.wguards(), q.wguards()...), func() {
		r1, r2 := g.fresh("r"), g.fresh("r")
		g.w.line("%s, %s := %s(%s, %s)", r1, r2, fn, p.expr, q.expr)
		g.w.line("%s = %s", p.expr, r1)
		g.w.line("%s = %s", q.expr, r2)
	})
	g.wrote(p)
	g.wrote(q)
	g.forget()
	return true
}

// opCopyAcross: copy between two slices (or an array) that may share memory.
func (g *gen) opCopyAcross() bool {
	p, ok := g.pickPool(func(sc schema) bool { return sc.end.k == kSlice })
	if !ok {
		return false
	}
	cs := g.poolPlaces(func(sc schema) bool {
		return sc.end == p.t || (sc.addr && sc.end.k == kArray && sc.end.elem == p.t.elem)
	})
	c := cs[g.uni(len(cs), "src")]
	q := g.inst(c.v.name, c.v.t.k != kPtr, c.sc)
	a, b := g.rng(0, 2, "a"), g.rng(0, 2, "b")
	src := fmt.Sprintf("%s[%d:]", q.expr, b)
	guards := append(append([]string(nil), p.guards...), q.guards...)
	guards = append(guards, fmt.Sprintf("%d <= len(%s)", a, p.expr))
	if q.t.k == kArray {
		if b > q.t.n {
			b = q.t.n
			src = fmt.Sprintf("%s[%d:]", q.expr, b)
		}
	} else {
		guards = append(guards, fmt.Sprintf("%d <= len(%s)", b, q.expr))
	}
	g.guarded(guards, func() {
		if g.chance(50) {
			g.w.line("fmt.Println(\"copied\", copy(%s[%d:], %s))", p.expr, a, src)
		} else {
			// the array or slice as destination
			g.w.line("fmt.Println(\"copied\", copy(%s, %s[%d:]))", src, p.expr, a)
		}
	})
	return true
}

// opConvert: conversion between a named array/slice/map type and its
// underlying type (arrays are copied, slices and maps share).
func (g *gen) opConvert() bool {
	if len(g.named) == 0 {
		return false
	}
	nt := g.named[g.uni(len(g.named), "named")]
	from, to := nt, nt.under
	if g.chance(50) {
		from, to = to, from
	}
	p, ok := g.pickPool(func(sc schema) bool { return sc.end == to && sc.assignable })
	if !ok {
		// no place of that type: convert into a local
		q, ok := g.pickPool(func(sc schema) bool { return sc.end == from })
		if !ok {
			return false
		}
		c := g.fresh("c")
		g.guarded(q.guards, func() {
			g.w.line("%s := %s(%s)", c, to.str, q.expr)
			if q.addr && g.chance(50) {
				g.mutateInt(q.expr, q.t, false)
			} else {
				g.mutateInt(c, to, false)
			}
			g.showLine(c, c, to)
		})
		g.wrote(place{t: from})
		if isValueAggregate(from) {
			g.prog.Flagged[g.step] = "copy-mutate"
		}
		return true
	}
	q, ok := g.pickPool(func(sc schema) bool { return sc.end == from })
	if !ok {
		return false
	}
	g.wrote(p)
	g.guarded(append(p.wguards(), q.guards...), func() {
		g.w.line("%s = %s(%s)", p.expr, to.str, q.expr)
		if q.addr && g.chance(60) {
			g.mutateInt(q.expr, q.t, false)
		}
	})
	if isValueAggregate(from) {
		g.prog.Flagged[g.step] = "copy-mutate"
	}
	return true
}

// opLookupAssign: P, ok = m[k] (assignment, not definition): a missing key
// stores the zero value.
func (g *gen) opLookupAssign() bool {
	m, ok := g.pickPool(func(sc schema) bool { return sc.end.k == kMap })
	if !ok {
		return false
	}
	k := g.mapKey(m.expr)
	if g.chance(35) {
		k = g.rng(0, mapKeys-1, "k")
	}
	okv := g.fresh("ok")
	rest := func(guards []string) {
		cs := g.poolPlaces(func(sc schema) bool {
			if g.off["tuple-assign-to-map-elem"] && len(sc.steps) > 0 && sc.steps[len(sc.steps)-1].k == sMap {
				return false
			}
			return sc.end == m.t.elem && sc.assignable
		})
		if len(cs) == 0 || g.chance(25) {
			// a local that already holds a value
			e := g.fresh("e")
			g.guarded(guards, func() {
				g.w.line("%s := %s", e, g.lit(m.t.elem, ""))
				g.w.line("var %s bool", okv)
				g.w.line("%s, %s = %s[%d]", e, okv, m.expr, k)
				g.w.line("fmt.Println(\"ok\", %s)", okv)
				g.showLine(e, e, m.t.elem)
			})
			return
		}
		c := cs[g.uni(len(cs), "dst")]
		p := g.inst(c.v.name, c.v.t.k != kPtr, c.sc)
		g.wrote(p)
		g.guarded(append(guards, p.wguards()...), func() {
			g.w.line("var %s bool", okv)
			g.w.line("%s, %s = %s[%d]", p.expr, okv, m.expr, k)
			g.w.line("fmt.Println(\"ok\", %s)", okv)
		})
	}
	if g.off["comma-ok-missing-key"] {
		// known finding: only keys that are present are looked up this way
		g.guarded(m.guards, func() {
			h := g.fresh("h")
			g.w.line("_, %s := %s[%d]", h, m.expr, k)
			rest([]string{h})
		})
		return true
	}
	rest(m.guards)
	return true
}

// opLookupLoop: v, ok := m[k] for every key in a loop.
func (g *gen) opLookupLoop() bool {
	m, ok := g.pickPool(func(sc schema) bool { return sc.end.k == kMap })
	if !ok {
		return false
	}
	kv, e, okv := g.fresh("k"), g.fresh("e"), g.fresh("ok")
	g.guarded(m.guards, func() {
		g.w.line("for %s := 0; %s < %d; %s++ {", kv, kv, mapKeys, kv)
		g.w.ind++
		g.w.line("%s, %s := %s[%s]", e, okv, m.expr, kv)
		g.w.line("fmt.Print(%s, %s, \" \")", kv, okv)
		g.show(e, m.t.elem, 0)
		g.w.line("fmt.Println()")
		g.w.ind--
		g.w.line("}")
	})
	return true
}

// opRangeAssign: for I, P = range R with existing variables / places as
// iteration variables.
func (g *gen) opRangeAssign() bool {
	r, ok := g.pickPool(func(sc schema) bool {
		t := sc.end
		return t.k == kArray || t.k == kSlice || (t.k == kPtr && t.elem.k == kArray)
	})
	if !ok {
		return false
	}
	el := r.t.elem
	guards := r.guards
	if r.t.k == kPtr {
		el = r.t.elem.elem
		guards = append(guards, r.expr+" != nil")
	}
	iv := g.fresh("i")
	// the value operand: a place of the element type or a local
	var dst string
	var dguards []string
	cs := g.poolPlaces(func(sc schema) bool { return sc.end == el && sc.assignable })
	local := len(cs) == 0 || g.chance(30)
	if !local {
		c := cs[g.uni(len(cs), "dst")]
		p := g.inst(c.v.name, c.v.t.k != kPtr, c.sc)
		dst, dguards = p.expr, p.wguards()
		g.wrote(p)
	} else {
		dst = g.fresh("e")
	}
	form := g.uni(3, "rangeassignform")
	g.guarded(append(guards, dguards...), func() {
		g.w.line("%s := -1", iv)
		if local && form != 2 {
			g.w.line("%s := %s", dst, g.lit(el, ""))
		}
		switch form {
		case 0:
			g.w.line("for %s, %s = range %s {", iv, dst, r.expr)
		case 1:
			g.w.line("for _, %s = range %s {", dst, r.expr)
		default:
			g.w.line("for %s = range %s {", iv, r.expr)
		}
		g.w.ind++
		g.w.line("fmt.Print(\"r\", %s, \":\")", iv)
		if form != 2 {
			g.show(dst, el, 0)
		}
		g.w.line("fmt.Println()")
		g.w.ind--
		g.w.line("}")
		g.w.line("fmt.Print(\"after \", %s, \":\")", iv)
		if form != 2 {
			g.show(dst, el, 0)
		}
		g.w.line("fmt.Println()")
	})
	return true
}

// opRangeBinArray: range over an array whose type comes from a compiled
// package (the result of sha256.Sum256 / md5.Sum), mutating not yet visited
// elements in the body: the range expression is evaluated once, as a copy.
func (g *gen) opRangeBinArray() bool {
	g.needHash = true
	h, s := g.fresh("h"), g.fresh("s")
	n, fn := 32, "sha256.Sum256"
	if g.chance(40) {
		n, fn = 16, "md5.Sum"
	}
	seed := g.uni(200, "hseed")
	g.w.line("%s := %s([]byte{%d, %d})", h, fn, seed, seed/3)
	g.w.line("%s := 0", s)
	switch g.uni(3, "binform") {
	case 0:
		g.w.line("for i, b := range %s {", h)
		g.w.line("\t%s[(i+%d)%%%d] = byte(i)", h, 1+g.uni(5, "shift"), n)
		g.w.line("\t%s += int(b) * (i + 1)", s)
		g.w.line("}")
	case 1:
		c := g.fresh("c")
		g.w.line("%s := %s", c, h)
		g.w.line("for i := range %s {", c)
		g.w.line("\t%s[i] = 0", h)
		g.w.line("\t%s += int(%s[i]) * (i + 1)", s, c)
		g.w.line("}")
	default:
		g.w.line("for i, b := range %s[:] {", h) // a slice of the array shares it
		g.w.line("\t%s[(i+%d)%%%d] = byte(i)", h, 1+g.uni(5, "shift"), n)
		g.w.line("\t%s += int(b) * (i + 1)", s)
		g.w.line("}")
	}
	g.w.line("fmt.Println(\"binarray\", %s, %s[0], %s[%d])", s, h, h, n-1)
	g.prog.Flagged[g.step] = "copy-mutate"
	return true
}
